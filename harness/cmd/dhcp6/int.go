// Integrated-allocator mode of the dhcp6 harness (component `dhcp6int`): the REAL dhcpv6.Server configured with
// ServerConfig.AddressAllocator / PrefixAllocator = real allocator.PoolAllocator objects (the non-legacy path of
// allocateAddress / allocatePrefix / releaseAddress / releasePrefix) over ONE shared allocator.MemoryAllocationStore
// behind a fault-injecting wrapper.  Messages, replies and the lease-table part of the snapshot are those of the
// legacy mode (main.go); the pool part of the snapshot is what the allocators and the store report.
//
//	newint <addrPool>/<len>|- <prefixPool>/<len>|- <delegationLen> <validSeconds>
//	    address allocator: pool id v6a, units of /128 (EVERY address of the network, the network address included);
//	    prefix allocator: pool id v6p, units of /<delegationLen>
//	fault rela|relp|save on|off     RemoveAllocation of pool v6a / of pool v6p fails; SaveAllocation (both pools) fails
//	sol/req/ren/reb/con/rel/dec/tick as in main.go
//
// Snapshot:  L=d1:<addr|->:<prefix|->:<iaid>:<validEnd s|->,…      (lease table, as in legacy mode)
//
//	AL=d1:<addr>,…  PL=d1:<prefix>,…      what PoolAllocator.Lookup reports for every client d1..d12
//	AS=<allocated>/<total> PS=<allocated>/<total>      PoolAllocator.Stats
//	SR=<records of v6a>/<records of v6p>               MemoryAllocationStore.GetByPool
package main

import (
	"context"
	"errors"
	"fmt"
	"math/rand"
	"strconv"
	"strings"
	"time"

	"bngverif/hx"

	"github.com/codelaboratoryltd/bng/pkg/allocator"
	"github.com/codelaboratoryltd/bng/pkg/dhcpv6"
	"go.uber.org/zap"
)

// OnlyInt restricts generation to the integrated-allocator sequences (`gen -only int`, component dhcp6int).
var OnlyInt bool

const (
	poolA = "v6a"
	poolP = "v6p"
	// clients whose allocator entries the snapshot lists
	intClients = 12
)

var errInjected = errors.New("injected store failure")

type faultStore struct {
	*allocator.MemoryAllocationStore
	failSave   bool
	failRemove map[string]bool // pool id -> RemoveAllocation fails
}

func (f *faultStore) SaveAllocation(ctx context.Context, a allocator.AllocationRecord) error {
	if f.failSave {
		return errInjected
	}
	return f.MemoryAllocationStore.SaveAllocation(ctx, a)
}

func (f *faultStore) RemoveAllocation(ctx context.Context, poolID, sub string) error {
	if f.failRemove[poolID] {
		return errInjected
	}
	return f.MemoryAllocationStore.RemoveAllocation(ctx, poolID, sub)
}

type intState struct {
	fs     *faultStore
	aa, pa *allocator.PoolAllocator
}

func (r *run) newInt(f []string) string {
	if len(f) != 5 {
		return "badop"
	}
	if err := openSockets(); err != nil {
		return "invalid sockets: " + err.Error()
	}
	cidr := func(tok string) (string, bool) {
		if tok == "-" {
			return "", true
		}
		parts := strings.SplitN(tok, "/", 2)
		if len(parts) != 2 {
			return "", false
		}
		ip := hexIP6(parts[0])
		if ip == nil || ip.To4() != nil {
			return "", false
		}
		return ip.String() + "/" + parts[1], true
	}
	ap, ok1 := cidr(f[1])
	pp, ok2 := cidr(f[2])
	dl, err1 := strconv.Atoi(f[3])
	valid, err2 := strconv.Atoi(f[4])
	if !ok1 || !ok2 || err1 != nil || err2 != nil || dl <= 0 || dl > 128 || valid <= 0 {
		return "badop"
	}
	st := &intState{fs: &faultStore{MemoryAllocationStore: allocator.NewMemoryAllocationStore(), failRemove: map[string]bool{}}}
	cfg := dhcpv6.ServerConfig{Interface: "lo", AllocationStore: st.fs,
		PreferredLifetime: uint32(valid / 2), ValidLifetime: uint32(valid)}
	if ap != "" {
		a, err := allocator.NewPoolAllocatorWithType(allocator.PoolAllocatorConfig{
			PoolID: poolA, BaseNetwork: ap, PrefixLength: 128, PoolType: allocator.PoolTypeIPv6Address, Store: st.fs})
		if err != nil {
			return "invalid"
		}
		st.aa, cfg.AddressAllocator = a, a
	}
	if pp != "" {
		a, err := allocator.NewPoolAllocatorWithType(allocator.PoolAllocatorConfig{
			PoolID: poolP, BaseNetwork: pp, PrefixLength: dl, PoolType: allocator.PoolTypeIPv6Prefix, Store: st.fs})
		if err != nil {
			return "invalid"
		}
		st.pa, cfg.PrefixAllocator = a, a
	}
	srv, err := dhcpv6.NewServer(cfg, zap.NewNop())
	if err != nil {
		return "invalid"
	}
	srv.SetConnForVerif(srvConn)
	r.srv, r.dlen, r.in = srv, uint8(dl), st
	r.t0 = time.Now()
	return "ok " + r.snapshotInt()
}

func (r *run) fault(f []string) string {
	if r.in == nil || len(f) != 3 || (f[2] != "on" && f[2] != "off") {
		return "badop"
	}
	on := f[2] == "on"
	switch f[1] {
	case "rela":
		r.in.fs.failRemove[poolA] = on
	case "relp":
		r.in.fs.failRemove[poolP] = on
	case "save":
		r.in.fs.failSave = on
	default:
		return "badop"
	}
	return "ok " + r.snapshotInt()
}

func (r *run) snapshotInt() string {
	ls := r.srv.LeasesForVerif()
	// lease part: identical to the legacy snapshot
	legacy := r.snapshotLeases(ls)
	var al, pl []string
	for k := 1; k <= intClients; k++ {
		d := string(duidOf("d" + strconv.Itoa(k)))
		if r.in.aa != nil {
			if n := r.in.aa.Lookup(d); n != nil {
				al = append(al, fmt.Sprintf("d%d:%s", k, ip6Hex(n.IP)))
			}
		}
		if r.in.pa != nil {
			if n := r.in.pa.Lookup(d); n != nil {
				pl = append(pl, fmt.Sprintf("d%d:%s", k, ip6Hex(n.IP)))
			}
		}
	}
	stats := func(p *allocator.PoolAllocator) string {
		if p == nil {
			return "-"
		}
		a, t, _ := p.Stats()
		return fmt.Sprintf("%d/%d", a, t)
	}
	ctx := context.Background()
	ra, _ := r.in.fs.GetByPool(ctx, poolA)
	rp, _ := r.in.fs.GetByPool(ctx, poolP)
	return fmt.Sprintf("L=%s AL=%s PL=%s AS=%s PS=%s SR=%d/%d", legacy, join(al), join(pl), stats(r.in.aa), stats(r.in.pa), len(ra), len(rp))
}

// ---------------------------------------------------------------- generator

// pools that run dry with the clients the generator uses
var geosInt = []geo6{
	mk6("2001:db8:1::f8", 126, "2001:db8:0:8::", 62, 64),  // 4 addresses, 4 prefixes
	mk6("2001:db8:1::fe", 127, "2001:db8:0:10::", 63, 64), // 2 addresses, 2 prefixes
	mk6("2001:db8:1::ff", 128, "", 0, 60),                 // 1 address, no prefix allocator
	mk6("", 0, "2001:db8:0:20::", 63, 64),                 // no address allocator, 2 prefixes
}

func (g geo6) newIntOp(valid int) string {
	return fmt.Sprintf("newint %s %s %d %d", g.apool, g.ppool, g.dlen, valid)
}

func (g geo6) randIntOp(r *rand.Rand, clients int) string {
	switch x := r.Intn(100); {
	case x < 6:
		return "fault rela " + hx.Pick(r, []string{"on", "on", "off"})
	case x < 10:
		return "fault relp " + hx.Pick(r, []string{"on", "on", "off"})
	case x < 12:
		return "fault save " + hx.Pick(r, []string{"on", "off", "off"})
	case x < 20:
		return fmt.Sprintf("rel d%d", 1+r.Intn(clients))
	}
	return g.randOp(r, clients)
}

func genInt(r *rand.Rand, tier string, emit func([]string)) {
	nShort, nLong := 500, 6
	if tier == "thorough" {
		nShort, nLong = 12000, 150
	}
	for i := 0; i < nShort; i++ {
		g := geosInt[r.Intn(len(geosInt))]
		clients := 2 + r.Intn(3)
		seq := []string{g.newIntOp(300)}
		for j, k := 0, 3+r.Intn(12); j < k; j++ {
			seq = append(seq, g.randIntOp(r, clients))
		}
		// closing: faults off, everybody releases, a newcomer asks for everything there is
		seq = append(seq, "fault rela off", "fault relp off", "fault save off")
		emit(seq)
	}
	for i := 0; i < nLong; i++ {
		g := geosInt[0]
		seq := []string{g.newIntOp(300)}
		for j := 0; j < 200; j++ {
			seq = append(seq, g.randIntOp(r, 6))
		}
		emit(seq)
	}
	// small scope, exhaustive (thorough; quick: a seeded sample): 2 clients on ONE address + the release fault
	{
		g := geosInt[2]
		var alpha []string
		for k := 1; k <= 2; k++ {
			d := fmt.Sprintf("d%d", k)
			alpha = append(alpha, fmt.Sprintf("req %s ok 1 -", d), "rel "+d, fmt.Sprintf("ren %s 1 -", d), fmt.Sprintf("sol %s 0 1 -", d))
		}
		alpha = append(alpha, "fault rela on", "fault rela off")
		var rec func(prefix []string, depth int)
		rec = func(prefix []string, depth int) {
			if depth == 0 {
				if tier != "thorough" && r.Intn(25) != 0 {
					return
				}
				seq := append([]string{g.newIntOp(300)}, prefix...)
				seq = append(seq, "fault rela off", "rel d1", "rel d2", "req d3 ok 1 -")
				emit(seq)
				return
			}
			for _, x := range alpha {
				rec(append(prefix[:len(prefix):len(prefix)], x), depth-1)
			}
		}
		rec(nil, 4)
	}
	// the same with address + prefix and both release faults: 1 client, depth 5
	{
		g := geosInt[1]
		alpha := []string{"req d1 ok 1 1", "rel d1", "ren d1 1 1", "dec d1 -", "fault rela on", "fault rela off", "fault relp on", "fault relp off", "req d2 ok 1 1"}
		var rec func(prefix []string, depth int)
		rec = func(prefix []string, depth int) {
			if depth == 0 {
				if tier != "thorough" && r.Intn(150) != 0 {
					return
				}
				seq := append([]string{g.newIntOp(300)}, prefix...)
				seq = append(seq, "fault rela off", "fault relp off", "rel d1", "req d3 ok 1 1")
				emit(seq)
				return
			}
			for _, x := range alpha {
				rec(append(prefix[:len(prefix):len(prefix)], x), depth-1)
			}
		}
		rec(nil, 5)
	}
}
