package main

// The drivable binary of this component: `go test -c -tags verif -o <bin> ./cmd/dhcp6`, then
//
//	<bin> gen -seed N -tier quick|thorough      |      <bin> exec < ops
//
// exactly like an hx main.  Every operation sequence runs inside its own testing/synctest bubble, so
// time.Now/time.Sleep/time.NewTicker of the REAL server code are on a virtual clock: `tick` crosses lease
// expiry and the one-minute cleanup ticker without sleeping.

import (
	"bufio"
	"flag"
	"fmt"
	"math/rand"
	"os"
	"testing"
	"testing/synctest"

	"bngverif/hx"
)

var (
	harnessArgs []string
	realStdout  *os.File
)

func TestMain(m *testing.M) {
	harnessArgs = os.Args[1:]
	realStdout = os.Stdout
	// the testing package prints PASS/ok on stdout: keep the trace clean
	if dn, err := os.OpenFile(os.DevNull, os.O_WRONLY, 0); err == nil {
		os.Stdout = dn
	}
	os.Args = []string{os.Args[0], "-test.run=^TestHarness$", "-test.timeout=0"}
	os.Exit(m.Run())
}

func TestHarness(t *testing.T) {
	if len(harnessArgs) < 1 {
		t.Fatal("usage: <bin> gen|exec [flags]")
	}
	mode := harnessArgs[0]
	fs := flag.NewFlagSet(mode, flag.ContinueOnError)
	seed := fs.Int64("seed", 1, "PRNG seed")
	tier := fs.String("tier", "quick", "quick|thorough")
	only := fs.String("only", "", "pools: generate the constructor operations only; int: the integrated-allocator sequences only")
	if err := fs.Parse(harnessArgs[1:]); err != nil {
		t.Fatal(err)
	}
	OnlyPools = *only == "pools"
	OnlyInt = *only == "int"
	w := bufio.NewWriterSize(realStdout, 1<<20)
	defer w.Flush()
	c := comp{}
	execSeq := func(seq []string) {
		synctest.Test(t, func(t *testing.T) {
			r := c.NewRun()
			defer r.Close()
			for _, op := range seq {
				fmt.Fprintf(w, "%s => %s\n", op, hx.SafeDo(r, op))
			}
		})
		fmt.Fprintln(w)
		w.Flush()
	}
	switch mode {
	case "gen":
		c.Gen(rand.New(rand.NewSource(*seed)), *tier, execSeq)
	case "exec":
		sc := bufio.NewScanner(os.Stdin)
		sc.Buffer(make([]byte, 1<<20), 1<<26)
		for _, seq := range hx.ReadSeqs(sc) {
			execSeq(seq)
		}
	default:
		t.Fatalf("unknown mode %q", mode)
	}
}
