// dhcp6 drives the real DHCPv6 server (pkg/dhcpv6 Server with the legacy AddressPool / PrefixPool) through its
// verif hooks.  Like dhcp4 it needs virtual time (lifetimes), so the drivable binary is the TEST binary of this
// package (`go test -c -tags verif ./cmd/dhcp6`, see main_test.go).
//
// Replies are written by the server to a real UDP socket (sendResponse needs a *net.UDPConn): the harness gives
// it a loopback socket and pretends every client lives at 127.x.y.z:546 (x.y.z derived from the pid, so that
// concurrent runs do not collide); the reply is read back from that socket without blocking.
//
// Line protocol (values are 128-bit lower-case hex, `-` = absent/empty):
//
//	new <addrPool>/<len>|- <prefixPool>/<len>|- <delegationLen> <validSeconds>
//	sol d<k> <rapid 0|1> <ianas> <iapds>          ianas/iapds: comma list of IAIDs, each optionally @<hint>
//	req d<k> <ok|bad|none> <ianas> <iapds>        server-id: ours / another / absent
//	ren d<k> <ianas> <iapds>      reb d<k> <ianas> <iapds>
//	con d<k> <addr,addr,…|->
//	rel d<k>                      dec d<k> <addr|->
//	tick <minutes>
//	newpool <base>/<len> <deleg>     what NewPrefixPool builds for that geometry (stateless; no `new` needed)
//	newapool <base>/<len>            what NewAddressPool builds
//	    => n=<entries> d=<distinct> in=<1|0 all inside the base> first=<hex|-> last=<hex|-> sum=<hex mod 2^128> | invalid
//
// d0 = a message WITHOUT Client Identifier.
//
// Observation:  <adv|rep> na=<iaid>:<addr>|<iaid>:!<status>,… pd=… st=<code|-> rc=<0|1>   |  none
//
//	followed by  L=d1:<addr|->:<prefix|->:<iaid>:<validEnd s|->,…  AP=d1:<addr>,…  AA=<free addrs in order>
//	             PP=d1:<prefix>,…  PA=<free prefixes in order>
package main

import (
	"encoding/binary"
	"fmt"
	"math/big"
	"math/rand"
	"net"
	"os"
	"sort"
	"strconv"
	"strings"
	"syscall"
	"time"

	"bngverif/hx"

	"github.com/codelaboratoryltd/bng/pkg/dhcpv6"
	"go.uber.org/zap"
)

type comp struct{}

// ---------------------------------------------------------------- sockets (one pair per process)

var (
	srvConn *net.UDPConn
	cliConn *net.UDPConn
	cliAddr *net.UDPAddr
)

func openSockets() error {
	if srvConn != nil {
		return nil
	}
	var err error
	srvConn, err = net.ListenUDP("udp4", &net.UDPAddr{IP: net.IPv4(127, 0, 0, 1), Port: 0})
	if err != nil {
		return err
	}
	pid := os.Getpid()
	for i := 0; i < 64; i++ {
		v := uint32(pid)*7919 + uint32(i)*104729
		ip := net.IPv4(127, byte(v>>16)|1, byte(v>>8), byte(v)|2)
		c, e := net.ListenUDP("udp4", &net.UDPAddr{IP: ip, Port: dhcpv6.DHCPv6ClientPort})
		if e == nil {
			cliConn, cliAddr = c, &net.UDPAddr{IP: ip, Port: dhcpv6.DHCPv6ClientPort}
			return nil
		}
		err = e
	}
	return err
}

// recvNow returns the datagram waiting on the client socket, if any, without blocking
// (loopback delivery is synchronous: the reply is queued before WriteToUDP returns).
func recvNow() ([]byte, bool) {
	rc, err := cliConn.SyscallConn()
	if err != nil {
		return nil, false
	}
	buf := recvBuf
	n := -1
	_ = rc.Read(func(fd uintptr) bool {
		m, _, e := syscall.Recvfrom(int(fd), buf, syscall.MSG_DONTWAIT)
		if e == nil {
			n = m
		}
		return true
	})
	if n < 0 {
		return nil, false
	}
	return append([]byte(nil), buf[:n]...), true
}

var recvBuf = make([]byte, 65535)

// ---------------------------------------------------------------- helpers

func ip6Hex(ip net.IP) string {
	if ip == nil {
		return "-"
	}
	return new(big.Int).SetBytes(ip.To16()).Text(16)
}

func hexIP6(s string) net.IP {
	v, ok := new(big.Int).SetString(s, 16)
	if !ok {
		return nil
	}
	b := v.Bytes()
	if len(b) > 16 {
		return nil
	}
	out := make(net.IP, 16)
	copy(out[16-len(b):], b)
	return out
}

func duidOf(tok string) []byte {
	n, _ := strconv.Atoi(strings.TrimPrefix(tok, "d"))
	if n == 0 {
		return nil
	}
	return []byte{0, 3, 0, 1, 0x02, 0, 0, 0, byte(n >> 8), byte(n)}
}

func duidTok(b []byte) string {
	if len(b) != 10 {
		return "d?"
	}
	return fmt.Sprintf("d%d", int(b[8])<<8|int(b[9]))
}

func tagNum(s string) int {
	n, _ := strconv.Atoi(s[1:])
	return n
}

type iaReq struct {
	iaid uint32
	hint net.IP
}

func parseIAs(tok string) ([]iaReq, bool) {
	if tok == "-" {
		return nil, true
	}
	var out []iaReq
	for _, item := range strings.Split(tok, ",") {
		parts := strings.SplitN(item, "@", 2)
		n, err := strconv.ParseUint(parts[0], 10, 32)
		if err != nil {
			return nil, false
		}
		r := iaReq{iaid: uint32(n)}
		if len(parts) == 2 {
			r.hint = hexIP6(parts[1])
			if r.hint == nil {
				return nil, false
			}
		}
		out = append(out, r)
	}
	return out, true
}

// ---------------------------------------------------------------- run

type run struct {
	srv  *dhcpv6.Server
	t0   time.Time
	dlen uint8
	xid  uint32
	in   *intState // integrated-allocator mode (int.go); nil = legacy pools
}

func (comp) NewRun() hx.Run { return &run{} }
func (r *run) Close()       {}

func (r *run) message(mt uint8, duid []byte) *dhcpv6.Message {
	r.xid++
	m := &dhcpv6.Message{Type: mt, TransactionID: [3]byte{byte(r.xid >> 16), byte(r.xid >> 8), byte(r.xid)}}
	if duid != nil {
		m.Options = append(m.Options, dhcpv6.MakeClientIDOption(duid))
	}
	return m
}

func (r *run) addIAs(m *dhcpv6.Message, nas, pds []iaReq) {
	for _, ia := range nas {
		iana := &dhcpv6.IANA{IAID: ia.iaid}
		if ia.hint != nil {
			iana.Options = append(iana.Options, dhcpv6.MakeIAAddressOption(&dhcpv6.IAAddress{Address: ia.hint, PreferredLifetime: 100, ValidLifetime: 200}))
		}
		m.Options = append(m.Options, dhcpv6.MakeIANAOption(iana))
	}
	for _, ia := range pds {
		iapd := &dhcpv6.IAPD{IAID: ia.iaid}
		if ia.hint != nil {
			iapd.Options = append(iapd.Options, dhcpv6.MakeIAPrefixOption(&dhcpv6.IAPrefix{Prefix: ia.hint, PrefixLength: r.dlen, PreferredLifetime: 100, ValidLifetime: 200}))
		}
		m.Options = append(m.Options, dhcpv6.MakeIAPDOption(iapd))
	}
}

func statusOf(opts []dhcpv6.Option) (uint16, bool) {
	for _, o := range opts {
		if o.Code == dhcpv6.OptStatusCode && len(o.Data) >= 2 {
			return binary.BigEndian.Uint16(o.Data[:2]), true
		}
	}
	return 0, false
}

func (r *run) send(m *dhcpv6.Message) string {
	for { // drain anything stale
		if _, ok := recvNow(); !ok {
			break
		}
	}
	// over the wire format, as on a socket
	wire, err := dhcpv6.ParseMessage(m.Serialize())
	if err != nil {
		return "unparsable-request"
	}
	r.srv.HandleMessageForVerif(wire, cliAddr)
	data, ok := recvNow()
	if !ok {
		return "none"
	}
	if _, again := recvNow(); again {
		return "multi"
	}
	resp, err := dhcpv6.ParseMessage(data)
	if err != nil {
		return "garbled"
	}
	kind := "other" + strconv.Itoa(int(resp.Type))
	switch resp.Type {
	case dhcpv6.MsgTypeAdvertise:
		kind = "adv"
	case dhcpv6.MsgTypeReply:
		kind = "rep"
	}
	var nas, pds []string
	for _, o := range resp.GetAllOptions(dhcpv6.OptIANA) {
		ia, err := dhcpv6.ParseIANA(o.Data)
		if err != nil {
			nas = append(nas, "garbled")
			continue
		}
		item := fmt.Sprintf("%d:", ia.IAID)
		found := false
		for _, so := range ia.Options {
			if so.Code == dhcpv6.OptIAAddr {
				if a, err := dhcpv6.ParseIAAddress(so.Data); err == nil {
					item += ip6Hex(a.Address)
					found = true
				}
			}
		}
		if !found {
			if st, ok := statusOf(ia.Options); ok {
				item += fmt.Sprintf("!%d", st)
			} else {
				item += "?"
			}
		}
		nas = append(nas, item)
	}
	for _, o := range resp.GetAllOptions(dhcpv6.OptIAPD) {
		ia, err := dhcpv6.ParseIAPD(o.Data)
		if err != nil {
			pds = append(pds, "garbled")
			continue
		}
		item := fmt.Sprintf("%d:", ia.IAID)
		found := false
		for _, so := range ia.Options {
			if so.Code == dhcpv6.OptIAPrefix {
				if p, err := dhcpv6.ParseIAPrefix(so.Data); err == nil {
					item += fmt.Sprintf("%s/%d", ip6Hex(p.Prefix), p.PrefixLength)
					found = true
				}
			}
		}
		if !found {
			if st, ok := statusOf(ia.Options); ok {
				item += fmt.Sprintf("!%d", st)
			} else {
				item += "?"
			}
		}
		pds = append(pds, item)
	}
	st := "-"
	if v, ok := statusOf(resp.Options); ok {
		st = strconv.Itoa(int(v))
	}
	rc := 0
	if resp.GetOption(dhcpv6.OptRapidCommit) != nil {
		rc = 1
	}
	return fmt.Sprintf("%s na=%s pd=%s st=%s rc=%d", kind, join(nas), join(pds), st, rc)
}

func join(xs []string) string {
	if len(xs) == 0 {
		return "-"
	}
	return strings.Join(xs, ",")
}

// snapshotLeases: the lease table, sorted by client
func (r *run) snapshotLeases(ls []dhcpv6.LeaseForVerif) string {
	sort.Slice(ls, func(i, j int) bool { return tagNum(duidTok(ls[i].ClientDUID)) < tagNum(duidTok(ls[j].ClientDUID)) })
	var lt []string
	for _, l := range ls {
		pfx := "-"
		if l.Prefix != nil {
			pfx = ip6Hex(l.Prefix.IP)
		}
		ve := "-"
		if !l.ValidEnd.IsZero() {
			ve = strconv.FormatInt(int64(l.ValidEnd.Sub(r.t0)/time.Second), 10)
		}
		lt = append(lt, fmt.Sprintf("%s:%s:%s:%d:%s", duidTok(l.ClientDUID), ip6Hex(l.Address), pfx, l.IAID, ve))
	}
	return join(lt)
}

func (r *run) snapshot() string {
	if r.in != nil {
		return r.snapshotInt()
	}
	lt := r.snapshotLeases(r.srv.LeasesForVerif())
	ps := r.srv.PoolStateForVerif()
	var keys []string
	for k := range ps.AddrAllocated {
		keys = append(keys, k)
	}
	sort.Slice(keys, func(i, j int) bool { return tagNum(duidTok([]byte(keys[i]))) < tagNum(duidTok([]byte(keys[j]))) })
	var ap []string
	for _, k := range keys {
		ap = append(ap, duidTok([]byte(k))+":"+ip6Hex(ps.AddrAllocated[k]))
	}
	var aa []string
	for _, a := range ps.AddrAvailable {
		aa = append(aa, ip6Hex(a))
	}
	keys = nil
	for k := range ps.PrefixAllocated {
		keys = append(keys, k)
	}
	sort.Slice(keys, func(i, j int) bool { return tagNum(duidTok([]byte(keys[i]))) < tagNum(duidTok([]byte(keys[j]))) })
	var pp []string
	for _, k := range keys {
		pp = append(pp, duidTok([]byte(k))+":"+ip6Hex(ps.PrefixAllocated[k].IP))
	}
	var pa []string
	for _, p := range ps.PrefixAvailable {
		pa = append(pa, ip6Hex(p.IP))
	}
	return fmt.Sprintf("L=%s AP=%s AA=%s PP=%s PA=%s", lt, join(ap), join(aa), join(pp), join(pa))
}

func (r *run) Do(op string) string {
	f := hx.Fields(op)
	if len(f) == 0 {
		return "badop"
	}
	if f[0] == "newpool" || f[0] == "newapool" {
		return constructed(f)
	}
	if f[0] == "newint" {
		r.in = nil
		return r.newInt(f)
	}
	if f[0] == "new" {
		if len(f) != 5 {
			return "badop"
		}
		r.in = nil
		if err := openSockets(); err != nil {
			return "invalid sockets: " + err.Error()
		}
		cidr := func(tok string) (string, bool) {
			if tok == "-" {
				return "", true
			}
			parts := strings.SplitN(tok, "/", 2)
			if len(parts) != 2 {
				return "", false
			}
			ip := hexIP6(parts[0])
			if ip == nil {
				return "", false
			}
			return ip.String() + "/" + parts[1], true
		}
		ap, ok1 := cidr(f[1])
		pp, ok2 := cidr(f[2])
		dl, err1 := strconv.Atoi(f[3])
		valid, err2 := strconv.Atoi(f[4])
		if !ok1 || !ok2 || err1 != nil || err2 != nil || dl <= 0 || dl > 128 || valid <= 0 {
			return "badop"
		}
		srv, err := dhcpv6.NewServer(dhcpv6.ServerConfig{
			Interface: "lo", AddressPool: ap, PrefixPool: pp, DelegationLength: uint8(dl),
			PreferredLifetime: uint32(valid / 2), ValidLifetime: uint32(valid),
		}, zap.NewNop())
		if err != nil {
			return "invalid"
		}
		srv.SetConnForVerif(srvConn)
		r.srv, r.dlen = srv, uint8(dl)
		r.t0 = time.Now()
		return "ok " + r.snapshot()
	}
	if r.srv == nil {
		return "badop"
	}
	var reply string
	switch f[0] {
	case "fault":
		return r.fault(f)
	case "sol":
		if len(f) != 5 || (f[2] != "0" && f[2] != "1") {
			return "badop"
		}
		nas, ok1 := parseIAs(f[3])
		pds, ok2 := parseIAs(f[4])
		if !ok1 || !ok2 {
			return "badop"
		}
		m := r.message(dhcpv6.MsgTypeSolicit, duidOf(f[1]))
		if f[2] == "1" {
			m.Options = append(m.Options, dhcpv6.Option{Code: dhcpv6.OptRapidCommit})
		}
		r.addIAs(m, nas, pds)
		reply = r.send(m)
	case "req":
		if len(f) != 5 {
			return "badop"
		}
		nas, ok1 := parseIAs(f[3])
		pds, ok2 := parseIAs(f[4])
		if !ok1 || !ok2 {
			return "badop"
		}
		m := r.message(dhcpv6.MsgTypeRequest, duidOf(f[1]))
		switch f[2] {
		case "ok":
			m.Options = append(m.Options, dhcpv6.Option{Code: dhcpv6.OptServerID, Data: r.srv.ServerDUIDForVerif()})
		case "bad":
			m.Options = append(m.Options, dhcpv6.Option{Code: dhcpv6.OptServerID, Data: []byte{0, 3, 0, 1, 9, 9, 9, 9, 9, 9}})
		case "none":
		default:
			return "badop"
		}
		r.addIAs(m, nas, pds)
		reply = r.send(m)
	case "ren", "reb":
		if len(f) != 4 {
			return "badop"
		}
		nas, ok1 := parseIAs(f[2])
		pds, ok2 := parseIAs(f[3])
		if !ok1 || !ok2 {
			return "badop"
		}
		mt := uint8(dhcpv6.MsgTypeRenew)
		if f[0] == "reb" {
			mt = dhcpv6.MsgTypeRebind
		}
		m := r.message(mt, duidOf(f[1]))
		if f[0] == "ren" {
			m.Options = append(m.Options, dhcpv6.Option{Code: dhcpv6.OptServerID, Data: r.srv.ServerDUIDForVerif()})
		}
		r.addIAs(m, nas, pds)
		reply = r.send(m)
	case "con":
		if len(f) != 3 {
			return "badop"
		}
		m := r.message(dhcpv6.MsgTypeConfirm, duidOf(f[1]))
		if f[2] != "-" {
			iana := &dhcpv6.IANA{IAID: 1}
			for _, a := range strings.Split(f[2], ",") {
				ip := hexIP6(a)
				if ip == nil {
					return "badop"
				}
				iana.Options = append(iana.Options, dhcpv6.MakeIAAddressOption(&dhcpv6.IAAddress{Address: ip}))
			}
			m.Options = append(m.Options, dhcpv6.MakeIANAOption(iana))
		}
		reply = r.send(m)
	case "rel", "dec":
		want := 2
		if f[0] == "dec" {
			want = 3
		}
		if len(f) != want {
			return "badop"
		}
		mt := uint8(dhcpv6.MsgTypeRelease)
		if f[0] == "dec" {
			mt = dhcpv6.MsgTypeDecline
		}
		m := r.message(mt, duidOf(f[1]))
		m.Options = append(m.Options, dhcpv6.Option{Code: dhcpv6.OptServerID, Data: r.srv.ServerDUIDForVerif()})
		if f[0] == "dec" && f[2] != "-" {
			ip := hexIP6(f[2])
			if ip == nil {
				return "badop"
			}
			m.Options = append(m.Options, dhcpv6.MakeIANAOption(&dhcpv6.IANA{IAID: 1, Options: []dhcpv6.Option{
				dhcpv6.MakeIAAddressOption(&dhcpv6.IAAddress{Address: ip})}}))
		}
		reply = r.send(m)
	case "tick":
		if len(f) != 2 {
			return "badop"
		}
		n, err := strconv.Atoi(f[1])
		if err != nil || n < 0 || n > 100000 {
			return "badop"
		}
		time.Sleep(time.Duration(n) * time.Minute)
		reply = "ok"
	default:
		return "badop"
	}
	return reply + " " + r.snapshot()
}

// constructed builds a server with only the named pool through the REAL constructors (NewServer calls
// NewPrefixPool / NewAddressPool) and reports what the free list contains.
func constructed(f []string) string {
	isPrefix := f[0] == "newpool"
	if (isPrefix && len(f) != 3) || (!isPrefix && len(f) != 2) {
		return "badop"
	}
	parts := strings.SplitN(f[1], "/", 2)
	if len(parts) != 2 {
		return "badop"
	}
	ip := hexIP6(parts[0])
	plen, err := strconv.Atoi(parts[1])
	if ip == nil || err != nil || plen < 0 || plen > 128 {
		return "badop"
	}
	cidr := ip.String() + "/" + parts[1]
	if ip.To4() != nil { // keep the textual form IPv6 (::ffff:a.b.c.d would be parsed as an IPv4 network)
		return "badop"
	}
	_, base, err := net.ParseCIDR(cidr)
	if err != nil {
		return "badop"
	}
	cfg := dhcpv6.ServerConfig{Interface: "lo"}
	deleg := 0
	if isPrefix {
		deleg, err = strconv.Atoi(f[2])
		if err != nil || deleg < 1 || deleg > 255 {
			return "badop"
		}
		cfg.PrefixPool, cfg.DelegationLength = cidr, uint8(deleg)
	} else {
		cfg.AddressPool = cidr
	}
	srv, err := dhcpv6.NewServer(cfg, zap.NewNop())
	if err != nil {
		return "invalid"
	}
	ps := srv.PoolStateForVerif()
	var vals []*big.Int
	inside := true
	baseV := new(big.Int).SetBytes(base.IP.To16())
	baseEnd := new(big.Int).Add(baseV, new(big.Int).Lsh(big.NewInt(1), uint(128-plen)))
	if isPrefix {
		for _, p := range ps.PrefixAvailable {
			// numerically (net.IPNet.Contains would treat ::ffff:0:0/96-looking values as IPv4)
			ones, bits := p.Mask.Size()
			v := new(big.Int).SetBytes(p.IP.To16())
			end := new(big.Int).Add(v, new(big.Int).Lsh(big.NewInt(1), uint(128-deleg)))
			if ones != deleg || bits != 128 || v.Cmp(baseV) < 0 || end.Cmp(baseEnd) > 0 {
				inside = false
			}
			vals = append(vals, v)
		}
	} else {
		for _, a := range ps.AddrAvailable {
			v := new(big.Int).SetBytes(a.To16())
			if v.Cmp(baseV) <= 0 || v.Cmp(baseEnd) >= 0 {
				inside = false
			}
			vals = append(vals, v)
		}
	}
	seen := map[string]bool{}
	sum := new(big.Int)
	mod := new(big.Int).Lsh(big.NewInt(1), 128)
	for _, v := range vals {
		seen[v.Text(16)] = true
		sum.Add(sum, v)
		sum.Mod(sum, mod)
	}
	first, last := "-", "-"
	if len(vals) > 0 {
		first, last = vals[0].Text(16), vals[len(vals)-1].Text(16)
	}
	in := 0
	if inside {
		in = 1
	}
	return fmt.Sprintf("n=%d d=%d in=%d first=%s last=%s sum=%s", len(vals), len(seen), in, first, last, sum.Text(16))
}

// ---------------------------------------------------------------- generator

type geo6 struct {
	apool, ppool string // hex/len or -
	abase, pbase *big.Int
	acount, pcnt int
	dlen         int
}

func mk6(ap string, aplen int, pp string, pplen, dlen int) geo6 {
	g := geo6{apool: "-", ppool: "-", dlen: dlen}
	if ap != "" {
		g.abase = new(big.Int).SetBytes(net.ParseIP(ap).To16())
		g.apool = fmt.Sprintf("%s/%d", g.abase.Text(16), aplen)
		g.acount = (1 << (128 - aplen)) - 1
	}
	if pp != "" {
		g.pbase = new(big.Int).SetBytes(net.ParseIP(pp).To16())
		g.ppool = fmt.Sprintf("%s/%d", g.pbase.Text(16), pplen)
		g.pcnt = 1 << (dlen - pplen)
	}
	return g
}

func (g geo6) newOp(valid int) string {
	return fmt.Sprintf("new %s %s %d %d", g.apool, g.ppool, g.dlen, valid)
}

func (g geo6) addr(i int) string {
	if g.abase == nil {
		return "20010db8000000000000000000000001"
	}
	return new(big.Int).Add(g.abase, big.NewInt(int64(i))).Text(16)
}

func (g geo6) prefix(i int) string {
	if g.pbase == nil {
		return "20010db8000000000000000000000000"
	}
	step := new(big.Int).Lsh(big.NewInt(1), uint(128-g.dlen))
	return new(big.Int).Add(g.pbase, step.Mul(step, big.NewInt(int64(i)))).Text(16)
}

var geos6 = []geo6{
	mk6("2001:db8:1::f8", 125, "2001:db8:0:8::", 61, 63),  // 7 addresses, 4 prefixes
	mk6("2001:db8:1::fc", 126, "2001:db8:0:10::", 63, 64), // 3 addresses, 2 prefixes
	mk6("2001:db8:1::fe", 127, "", 0, 60),                 // 1 address, no prefix pool
	mk6("", 0, "2001:db8:0:20::", 62, 64),                 // no address pool, 4 prefixes
}

func (g geo6) ias(r *rand.Rand, pd bool) string {
	switch x := r.Intn(10); {
	case x < 2:
		return "-"
	case x < 7:
		return "1"
	case x < 8:
		return "1,2"
	default:
		if pd {
			return "1@" + g.prefix(r.Intn(g.pcnt+2))
		}
		return "1@" + g.addr(r.Intn(g.acount+3))
	}
}

func (g geo6) randOp(r *rand.Rand, clients int) string {
	k := 1 + r.Intn(clients)
	if r.Intn(40) == 0 {
		k = 0
	}
	d := fmt.Sprintf("d%d", k)
	switch x := r.Intn(100); {
	case x < 18:
		return fmt.Sprintf("sol %s 0 %s %s", d, g.ias(r, false), g.ias(r, true))
	case x < 26:
		return fmt.Sprintf("sol %s 1 %s %s", d, g.ias(r, false), g.ias(r, true))
	case x < 50:
		sid := "ok"
		if r.Intn(8) == 0 {
			sid = hx.Pick(r, []string{"bad", "none"})
		}
		return fmt.Sprintf("req %s %s %s %s", d, sid, g.ias(r, false), g.ias(r, true))
	case x < 60:
		return fmt.Sprintf("ren %s %s %s", d, g.ias(r, false), g.ias(r, true))
	case x < 66:
		return fmt.Sprintf("reb %s %s %s", d, g.ias(r, false), g.ias(r, true))
	case x < 72:
		as := g.addr(r.Intn(g.acount + 3))
		if r.Intn(4) == 0 {
			as += "," + g.addr(r.Intn(g.acount+3))
		}
		if r.Intn(8) == 0 {
			as = "-"
		}
		return fmt.Sprintf("con %s %s", d, as)
	case x < 82:
		return "rel " + d
	case x < 90:
		a := g.addr(1 + r.Intn(g.acount+1))
		if r.Intn(6) == 0 {
			a = "-"
		}
		return fmt.Sprintf("dec %s %s", d, a)
	default:
		return fmt.Sprintf("tick %d", hx.Pick(r, []int{1, 2, 5, 6, 11}))
	}
}

// OnlyPools restricts generation to the constructor operations (`gen -only pools`: used by the checks that judge
// the pools' construction but not the protocol, C01 and C05).
var OnlyPools bool

// genPools: the constructors over ALL legal geometries — every base length 0..127 with every delegation length
// above it up to 128 (8256 prefix pools: every number of index bits 1..128, byte-aligned or not; the quick tier
// takes all with up to 16 index bits and one in eight of the rest), a few illegal ones, and every address-pool
// length 0..128.  The base is a fixed bit pattern masked to its length.
func genPools(tier string, emit func([]string)) {
	pattern, _ := new(big.Int).SetString("20010db8a5a53c3cf00f96695aa5c33c", 16)
	baseOf := func(plen int) string {
		mask := new(big.Int).Lsh(new(big.Int).Sub(new(big.Int).Lsh(big.NewInt(1), uint(plen)), big.NewInt(1)), uint(128-plen))
		return new(big.Int).And(pattern, mask).Text(16)
	}
	var seq []string
	flush := func() {
		if len(seq) > 0 {
			emit(seq)
			seq = nil
		}
	}
	for plen := 0; plen <= 127; plen++ {
		for deleg := plen + 1; deleg <= 128; deleg++ {
			// quick tier: every geometry with up to 16 index bits, one in eight of the wider ones
			if tier != "thorough" && deleg-plen > 16 && (plen*131+deleg)%8 != 0 {
				continue
			}
			seq = append(seq, fmt.Sprintf("newpool %s/%d %d", baseOf(plen), plen, deleg))
			if len(seq) >= 24 {
				flush()
			}
		}
		// illegal: delegation length not above the base length / above 128
		if plen > 0 {
			seq = append(seq, fmt.Sprintf("newpool %s/%d %d", baseOf(plen), plen, plen))
		}
		if plen%16 == 0 {
			seq = append(seq, fmt.Sprintf("newpool %s/%d 129", baseOf(plen), plen), fmt.Sprintf("newpool %s/%d 200", baseOf(plen), plen))
		}
	}
	flush()
	for plen := 0; plen <= 128; plen++ {
		seq = append(seq, fmt.Sprintf("newapool %s/%d", baseOf(plen), plen))
		if len(seq) >= 24 {
			flush()
		}
	}
	flush()
}

func (comp) Gen(r *rand.Rand, tier string, emit func([]string)) {
	if OnlyInt {
		genInt(r, tier, emit)
		return
	}
	genPools(tier, emit)
	if OnlyPools {
		return
	}
	nShort, nLong := 700, 12
	if tier == "thorough" {
		nShort, nLong = 20000, 300
	}
	for i := 0; i < nShort; i++ {
		g := geos6[r.Intn(len(geos6))]
		clients := 2 + r.Intn(3)
		seq := []string{g.newOp(hx.Pick(r, []int{300, 300, 290}))}
		for j, k := 0, 2+r.Intn(10); j < k; j++ {
			seq = append(seq, g.randOp(r, clients))
		}
		emit(seq)
	}
	// 9 clients on 7 addresses / 4 prefixes, depth 200
	for i := 0; i < nLong; i++ {
		g := geos6[0]
		seq := []string{g.newOp(300)}
		for j := 0; j < 200; j++ {
			seq = append(seq, g.randOp(r, 9))
		}
		emit(seq)
	}
	exhaustive6(r, tier, emit)
}

// exhaustive6: every sequence of depth 5 over 2 clients (11 letters, ONE-address pool), of depth 4 over
// 3 clients (16 letters, 3 addresses + 2 prefixes) and of depth 4 over 2 clients with RENEW on the ONE-address pool
// (11 letters), each followed by two closing REQUESTs
// (thorough: all ~0.23 million; quick: a seeded sample)
func exhaustive6(r *rand.Rand, tier string, emit func([]string)) {
	for _, sc := range []struct {
		g              geo6
		clients, depth int
		renew          bool
		keep           int
	}{{geos6[2], 2, 5, false, 60}, {geos6[1], 3, 4, true, 30},
		// review item C11: a ONE-address pool that runs dry, with RENEW in the alphabet (a refused REQUEST leaves an empty
		// lease that RENEW then takes for a binding)
		{geos6[2], 2, 4, true, 12}} {
		var alpha []string
		for k := 1; k <= sc.clients; k++ {
			d := fmt.Sprintf("d%d", k)
			pd := "-"
			if sc.g.pbase != nil {
				pd = "1"
			}
			alpha = append(alpha,
				fmt.Sprintf("sol %s 0 1 %s", d, pd),
				fmt.Sprintf("req %s ok 1 %s", d, pd), "rel "+d, fmt.Sprintf("dec %s %s", d, sc.g.addr(1)))
			if sc.renew {
				alpha = append(alpha, fmt.Sprintf("ren %s 1 %s", d, pd))
			} else {
				alpha = append(alpha, fmt.Sprintf("sol %s 1 1 -", d))
			}
		}
		alpha = append(alpha, "tick 6")
		var rec func(prefix []string, depth int)
		rec = func(prefix []string, depth int) {
			if depth == 0 {
				if tier != "thorough" && r.Intn(sc.keep) != 0 {
					return
				}
				seq := append([]string{sc.g.newOp(300)}, prefix...)
				seq = append(seq, "req d9 ok 1 -", "req d1 ok 1 -")
				emit(seq)
				return
			}
			for _, x := range alpha {
				rec(append(prefix[:len(prefix):len(prefix)], x), depth-1)
			}
		}
		rec(nil, sc.depth)
	}
}

func main() {
	fmt.Fprintln(os.Stderr, "dhcp6: build the harness as a test binary (go test -c -tags verif ./cmd/dhcp6): it needs testing/synctest")
	os.Exit(2)
}
