// empty: allows body-less go:linkname declarations in macfuncs.go
