// C06, reading direction: what the Go code decodes from entries the KERNEL PROGRAM wrote, and what it does with them.
//
//	iter <map> <keyType> <valType> rawk=<hex> rawv=<hex>
//	    one raw entry in the real kernel map, read the way purgeSubscriberState reads it — MapIterator.Next(&k, &v) with
//	    the typed key AND value — then handed back to Delete(&k):
//	    => k=<leaf,…> v=<leaf,…> del=ok|notfound left=<n> | err size-key | err size-value | err <msg>
//
//	x purge priv=<4B> src=<4B> bsrc=<4B> pub=<4B> dst=<4B> sport= dport= proto=
//	    the real nat.Manager allocates NAT for `priv` (and for a bystander subscriber `bsrc`); the natively compiled
//	    nat44_egress translates one flow whose source address ON THE WIRE is `src` and one from `bsrc`; the session,
//	    reverse entry and EIM mapping it creates are put into the real nat_sessions / nat_reverse / eim_table maps;
//	    the real DeallocateNAT(priv) (→ purgeSubscriberState) runs; which entries are left?
//	    => go.sub.k= c.sub.k= c.sess.k= c.rev.k= c.rev.v= c.eim.k= it.sess.k= it.rev.k= it.rev.v= it.eim.k=
//	       dealloc=ok gone.sess=yes|no gone.rev= gone.eim= by.sess=kept|gone by.rev= by.eim=
package main

import (
	"bytes"
	"encoding/hex"
	"fmt"
	"net"
	"reflect"
	"strconv"
	"strings"

	"github.com/cilium/ebpf"
	"go.uber.org/zap"

	"github.com/codelaboratoryltd/bng/pkg/nat"
)

func leafList(v reflect.Value) string {
	var ls []reflect.Value
	dataLeaves(v, &ls)
	var parts []string
	for _, l := range ls {
		parts = append(parts, hx0(getLeaf(l)))
	}
	if len(parts) == 0 {
		return "-"
	}
	return strings.Join(parts, ",")
}

func classifyIter(err error) string {
	s := err.Error()
	if strings.Contains(s, "marshal") || strings.Contains(s, "doesn't consume") || strings.Contains(s, "size") {
		if strings.Contains(s, "key") {
			return "err size-key"
		}
		return "err size-value"
	}
	return "err " + strings.ReplaceAll(s, " ", "_")
}

// iterFirst reads the first entry of m with the typed key and value, as MapIterator.Next does for purgeSubscriberState
func iterFirst(m *ebpf.Map, kt, vt reflect.Type) (k, v reflect.Value, res string) {
	k, v = reflect.New(kt), reflect.New(vt)
	it := m.Iterate()
	if !it.Next(k.Interface(), v.Interface()) {
		if err := it.Err(); err != nil {
			return k, v, classifyIter(err)
		}
		return k, v, "err empty"
	}
	return k, v, ""
}

func count(m *ebpf.Map) int { return len(entries(m)) }

func (r *run) doIter(f []string) string {
	if len(f) != 6 {
		return "badop"
	}
	a := kv(strings.Join(f[4:], " "))
	kt, ok1 := registry[f[2]]
	vt, ok2 := registry[f[3]]
	if !ok1 || !ok2 {
		return "badop type"
	}
	m, err := r.kmap(f[1])
	if err != nil {
		return "err " + strings.ReplaceAll(err.Error(), " ", "_")
	}
	if m.Type() == ebpf.Array || m.Type() == ebpf.PerCPUArray || m.Type() == ebpf.PerCPUHash || m.Type() == ebpf.LPMTrie {
		return "badop maptype"
	}
	rk, rv := mustHex(a["rawk"]), mustHex(a["rawv"])
	// the programs zero the padding of the keys they build: a raw key with bytes outside the data leaves of the Go key
	// type is not an entry a program wrote (whether such bytes survive the round trip depends on cilium's marshalling path)
	var gk *jStruct
	for _, u := range layout.Uses {
		if u.Map == f[1] && u.GoKey != nil && u.GoKey.Name == f[2] && u.GoVal != nil && u.GoVal.Name == f[3] {
			gk = u.GoKey
			break
		}
	}
	if gk == nil {
		return "badop"
	}
	data := make([]bool, len(rk))
	for _, kf := range gk.Fields {
		if kf.Norm == "_" {
			continue
		}
		for j := kf.Off; j < kf.Off+kf.Width && j < len(data); j++ {
			data[j] = true
		}
	}
	for j, b := range rk {
		if !data[j] && b != 0 {
			return "badop padding"
		}
	}
	clear(m)
	if err := m.Put(rk, rv); err != nil {
		return "err rawput " + strings.ReplaceAll(err.Error(), " ", "_")
	}
	k, v, res := iterFirst(m, kt, vt)
	if res != "" {
		return res
	}
	del := "ok"
	if err := m.Delete(k.Interface()); err != nil {
		del = classify(err)
	}
	return fmt.Sprintf("k=%s v=%s del=%s left=%d", leafList(k.Elem()), leafList(v.Elem()), strings.ReplaceAll(del, " ", "_"), count(m))
}

// captured returns the first (key, value) the program wrote into map `name`
func captured(ev map[string][]string, name string) (k, v []byte, ok bool) {
	u := ev["U:"+name]
	if len(u) == 0 {
		return nil, nil, false
	}
	p := strings.SplitN(u[0], ":", 2)
	if len(p) != 2 {
		return nil, nil, false
	}
	return mustHex(p[0]), mustHex(p[1]), true
}

func (r *run) xPurge(a map[string]string) string {
	priv, src, bsrc, pub, dst := mustHex(a["priv"]), mustHex(a["src"]), mustHex(a["bsrc"]), mustHex(a["pub"]), mustHex(a["dst"])
	sport, e1 := strconv.Atoi(a["sport"])
	dport, e2 := strconv.Atoi(a["dport"])
	proto, e3 := strconv.Atoi(a["proto"])
	if len(priv) != 4 || len(src) != 4 || len(bsrc) != 4 || len(pub) != 4 || len(dst) != 4 || e1 != nil || e2 != nil || e3 != nil {
		return "badop"
	}
	// the bystander is another subscriber with another flow: neither the same Go allocation nor the same wire source
	if bytes.Equal(bsrc, priv) || bytes.Equal(bsrc, src) {
		return "badop"
	}
	names := []string{"hairpin_ips", "subscriber_nat", "nat_sessions", "nat_reverse", "eim_table"}
	ms := map[string]*ebpf.Map{}
	for _, n := range names {
		m, err := r.kmap(n)
		if err != nil {
			return "err " + strings.ReplaceAll(err.Error(), " ", "_")
		}
		clear(m)
		ms[n] = m
	}
	nm, err := nat.NewManager(nat.ManagerConfig{Interface: "lo", EnableHairpin: true, EnableEIM: true}, zap.NewNop())
	if err != nil {
		return "err " + err.Error()
	}
	if err := r.setMapFields(nm, "nat.Manager"); err != nil {
		return "err " + strings.ReplaceAll(err.Error(), " ", "_")
	}
	if err := nm.AddPublicIP(net.IP(pub)); err != nil {
		return "AddPublicIP:" + classify(err)
	}
	if _, err := nm.AllocateNAT(net.IP(priv)); err != nil {
		return "AllocateNAT:" + classify(err)
	}
	sk, sv, ok := one(ms["subscriber_nat"])
	if !ok {
		return "err readback"
	}
	if _, err := nm.AllocateNAT(net.IP(bsrc)); err != nil {
		return "AllocateNAT:" + classify(err)
	}
	var sv2 []byte
	for _, e := range entries(ms["subscriber_nat"]) {
		if !bytes.Equal(e[0], sk) {
			sv2 = e[1]
		}
	}
	if sv2 == nil {
		return "err readback2"
	}
	cfg := "nat_config_map=1f000000" + "0004ffff" + "00040000" + "00000000"
	stats := "nat_stats_map=" + strings.Repeat("00", cmaps["nat_stats_map"].ValSize)
	flow := func(s, val []byte) map[string][]string {
		fr := ethFrame([]byte{2, 0, 0, 0, 0, 1}, []byte{2, 0, 0, 0, 0, 2}, nil, ipv4(s, dst, proto, l4(proto, sport, dport)))
		ev, _ := cRun("nat44", "nat44_egress", fr, cfg, "subscriber_nat="+hex.EncodeToString(val), stats)
		return ev
	}
	evA, evB := flow(src, sv), flow(bsrc, sv2)
	type ent struct{ k, v []byte }
	A, B := map[string]ent{}, map[string]ent{}
	for _, n := range []string{"nat_sessions", "nat_reverse", "eim_table"} {
		ka, va, okA := captured(evA, n)
		kb, vb, okB := captured(evB, n)
		if !okA || !okB {
			return fmt.Sprintf("nosession a=%s b=%s", first(evA, "ret"), first(evB, "ret"))
		}
		A[n], B[n] = ent{ka, va}, ent{kb, vb}
	}
	// the subscriber's entries alone: what does Go's typed iteration decode from the bytes the program wrote?
	it := map[string][2]string{}
	for _, n := range []string{"nat_sessions", "nat_reverse", "eim_table"} {
		if err := ms[n].Put(A[n].k, A[n].v); err != nil {
			return "err rawput " + strings.ReplaceAll(err.Error(), " ", "_")
		}
	}
	types := map[string][2]string{"nat_sessions": {"nat.natSessionKey", "nat.NATSession"}, "nat_reverse": {"nat.natSessionKey", "nat.natSessionKey"},
		"eim_table": {"nat.EIMKey", "nat.EIMMapping"}}
	for n, t := range types {
		k, v, res := iterFirst(ms[n], registry[t[0]], registry[t[1]])
		if res != "" {
			return "iter:" + n + ":" + res
		}
		it[n] = [2]string{leafList(k.Elem()), leafList(v.Elem())}
	}
	for _, n := range []string{"nat_sessions", "nat_reverse", "eim_table"} {
		if err := ms[n].Put(B[n].k, B[n].v); err != nil {
			return "err rawput " + strings.ReplaceAll(err.Error(), " ", "_")
		}
	}
	dealloc := "ok"
	if err := nm.DeallocateNAT(net.IP(priv)); err != nil {
		dealloc = strings.ReplaceAll(classify(err), " ", "_")
	}
	has := func(n string, k []byte) bool {
		v, err := ms[n].LookupBytes(k)
		return err == nil && v != nil
	}
	gone := func(n string) string {
		if has(n, A[n].k) {
			return "no"
		}
		return "yes"
	}
	by := func(n string) string {
		if has(n, B[n].k) {
			return "kept"
		}
		return "gone"
	}
	return fmt.Sprintf("go.sub.k=%s c.sub.k=%s c.sess.k=%s c.rev.k=%s c.rev.v=%s c.eim.k=%s it.sess.k=%s it.rev.k=%s it.rev.v=%s it.eim.k=%s dealloc=%s gone.sess=%s gone.rev=%s gone.eim=%s by.sess=%s by.rev=%s by.eim=%s",
		hx0(sk), first(evA, "L:subscriber_nat"), hx0(A["nat_sessions"].k), hx0(A["nat_reverse"].k), hx0(A["nat_reverse"].v), hx0(A["eim_table"].k),
		it["nat_sessions"][0], it["nat_reverse"][0], it["nat_reverse"][1], it["eim_table"][0], dealloc,
		gone("nat_sessions"), gone("nat_reverse"), gone("eim_table"), by("nat_sessions"), by("nat_reverse"), by("eim_table"))
}
