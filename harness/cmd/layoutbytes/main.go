// layoutbytes is the byte-level correspondence of C06 (component `layout` of `bngdrv-layout`).
//
// It creates REAL kernel maps (bpf(BPF_MAP_CREATE) through cilium/ebpf) with the type and key/value sizes of
// the C declarations (layout.json written by cmd/extractlayout), lets the REAL Go code write into them —
// typed values through cilium's marshalling, and the real manager methods (ebpf.Loader, nat.Manager,
// qos.Manager, antispoof.Manager, walledgarden.Manager) whose unexported map handles are pointed at those maps —
// and reads the RAW bytes back.  For the kernel side it runs the UNMODIFIED bpf/*.c programs, compiled
// natively by extractlayout (cshim-layout/ckeys_main.c), on crafted frames and reports the raw key bytes of
// every map lookup the program performs and what it does with values the Go side wrote.
//
//	new                                                     => ok
//	put <map> <keyType> <valType> k=<leaf,…> v=<leaf,…>     => k=<hex> v=<hex> | err size-key | err size-value | err <msg>
//	get <map> <keyType> <valType> rawk=<hex> rawv=<hex>     => v=<leaf,…> | err size-value | err <msg>
//	iter <map> <keyType> <valType> rawk=<hex> rawv=<hex>    => k=<leaf,…> v=<leaf,…> del=ok|notfound left=<n> | err size-key | …
//	percpu nat|qos|antispoof                                => err percpu | ok
//	x qos|antispoof|dhcp|nat|purge|fnv|wg  name=value …     => name=hex …   (see the functions below)
//	kf cidraw <options hex>                                 => c=<hex|none>
//
// Leaf contents are raw bytes in memory order (integers little-endian); blank Go fields take no value.
package main

import (
	"bufio"
	"bytes"
	"encoding/binary"
	"encoding/hex"
	"encoding/json"
	"errors"
	"fmt"
	"io"
	"math/rand"
	"net"
	"os"
	"os/exec"
	"path/filepath"
	"reflect"
	"sort"
	"strconv"
	"strings"
	"unsafe"

	"bngverif/hx"

	"github.com/cilium/ebpf"
	"go.uber.org/zap"

	"github.com/codelaboratoryltd/bng/pkg/antispoof"
	bngebpf "github.com/codelaboratoryltd/bng/pkg/ebpf"
	"github.com/codelaboratoryltd/bng/pkg/nat"
	"github.com/codelaboratoryltd/bng/pkg/qos"
	"github.com/codelaboratoryltd/bng/pkg/walledgarden"
)

// ---------------------------------------------------------------------------------------------
// layout.json

type jField struct {
	Name  string `json:"name"`
	Norm  string `json:"norm"`
	Off   int    `json:"off"`
	Width int    `json:"width"`
	Kind  string `json:"kind"`
	Elem  int    `json:"elem"`
}
type jStruct struct {
	Name   string   `json:"name"`
	Size   int      `json:"size"`
	Fields []jField `json:"fields"`
}
type jMap struct {
	Name       string `json:"name"`
	Type       string `json:"type"`
	TypeNum    int    `json:"type_num"`
	KeyType    string `json:"key_type"`
	ValType    string `json:"val_type"`
	KeySize    int    `json:"key_size"`
	ValSize    int    `json:"val_size"`
	MaxEntries int    `json:"max_entries"`
	Flags      int    `json:"flags"`
}
type jUse struct {
	Map      string   `json:"map"`
	Op       string   `json:"op"`
	Site     string   `json:"site"`
	GoKey    *jStruct `json:"go_key"`
	GoVal    *jStruct `json:"go_val"`
	ValSlice bool     `json:"val_slice"`
}
type jProg struct {
	Name string `json:"name"`
	File string `json:"file"`
}
type jLayout struct {
	MacToU64 []string          `json:"mac_to_u64_funcs"`
	U64ToMac []string          `json:"u64_to_mac_funcs"`
	Progs    []jProg           `json:"progs"`
	CStructs []jStruct         `json:"c_structs"`
	CMaps    []jMap            `json:"c_maps"`
	Uses     []jUse            `json:"uses"`
	Bindings map[string]string `json:"bindings"`
}

var layout jLayout
var cmaps = map[string]jMap{}
var cstructs = map[string]jStruct{}

func loadLayout() {
	p := os.Getenv("VERIF_LAYOUT_JSON")
	if p == "" {
		fatal("VERIF_LAYOUT_JSON is not set (the check's pre-hook runs extractlayout and exports it)")
	}
	b, err := os.ReadFile(p)
	if err != nil {
		fatal("cannot read %s: %v", p, err)
	}
	if err := json.Unmarshal(b, &layout); err != nil {
		fatal("cannot parse %s: %v", p, err)
	}
	for _, m := range layout.CMaps {
		cmaps[m.Name] = m
	}
	for _, s := range layout.CStructs {
		cstructs[s.Name] = s
	}
	// the harness must know every MAC conversion the translator found in the repository, and no other
	for _, n := range layout.MacToU64 {
		if _, ok := macToU64[n]; !ok {
			fatal("the repository has a new MAC->uint64 conversion %s that the harness table (cmd/layoutbytes/macfuncs.go) does not know", n)
		}
	}
	for _, n := range layout.U64ToMac {
		if _, ok := u64ToMac[n]; !ok {
			fatal("the repository has a new uint64->MAC conversion %s that the harness table (cmd/layoutbytes/macfuncs.go) does not know", n)
		}
	}
	if len(layout.MacToU64) != len(macToU64) || len(layout.U64ToMac) != len(u64ToMac) {
		fatal("MAC conversions in the repository %v %v differ from the harness table: a conversion was removed or renamed", layout.MacToU64, layout.U64ToMac)
	}
}

func fatal(format string, a ...any) {
	fmt.Fprintf(os.Stderr, "layoutbytes: "+format+"\n", a...)
	os.Exit(3)
}

// cLeaf returns (offset, width) of a leaf of the C value record of a map
func cLeaf(mapName, leaf string) (int, int) {
	m, ok := cmaps[mapName]
	if !ok {
		fatal("map %s is not declared in the C sources any more", mapName)
	}
	s, ok := cstructs[strings.TrimPrefix(m.ValType, "struct ")]
	if !ok {
		fatal("value type %q of map %s has no record layout", m.ValType, mapName)
	}
	for _, f := range s.Fields {
		if f.Name == leaf {
			return f.Off, f.Width
		}
	}
	fatal("struct %s has no leaf %s any more", s.Name, leaf)
	return 0, 0
}

// ---------------------------------------------------------------------------------------------
// registry of the real Go types that occur as static key/value types of map calls

var registry = map[string]reflect.Type{
	"uint8":                       reflect.TypeOf(uint8(0)),
	"uint16":                      reflect.TypeOf(uint16(0)),
	"uint32":                      reflect.TypeOf(uint32(0)),
	"uint64":                      reflect.TypeOf(uint64(0)),
	"ebpf.PoolAssignment":         reflect.TypeOf(bngebpf.PoolAssignment{}),
	"ebpf.VLANKey":                reflect.TypeOf(bngebpf.VLANKey{}),
	"ebpf.IPPool":                 reflect.TypeOf(bngebpf.IPPool{}),
	"ebpf.DHCPStats":              reflect.TypeOf(bngebpf.DHCPStats{}),
	"ebpf.ServerConfig":           reflect.TypeOf(bngebpf.ServerConfig{}),
	"ebpf.CircuitIDKey":           reflect.TypeOf(bngebpf.CircuitIDKey{}),
	"nat.SubscriberNAT":           reflect.TypeOf(nat.SubscriberNAT{}),
	"nat.PortBlock":               reflect.TypeOf(nat.PortBlock{}),
	"nat.ALGConfig":               reflect.TypeOf(nat.ALGConfig{}),
	"nat.NATConfig":               reflect.TypeOf(nat.NATConfig{}),
	"nat.NATStats":                reflect.TypeOf(nat.NATStats{}),
	"nat.EIMKey":                  reflect.TypeOf(nat.EIMKey{}),
	"nat.EIMMapping":              reflect.TypeOf(nat.EIMMapping{}),
	"nat.NATSession":              reflect.TypeOf(nat.NATSession{}),
	"nat.natSessionKey":           reflect.TypeOf(nat.NatSessionKeyForVerif{}), // unexported mirror of struct nat_key (verif hook)
	"qos.TokenBucket":             reflect.TypeOf(qos.TokenBucket{}),
	"qos.QoSStats":                reflect.TypeOf(qos.QoSStats{}),
	"antispoof.Config":            reflect.TypeOf(antispoof.Config{}),
	"antispoof.SubscriberBinding": reflect.TypeOf(antispoof.SubscriberBinding{}),
	"antispoof.Stats":             reflect.TypeOf(antispoof.Stats{}),
}

// function-local key types cannot be named from outside their package; they are exercised through the
// real methods that declare them (x antispoof: lpmKey, x nat: natKey)
var localTypes = map[string]string{
	"antispoof.AddAllowedRange.lpmKey": "x antispoof",
	"nat.LookupSession.natKey":         "x nat",
}

// dataLeaves enumerates the settable leaves of v in encoding/binary order (blank fields skipped)
func dataLeaves(v reflect.Value, out *[]reflect.Value) {
	switch v.Kind() {
	case reflect.Struct:
		for i := 0; i < v.NumField(); i++ {
			if v.Type().Field(i).Name == "_" {
				continue
			}
			dataLeaves(v.Field(i), out)
		}
	case reflect.Array:
		k := v.Type().Elem().Kind()
		if k == reflect.Struct || k == reflect.Array {
			for i := 0; i < v.Len(); i++ {
				dataLeaves(v.Index(i), out)
			}
			return
		}
		*out = append(*out, v)
	default:
		*out = append(*out, v)
	}
}

func setLeaf(v reflect.Value, b []byte) error {
	switch v.Kind() {
	case reflect.Uint8, reflect.Uint16, reflect.Uint32, reflect.Uint64:
		if len(b) != int(v.Type().Size()) {
			return fmt.Errorf("leaf wants %d bytes, got %d", v.Type().Size(), len(b))
		}
		var x uint64
		for i := len(b) - 1; i >= 0; i-- {
			x = x<<8 | uint64(b[i])
		}
		v.SetUint(x)
	case reflect.Array:
		es := int(v.Type().Elem().Size())
		if len(b) != es*v.Len() {
			return fmt.Errorf("array leaf wants %d bytes, got %d", es*v.Len(), len(b))
		}
		for i := 0; i < v.Len(); i++ {
			if err := setLeaf(v.Index(i), b[i*es:(i+1)*es]); err != nil {
				return err
			}
		}
	default:
		return fmt.Errorf("unsupported leaf kind %s", v.Kind())
	}
	return nil
}

func getLeaf(v reflect.Value) []byte {
	switch v.Kind() {
	case reflect.Uint8, reflect.Uint16, reflect.Uint32, reflect.Uint64:
		n := int(v.Type().Size())
		b := make([]byte, n)
		x := v.Uint()
		for i := 0; i < n; i++ {
			b[i] = byte(x)
			x >>= 8
		}
		return b
	case reflect.Array:
		var b []byte
		for i := 0; i < v.Len(); i++ {
			b = append(b, getLeaf(v.Index(i))...)
		}
		return b
	}
	return nil
}

func parseLeaves(s string) ([][]byte, error) {
	if s == "" || s == "-" {
		return nil, nil
	}
	var out [][]byte
	for _, p := range strings.Split(s, ",") {
		b, err := hex.DecodeString(p)
		if err != nil {
			return nil, err
		}
		out = append(out, b)
	}
	return out, nil
}

func newValue(typ string, leaves [][]byte) (reflect.Value, error) {
	t, ok := registry[typ]
	if !ok {
		return reflect.Value{}, fmt.Errorf("type %s not in the harness registry", typ)
	}
	p := reflect.New(t)
	var ls []reflect.Value
	dataLeaves(p.Elem(), &ls)
	if len(ls) != len(leaves) {
		return reflect.Value{}, fmt.Errorf("type %s has %d data leaves, op gives %d", typ, len(ls), len(leaves))
	}
	for i := range ls {
		if err := setLeaf(ls[i], leaves[i]); err != nil {
			return reflect.Value{}, err
		}
	}
	return p, nil
}

// ---------------------------------------------------------------------------------------------
// the run: real kernel maps, real managers

type run struct {
	maps    map[string]*ebpf.Map
	loader  *bngebpf.Loader
	natMgr  *nat.Manager
	qosMgr  *qos.Manager
	asMgr   *antispoof.Manager
	runners map[string]*runner
}

type comp struct{}

func (comp) NewRun() hx.Run { return &run{maps: map[string]*ebpf.Map{}} }

func (r *run) Close() {
	for _, m := range r.maps {
		m.Close()
	}
}

// kmap creates (once per sequence) the kernel map `name` exactly as the C source declares it
func (r *run) kmap(name string) (*ebpf.Map, error) {
	if m, ok := r.maps[name]; ok {
		return m, nil
	}
	d, ok := cmaps[name]
	if !ok {
		return nil, fmt.Errorf("map %s not declared in C", name)
	}
	me := d.MaxEntries
	if me > 64 {
		me = 64
	}
	if me == 0 {
		me = 1
	}
	m, err := ebpf.NewMap(&ebpf.MapSpec{Name: "v_" + trunc(name, 13), Type: ebpf.MapType(d.TypeNum), KeySize: uint32(d.KeySize),
		ValueSize: uint32(d.ValSize), MaxEntries: uint32(me), Flags: uint32(d.Flags)})
	if err != nil {
		return nil, fmt.Errorf("bpf(MAP_CREATE) %s type=%s key=%d value=%d: %v", name, d.Type, d.KeySize, d.ValSize, err)
	}
	r.maps[name] = m
	return m, nil
}

func trunc(s string, n int) string {
	if len(s) > n {
		return s[:n]
	}
	return s
}

// clear removes every entry of a hash-like map (arrays are simply overwritten at index 0)
func clear(m *ebpf.Map) {
	if m.Type() == ebpf.Array || m.Type() == ebpf.PerCPUArray {
		return
	}
	for i := 0; i < 1000; i++ {
		k, err := m.NextKeyBytes(nil)
		if err != nil || k == nil {
			return
		}
		if err := m.Delete(k); err != nil {
			return
		}
	}
}

// entries returns the raw (key, value) pairs, sorted by key
func entries(m *ebpf.Map) [][2][]byte {
	var out [][2][]byte
	if m.Type() == ebpf.Array {
		k := make([]byte, 4)
		v, err := m.LookupBytes(k)
		if err == nil && v != nil {
			out = append(out, [2][]byte{k, v})
		}
		return out
	}
	var prev []byte
	for i := 0; i < 1000; i++ {
		var k []byte
		var err error
		if prev == nil {
			k, err = m.NextKeyBytes(nil)
		} else {
			k, err = m.NextKeyBytes(prev)
		}
		if err != nil || k == nil {
			break
		}
		v, err := m.LookupBytes(k)
		if err == nil && v != nil {
			out = append(out, [2][]byte{append([]byte(nil), k...), v})
		}
		prev = append([]byte(nil), k...)
	}
	sort.Slice(out, func(i, j int) bool { return string(out[i][0]) < string(out[j][0]) })
	return out
}

func one(m *ebpf.Map) ([]byte, []byte, bool) {
	e := entries(m)
	if len(e) != 1 {
		return nil, nil, false
	}
	return e[0][0], e[0][1], true
}

func classify(err error) string {
	if err == nil {
		return "ok"
	}
	s := err.Error()
	switch {
	case strings.Contains(s, "marshal key") && strings.Contains(s, "doesn't marshal to"):
		return "err size-key"
	case strings.Contains(s, "marshal value") && strings.Contains(s, "doesn't marshal to"):
		return "err size-value"
	case strings.Contains(s, "doesn't consume all data"), strings.Contains(s, "unmarshal") && strings.Contains(s, "size"):
		return "err size-value"
	case strings.Contains(s, "per-cpu value requires"), strings.Contains(s, "per-CPU"):
		return "err percpu"
	case errors.Is(err, ebpf.ErrKeyNotExist):
		return "notfound"
	}
	return "err " + strings.ReplaceAll(s, " ", "_")
}

// setMapFields points every *ebpf.Map field of the manager that the Go code binds to a kernel map name
// (layout.json "bindings", from the `x = coll.Maps["name"]` assignments) at a real map of that name
func (r *run) setMapFields(mgr any, prefix string) error {
	v := reflect.ValueOf(mgr).Elem()
	mt := reflect.TypeOf((*ebpf.Map)(nil))
	n := 0
	for i := 0; i < v.NumField(); i++ {
		f := v.Field(i)
		if f.Type() != mt {
			continue
		}
		name, ok := layout.Bindings[prefix+"."+v.Type().Field(i).Name]
		if !ok {
			continue
		}
		d := cmaps[name]
		if d.Type == "RINGBUF" || d.Type == "PERF_EVENT_ARRAY" {
			continue
		}
		m, err := r.kmap(name)
		if err != nil {
			return err
		}
		reflect.NewAt(f.Type(), unsafe.Pointer(f.UnsafeAddr())).Elem().Set(reflect.ValueOf(m))
		n++
	}
	if n == 0 {
		return fmt.Errorf("no map handle of %s could be bound", prefix)
	}
	return nil
}

func (r *run) managers() error {
	if r.loader != nil {
		return nil
	}
	log := zap.NewNop()
	l, err := bngebpf.NewLoader("lo", log)
	if err != nil {
		return err
	}
	if err := r.setMapFields(l, "ebpf.Loader"); err != nil {
		return err
	}
	nm, err := nat.NewManager(nat.ManagerConfig{Interface: "lo", EnableHairpin: true, EnableEIM: true}, log)
	if err != nil {
		return err
	}
	if err := r.setMapFields(nm, "nat.Manager"); err != nil {
		return err
	}
	qm, err := qos.NewManager(qos.ManagerConfig{Interface: "lo"}, nil, log)
	if err != nil {
		return err
	}
	if err := r.setMapFields(qm, "qos.Manager"); err != nil {
		return err
	}
	am, err := antispoof.NewManager(antispoof.ManagerConfig{Interface: "lo", DefaultMode: antispoof.ModeStrict}, log)
	if err != nil {
		return err
	}
	if err := r.setMapFields(am, "antispoof.Manager"); err != nil {
		return err
	}
	r.loader, r.natMgr, r.qosMgr, r.asMgr = l, nm, qm, am
	return nil
}

// ---------------------------------------------------------------------------------------------
// native C runners

type runner struct {
	cmd *exec.Cmd
	in  io.WriteCloser
	out *bufio.Reader
}

var runners = map[string]*runner{}

func runnerFor(prog string) *runner {
	rn, ok := runners[prog]
	if !ok {
		dir := os.Getenv("VERIF_CKEYS_DIR")
		if dir == "" {
			fatal("VERIF_CKEYS_DIR is not set")
		}
		cmd := exec.Command(filepath.Join(dir, "ckeys_"+prog))
		in, _ := cmd.StdinPipe()
		out, _ := cmd.StdoutPipe()
		cmd.Stderr = os.Stderr
		if err := cmd.Start(); err != nil {
			fatal("cannot start the native runner for %s: %v", prog, err)
		}
		rn = &runner{cmd: cmd, in: in, out: bufio.NewReaderSize(out, 1<<17)}
		runners[prog] = rn
	}
	return rn
}

func cRun(prog, entry string, frame []byte, canned ...string) (map[string][]string, string) {
	rn := runnerFor(prog)
	line := entry + " " + hex.EncodeToString(frame)
	for _, c := range canned {
		line += " " + c
	}
	if _, err := io.WriteString(rn.in, line+"\n"); err != nil {
		fatal("native runner %s died: %v", prog, err)
	}
	resp, err := rn.out.ReadString('\n')
	if err != nil {
		fatal("native runner %s died on %q: %v", prog, line, err)
	}
	resp = strings.TrimSpace(resp)
	ev := map[string][]string{}
	for _, tok := range strings.Fields(resp) {
		switch {
		case strings.HasPrefix(tok, "ret="):
			ev["ret"] = []string{tok[4:]}
		case strings.HasPrefix(tok, "frame="):
			ev["frame"] = []string{tok[6:]}
		case strings.HasPrefix(tok, "L:"), strings.HasPrefix(tok, "U:"), strings.HasPrefix(tok, "D:"), strings.HasPrefix(tok, "E:"):
			p := strings.SplitN(tok, ":", 3)
			ev[p[0]+":"+p[1]] = append(ev[p[0]+":"+p[1]], p[2])
		}
	}
	return ev, resp
}

func first(ev map[string][]string, k string) string {
	if v := ev[k]; len(v) > 0 {
		return v[0]
	}
	return "none"
}

// ---------------------------------------------------------------------------------------------
// frames

func be16(x int) []byte { return []byte{byte(x >> 8), byte(x)} }

func ethFrame(dst, src []byte, tags [][2]int, payload []byte) []byte {
	f := append(append([]byte{}, dst...), src...)
	for i, t := range tags {
		tpid := 0x8100
		if len(tags) == 2 && i == 0 {
			tpid = 0x88a8
		}
		f = append(f, be16(tpid)...)
		f = append(f, be16(t[0]<<12|t[1])...) // t[0] = pcp*2+dei
	}
	f = append(f, 0x08, 0x00)
	return append(f, payload...)
}

func ipv4(src, dst []byte, proto int, payload []byte) []byte {
	h := []byte{0x45, 0, 0, 0, 0, 0, 0, 0, 64, byte(proto), 0, 0}
	tot := 20 + len(payload)
	h[2], h[3] = byte(tot>>8), byte(tot)
	h = append(h, src...)
	h = append(h, dst...)
	return append(h, payload...)
}

func l4(proto, sport, dport int) []byte {
	if proto == 6 {
		h := append(be16(sport), be16(dport)...)
		h = append(h, 0, 0, 0, 1, 0, 0, 0, 0, 0x50, 0x02, 0xff, 0xff, 0, 0, 0, 0)
		return append(h, []byte("payload-")...)
	}
	h := append(be16(sport), be16(dport)...)
	h = append(h, 0, 16, 0, 0)
	return append(h, []byte("payload-")...)
}

// dhcpFrameCh: an untagged DISCOVER with source MAC `src` and the 16-byte chaddr field `ch`
func dhcpFrameCh(src, ch, opts []byte) []byte {
	f := dhcpFrame(src, nil, opts)
	copy(f[14+20+8+28:14+20+8+44], ch)
	return f
}

func dhcpFrame(mac []byte, tags [][2]int, opts []byte) []byte {
	d := []byte{1, 1, 6, 0, 0x12, 0x34, 0x56, 0x78, 0, 0, 0, 0}
	d = append(d, make([]byte, 16)...) // ciaddr yiaddr siaddr giaddr
	ch := make([]byte, 16)
	copy(ch, mac)
	d = append(d, ch...)
	d = append(d, make([]byte, 192)...)
	d = append(d, 0x63, 0x82, 0x53, 0x63)
	d = append(d, opts...)
	u := append(be16(68), be16(67)...)
	u = append(u, be16(8+len(d))...)
	u = append(u, 0, 0)
	u = append(u, d...)
	return ethFrame([]byte{0xff, 0xff, 0xff, 0xff, 0xff, 0xff}, mac, tags, ipv4([]byte{0, 0, 0, 0}, []byte{255, 255, 255, 255}, 17, u))
}

// ---------------------------------------------------------------------------------------------
// ops

func kv(op string) map[string]string {
	out := map[string]string{}
	for _, t := range strings.Fields(op) {
		if i := strings.Index(t, "="); i > 0 {
			out[t[:i]] = t[i+1:]
		}
	}
	return out
}

func mustHex(s string) []byte {
	if s == "-" || s == "" {
		return nil
	}
	b, err := hex.DecodeString(s)
	if err != nil {
		panic("bad hex " + s)
	}
	return b
}

func hx0(b []byte) string {
	if len(b) == 0 {
		return "-"
	}
	return hex.EncodeToString(b)
}

func (r *run) Do(op string) string {
	f := hx.Fields(op)
	switch f[0] {
	case "new":
		return "ok"
	case "put":
		return r.doPut(f)
	case "get":
		return r.doGet(f)
	case "iter":
		return r.doIter(f)
	case "percpu":
		return r.doPercpu(f)
	case "pget":
		return r.doPget(f)
	case "nput":
		return r.doNput(f)
	case "cfg":
		if len(f) == 4 && f[1] == "antispoof" && f[2] == "setmode" {
			return r.cfgAntispoof(f[3])
		}
		return "badop"
	case "x":
		if err := r.managers(); err != nil {
			return "err setup " + strings.ReplaceAll(err.Error(), " ", "_")
		}
		a := kv(op)
		switch f[1] {
		case "qos":
			return r.xQos(a)
		case "antispoof":
			return r.xAntispoof(a)
		case "dhcp":
			return r.xDhcp(a)
		case "nat":
			return r.xNat(a)
		case "purge":
			return r.xPurge(a)
		case "fnv":
			return r.xFnv(a)
		case "wg":
			return r.xWg(a)
		}
	case "kf":
		if len(f) == 3 && f[1] == "cidraw" {
			fr := dhcpFrame([]byte{2, 0, 0, 0, 0, 9}, nil, mustHex(f[2]))
			ev, _ := cRun("dhcp_fastpath", "dhcp_fastpath_prog", fr)
			return "c=" + first(ev, "L:circuit_id_subscribers")
		}
		return r.doKf(f)
	}
	return "badop"
}

// safeMac runs a conversion of the real code; an index-out-of-range panic on a short address is an observation
func safeMac(f func() string) (out string) {
	defer func() {
		if recover() != nil {
			out = "panic"
		}
	}()
	return f()
}

func le(x uint64, n int) []byte {
	b := make([]byte, n)
	for i := 0; i < n; i++ {
		b[i] = byte(x)
		x >>= 8
	}
	return b
}

// cidOpts is the option area of a DISCOVER whose second option is Option 82 = sub-option 1 (cid) followed by
// `extra` further bytes inside the option, then END and padding (the Lean driver builds the same bytes)
func cidOpts(cid []byte, extra int) []byte {
	o := []byte{53, 1, 1, 82, byte(len(cid) + 2 + extra), 1, byte(len(cid))}
	o = append(o, cid...)
	o = append(o, make([]byte, extra)...)
	o = append(o, 255)
	for len(o) < 80 {
		o = append(o, 0)
	}
	return o
}

// doKf: the REAL Go key derivations on one input, next to the key the natively compiled program derives
//
//	kf cid <cid hex> <extra>            => go=<MakeCircuitIDKey> c=<key looked up by dhcp_fastpath_prog | none>
//	kf mac <6B>                          => go=<MACToUint64, 8 bytes LE> c.dhcp=<…> c.antispoof=<…>
//	kf vlan <s> <c|-> <pcp1> <dei1> <pcp2> <dei2> => go=<key AddVLANSubscriber wrote> c=<key the program looks up>
//	kf ip <4B>                           => go=<IPToUint32, 4 bytes LE>
//	kf fnv <hex>                         => go=<HashCircuitID, 8 bytes LE>
//	kf alg <port> <proto>                => go=<key ConfigureALG wrote> c=<key check_alg_trigger looks up>
func (r *run) doKf(f []string) string {
	if len(f) < 3 {
		return "badop"
	}
	switch f[1] {
	case "cid":
		if len(f) != 4 {
			return "badop"
		}
		cid := mustHex(f[2])
		extra, _ := strconv.Atoi(f[3])
		k := bngebpf.MakeCircuitIDKey(cid)
		ev, _ := cRun("dhcp_fastpath", "dhcp_fastpath_prog", dhcpFrame([]byte{2, 0, 0, 0, 0, 9}, nil, cidOpts(cid, extra)))
		return "go=" + hx0(k[:]) + " c=" + first(ev, "L:circuit_id_subscribers")
	case "mac":
		mac := mustHex(f[2])
		if len(mac) != 6 {
			return "badop"
		}
		g := bngebpf.MACToUint64(net.HardwareAddr(mac))
		evD, _ := cRun("dhcp_fastpath", "dhcp_fastpath_prog", dhcpFrame(mac, nil, append([]byte{53, 1, 1, 255}, make([]byte, 76)...)))
		evA, _ := cRun("antispoof", "antispoof_ingress", ethFrame([]byte{2, 0, 0, 0, 0, 1}, mac, nil, ipv4([]byte{10, 0, 0, 1}, []byte{10, 0, 0, 2}, 17, l4(17, 1, 2))))
		return "go=" + hx0(le(g, 8)) + " c.dhcp=" + first(evD, "L:subscriber_pools") + " c.antispoof=" + first(evA, "L:subscriber_bindings")
	case "vlan":
		if len(f) != 8 {
			return "badop"
		}
		if err := r.managers(); err != nil {
			return "err setup"
		}
		sv, _ := strconv.Atoi(f[2])
		cv := 0
		if f[3] != "-" {
			cv, _ = strconv.Atoi(f[3])
		}
		n := make([]int, 4)
		for i := range n {
			n[i], _ = strconv.Atoi(f[4+i])
		}
		m, err := r.kmap("vlan_subscriber_pools")
		if err != nil {
			return "err map"
		}
		clear(m)
		if err := r.loader.AddVLANSubscriber(uint16(sv), uint16(cv), &bngebpf.PoolAssignment{PoolID: 1}); err != nil {
			return classify(err)
		}
		k, _, ok := one(m)
		if !ok {
			return "err readback"
		}
		tags := [][2]int{{n[0]*2 + n[1], sv}}
		if f[3] != "-" {
			tags = append(tags, [2]int{n[2]*2 + n[3], cv})
		}
		ev, _ := cRun("dhcp_fastpath", "dhcp_fastpath_prog", dhcpFrame([]byte{2, 0, 0, 0, 0, 9}, tags, append([]byte{53, 1, 1, 255}, make([]byte, 76)...)))
		return "go=" + hx0(k) + " c=" + first(ev, "L:vlan_subscriber_pools")
	case "macn":
		// kf macn <hardware address, 0..20 bytes>: EVERY Go MAC->uint64 conversion of the repository and its reverse,
		// next to the key the programs derive (mac_to_u64 always reads six bytes: chaddr / h_source, zero padded)
		mac := mustHex(f[2])
		var parts []string
		for _, n := range layout.MacToU64 {
			parts = append(parts, "go:"+n+"="+safeMac(func() string { return hx0(le(macToU64[n](net.HardwareAddr(mac)), 8)) }))
		}
		for _, n := range layout.U64ToMac {
			parts = append(parts, "back:"+n+"="+safeMac(func() string {
				return hx0(u64ToMac[n](macToU64[macPair[n]](net.HardwareAddr(mac))))
			}))
		}
		six := make([]byte, 6)
		copy(six, mac)
		ch := make([]byte, 16)
		copy(ch, mac)
		evD, _ := cRun("dhcp_fastpath", "dhcp_fastpath_prog", dhcpFrameCh(six, ch, append([]byte{53, 1, 1, 255}, make([]byte, 76)...)))
		evA, _ := cRun("antispoof", "antispoof_ingress", ethFrame([]byte{2, 0, 0, 0, 0, 1}, six, nil, ipv4([]byte{10, 0, 0, 1}, []byte{10, 0, 0, 2}, 17, l4(17, 1, 2))))
		return strings.Join(parts, " ") + " c.dhcp=" + first(evD, "L:subscriber_pools") + " c.antispoof=" + first(evA, "L:subscriber_bindings")
	case "ip":
		ip := mustHex(f[2])
		if len(ip) != 4 {
			return "badop"
		}
		return "go=" + hx0(le(uint64(bngebpf.IPToUint32(net.IP(ip))), 4))
	case "fnv":
		return "go=" + hx0(le(bngebpf.HashCircuitID(mustHex(f[2])), 8))
	case "alg":
		if len(f) != 4 {
			return "badop"
		}
		if err := r.managers(); err != nil {
			return "err setup"
		}
		port, _ := strconv.Atoi(f[2])
		proto, _ := strconv.Atoi(f[3])
		m, err := r.kmap("alg_ports")
		if err != nil {
			return "err map"
		}
		clear(m)
		if err := r.natMgr.ConfigureALG(uint16(port), uint8(proto), 1, true); err != nil {
			return classify(err)
		}
		k, _, ok := one(m)
		if !ok {
			return "err readback"
		}
		fr := ethFrame([]byte{2, 0, 0, 0, 0, 1}, []byte{2, 0, 0, 0, 0, 2}, nil, ipv4([]byte{10, 0, 0, 9}, []byte{192, 0, 2, 1}, proto, l4(proto, 40000, port)))
		ev, _ := cRun("nat44", "nat44_egress", fr, "nat_config_map=1f000000"+"0004ffff"+"00040000"+"00000000",
			"subscriber_nat="+strings.Repeat("00", cmaps["subscriber_nat"].ValSize), "nat_stats_map="+strings.Repeat("00", cmaps["nat_stats_map"].ValSize))
		return "go=" + hx0(k) + " c=" + first(ev, "L:alg_ports")
	}
	return "badop"
}

func (r *run) doPut(f []string) string {
	if len(f) != 6 {
		return "badop"
	}
	a := kv(strings.Join(f[4:], " "))
	kl, err1 := parseLeaves(a["k"])
	vl, err2 := parseLeaves(a["v"])
	if err1 != nil || err2 != nil {
		return "badop"
	}
	m, err := r.kmap(f[1])
	if err != nil {
		return "err " + strings.ReplaceAll(err.Error(), " ", "_")
	}
	k, err := newValue(f[2], kl)
	if err != nil {
		return "badop " + strings.ReplaceAll(err.Error(), " ", "_")
	}
	v, err := newValue(f[3], vl)
	if err != nil {
		return "badop " + strings.ReplaceAll(err.Error(), " ", "_")
	}
	clear(m)
	if err := m.Put(k.Interface(), v.Interface()); err != nil {
		return classify(err)
	}
	var rk, rv []byte
	if m.Type() == ebpf.Array {
		// the index written is the little-endian value of the key: read that slot
		rk = make([]byte, 4)
		binary.LittleEndian.PutUint32(rk, uint32(k.Elem().Uint()))
		rv, err = m.LookupBytes(rk)
		if err != nil || rv == nil {
			return "err readback"
		}
	} else {
		var ok bool
		rk, rv, ok = one(m)
		if !ok {
			return "err readback"
		}
	}
	return "k=" + hx0(rk) + " v=" + hx0(rv)
}

func (r *run) doGet(f []string) string {
	if len(f) != 6 {
		return "badop"
	}
	a := kv(strings.Join(f[4:], " "))
	m, err := r.kmap(f[1])
	if err != nil {
		return "err " + strings.ReplaceAll(err.Error(), " ", "_")
	}
	rk, rv := mustHex(a["rawk"]), mustHex(a["rawv"])
	clear(m)
	if err := m.Put(rk, rv); err != nil {
		return "err rawput " + strings.ReplaceAll(err.Error(), " ", "_")
	}
	// the typed key that marshals to rawk: decode rawk through the Go key type, then look up with it
	k, err := newValue(f[2], nil)
	if err != nil {
		kt, ok := registry[f[2]]
		if !ok {
			return "badop " + strings.ReplaceAll(err.Error(), " ", "_")
		}
		k = reflect.New(kt)
	}
	if binary.Size(k.Interface()) == len(rk) {
		_ = binary.Read(strings.NewReader(string(rk)), binary.LittleEndian, k.Interface())
	}
	vt, ok := registry[f[3]]
	if !ok {
		return "badop type"
	}
	v := reflect.New(vt)
	if err := m.Lookup(k.Interface(), v.Interface()); err != nil {
		return classify(err)
	}
	var ls []reflect.Value
	dataLeaves(v.Elem(), &ls)
	var parts []string
	for _, l := range ls {
		parts = append(parts, hx0(getLeaf(l)))
	}
	return "v=" + strings.Join(parts, ",")
}

// pget <map> <keyType> <valType> rawv=<hex>: a per-CPU map read the way cilium supports it — into a slice with one
// element per possible CPU; CPU 0 holds rawv (as the program would have written it), the leaves Go decodes are printed
func (r *run) doPget(f []string) string {
	if len(f) != 5 {
		return "badop"
	}
	a := kv(f[4])
	m, err := r.kmap(f[1])
	if err != nil {
		return "err " + strings.ReplaceAll(err.Error(), " ", "_")
	}
	vt, ok := registry[f[3]]
	kt, ok2 := registry[f[2]]
	if !ok || !ok2 {
		return "badop type"
	}
	ncpu := possibleCPUs()
	if ncpu <= 0 {
		return "err ncpu"
	}
	rv := mustHex(a["rawv"])
	vals := make([][]byte, ncpu)
	for i := range vals {
		vals[i] = make([]byte, len(rv))
	}
	copy(vals[0], rv)
	k := reflect.New(kt)
	if err := m.Put(k.Interface(), vals); err != nil {
		return "err rawput " + strings.ReplaceAll(err.Error(), " ", "_")
	}
	sl := reflect.New(reflect.SliceOf(vt))
	if err := m.Lookup(k.Interface(), sl.Interface()); err != nil {
		return classify(err)
	}
	if sl.Elem().Len() != ncpu {
		return "err ncpu"
	}
	var ls []reflect.Value
	dataLeaves(sl.Elem().Index(0), &ls)
	var parts []string
	for _, l := range ls {
		parts = append(parts, hx0(getLeaf(l)))
	}
	return "v=" + strings.Join(parts, ",")
}

// cDecode asks the natively compiled C code what it reads out of `raw` as `struct name`, member by member
// (ckeys_main.c `@decode`, decoders generated by extractlayout): "c.<member>=<decimal | x<hex>> …"
func cDecode(name string, raw []byte) string {
	seen := map[string]bool{}
	for _, p := range layout.Progs {
		if seen[p.File] {
			continue
		}
		seen[p.File] = true
		rn := runnerFor(p.File)
		if _, err := io.WriteString(rn.in, "@decode "+name+" "+hex.EncodeToString(raw)+"\n"); err != nil {
			fatal("native runner %s died: %v", p.File, err)
		}
		resp, err := rn.out.ReadString('\n')
		if err != nil {
			fatal("native runner %s died on @decode: %v", p.File, err)
		}
		resp = strings.TrimSpace(resp)
		if strings.HasPrefix(resp, "error decode struct") {
			continue
		}
		if !strings.HasPrefix(resp, "dec") {
			return "c.err=" + strings.ReplaceAll(resp, " ", "_")
		}
		var parts []string
		for _, t := range strings.Fields(resp)[1:] {
			parts = append(parts, "c."+t)
		}
		return strings.Join(parts, " ")
	}
	return "c.err=no_decoder_for_" + name
}

func setByName(v reflect.Value, path string, val string) error {
	for _, part := range strings.Split(path, ".") {
		if v.Kind() != reflect.Struct {
			return fmt.Errorf("%s: not a struct", path)
		}
		v = v.FieldByName(part)
		if !v.IsValid() {
			return fmt.Errorf("no field %s", path)
		}
	}
	if strings.HasPrefix(val, "x") {
		b, err := hex.DecodeString(val[1:])
		if err != nil {
			return err
		}
		return setLeaf(v, b)
	}
	n, err := strconv.ParseUint(val, 10, 64)
	if err != nil {
		return err
	}
	switch v.Kind() {
	case reflect.Uint8, reflect.Uint16, reflect.Uint32, reflect.Uint64:
		v.SetUint(n)
		return nil
	}
	return fmt.Errorf("field %s is not an unsigned integer", path)
}

func (r *run) valStructName(mapName string) string {
	return strings.TrimPrefix(cmaps[mapName].ValType, "struct ")
}

// nput <map> <keyType> <valType> k=<leaf,…> <GoField>=<value> …: a value whose fields are set BY GO NAME through the
// real Go type, written through cilium into the real map; the raw bytes and what the compiled C code reads out of
// them member by member
func (r *run) doNput(f []string) string {
	if len(f) < 5 {
		return "badop"
	}
	m, err := r.kmap(f[1])
	if err != nil {
		return "err " + strings.ReplaceAll(err.Error(), " ", "_")
	}
	kl, err := parseLeaves(strings.TrimPrefix(f[4], "k="))
	if err != nil {
		return "badop"
	}
	k, err := newValue(f[2], kl)
	if err != nil {
		return "badop " + strings.ReplaceAll(err.Error(), " ", "_")
	}
	vt, ok := registry[f[3]]
	if !ok || vt.Kind() != reflect.Struct {
		return "badop type"
	}
	v := reflect.New(vt)
	for _, a := range f[5:] {
		name, val, ok := strings.Cut(a, "=")
		if !ok {
			return "badop"
		}
		if err := setByName(v.Elem(), name, val); err != nil {
			return "badop " + strings.ReplaceAll(err.Error(), " ", "_")
		}
	}
	clear(m)
	if err := m.Put(k.Interface(), v.Interface()); err != nil {
		return classify(err)
	}
	var rv []byte
	if m.Type() == ebpf.Array {
		rk := make([]byte, 4)
		binary.LittleEndian.PutUint32(rk, uint32(k.Elem().Uint()))
		rv, err = m.LookupBytes(rk)
		if err != nil || rv == nil {
			return "err readback"
		}
	} else {
		var ok bool
		_, rv, ok = one(m)
		if !ok {
			return "err readback"
		}
	}
	return "v=" + hx0(rv) + " " + cDecode(r.valStructName(f[1]), rv)
}

// cfg antispoof setmode <n>: the REAL Manager.SetMode on the real antispoof_config map; the bytes it wrote and
// the default_mode / log_violations the compiled C code reads out of them
func (r *run) cfgAntispoof(mode string) string {
	if err := r.managers(); err != nil {
		return "err setup"
	}
	n, err := strconv.Atoi(mode)
	if err != nil {
		return "badop"
	}
	m, err := r.kmap("antispoof_config")
	if err != nil {
		return "err map"
	}
	if err := m.Put(uint32(0), make([]byte, cmaps["antispoof_config"].ValSize)); err != nil {
		return "err reset"
	}
	if err := r.asMgr.SetMode(antispoof.Mode(n)); err != nil {
		return classify(err)
	}
	rv, err := m.LookupBytes(uint32(0))
	if err != nil || rv == nil {
		return "err readback"
	}
	return "v=" + hx0(rv) + " " + cDecode(r.valStructName("antispoof_config"), rv)
}

// possibleCPUs parses /sys/devices/system/cpu/possible ("0-15", "0,2-3")
func possibleCPUs() int {
	b, err := os.ReadFile("/sys/devices/system/cpu/possible")
	if err != nil {
		return -1
	}
	n := 0
	for _, part := range strings.Split(strings.TrimSpace(string(b)), ",") {
		lo, hi, ok := strings.Cut(part, "-")
		a, err1 := strconv.Atoi(lo)
		z := a
		var err2 error
		if ok {
			z, err2 = strconv.Atoi(hi)
		}
		if err1 != nil || err2 != nil {
			return -1
		}
		n += z - a + 1
	}
	return n
}

func (r *run) doPercpu(f []string) string {
	if len(f) != 2 {
		return "badop"
	}
	if err := r.managers(); err != nil {
		return "err setup " + strings.ReplaceAll(err.Error(), " ", "_")
	}
	var err error
	switch f[1] {
	case "nat":
		_, err = r.natMgr.GetStats()
	case "qos":
		_, err = r.qosMgr.GetStats()
	case "antispoof":
		_, err = r.asMgr.GetStats()
	default:
		return "badop"
	}
	return classify(err)
}

func slice(b []byte, off, w int) []byte {
	if off+w > len(b) {
		return nil
	}
	return b[off : off+w]
}

func (r *run) valLeaf(mapName string, v []byte, leaf string) string {
	o, w := cLeaf(mapName, leaf)
	return hx0(slice(v, o, w))
}

// x qos ip=<4B>: SetSubscriberQoS on real maps vs the keys qos_egress_prog / qos_ingress_prog look up
func (r *run) xQos(a map[string]string) string {
	ip := mustHex(a["ip"])
	eg, _ := r.kmap("qos_egress")
	in, _ := r.kmap("qos_ingress")
	clear(eg)
	clear(in)
	err := r.qosMgr.SetSubscriberQoS(&qos.SubscriberQoS{IP: net.IP(ip), DownloadBPS: 8000000, UploadBPS: 1000000, Priority: 3})
	if err != nil {
		return classify(err)
	}
	ke, _, ok1 := one(eg)
	ki, _, ok2 := one(in)
	if !ok1 || !ok2 {
		return "err readback"
	}
	other := []byte{198, 51, 100, 7}
	mac1, mac2 := []byte{2, 0, 0, 0, 0, 1}, []byte{2, 0, 0, 0, 0, 2}
	evE, _ := cRun("qos_ratelimit", "qos_egress_prog", ethFrame(mac1, mac2, nil, ipv4(other, ip, 17, l4(17, 1000, 2000))))
	evI, _ := cRun("qos_ratelimit", "qos_ingress_prog", ethFrame(mac2, mac1, nil, ipv4(ip, other, 17, l4(17, 2000, 1000))))
	return fmt.Sprintf("go.egress=%s go.ingress=%s c.egress=%s c.ingress=%s", hx0(ke), hx0(ki), first(evE, "L:qos_egress"), first(evI, "L:qos_ingress"))
}

// x antispoof mac=<6B> ip=<4B> plen=<n> [form=16]   (form=16: AddAllowedRange gets the network address in 16-byte form)
func (r *run) xAntispoof(a map[string]string) string {
	mac, ip := mustHex(a["mac"]), mustHex(a["ip"])
	plen, _ := strconv.Atoi(a["plen"])
	bm, _ := r.kmap("subscriber_bindings")
	rm, _ := r.kmap("allowed_ranges_v4")
	clear(bm)
	clear(rm)
	if err := r.asMgr.AddBinding(net.HardwareAddr(mac), net.IP(ip)); err != nil {
		return classify(err)
	}
	mask := net.CIDRMask(plen, 32)
	nip := net.IP(ip).Mask(mask)
	if a["form"] == "16" { // the same IPv4 network with its address in 16-byte form (net.IPv4(…), what net.ParseCIDR / To16 give)
		nip = nip.To16()
	}
	if err := r.asMgr.AddAllowedRange(&net.IPNet{IP: nip, Mask: mask}); err != nil {
		return classify(err)
	}
	bk, bv, ok1 := one(bm)
	lk, _, ok2 := one(rm)
	if !ok1 || !ok2 {
		return "err readback"
	}
	fr := ethFrame([]byte{2, 0, 0, 0, 0, 1}, mac, nil, ipv4(ip, []byte{198, 51, 100, 7}, 17, l4(17, 2000, 1000)))
	// run 1: unknown MAC, loose default mode: the program looks the MAC and the source address up
	ev1, _ := cRun("antispoof", "antispoof_ingress", fr, "antispoof_config=0200000000000000")
	// run 2: the binding Go wrote, strict mode: does the subscriber's own address pass?
	ev2, _ := cRun("antispoof", "antispoof_ingress", fr, "antispoof_config=0100000000000000", "subscriber_bindings="+hex.EncodeToString(bv))
	return fmt.Sprintf("go.k=%s c.k=%s go.ipv4_addr=%s go.lpm=%s c.lpm=%s c.strict=%s", hx0(bk), first(ev1, "L:subscriber_bindings"),
		r.valLeaf("subscriber_bindings", bv, "ipv4_addr"), hx0(lk), first(ev1, "L:allowed_ranges_v4"), first(ev2, "ret"))
}

// x dhcp mac= s=<vid|-> c=<vid|-> cid=<hex|-> ip= gw= dns1= dns2= srv=
func (r *run) xDhcp(a map[string]string) string {
	mac, ip := mustHex(a["mac"]), mustHex(a["ip"])
	gw, d1, d2, srv := mustHex(a["gw"]), mustHex(a["dns1"]), mustHex(a["dns2"]), mustHex(a["srv"])
	cid := mustHex(a["cid"])
	names := []string{"subscriber_pools", "vlan_subscriber_pools", "circuit_id_subscribers", "ip_pools", "server_config"}
	ms := map[string]*ebpf.Map{}
	for _, n := range names {
		m, err := r.kmap(n)
		if err != nil {
			return "err " + strings.ReplaceAll(err.Error(), " ", "_")
		}
		clear(m)
		ms[n] = m
	}
	pa := &bngebpf.PoolAssignment{PoolID: 1, AllocatedIP: bngebpf.IPToUint32(net.IP(ip)), ClientClass: 1, LeaseExpiry: 1 << 40}
	if err := r.loader.AddSubscriber(bngebpf.MACToUint64(net.HardwareAddr(mac)), pa); err != nil {
		return "AddSubscriber:" + classify(err)
	}
	var tags [][2]int
	goVlan, goCid := "-", "-"
	if a["s"] != "-" {
		s, _ := strconv.Atoi(a["s"])
		c := 0
		if a["c"] != "-" {
			c, _ = strconv.Atoi(a["c"])
		}
		if err := r.loader.AddVLANSubscriber(uint16(s), uint16(c), pa); err != nil {
			return "AddVLANSubscriber:" + classify(err)
		}
		k, _, _ := one(ms["vlan_subscriber_pools"])
		goVlan = hx0(k)
		tags = append(tags, [2]int{10, s}) // pcp 5, dei 0
		if a["c"] != "-" {
			tags = append(tags, [2]int{6, c}) // pcp 3, dei 0
		}
	}
	if a["cid"] != "-" {
		if err := r.loader.AddCircuitIDSubscriber(cid, pa); err != nil {
			return "AddCircuitIDSubscriber:" + classify(err)
		}
		k, _, _ := one(ms["circuit_id_subscribers"])
		goCid = hx0(k)
	}
	pool := &bngebpf.IPPool{Network: bngebpf.IPToUint32(net.IP(gw).Mask(net.CIDRMask(24, 32))), PrefixLen: 24,
		Gateway: bngebpf.IPToUint32(net.IP(gw)), DNSPrimary: bngebpf.IPToUint32(net.IP(d1)), DNSSecondary: bngebpf.IPToUint32(net.IP(d2)), LeaseTime: 3600}
	if err := r.loader.AddPool(1, pool); err != nil {
		return "AddPool:" + classify(err)
	}
	if err := r.loader.SetServerConfig(net.HardwareAddr{2, 0, 0, 0, 0, 0xfe}, net.IP(srv), 1); err != nil {
		return "SetServerConfig:" + classify(err)
	}
	mk, mv, ok := one(ms["subscriber_pools"])
	_, pv, ok2 := one(ms["ip_pools"])
	_, sv, ok3 := one(ms["server_config"])
	if !ok || !ok2 || !ok3 {
		return "err readback"
	}
	opts := []byte{53, 1, 1}
	if a["cid"] != "-" {
		opts = append(opts, 82, byte(len(cid)+2), 1, byte(len(cid)))
		opts = append(opts, cid...)
	}
	opts = append(opts, 255)
	for len(opts) < 80 {
		opts = append(opts, 0)
	}
	fr := dhcpFrame(mac, tags, opts)
	ev1, _ := cRun("dhcp_fastpath", "dhcp_fastpath_prog", fr)
	cVlan, cCid := "-", "-"
	if a["s"] != "-" {
		cVlan = first(ev1, "L:vlan_subscriber_pools")
	}
	if a["cid"] != "-" {
		cCid = first(ev1, "L:circuit_id_subscribers")
	}
	// run 2: hit on the MAC with the values Go wrote: what does the reply carry?
	ev2, _ := cRun("dhcp_fastpath", "dhcp_fastpath_prog", dhcpFrame(mac, nil, opts), "subscriber_pools="+hex.EncodeToString(mv),
		"ip_pools="+hex.EncodeToString(pv), "server_config="+hex.EncodeToString(sv), "stats_map="+strings.Repeat("00", 80))
	rf := mustHex(first(ev2, "frame"))
	d := 14 + 20 + 8 // untagged reply
	yi, si, sid, rt, dn := "-", "-", "-", "-", "-"
	if first(ev2, "ret") == "3" && len(rf) >= d+240+37 {
		yi, si = hx0(rf[d+16:d+20]), hx0(rf[d+20:d+24])
		o := rf[d+240:]
		sid, rt, dn = hx0(o[5:9]), hx0(o[23:27]), hx0(o[29:37])
	}
	// runs 3/4: the same assignment reached through the VLAN map / the circuit-id map
	yiV, yiC := "-", "-"
	hit := func(fr []byte, mapName string, ntags int) string {
		_, v, ok := one(ms[mapName])
		if !ok {
			return "nokey"
		}
		ev, _ := cRun("dhcp_fastpath", "dhcp_fastpath_prog", fr, mapName+"="+hex.EncodeToString(v),
			"ip_pools="+hex.EncodeToString(pv), "server_config="+hex.EncodeToString(sv), "stats_map="+strings.Repeat("00", 80))
		f := mustHex(first(ev, "frame"))
		o := 14 + 4*ntags + 20 + 8
		if first(ev, "ret") != "3" || len(f) < o+20 {
			return "ret" + first(ev, "ret")
		}
		return hx0(f[o+16 : o+20])
	}
	if a["s"] != "-" {
		yiV = hit(fr, "vlan_subscriber_pools", len(tags))
	}
	if a["cid"] != "-" {
		yiC = hit(dhcpFrame(mac, nil, opts), "circuit_id_subscribers", 0)
	}
	return fmt.Sprintf("go.mac=%s c.mac=%s go.vlan=%s c.vlan=%s go.cid=%s c.cid=%s go.allocated_ip=%s go.gateway=%s go.dns=%s%s go.server_ip=%s c.ret=%s c.yiaddr=%s c.siaddr=%s c.serverid=%s c.router=%s c.dns=%s c.yiaddr.vlan=%s c.yiaddr.cid=%s",
		hx0(mk), first(ev1, "L:subscriber_pools"), goVlan, cVlan, goCid, cCid,
		r.valLeaf("subscriber_pools", mv, "allocated_ip"), r.valLeaf("ip_pools", pv, "gateway"),
		r.valLeaf("ip_pools", pv, "dns_primary"), r.valLeaf("ip_pools", pv, "dns_secondary"), r.valLeaf("server_config", sv, "server_ip"),
		first(ev2, "ret"), yi, si, sid, rt, dn, yiV, yiC)
}

// x nat priv= pub= dst= sport= dport= proto=
func (r *run) xNat(a map[string]string) string {
	priv, pub, dst := mustHex(a["priv"]), mustHex(a["pub"]), mustHex(a["dst"])
	sport, _ := strconv.Atoi(a["sport"])
	dport, _ := strconv.Atoi(a["dport"])
	proto, _ := strconv.Atoi(a["proto"])
	ms := map[string]*ebpf.Map{}
	for _, n := range []string{"hairpin_ips", "subscriber_nat", "alg_ports", "nat_sessions", "eim_table"} {
		m, err := r.kmap(n)
		if err != nil {
			return "err " + strings.ReplaceAll(err.Error(), " ", "_")
		}
		clear(m)
		ms[n] = m
	}
	// a fresh manager per op: the pool and allocation tables are in-memory state of the manager
	nm, err := nat.NewManager(nat.ManagerConfig{Interface: "lo", EnableHairpin: true, EnableEIM: true}, zap.NewNop())
	if err != nil {
		return "err " + err.Error()
	}
	if err := r.setMapFields(nm, "nat.Manager"); err != nil {
		return "err " + strings.ReplaceAll(err.Error(), " ", "_")
	}
	if err := nm.AddPublicIP(net.IP(pub)); err != nil {
		return "AddPublicIP:" + classify(err)
	}
	hk, _, _ := one(ms["hairpin_ips"])
	if _, err := nm.AllocateNAT(net.IP(priv)); err != nil {
		return "AllocateNAT:" + classify(err)
	}
	sk, sv, ok := one(ms["subscriber_nat"])
	if !ok {
		return "err readback"
	}
	if err := nm.ConfigureALG(uint16(dport), uint8(proto), 1, true); err != nil {
		return "ConfigureALG:" + classify(err)
	}
	ak, av, _ := one(ms["alg_ports"])
	fr := ethFrame([]byte{2, 0, 0, 0, 0, 1}, []byte{2, 0, 0, 0, 0, 2}, nil, ipv4(priv, dst, proto, l4(proto, sport, dport)))
	cfg := "nat_config_map=1f000000" + "0004ffff" + "00040000" + "00000000"
	ev, _ := cRun("nat44", "nat44_egress", fr, cfg, "subscriber_nat="+hex.EncodeToString(sv), "nat_stats_map="+strings.Repeat("00", 104))
	// the session and the EIM mapping the program created go into the real maps; can Go find them?
	goLookup, goEim := "nosession", "nomapping"
	if u := ev["U:nat_sessions"]; len(u) > 0 {
		p := strings.SplitN(u[0], ":", 2)
		if err := ms["nat_sessions"].Put(mustHex(p[0]), mustHex(p[1])); err != nil {
			goLookup = "err rawput"
		} else {
			_, err := nm.LookupSession(net.IP(priv), net.IP(dst), uint16(sport), uint16(dport), uint8(proto))
			goLookup = found(err)
		}
	}
	if u := ev["U:eim_table"]; len(u) > 0 {
		p := strings.SplitN(u[0], ":", 2)
		if err := ms["eim_table"].Put(mustHex(p[0]), mustHex(p[1])); err != nil {
			goEim = "err rawput"
		} else {
			_, err := nm.GetEIMMapping(net.IP(priv), uint16(sport), uint8(proto))
			goEim = found(err)
		}
	}
	rf := mustHex(first(ev, "frame"))
	snat, snatPort := "-", "-"
	if len(rf) >= 36 {
		snat, snatPort = hx0(rf[26:30]), hx0(rf[34:36])
	}
	// READ-BACK: the session / mapping the program created, stored under the key the Go lookup computes (so that the
	// value is decoded even though the key conventions differ); what does Go present for its addresses and ports?
	be32 := func(x uint32) string { return hx0([]byte{byte(x >> 24), byte(x >> 16), byte(x >> 8), byte(x)}) }
	goIP := func(ip []byte) []byte { return le(uint64(binary.BigEndian.Uint32(ip)), 4) }
	rd := "rd=nosession"
	if u := ev["U:nat_sessions"]; len(u) > 0 {
		p := strings.SplitN(u[0], ":", 2)
		gk := append(append(append(append(goIP(priv), goIP(dst)...), le(uint64(sport), 2)...), le(uint64(dport), 2)...), byte(proto), 0, 0, 0)
		clear(ms["nat_sessions"])
		if err := ms["nat_sessions"].Put(gk, mustHex(p[1])); err != nil {
			rd = "rd=err_rawput"
		} else if se, err := nm.LookupSession(net.IP(priv), net.IP(dst), uint16(sport), uint16(dport), uint8(proto)); err != nil {
			rd = "rd=" + strings.ReplaceAll(classify(err), " ", "_")
		} else {
			rd = fmt.Sprintf("rd.nat_ip=%s rd.orig_ip=%s rd.dest_ip=%s rd.nat_port=%04x rd.orig_port=%04x rd.dest_port=%04x",
				be32(se.NatIP), be32(se.OrigIP), be32(se.DestIP), se.NatPort, se.OrigPort, se.DestPort)
		}
	}
	rde := "rde=nomapping"
	if u := ev["U:eim_table"]; len(u) > 0 {
		p := strings.SplitN(u[0], ":", 2)
		gk := append(append(goIP(priv), le(uint64(sport), 2)...), byte(proto), 0)
		clear(ms["eim_table"])
		if err := ms["eim_table"].Put(gk, mustHex(p[1])); err != nil {
			rde = "rde=err_rawput"
		} else if em, err := nm.GetEIMMapping(net.IP(priv), uint16(sport), uint8(proto)); err != nil {
			rde = "rde=" + strings.ReplaceAll(classify(err), " ", "_")
		} else {
			rde = fmt.Sprintf("rde.external_ip=%s rde.external_port=%04x", be32(em.ExternalIP), em.ExternalPort)
		}
	}
	sessK := "none"
	if u := ev["U:nat_sessions"]; len(u) > 0 {
		sessK = strings.SplitN(u[0], ":", 2)[0]
	}
	eimK := "none"
	if u := ev["U:eim_table"]; len(u) > 0 {
		eimK = strings.SplitN(u[0], ":", 2)[0]
	}
	return fmt.Sprintf("go.hairpin=%s go.sub.k=%s go.sub.public_ip=%s go.alg.k=%s go.alg.v=%s c.sub.k=%s c.alg.k=%s c.hairpin.k=%s c.sess.k=%s c.eim.k=%s c.ret=%s c.snat_src=%s c.snat_port=%s go.lookup=%s go.eim=%s %s %s",
		hx0(hk), hx0(sk), r.valLeaf("subscriber_nat", sv, "block.public_ip"), hx0(ak), hx0(av),
		first(ev, "L:subscriber_nat"), first(ev, "L:alg_ports"), first(ev, "L:hairpin_ips"), sessK, eimK, first(ev, "ret"), snat, snatPort, goLookup, goEim, rd, rde)
}

func found(err error) string {
	if err == nil {
		return "found"
	}
	return classify(err)
}

// x fnv cid=<hex> mac=<6B>: circuit_id_map entry written by AddCircuitIDMapping
func (r *run) xFnv(a map[string]string) string {
	m, err := r.kmap("circuit_id_map")
	if err != nil {
		return "err " + strings.ReplaceAll(err.Error(), " ", "_")
	}
	clear(m)
	if err := r.loader.AddCircuitIDMapping(mustHex(a["cid"]), bngebpf.MACToUint64(net.HardwareAddr(mustHex(a["mac"])))); err != nil {
		return classify(err)
	}
	k, v, ok := one(m)
	if !ok {
		return "err readback"
	}
	return "go.k=" + hx0(k) + " go.v=" + hx0(v)
}

// x wg ip=<4B> port=<n>: the portal entry walledgarden.Start() writes (Go-side sizes: no C declaration exists)
func (r *run) xWg(a map[string]string) string {
	port, _ := strconv.Atoi(a["port"])
	sub, err := ebpf.NewMap(&ebpf.MapSpec{Type: ebpf.Hash, KeySize: 8, ValueSize: 20, MaxEntries: 8})
	if err != nil {
		return "err mapcreate"
	}
	defer sub.Close()
	dst, err := ebpf.NewMap(&ebpf.MapSpec{Type: ebpf.Hash, KeySize: 8, ValueSize: 12, MaxEntries: 8})
	if err != nil {
		return "err mapcreate"
	}
	defer dst.Close()
	m := walledgarden.NewManager(walledgarden.Config{PortalIP: net.IP(mustHex(a["ip"])), PortalPort: uint16(port), DefaultTimeout: 1 << 40}, zap.NewNop())
	m.SetEBPFMaps(sub, dst, nil)
	if err := m.Start(); err != nil {
		return classify(err)
	}
	_ = m.Stop()
	k, v, ok := one(dst)
	if !ok {
		return "err readback"
	}
	return "go.k=" + hx0(k) + " go.v=" + hx0(v)
}

// ---------------------------------------------------------------------------------------------
// generator

func rbytes(r *rand.Rand, n int) []byte {
	b := make([]byte, n)
	switch r.Intn(6) {
	case 0:
		for i := range b {
			b[i] = 0xff
		}
	case 1: // a single 1 in the most significant byte
		b[n-1] = 0x80
	case 2:
		b[0] = 1
	default:
		r.Read(b)
	}
	return b
}

func leavesFor(r *rand.Rand, s *jStruct, mode int, hot int) string {
	var parts []string
	i := 0
	for _, f := range s.Fields {
		if f.Norm == "_" {
			continue
		}
		var b []byte
		switch mode {
		case 0:
			b = rbytes(r, f.Width)
		case 1: // walking field: only leaf `hot` is non-zero
			b = make([]byte, f.Width)
			if i == hot {
				for j := range b {
					b[j] = 0xff
				}
			}
		}
		parts = append(parts, hex.EncodeToString(b))
		i++
	}
	if len(parts) == 0 {
		return "-"
	}
	return strings.Join(parts, ",")
}

func nData(s *jStruct) int {
	n := 0
	for _, f := range s.Fields {
		if f.Norm != "_" {
			n++
		}
	}
	return n
}

func keyFor(r *rand.Rand, m jMap, s *jStruct) string {
	switch m.Type {
	case "ARRAY", "PERCPU_ARRAY":
		return strings.Repeat("00", s.Size) // index 0
	case "LPM_TRIE":
		// prefixlen ≤ 32 followed by data
		var parts []string
		for i, f := range s.Fields {
			if f.Norm == "_" {
				continue
			}
			b := rbytes(r, f.Width)
			if i == 0 {
				b = []byte{byte(r.Intn(33)), 0, 0, 0}
			}
			parts = append(parts, hex.EncodeToString(b))
		}
		return strings.Join(parts, ",")
	}
	return leavesFor(r, s, 0, 0)
}

var privNets = [][]byte{{10, 0, 0, 0}, {172, 16, 0, 0}, {192, 168, 0, 0}, {100, 64, 0, 0}, {10, 200, 0, 0}}

func randIP(r *rand.Rand) []byte {
	switch r.Intn(8) {
	case 0:
		return []byte{10, 0, 1, 5}
	case 1:
		x := byte(1 + r.Intn(250))
		y := byte(r.Intn(256))
		return []byte{x, y, y, x} // palindromic: both byte orders coincide
	case 2:
		return []byte{192, 0, 2, byte(1 + r.Intn(250))}
	}
	return []byte{byte(1 + r.Intn(222)), byte(r.Intn(256)), byte(r.Intn(256)), byte(1 + r.Intn(254))}
}

func randPriv(r *rand.Rand) []byte {
	n := privNets[r.Intn(len(privNets))]
	if r.Intn(6) == 0 {
		x := byte(r.Intn(256))
		return []byte{10, x, x, 10}
	}
	return []byte{n[0], n[1], byte(r.Intn(256)), byte(1 + r.Intn(254))}
}

func randMAC(r *rand.Rand) []byte {
	b := make([]byte, 6)
	switch r.Intn(5) {
	case 0:
		return []byte{0, 0, 0, 0, 0, 1}
	case 1:
		return []byte{0xff, 0xee, 0xdd, 0xcc, 0xbb, 0xaa}
	}
	r.Read(b)
	b[0] &^= 1
	if b[0] == 0 && b[1] == 0 && b[2] == 0 && b[3] == 0 && b[4] == 0 && b[5] == 0 {
		b[5] = 1
	}
	return b
}

func randCID(r *rand.Rand) []byte {
	var n int
	switch r.Intn(6) {
	case 0:
		n = 2
	case 1:
		n = 32
	case 2:
		n = 31
	default:
		n = 2 + r.Intn(31)
	}
	b := make([]byte, n)
	r.Read(b)
	for i := range b {
		if b[i] == 82 { // keep the second scan loop of the C parser out of the picture for x dhcp
			b[i] = 83
		}
	}
	if r.Intn(4) == 0 { // binary ids end in any byte: port 9/10/13/32 look like white space
		b[n-1] = []byte{0x20, 0x09, 0x0d, 0x0a, 0x00}[r.Intn(5)]
	}
	return b
}

func (comp) Gen(r *rand.Rand, tier string, emit func([]string)) {
	scale := 1
	if tier == "thorough" {
		scale = 10
	}
	// ---- typed put/get on every (map, key type, value type) the Go code uses
	type tk struct{ m, k, v string }
	seen := map[tk]bool{}
	var skipped []string
	for _, u := range layout.Uses {
		m := cmaps[u.Map]
		if u.GoVal == nil {
			continue
		}
		key := tk{u.Map, u.GoKey.Name, u.GoVal.Name}
		dir := "put"
		if u.Op == "Lookup" || u.Op == "Next" || u.Op == "LookupAndDelete" {
			dir = "get"
		}
		if seen[tk{u.Map + dir, key.k, key.v}] {
			continue
		}
		seen[tk{u.Map + dir, key.k, key.v}] = true
		if m.Type == "PERCPU_ARRAY" || m.Type == "PERCPU_HASH" {
			// the real GetStats is op `percpu`; the LAYOUT of the statistics record is exercised by a typed read into a
			// slice with one element per possible CPU
			if _, ok := registry[u.GoVal.Name]; !ok {
				fatal("value type %s (map %s, %s) is not in the harness registry", u.GoVal.Name, u.Map, u.Site)
			}
			for n := 0; n < 2*scale; n++ {
				seq := []string{"new"}
				for j := 0; j < 8; j++ {
					rv := make([]byte, m.ValSize)
					r.Read(rv)
					seq = append(seq, fmt.Sprintf("pget %s %s %s rawv=%s", u.Map, u.GoKey.Name, u.GoVal.Name, hex.EncodeToString(rv)))
				}
				emit(seq)
			}
			continue
		}
		if w, ok := localTypes[u.GoKey.Name]; ok {
			skipped = append(skipped, u.GoKey.Name+" -> "+w)
			continue
		}
		if _, ok := registry[u.GoKey.Name]; !ok {
			fatal("key type %s (map %s, %s) is not in the harness registry", u.GoKey.Name, u.Map, u.Site)
		}
		if _, ok := registry[u.GoVal.Name]; !ok {
			fatal("value type %s (map %s, %s) is not in the harness registry", u.GoVal.Name, u.Map, u.Site)
		}
		head := fmt.Sprintf("%s %s %s", u.Map, u.GoKey.Name, u.GoVal.Name)
		if dir == "put" {
			seq := []string{"new"}
			for i := 0; i < nData(u.GoVal); i++ { // walking field: exactly one leaf non-zero
				seq = append(seq, fmt.Sprintf("put %s k=%s v=%s", head, keyFor(r, m, u.GoKey), leavesFor(r, u.GoVal, 1, i)))
			}
			emit(seq)
			for n := 0; n < 6*scale; n++ {
				seq := []string{"new"}
				for j := 0; j < 8; j++ {
					seq = append(seq, fmt.Sprintf("put %s k=%s v=%s", head, keyFor(r, m, u.GoKey), leavesFor(r, u.GoVal, 0, 0)))
				}
				emit(seq)
			}
		} else {
			for n := 0; n < 4*scale; n++ {
				seq := []string{"new"}
				for j := 0; j < 8; j++ {
					// raw key: random data leaves, padding zero (the typed key Go looks up with marshals blank fields as zero)
					rk := make([]byte, m.KeySize)
					if m.Type != "ARRAY" {
						for _, kf := range u.GoKey.Fields {
							if kf.Norm != "_" && kf.Off+kf.Width <= len(rk) {
								r.Read(rk[kf.Off : kf.Off+kf.Width])
							}
						}
					}
					rv := make([]byte, m.ValSize)
					r.Read(rv)
					seq = append(seq, fmt.Sprintf("get %s rawk=%s rawv=%s", head, hex.EncodeToString(rk), hex.EncodeToString(rv)))
				}
				emit(seq)
			}
		}
	}
	// ---- iteration: every (map, key type, value type) the Go code reads with MapIterator.Next — the raw entry as a program
	// wrote it is decoded through the typed KEY and value and the key handed back to Delete (purgeSubscriberState's pattern)
	seenI := map[tk]bool{}
	for _, u := range layout.Uses {
		m := cmaps[u.Map]
		if u.Op != "Next" || u.GoVal == nil || seenI[tk{u.Map, u.GoKey.Name, u.GoVal.Name}] {
			continue
		}
		seenI[tk{u.Map, u.GoKey.Name, u.GoVal.Name}] = true
		if _, ok := registry[u.GoKey.Name]; !ok {
			fatal("key type %s (map %s, %s) is not in the harness registry", u.GoKey.Name, u.Map, u.Site)
		}
		if _, ok := registry[u.GoVal.Name]; !ok {
			fatal("value type %s (map %s, %s) is not in the harness registry", u.GoVal.Name, u.Map, u.Site)
		}
		if m.Type != "HASH" && m.Type != "LRU_HASH" {
			fatal("map %s (%s) is iterated at %s: the harness iterates hash maps only", u.Map, m.Type, u.Site)
		}
		head := fmt.Sprintf("iter %s %s %s", u.Map, u.GoKey.Name, u.GoVal.Name)
		rawKey := func(hot int, dirtyPad bool) []byte {
			rk := make([]byte, m.KeySize)
			i := 0
			for _, kf := range u.GoKey.Fields {
				if kf.Off+kf.Width > len(rk) {
					continue
				}
				switch {
				case kf.Norm == "_":
					if dirtyPad { // not an entry a program wrote: both sides answer `badop padding`
						r.Read(rk[kf.Off : kf.Off+kf.Width])
						rk[kf.Off] |= 1
					}
				case hot < 0:
					copy(rk[kf.Off:], rbytes(r, kf.Width))
				default:
					if i == hot {
						for j := 0; j < kf.Width; j++ {
							rk[kf.Off+j] = 0xff
						}
					}
				}
				if kf.Norm != "_" {
					i++
				}
			}
			return rk
		}
		seq := []string{"new"}
		for i := 0; i < nData(u.GoKey); i++ { // walking field of the key: exactly one data leaf non-zero
			seq = append(seq, fmt.Sprintf("%s rawk=%s rawv=%s", head, hex.EncodeToString(rawKey(i, false)), strings.Repeat("00", m.ValSize)))
		}
		emit(seq)
		for n := 0; n < 3*scale; n++ {
			seq := []string{"new"}
			for j := 0; j < 8; j++ {
				rv := make([]byte, m.ValSize)
				r.Read(rv)
				// the programs zero the padding of the keys they build
				seq = append(seq, fmt.Sprintf("%s rawk=%s rawv=%s", head, hex.EncodeToString(rawKey(-1, r.Intn(12) == 0)), hex.EncodeToString(rv)))
			}
			emit(seq)
		}
	}
	emit([]string{"new", "percpu nat", "percpu qos", "percpu antispoof"})
	// ---- fields BY NAME: every struct value the Go code writes, each data field alone and all together with distinct
	// values, decoded member by member by the compiled C code (two same-width fields swapped on one side decode swapped)
	seenN := map[string]bool{}
	for _, u := range layout.Uses {
		m := cmaps[u.Map]
		if u.GoVal == nil || !(u.Op == "Put" || u.Op == "Update") || seenN[u.Map+u.GoVal.Name] {
			continue
		}
		vt, ok := registry[u.GoVal.Name]
		if !ok || vt.Kind() != reflect.Struct || !strings.HasPrefix(m.ValType, "struct ") {
			continue
		}
		if _, ok := registry[u.GoKey.Name]; !ok {
			continue
		}
		seenN[u.Map+u.GoVal.Name] = true
		var names []string
		var vals []string
		i := 0
		for _, gf := range u.GoVal.Fields {
			if gf.Norm == "_" {
				continue
			}
			i++
			switch gf.Kind {
			case "int":
				names, vals = append(names, gf.Name), append(vals, strconv.Itoa(i))
			case "bytes":
				names, vals = append(names, gf.Name), append(vals, "x"+strings.Repeat(fmt.Sprintf("%02x", i), gf.Width))
			}
		}
		head := fmt.Sprintf("nput %s %s %s k=%s", u.Map, u.GoKey.Name, u.GoVal.Name, keyFor(r, m, u.GoKey))
		seq := []string{"new"}
		all := head
		for j := range names {
			seq = append(seq, head+" "+names[j]+"="+vals[j])
			all += " " + names[j] + "=" + vals[j]
		}
		seq = append(seq, all)
		emit(seq)
	}
	// ---- the anti-spoofing configuration through the real SetMode, every mode
	emit([]string{"new", "cfg antispoof setmode 0", "cfg antispoof setmode 1", "cfg antispoof setmode 2", "cfg antispoof setmode 3",
		"cfg antispoof setmode 2", "cfg antispoof setmode 0"})
	// ---- the real managers against the natively compiled programs
	h := hex.EncodeToString
	for n := 0; n < 40*scale; n++ {
		seq := []string{"new"}
		for j := 0; j < 6; j++ {
			switch r.Intn(7) {
			case 6:
				seq = append(seq, purgeOp(r))
			case 0:
				seq = append(seq, "x qos ip="+h(randIP(r)))
			case 1:
				seq = append(seq, fmt.Sprintf("x antispoof mac=%s ip=%s plen=%d%s", h(randMAC(r)), h(randIP(r)), []int{32, 24, 16, 8, 30}[r.Intn(5)],
					[]string{"", " form=16"}[r.Intn(2)]))
			case 2:
				s, c, cid := "-", "-", "-"
				if r.Intn(3) > 0 {
					s = strconv.Itoa(1 + r.Intn(4094))
					if r.Intn(2) == 0 {
						c = strconv.Itoa(1 + r.Intn(4094))
					}
				}
				if r.Intn(3) > 0 {
					cid = h(randCID(r))
				}
				seq = append(seq, fmt.Sprintf("x dhcp mac=%s s=%s c=%s cid=%s ip=%s gw=%s dns1=%s dns2=%s srv=%s", h(randMAC(r)), s, c, cid,
					h(randIP(r)), h(randIP(r)), h(randIP(r)), h(randIP(r)), h(randIP(r))))
			case 3:
				proto := []int{6, 17}[r.Intn(2)]
				seq = append(seq, fmt.Sprintf("x nat priv=%s pub=%s dst=%s sport=%d dport=%d proto=%d", h(randPriv(r)), h(randIP(r)), h(randIP(r)),
					[]int{5000, 1024, 65535, 257, 0x1313}[r.Intn(5)]+r.Intn(2)*r.Intn(1000)*0, []int{21, 53, 5060, 80, 443, 0x5050}[r.Intn(6)], proto))
			case 4:
				seq = append(seq, fmt.Sprintf("x fnv cid=%s mac=%s", h(randCID(r)), h(randMAC(r))))
			case 5:
				seq = append(seq, fmt.Sprintf("x wg ip=%s port=%d", h(randIP(r)), []int{80, 8080, 443, 65535, 1}[r.Intn(5)]))
			}
		}
		emit(seq)
	}
	// ---- the C circuit-id parser on arbitrary option areas (model of extract_circuit_id_fixed)
	// (quick: 8 000 areas — the circuit-id sweeps of genKeySweeps drive the same parser 20 000 more times; thorough: 100 000)
	nk, per := 32, 250
	if tier == "thorough" {
		nk = 400
	}
	for n := 0; n < nk; n++ {
		seq := []string{"new"}
		for j := 0; j < per; j++ {
			seq = append(seq, "kf cidraw "+h(randOpts(r)))
		}
		emit(seq)
	}
	genKeySweeps(r, tier, emit)
	if len(skipped) > 0 {
		fmt.Fprintln(os.Stderr, "layoutbytes: function-local key types exercised through the real methods:", strings.Join(skipped, "; "))
	}
}

// wirePriv: a source address the NAT program translates (is_private_ip), sometimes a byte palindrome
func wirePriv(r *rand.Rand) []byte {
	switch r.Intn(6) {
	case 0:
		x := byte(r.Intn(256))
		return []byte{10, x, x, 10}
	case 1:
		return []byte{10, 0, 1, 5}
	case 2:
		return []byte{192, 168, byte(r.Intn(256)), byte(1 + r.Intn(254))}
	case 3:
		return []byte{100, byte(64 + r.Intn(64)), byte(r.Intn(256)), byte(1 + r.Intn(254))}
	}
	return []byte{10, byte(r.Intn(256)), byte(r.Intn(256)), byte(1 + r.Intn(254))}
}

// purgeOp: DeallocateNAT(priv) after the program translated a flow whose wire source is `src`:
//   - src = priv            the subscriber's own flow (what the operator means by priv)
//   - src = reverse(priv)   the flow that HITS the subscriber_nat entry Go wrote for priv in a real kernel (D10)
//   - src unrelated         somebody else's flow
func purgeOp(r *rand.Rand) string {
	h := hex.EncodeToString
	rev := func(b []byte) []byte { return []byte{b[3], b[2], b[1], b[0]} }
	src := wirePriv(r)
	priv := src
	switch r.Intn(5) {
	case 0, 1:
		priv = rev(src)
	case 2:
		priv = wirePriv(r)
	}
	var bsrc []byte
	for {
		bsrc = wirePriv(r)
		if !bytes.Equal(bsrc, priv) && !bytes.Equal(bsrc, src) && !bytes.Equal(bsrc, rev(priv)) || r.Intn(8) == 0 && !bytes.Equal(bsrc, priv) && !bytes.Equal(bsrc, src) {
			break
		}
	}
	proto := []int{6, 17}[r.Intn(2)]
	return fmt.Sprintf("x purge priv=%s src=%s bsrc=%s pub=%s dst=%s sport=%d dport=%d proto=%d", h(priv), h(src), h(bsrc), h(randIP(r)), h(randIP(r)),
		[]int{5000, 1024, 65535, 257, 0x1313}[r.Intn(5)], []int{21, 53, 5060, 80, 443, 0x5050}[r.Intn(6)], proto)
}

// genKeySweeps: the key derivations on systematic inputs — every byte value in the first and in the last position
// of circuit-ids of every length 1..33, ids made of white space / control bytes only, trailing runs of
// 0x00/0x20/0x09/0x0a/0x0d, random binary ids; every byte value at every position of a MAC; every S-tag and
// every C-tag with varying priority/DEI bits; every byte value at every position of an IPv4 address and of a port
func genKeySweeps(r *rand.Rand, tier string, emit func([]string)) {
	h := hex.EncodeToString
	var ops []string
	flush := func() {
		for len(ops) > 0 {
			n := len(ops)
			if n > 500 {
				n = 500
			}
			emit(append([]string{"new"}, ops[:n]...))
			ops = ops[n:]
		}
	}
	base := func(n int) []byte { // binary filler that never contains the Option-82 code (keeps the second scan loop out)
		b := make([]byte, n)
		r.Read(b)
		for i := range b {
			if b[i] == 82 {
				b[i] = 0x80
			}
		}
		return b
	}
	cidOp := func(cid []byte) {
		ops = append(ops, fmt.Sprintf("kf cid %s 0", h(cid)))
		if len(cid) == 1 { // a 1-byte circuit-id is only recognised when the option carries more than sub-option 1
			ops = append(ops, fmt.Sprintf("kf cid %s 2", h(cid)))
		}
	}
	for n := 1; n <= 33; n++ {
		b := base(n)
		for v := 0; v < 256; v++ {
			last := append([]byte(nil), b...)
			last[n-1] = byte(v)
			cidOp(last)
			if n > 1 {
				fst := append([]byte(nil), b...)
				fst[0] = byte(v)
				cidOp(fst)
			}
		}
		for _, fill := range [][]byte{{0x20}, {0x0a}, {0x00}, {0x09}, {0x0d}, {0x20, 0x09, 0x0d, 0x0a}, {0xff}, {0x7f}, {0x0b, 0x0c, 0x85, 0xa0}} {
			c := make([]byte, n)
			for i := range c {
				c[i] = fill[i%len(fill)]
			}
			cidOp(c)
		}
		for _, t := range []byte{0x00, 0x20, 0x09, 0x0a, 0x0d} {
			for k := 1; k <= 4 && k < n; k++ {
				c := base(n)
				for i := n - k; i < n; i++ {
					c[i] = t
				}
				cidOp(c)
				c2 := append([]byte(nil), c...) // leading run as well
				for i := 0; i < k; i++ {
					c2[i] = t
				}
				cidOp(c2)
			}
		}
	}
	nr := 2000
	if tier == "thorough" {
		nr = 20000
	}
	for i := 0; i < nr; i++ {
		c := make([]byte, 1+r.Intn(40))
		r.Read(c)
		cidOp(c)
	}
	cidOp([]byte("eth 0/1/1:100.200"))
	cidOp([]byte("line-7 \n"))
	flush()
	// MAC
	for pos := 0; pos < 6; pos++ {
		b := make([]byte, 6)
		r.Read(b)
		for v := 0; v < 256; v++ {
			m := append([]byte(nil), b...)
			m[pos] = byte(v)
			ops = append(ops, "kf mac "+h(m))
		}
	}
	for _, m := range [][]byte{{0, 0, 0, 0, 0, 0}, {0xff, 0xff, 0xff, 0xff, 0xff, 0xff}, {0, 0, 0, 0, 0, 1}, {0x80, 0, 0, 0, 0, 0}} {
		ops = append(ops, "kf mac "+h(m))
	}
	flush()
	// hardware addresses of every length 0..20 (6 mostly; 7, 8 = EUI-64, 16, 20 = IPoIB; short ones) through EVERY Go
	// conversion of the repository and back
	macn := func(m []byte) {
		if len(m) == 0 {
			ops = append(ops, "kf macn -")
		} else {
			ops = append(ops, "kf macn "+h(m))
		}
	}
	for n := 0; n <= 20; n++ {
		reps := 12
		if n == 6 {
			reps = 200
		}
		if n == 7 || n == 8 || n == 16 || n == 20 {
			reps = 60
		}
		for k := 0; k < reps; k++ {
			m := make([]byte, n)
			r.Read(m)
			macn(m)
		}
		macn(bytes.Repeat([]byte{0xff}, n))
		macn(make([]byte, n))
		if n > 6 { // only the tail differs from a 6-byte address / only the tail is non-zero
			m := make([]byte, n)
			m[n-1] = 1
			macn(m)
			m2 := append([]byte{0, 0x11, 0x22, 0x33, 0x44, 0x55}, bytes.Repeat([]byte{0xaa}, n-6)...)
			macn(m2)
		}
	}
	flush()
	// VLAN pair: every S-tag, every C-tag, all PCP/DEI combinations on a few tags
	for s := 0; s < 4096; s++ {
		c := "-"
		if s%2 == 0 {
			c = strconv.Itoa(r.Intn(4096))
		}
		ops = append(ops, fmt.Sprintf("kf vlan %d %s %d %d %d %d", s, c, r.Intn(8), r.Intn(2), r.Intn(8), r.Intn(2)))
	}
	for c := 0; c < 4096; c++ {
		ops = append(ops, fmt.Sprintf("kf vlan %d %d %d %d %d %d", r.Intn(4096), c, r.Intn(8), r.Intn(2), r.Intn(8), r.Intn(2)))
	}
	for _, s := range []int{0, 1, 255, 256, 4095} {
		for pd := 0; pd < 16; pd++ {
			for qd := 0; qd < 16; qd += 5 {
				ops = append(ops, fmt.Sprintf("kf vlan %d %d %d %d %d %d", s, 4095-s, pd/2, pd%2, qd/2, qd%2))
			}
		}
	}
	flush()
	// IPv4 -> uint32, FNV-1a, ALG key
	for pos := 0; pos < 4; pos++ {
		b := randIP(r)
		for v := 0; v < 256; v++ {
			x := append([]byte(nil), b...)
			x[pos] = byte(v)
			ops = append(ops, "kf ip "+h(x))
		}
	}
	for n := 0; n <= 40; n++ {
		for k := 0; k < 8; k++ {
			c := make([]byte, n)
			r.Read(c)
			if n == 0 {
				ops = append(ops, "kf fnv -")
			} else {
				ops = append(ops, "kf fnv "+h(c))
			}
		}
	}
	for v := 0; v < 256; v++ {
		ops = append(ops, fmt.Sprintf("kf alg %d %d", v<<8|r.Intn(256), []int{6, 17}[v%2]))
		ops = append(ops, fmt.Sprintf("kf alg %d %d", r.Intn(256)<<8|v, []int{17, 6}[v%2]))
	}
	flush()
}

// randOpts builds an option area that starts with a DISCOVER message type and places (possibly malformed)
// Option 82 material at the positions the C parser inspects
func randOpts(r *rand.Rand) []byte {
	n := 64 + r.Intn(40)
	if r.Intn(10) == 0 {
		n = 12 + r.Intn(52) // too short for the circuit-id scan
	}
	o := make([]byte, n)
	if r.Intn(4) == 0 {
		r.Read(o)
	}
	copy(o, []byte{53, 1, 1})
	put := func(pos int, b ...byte) {
		for i, x := range b {
			if pos+i < len(o) {
				o[pos+i] = x
			}
		}
	}
	cidLen := []int{0, 1, 2, 4, 16, 31, 32, 33, 40, 200}[r.Intn(10)]
	cid := make([]byte, cidLen)
	r.Read(cid)
	switch r.Intn(5) {
	case 0, 1: // first branch: [82][len][1][n][cid…] at offset 3
		l := cidLen + 2 + r.Intn(3)
		if r.Intn(8) == 0 {
			l = r.Intn(6)
		}
		put(3, 82, byte(l), byte(1+r.Intn(8)/7), byte(cidLen))
		put(7, cid...)
	case 2, 3: // second loop: positions 12..19
		pos := 12 + r.Intn(8)
		l := cidLen + 2
		if r.Intn(8) == 0 {
			l = r.Intn(6)
		}
		put(pos, 82, byte(l), byte(1+r.Intn(8)/7), byte(cidLen))
		put(pos+4, cid...)
	}
	return o
}

func main() {
	loadLayout()
	hx.Main(comp{})
}
