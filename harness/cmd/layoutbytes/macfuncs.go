package main

// The MAC <-> map-key conversions of the repository, including the unexported ones, reached with go:linkname so
// that /repo needs no hook (the empty macfuncs.s lets the compiler accept the body-less declarations).  The set
// must equal the translator's enumeration (layout.json mac_to_u64_funcs / u64_to_mac_funcs): a conversion that is
// added to the repository and not to these tables stops the harness loudly.

import (
	"net"
	_ "unsafe"

	_ "github.com/codelaboratoryltd/bng/pkg/antispoof"
	bngebpf "github.com/codelaboratoryltd/bng/pkg/ebpf"
	_ "github.com/codelaboratoryltd/bng/pkg/walledgarden"
)

//go:linkname wgMacToUint64 github.com/codelaboratoryltd/bng/pkg/walledgarden.macToUint64
func wgMacToUint64(mac net.HardwareAddr) uint64

//go:linkname wgUint64ToMAC github.com/codelaboratoryltd/bng/pkg/walledgarden.uint64ToMAC
func wgUint64ToMAC(n uint64) net.HardwareAddr

//go:linkname asMacToUint64 github.com/codelaboratoryltd/bng/pkg/antispoof.macToUint64
func asMacToUint64(mac net.HardwareAddr) uint64

var macToU64 = map[string]func(net.HardwareAddr) uint64{
	"pkg/ebpf.MACToUint64":         bngebpf.MACToUint64,
	"pkg/walledgarden.macToUint64": wgMacToUint64,
	"pkg/antispoof.macToUint64":    asMacToUint64,
}

var u64ToMac = map[string]func(uint64) net.HardwareAddr{
	"pkg/ebpf.Uint64ToMAC":         bngebpf.Uint64ToMAC,
	"pkg/walledgarden.uint64ToMAC": wgUint64ToMAC,
}

// the forward function a reverse function belongs to (same package)
var macPair = map[string]string{
	"pkg/ebpf.Uint64ToMAC":         "pkg/ebpf.MACToUint64",
	"pkg/walledgarden.uint64ToMAC": "pkg/walledgarden.macToUint64",
}
