// peercluster drives a cluster of real pool.PeerPool nodes (pkg/pool/peer.go) living in one process:
// every node is configured with the same peer list and — as cmd/bng does from one set of flags — the
// same pool network; forwarded requests travel through an in-memory http.RoundTripper to the target
// node's own handlers (RegisterHandlers).  Operations enter at a chosen node; a health op changes what
// one node believes about another (verif hook SetPeerHealthForVerif), as the health checker would.
package main

import (
	"context"
	"errors"
	"fmt"
	"io"
	"math/rand"
	"net"
	"net/http"
	"net/http/httptest"
	"os"
	"sort"
	"strconv"
	"strings"
	"sync"

	"bngverif/flx"
	"bngverif/hx"

	"github.com/codelaboratoryltd/bng/pkg/pool"
)

type comp struct{}

func a(s string) uint32 { return flx.U32(net.ParseIP(s)) }

var geos = []flx.V4{
	{Net: a("10.0.0.0"), Ones: 29, Gw: a("10.0.0.1")},
	{Net: a("192.168.7.4"), Ones: 30, Gw: a("192.168.7.1")},
	{Net: a("100.64.0.16"), Ones: 28, Gw: a("100.64.0.17")},
	{Net: a("10.77.0.0"), Ones: 24, Gw: a("10.77.0.1")},
}

func randOp(r *rand.Rand, n, subs int) string {
	i := 1 + r.Intn(n)
	s := 1 + r.Intn(subs)
	switch x := r.Intn(100); {
	case x < 30:
		return fmt.Sprintf("alloc %d s%d", i, s)
	case x < 36:
		// 2-4 concurrent requests of one subscriber entering at one node
		return fmt.Sprintf("burst %d s%d %d", i, s, 2+r.Intn(3))
	case x < 56:
		return fmt.Sprintf("release %d s%d", i, s)
	case x < 68:
		return fmt.Sprintf("get %d s%d", i, s)
	case x < 87:
		j := 1 + r.Intn(n)
		return fmt.Sprintf("health %d %d %d", i, j, r.Intn(2))
	case x < 91:
		// the answer of forwarded requests gets lost after the peer handled them
		return fmt.Sprintf("fault %s %s", hx.Pick(r, []string{"resp", "status", "body"}), hx.Pick(r, []string{"once", "once", "on", "off", "off"}))
	default:
		return fmt.Sprintf("stats %d", i)
	}
}

// lostAnswers: forwarded requests whose answer is lost (review r-gaps C7), on small pools so that the addresses a peer
// holds for subscribers who were never told make it run dry; no health changes (routing stays at the rank-first owner);
// repeated requests and releases in between, Stats / Get / audit of every node after each round.
func lostAnswers(r *rand.Rand, tier string, emit func([]string)) {
	cnt := 250
	if tier == "thorough" {
		cnt = 5000
	}
	for c := 0; c < cnt; c++ {
		g := geos[r.Intn(3)] // 5, 2 or 13 addresses
		n := 2 + r.Intn(2)
		subs := 3 + r.Intn(8)
		seq := []string{fmt.Sprintf("new %x %d %x %d", g.Net, g.Ones, g.Gw, n)}
		for round, rounds := 0, 1+r.Intn(4); round < rounds; round++ {
			seq = append(seq, fmt.Sprintf("fault %s %s", hx.Pick(r, []string{"resp", "status", "body"}), hx.Pick(r, []string{"once", "on"})))
			for j, m := 0, 1+r.Intn(5); j < m; j++ {
				i, s := 1+r.Intn(n), 1+r.Intn(subs)
				switch x := r.Intn(10); {
				case x < 6:
					seq = append(seq, fmt.Sprintf("alloc %d s%d", i, s))
				case x < 8:
					seq = append(seq, fmt.Sprintf("release %d s%d", i, s))
				case x < 9:
					seq = append(seq, fmt.Sprintf("burst %d s%d %d", i, s, 2+r.Intn(3)))
				default:
					seq = append(seq, fmt.Sprintf("get %d s%d", i, s))
				}
			}
			seq = append(seq, "fault resp off")
			for j, m := 0, r.Intn(6); j < m; j++ {
				i, s := 1+r.Intn(n), 1+r.Intn(subs)
				switch x := r.Intn(10); {
				case x < 5:
					seq = append(seq, fmt.Sprintf("alloc %d s%d", i, s)) // a repeated request heals, a new subscriber may find the pool dry
				case x < 6:
					seq = append(seq, fmt.Sprintf("release %d s%d", i, s))
				case x < 8:
					seq = append(seq, fmt.Sprintf("get %d s%d", i, s))
				default:
					seq = append(seq, fmt.Sprintf("stats %d", i))
				}
			}
			for i := 1; i <= n; i++ {
				seq = append(seq, fmt.Sprintf("stats %d", i), fmt.Sprintf("audit %d", i))
			}
		}
		emit(append(seq, tail(n, subs)...))
	}
}

func tail(n, subs int) []string {
	out := []string{"fault resp off"}
	for i := 1; i <= n; i++ {
		for j := 1; j <= n; j++ {
			out = append(out, fmt.Sprintf("health %d %d 1", i, j))
		}
	}
	for s := 1; s <= subs; s++ {
		out = append(out, fmt.Sprintf("get %d s%d", 1+s%n, s), fmt.Sprintf("release 1 s%d", s))
	}
	for i := 1; i <= n; i++ {
		out = append(out, fmt.Sprintf("stats %d", i), fmt.Sprintf("audit %d", i))
	}
	return out
}

// stress: burst-heavy sequences without health changes (POOL_STRESS=1; run on a binary built with -race)
func stress(r *rand.Rand, tier string, emit func([]string)) {
	cnt := 120
	if tier == "thorough" {
		cnt = 1200
	}
	for c := 0; c < cnt; c++ {
		g := hx.Pick(r, geos)
		n := 1 + r.Intn(3)
		subs := 2 + r.Intn(6)
		seq := []string{fmt.Sprintf("new %x %d %x %d", g.Net, g.Ones, g.Gw, n)}
		for j, m := 0, 6+r.Intn(20); j < m; j++ {
			i, s := 1+r.Intn(n), 1+r.Intn(subs)
			switch x := r.Intn(10); {
			case x < 6:
				seq = append(seq, fmt.Sprintf("burst %d s%d %d", i, s, 2+r.Intn(5)))
			case x < 8:
				seq = append(seq, fmt.Sprintf("release %d s%d", i, s))
			case x < 9:
				seq = append(seq, fmt.Sprintf("stats %d", i))
			default:
				seq = append(seq, fmt.Sprintf("audit %d", i))
			}
		}
		emit(append(seq, tail(n, subs)...))
	}
}

func (comp) Gen(r *rand.Rand, tier string, emit func([]string)) {
	if os.Getenv("POOL_STRESS") != "" {
		stress(r, tier, emit)
		return
	}
	nRand, nCalm := 700, 200
	if tier == "thorough" {
		nRand, nCalm = 14000, 4000
	}
	for k := 0; k < nRand; k++ {
		g := hx.Pick(r, geos)
		n := 2 + r.Intn(2)
		subs := 2 + r.Intn(6)
		seq := []string{fmt.Sprintf("new %x %d %x %d", g.Net, g.Ones, g.Gw, n)}
		for j, m := 0, 4+r.Intn(36); j < m; j++ {
			seq = append(seq, randOp(r, n, subs))
		}
		emit(append(seq, tail(n, subs)...))
	}
	// no health change at all: routing never leaves the rank-first owner
	for k := 0; k < nCalm; k++ {
		g := hx.Pick(r, geos)
		n := 1 + r.Intn(3)
		subs := 2 + r.Intn(6)
		seq := []string{fmt.Sprintf("new %x %d %x %d", g.Net, g.Ones, g.Gw, n)}
		for j, m := 0, 4+r.Intn(30); j < m; j++ {
			op := randOp(r, n, subs)
			if strings.HasPrefix(op, "health") {
				op = fmt.Sprintf("stats %d", 1+r.Intn(n))
			}
			seq = append(seq, op)
		}
		emit(append(seq, tail(n, subs)...))
	}
}

type run struct {
	pools map[int]*pool.PeerPool
	muxes map[string]*http.ServeMux
	n     int
	total int // addresses every node's local pool was built with

	// fault injection on the RESPONSE of a forwarded request (review r-gaps C7): the peer's handler has run (the address is
	// allocated / released there) and then the requester's http.Client.Do fails ("resp"), sees a 502 from something in
	// between ("status"), or reads a truncated JSON body ("body": allocation responses only - a release has no body to decode)
	fmu       sync.Mutex
	faultKind string // "" | resp | status | body
	faultOnce bool
	fired     bool // the fault hit a request of the current op
}

func (comp) NewRun() hx.Run {
	return &run{pools: map[int]*pool.PeerPool{}, muxes: map[string]*http.ServeMux{}}
}
func (r *run) Close() {}

func nodeID(i int) string { return "n" + strconv.Itoa(i) }

func nodeNum(id string) string { return strings.TrimPrefix(id, "n") }

// RoundTrip delivers a forwarded request to the handlers of the node named by the URL host.
func (r *run) RoundTrip(req *http.Request) (*http.Response, error) {
	mux, ok := r.muxes[req.URL.Host]
	if !ok {
		return nil, fmt.Errorf("no such peer %q", req.URL.Host)
	}
	rec := httptest.NewRecorder()
	mux.ServeHTTP(rec, req)
	r.fmu.Lock()
	kind := r.faultKind
	if kind == "body" && !strings.HasPrefix(req.URL.Path, "/pool/allocate") {
		kind = ""
	}
	if kind != "" {
		r.fired = true
		if r.faultOnce {
			r.faultKind = ""
		}
	}
	r.fmu.Unlock()
	switch kind {
	case "resp":
		return nil, errors.New("connection reset before the response arrived")
	case "status":
		res := rec.Result()
		res.StatusCode, res.Status = http.StatusBadGateway, "502 Bad Gateway"
		return res, nil
	case "body":
		res := rec.Result()
		b, _ := io.ReadAll(res.Body)
		res.Body = io.NopCloser(strings.NewReader(string(b[:len(b)/2])))
		return res, nil
	}
	return rec.Result(), nil
}

// took reports (and forgets) whether the response fault hit a request since the last call
func (r *run) took() bool {
	r.fmu.Lock()
	defer r.fmu.Unlock()
	f := r.fired
	r.fired = false
	return f
}

func (r *run) ranked(p *pool.PeerPool, sub string) string {
	l := p.RankedForVerif(sub)
	out := make([]string, len(l))
	for i, id := range l {
		out[i] = nodeNum(id)
	}
	return strings.Join(out, ",")
}

func (r *run) Do(op string) string {
	f := hx.Fields(op)
	if f[0] == "new" {
		if len(f) != 5 {
			return "badop"
		}
		nw, ok1 := flx.ParseHex4(f[1])
		ones, err1 := strconv.Atoi(f[2])
		gw, ok2 := flx.ParseHex4(f[3])
		n, err2 := strconv.Atoi(f[4])
		if !ok1 || !ok2 || err1 != nil || err2 != nil || ones < 8 || n < 1 || n > 8 {
			return "badop"
		}
		var peers []string
		for i := 1; i <= n; i++ {
			peers = append(peers, nodeID(i))
		}
		for i := 1; i <= n; i++ {
			p, err := pool.NewPeerPool(pool.PeerPoolConfig{NodeID: nodeID(i), Peers: append([]string{}, peers...),
				Network: fmt.Sprintf("%s/%d", nw, ones), Gateway: gw.String()})
			if err != nil {
				return "invalid"
			}
			p.SetHTTPClientForVerif(&http.Client{Transport: r})
			mux := http.NewServeMux()
			p.RegisterHandlers(mux)
			r.pools[i] = p
			r.muxes[nodeID(i)] = mux
		}
		r.n = n
		r.total = r.pools[1].Stats().Total
		return "ok"
	}
	if len(f) < 2 {
		return "badop"
	}
	if f[0] == "fault" {
		// fault resp|status|body on|off|once
		if len(f) != 3 || len(r.pools) == 0 || (f[1] != "resp" && f[1] != "status" && f[1] != "body") ||
			(f[2] != "on" && f[2] != "off" && f[2] != "once") {
			return "badop"
		}
		r.fmu.Lock()
		r.faultKind, r.faultOnce = f[1], f[2] == "once"
		if f[2] == "off" {
			r.faultKind = ""
		}
		r.fmu.Unlock()
		return "ok"
	}
	i, err := strconv.Atoi(f[1])
	p := r.pools[i]
	if err != nil || p == nil {
		return "badop"
	}
	ctx := context.Background()
	sub := ""
	if len(f) >= 3 {
		sub = f[2]
	}
	subOK := len(sub) >= 2 && sub[0] == 's'
	if subOK {
		_, err := strconv.Atoi(sub[1:])
		subOK = err == nil
	}
	switch {
	case f[0] == "alloc" && len(f) == 3 && subOK:
		served := nodeNum(p.HealthyOwnerForVerif(sub))
		rk := r.ranked(p, sub)
		resp, err := p.Allocate(ctx, sub, nil)
		if lost := r.took(); lost && err != nil {
			// the peer handled the request; the requester was left with an error
			return fmt.Sprintf("lost served=%s ranked=%s", served, rk)
		} else if lost {
			return "error the response fault hit the request and Allocate still succeeded"
		}
		if err != nil {
			if strings.Contains(err.Error(), "exhausted") || strings.Contains(err.Error(), "status 503") {
				return fmt.Sprintf("exhausted served=%s ranked=%s", served, rk)
			}
			return "error " + err.Error()
		}
		if nodeNum(resp.NodeID) != served || resp.SubscriberID != sub {
			return fmt.Sprintf("error answered by %s for %s, routed to %s", resp.NodeID, resp.SubscriberID, served)
		}
		return fmt.Sprintf("ok %s served=%s ranked=%s", flx.Hex4(net.ParseIP(resp.IP)), served, rk)
	case f[0] == "burst" && len(f) == 4 && subOK:
		// k concurrent Allocate calls entering at node i; they are parked at the lock of the node that
		// serves them and released together
		k, err := strconv.Atoi(f[3])
		if err != nil || k < 1 || k > 64 {
			return "badop"
		}
		target := r.pools[i]
		for j, q := range r.pools {
			if nodeID(j) == p.HealthyOwnerForVerif(sub) {
				target = q
			}
		}
		// (the response fault is suspended for the burst: which of the k calls it would hit is up to the scheduler)
		r.fmu.Lock()
		savedKind := r.faultKind
		r.faultKind = ""
		r.fmu.Unlock()
		answers := flx.Burst(k, target.HoldLocalPoolForVerif, func() string { return r.Do(fmt.Sprintf("alloc %d %s", i, sub)) })
		r.fmu.Lock()
		r.faultKind = savedKind
		r.fmu.Unlock()
		// all answers carry the same served=/ranked= tail; they may differ in the address
		set := map[string]bool{}
		tailOf := ""
		for _, a := range answers {
			w := strings.Fields(a)
			if len(w) < 3 || (w[0] != "ok" && w[0] != "exhausted") {
				return "error burst answer " + a
			}
			if w[0] == "ok" {
				set[w[1]] = true
			} else {
				set["exhausted"] = true
			}
			tailOf = strings.Join(w[len(w)-2:], " ")
		}
		if len(set) == 1 {
			return answers[0]
		}
		var l []string
		for a := range set {
			l = append(l, a)
		}
		sort.Strings(l)
		return "mixed " + strings.Join(l, ",") + " " + tailOf
	case f[0] == "audit" && len(f) == 2:
		return flx.AuditLocal(p, r.total)
	case f[0] == "release" && len(f) == 3 && subOK:
		served := nodeNum(p.HealthyOwnerForVerif(sub))
		rk := r.ranked(p, sub)
		err := p.Release(ctx, sub)
		if lost := r.took(); lost && err != nil {
			return fmt.Sprintf("lost served=%s ranked=%s", served, rk)
		} else if lost {
			return "error the response fault hit the request and Release still succeeded"
		}
		if err != nil {
			return "error " + err.Error()
		}
		return fmt.Sprintf("ok served=%s ranked=%s", served, rk)
	case f[0] == "get" && len(f) == 3 && subOK:
		owner := nodeNum(p.GetOwner(sub))
		resp, ok := p.Get(sub)
		if !ok {
			return "none owner=" + owner
		}
		return flx.Hex4(net.ParseIP(resp.IP)) + " owner=" + owner
	case f[0] == "health" && len(f) == 4 && (f[3] == "0" || f[3] == "1"):
		j, err := strconv.Atoi(f[2])
		if err != nil || r.pools[j] == nil {
			return "badop"
		}
		p.SetPeerHealthForVerif(nodeID(j), f[3] == "1")
		return "ok"
	case f[0] == "stats" && len(f) == 2:
		s := p.Stats()
		return fmt.Sprintf("%d %d %d", s.Allocated, s.Available, s.Total)
	}
	return "badop"
}

func main() { hx.Main(comp{}) }
