// index — component `index` of property C20; the implementation lives in bngverif/c20/index.
package main

import (
	"bngverif/c20/index"
	"bngverif/hx"
)

func main() { hx.Main(index.Comp{}) }
