// dhcp4 drives the real DHCPv4 slow path (pkg/dhcp Server + Pool) through its verif hooks.
//
// The harness needs virtual time (lease expiry, the one-minute cleanup ticker), which
// testing/synctest only offers to tests: the drivable binary is therefore the TEST binary of
// this package (`go test -c -tags verif ./cmd/dhcp4`, see main_test.go), which understands the
// same `gen` / `exec` command line as every other hx component.  A plain `go build` of this
// package only yields a stub that says so.
//
// Line protocol (addresses are 32-bit lower-case hex, `-` = absent):
//
//	new <net>/<plen> <gateway> <leaseSeconds> [<nexus table>]
//	                                          5th token present = Nexus/HTTP-allocator mode (Demo E): m1:<ip>,m3:<ip>,… or -
//	                                          are the allocations the (in-process) Nexus API answers LookupIPv4 with
//	disc m<k> <giaddr> <cid>                  DISCOVER  (cid = c<n>: option 82 circuit-id, or - ; malformed variants:
//	                                          e = circuit-id sub-option of length 0, r = remote-id only, x = truncated TLV)
//	discr m<k> <requested> <giaddr> <cid>     DISCOVER carrying a requested address (option 50, RFC 2131 4.3.1)
//	req  m<k> <requested> <ciaddr> <giaddr> <cid>
//	rel  m<k>
//	dec  m<k> <requested>
//	inf  m<k> <ciaddr>
//	tick <minutes>                            virtual time passes; the real cleanup ticker fires each minute
//	cleanup                                   one explicit cleanupExpiredLeases pass
//	gap <disc|discr|req|rel|dec …>            one cleanup pass with the given message handled BETWEEN its read-locked scan
//	                                          and its write-locked removal (where another goroutine's handler can run);
//	                                          observation `gap <inner reply> …`, or `gap notrun …` when nothing had expired
//
// Observation:  <reply> L=<leases> C=<circuit index> P=<pool allocated> A=<free list> U=<unavailable>
//
//	reply  = offer <yiaddr> <leaseSecs> | ack <yiaddr> <leaseSecs> | nak | none | other <type>
//	leases = m1:<ip>:<expiry s since start>:<cid|->,…  sorted by MAC;   C = c1:m1:<ip>:<exp>,… sorted by circuit
//	P      = m1:<ip>,… sorted by MAC;  A = <ip>,… in free-list ORDER;  U = <ip>,… sorted
package main

import (
	"context"
	"encoding/binary"
	"encoding/hex"
	"fmt"
	"math/rand"
	"net"
	"net/http"
	"net/http/httptest"
	"os"
	"sort"
	"strconv"
	"strings"
	"time"

	"bngverif/hx"

	"github.com/codelaboratoryltd/bng/pkg/dhcp"
	"github.com/codelaboratoryltd/bng/pkg/ebpf"
	"github.com/codelaboratoryltd/bng/pkg/nexus"
	"github.com/insomniacslk/dhcp/dhcpv4"
	"go.uber.org/zap"
)

type comp struct{}

// syncWait is testing/synctest.Wait inside the test binary (main_test.go installs it): it returns when every
// other goroutine of the bubble (here: the lease-cleanup loop) is blocked again.
var syncWait = func() {}

// ---------------------------------------------------------------- helpers

func ipHex(ip net.IP) string {
	v4 := ip.To4()
	if v4 == nil {
		return "nil"
	}
	return strconv.FormatUint(uint64(binary.BigEndian.Uint32(v4)), 16)
}

func hexIP(s string) net.IP {
	if s == "-" {
		return nil
	}
	v, err := strconv.ParseUint(s, 16, 32)
	if err != nil {
		return nil
	}
	ip := make(net.IP, 4)
	binary.BigEndian.PutUint32(ip, uint32(v))
	return ip
}

func macOf(tok string) net.HardwareAddr {
	n, _ := strconv.Atoi(strings.TrimPrefix(tok, "m"))
	return net.HardwareAddr{0x02, 0, 0, 0, byte(n >> 8), byte(n)}
}

func macTok(m net.HardwareAddr) string {
	if len(m) != 6 {
		return "m?"
	}
	return fmt.Sprintf("m%d", int(m[4])<<8|int(m[5]))
}

func macTokStr(s string) string {
	m, err := net.ParseMAC(s)
	if err != nil {
		return "m?"
	}
	return macTok(m)
}

// opt82Data builds the value of option 82 for a cid token: c<n> = circuit-id "cid<n>" + remote-id;
// e = circuit-id sub-option of length 0 + remote-id; r = remote-id only; x = a circuit-id TLV whose length
// runs past the end of the option; - = no option 82.
func opt82Data(tok string) []byte {
	rem := []byte{2, 4, 'r', 'e', 'm', '1'}
	switch {
	case tok == "-":
		return nil
	case tok == "e":
		return append([]byte{1, 0}, rem...)
	case tok == "r":
		return rem
	case tok == "x":
		return []byte{1, 200, 'c', 'i', 'd'}
	case strings.HasPrefix(tok, "c"):
		cid := []byte("cid" + strings.TrimPrefix(tok, "c"))
		return append(append([]byte{1, byte(len(cid))}, cid...), rem...)
	}
	return nil
}

func validCidTok(tok string) bool {
	if tok == "-" || tok == "e" || tok == "r" || tok == "x" {
		return true
	}
	if !strings.HasPrefix(tok, "c") {
		return false
	}
	_, err := strconv.Atoi(tok[1:])
	return err == nil
}

func cidTok(b []byte) string {
	if len(b) == 0 {
		return "-"
	}
	return "c" + strings.TrimPrefix(string(b), "cid")
}

func tagNum(s string) int {
	n, _ := strconv.Atoi(s[1:])
	return n
}

// fakeConn captures what the server writes.
type fakeConn struct {
	sent [][]byte
	to   []net.Addr
}

func (c *fakeConn) ReadFrom(p []byte) (int, net.Addr, error) { return 0, nil, os.ErrDeadlineExceeded }
func (c *fakeConn) WriteTo(p []byte, a net.Addr) (int, error) {
	c.sent = append(c.sent, append([]byte(nil), p...))
	c.to = append(c.to, a)
	return len(p), nil
}
func (c *fakeConn) Close() error                       { return nil }
func (c *fakeConn) LocalAddr() net.Addr                { return &net.UDPAddr{IP: net.IPv4zero, Port: 67} }
func (c *fakeConn) SetDeadline(t time.Time) error      { return nil }
func (c *fakeConn) SetReadDeadline(t time.Time) error  { return nil }
func (c *fakeConn) SetWriteDeadline(t time.Time) error { return nil }

// ---------------------------------------------------------------- run

type run struct {
	srv    *dhcp.Server
	pool   *dhcp.Pool
	conn   *fakeConn
	t0     time.Time
	cancel context.CancelFunc
	xid    uint32
	dead   bool // the real code panicked while holding its lease lock: nothing more can be asked of it
}

// handlerTransport serves HTTP requests from a handler in-process (no sockets, no goroutines): the real
// nexus.HTTPAllocator builds its URLs and decodes the JSON, the "Nexus API" is the handler below.
type handlerTransport struct{ h http.Handler }

func (t handlerTransport) RoundTrip(req *http.Request) (*http.Response, error) {
	rec := httptest.NewRecorder()
	t.h.ServeHTTP(rec, req)
	return rec.Result(), nil
}

// nexusAPI answers GET /api/v1/pools/<id> and GET /api/v1/allocations/<mac> from a fixed table.
func nexusAPI(cidr, gw string, table map[string]string) http.Handler {
	return http.HandlerFunc(func(w http.ResponseWriter, req *http.Request) {
		switch {
		case strings.HasPrefix(req.URL.Path, "/api/v1/pools/"):
			fmt.Fprintf(w, `{"id":"nx","cidr":%q,"prefix":32,"gateway":%q}`, cidr, gw)
		case strings.HasPrefix(req.URL.Path, "/api/v1/allocations/"):
			mac := strings.TrimPrefix(req.URL.Path, "/api/v1/allocations/")
			if ip, ok := table[mac]; ok {
				fmt.Fprintf(w, `{"pool_id":"nx","subscriber_id":%q,"ip":%q}`, mac, ip)
				return
			}
			http.Error(w, "not found", http.StatusNotFound)
		default:
			http.Error(w, "not found", http.StatusNotFound)
		}
	})
}

func (comp) NewRun() hx.Run { return &run{} }

func (r *run) Close() {
	if r.cancel != nil {
		r.cancel()
		syncWait()
	}
}

func (r *run) packet(mt dhcpv4.MessageType, mac net.HardwareAddr, requested, ciaddr, giaddr net.IP, opt82 []byte) *dhcpv4.DHCPv4 {
	r.xid++
	p, err := dhcpv4.New(
		dhcpv4.WithTransactionID(dhcpv4.TransactionID{byte(r.xid >> 24), byte(r.xid >> 16), byte(r.xid >> 8), byte(r.xid)}),
		dhcpv4.WithHwAddr(mac),
		dhcpv4.WithMessageType(mt),
	)
	if err != nil {
		panic(err)
	}
	if requested != nil {
		p.UpdateOption(dhcpv4.OptRequestedIPAddress(requested))
	}
	if ciaddr != nil {
		p.ClientIPAddr = ciaddr
	}
	if giaddr != nil {
		p.GatewayIPAddr = giaddr
	}
	if opt82 != nil {
		p.Options.Update(dhcpv4.Option{Code: dhcpv4.OptionRelayAgentInformation, Value: dhcpv4.OptionGeneric{Data: opt82}})
	}
	// the packet goes over the wire format, as it would on a socket
	q, err := dhcpv4.FromBytes(p.ToBytes())
	if err != nil {
		panic(err)
	}
	return q
}

func (r *run) send(p *dhcpv4.DHCPv4) string {
	r.conn.sent, r.conn.to = nil, nil
	peer := &net.UDPAddr{IP: net.IPv4bcast, Port: 68}
	r.srv.HandleDHCPForVerif(r.conn, peer, p)
	if len(r.conn.sent) == 0 {
		return "none"
	}
	if len(r.conn.sent) > 1 {
		return fmt.Sprintf("multi %d", len(r.conn.sent))
	}
	resp, err := dhcpv4.FromBytes(r.conn.sent[0])
	if err != nil {
		return "garbled"
	}
	lt := 0
	if resp.Options.Has(dhcpv4.OptionIPAddressLeaseTime) {
		lt = int(resp.IPAddressLeaseTime(0) / time.Second)
	}
	switch resp.MessageType() {
	case dhcpv4.MessageTypeOffer:
		return fmt.Sprintf("offer %s %d", ipHex(resp.YourIPAddr), lt)
	case dhcpv4.MessageTypeAck:
		return fmt.Sprintf("ack %s %d", ipHex(resp.YourIPAddr), lt)
	case dhcpv4.MessageTypeNak:
		return "nak"
	}
	return "other " + resp.MessageType().String()
}

func join(xs []string) string {
	if len(xs) == 0 {
		return "-"
	}
	return strings.Join(xs, ",")
}

func (r *run) snapshot() string {
	byMAC, byCid := r.srv.LeasesForVerif()
	sort.Slice(byMAC, func(i, j int) bool { return tagNum(macTokStr(byMAC[i].Key)) < tagNum(macTokStr(byMAC[j].Key)) })
	var ls []string
	for _, l := range byMAC {
		ls = append(ls, fmt.Sprintf("%s:%s:%d:%s", macTokStr(l.Key), ipHex(l.IP), int64(l.ExpiresAt.Sub(r.t0)/time.Second), cidTok(l.CircuitID)))
	}
	ckey := func(k string) int {
		b, _ := hex.DecodeString(k)
		return tagNum(cidTok(b))
	}
	sort.Slice(byCid, func(i, j int) bool { return ckey(byCid[i].Key) < ckey(byCid[j].Key) })
	var cs []string
	for _, l := range byCid {
		b, _ := hex.DecodeString(l.Key)
		cs = append(cs, fmt.Sprintf("%s:%s:%s:%d", cidTok(b), macTok(l.MAC), ipHex(l.IP), int64(l.ExpiresAt.Sub(r.t0)/time.Second)))
	}
	alloc, avail, unav := r.pool.SnapshotForVerif()
	var keys []string
	for k := range alloc {
		keys = append(keys, k)
	}
	sort.Slice(keys, func(i, j int) bool { return tagNum(macTokStr(keys[i])) < tagNum(macTokStr(keys[j])) })
	var ps []string
	for _, k := range keys {
		ps = append(ps, macTokStr(k)+":"+ipHex(alloc[k]))
	}
	var as []string
	for _, a := range avail {
		as = append(as, ipHex(a))
	}
	var us []string
	for _, u := range unav {
		ip := net.ParseIP(u)
		if ip == nil {
			us = append(us, "nil")
		} else {
			us = append(us, ipHex(ip))
		}
	}
	sort.Slice(us, func(i, j int) bool {
		a, _ := strconv.ParseUint(us[i], 16, 64)
		b, _ := strconv.ParseUint(us[j], 16, 64)
		if a != b {
			return a < b
		}
		return us[i] < us[j]
	})
	return fmt.Sprintf("L=%s C=%s P=%s A=%s U=%s", join(ls), join(cs), join(ps), join(as), join(us))
}

// msg handles one client message op (disc/req/rel/dec/inf) and returns the reply; ok=false: not a valid message op.
func (r *run) msg(f []string) (reply string, ok bool) {
	arg := func(i int) string {
		if i < len(f) {
			return f[i]
		}
		return "-"
	}
	switch f[0] {
	case "disc":
		if len(f) != 4 || !validCidTok(f[3]) {
			return "", false
		}
		return r.send(r.packet(dhcpv4.MessageTypeDiscover, macOf(f[1]), nil, nil, hexIP(arg(2)), opt82Data(arg(3)))), true
	case "discr":
		if len(f) != 5 || !validCidTok(f[4]) {
			return "", false
		}
		return r.send(r.packet(dhcpv4.MessageTypeDiscover, macOf(f[1]), hexIP(arg(2)), nil, hexIP(arg(3)), opt82Data(arg(4)))), true
	case "req":
		if len(f) != 6 || !validCidTok(f[5]) {
			return "", false
		}
		return r.send(r.packet(dhcpv4.MessageTypeRequest, macOf(f[1]), hexIP(arg(2)), hexIP(arg(3)), hexIP(arg(4)), opt82Data(arg(5)))), true
	case "rel":
		if len(f) != 2 {
			return "", false
		}
		return r.send(r.packet(dhcpv4.MessageTypeRelease, macOf(f[1]), nil, nil, nil, nil)), true
	case "dec":
		if len(f) != 3 {
			return "", false
		}
		return r.send(r.packet(dhcpv4.MessageTypeDecline, macOf(f[1]), hexIP(arg(2)), nil, nil, nil)), true
	case "inf":
		if len(f) != 3 {
			return "", false
		}
		return r.send(r.packet(dhcpv4.MessageTypeInform, macOf(f[1]), nil, hexIP(arg(2)), nil, nil)), true
	}
	return "", false
}

func (r *run) Do(op string) (obs string) {
	f := hx.Fields(op)
	if len(f) == 0 {
		return "badop"
	}
	if r.dead {
		return "dead"
	}
	defer func() {
		// a panic of the real code is re-raised for hx.SafeDo to report; the server may hold its lease lock
		if e := recover(); e != nil {
			r.dead = true
			panic(e)
		}
	}()
	if f[0] == "new" {
		if len(f) != 4 && len(f) != 5 {
			return "badop"
		}
		parts := strings.SplitN(f[1], "/", 2)
		if len(parts) != 2 {
			return "badop"
		}
		base := hexIP(parts[0])
		gw := hexIP(f[2])
		secs, err := strconv.Atoi(f[3])
		if base == nil || gw == nil || err != nil {
			return "badop"
		}
		logger := zap.NewNop()
		pm := dhcp.NewPoolManager(nil, logger)
		pool, err := dhcp.NewPool(dhcp.PoolConfig{
			ID: 1, Name: "p", Network: base.String() + "/" + parts[1], Gateway: gw.String(),
			DNSServers: []string{"8.8.8.8"}, LeaseTime: time.Duration(secs) * time.Second,
			ClientClass: dhcp.ClientClassResidential,
		})
		if err != nil {
			return "invalid"
		}
		if err := pm.AddPool(pool); err != nil {
			return "invalid"
		}
		// a Loader that never loaded its maps: every map call returns an error instead of panicking
		loader, err := ebpf.NewLoader("lo", logger)
		if err != nil {
			return "invalid"
		}
		srv, err := dhcp.NewServer(dhcp.ServerConfig{Interface: "lo", ServerIP: gw}, loader, pm, logger)
		if err != nil {
			return "invalid"
		}
		if len(f) == 5 {
			// Nexus / HTTP-allocator mode: LookupIPv4 is answered by an in-process "Nexus API"
			table := map[string]string{}
			if f[4] != "-" {
				for _, item := range strings.Split(f[4], ",") {
					kv := strings.SplitN(item, ":", 2)
					if len(kv) != 2 || hexIP(kv[1]) == nil || !strings.HasPrefix(kv[0], "m") {
						return "badop"
					}
					table[macOf(kv[0]).String()] = hexIP(kv[1]).String()
				}
			}
			alloc := nexus.NewHTTPAllocator("http://nexus.invalid",
				nexus.WithHTTPClient(&http.Client{Transport: handlerTransport{nexusAPI(base.String()+"/"+parts[1], gw.String(), table)}}))
			srv.SetHTTPAllocator(alloc, "nx")
		}
		if r.cancel != nil { // a second `new` in one sequence: stop the first server's ticker
			r.cancel()
			syncWait()
		}
		r.srv, r.pool, r.conn = srv, pool, &fakeConn{}
		ctx, cancel := context.WithCancel(context.Background())
		r.cancel = cancel
		go srv.RunLeaseCleanupForVerif(ctx) // the real one-minute ticker, on the virtual clock
		syncWait()
		time.Sleep(30 * time.Second) // messages arrive at 30 s past the minute, the ticker fires on the minute
		syncWait()
		r.t0 = time.Now()
		return "ok " + r.snapshot()
	}
	if r.srv == nil {
		return "badop"
	}
	var reply string
	switch f[0] {
	case "disc", "discr", "req", "rel", "dec", "inf":
		var ok bool
		if reply, ok = r.msg(f); !ok {
			return "badop"
		}
	case "gap":
		if len(f) < 2 || f[1] == "inf" {
			return "badop"
		}
		inner, ok, ran := "", true, false
		r.srv.SetCleanupGapForVerif(func() {
			ran = true
			inner, ok = r.msg(f[1:])
		})
		func() {
			defer r.srv.SetCleanupGapForVerif(nil)
			r.srv.CleanupExpiredForVerif()
		}()
		if !ok {
			return "badop"
		}
		if !ran {
			inner = "notrun"
		}
		reply = "gap " + inner
	case "tick":
		if len(f) != 2 {
			return "badop"
		}
		n, err := strconv.Atoi(f[1])
		if err != nil || n < 0 || n > 100000 {
			return "badop"
		}
		time.Sleep(time.Duration(n) * time.Minute)
		syncWait()
		reply = "ok"
	case "cleanup":
		if len(f) != 1 {
			return "badop"
		}
		r.srv.CleanupExpiredForVerif()
		reply = "ok"
	default:
		return "badop"
	}
	return reply + " " + r.snapshot()
}

// ---------------------------------------------------------------- generator

type net4 struct {
	base uint32
	plen int
	gw   uint32
}

func (n net4) bcast() uint32 { return n.base | (1<<(32-n.plen) - 1) }
func (n net4) newOp(lease int) string {
	return fmt.Sprintf("new %x/%d %x %d", n.base, n.plen, n.gw, lease)
}

var (
	net29  = net4{0x0a000000, 29, 0x0a000001} // 10.0.0.0/29, gateway .1 : 5 usable addresses
	net30  = net4{0x0a000008, 30, 0x0a000009} // 10.0.0.8/30, gateway .9 : 1 usable address
	net29b = net4{0xc0a80108, 29, 0xc0a8010e} // 192.168.1.8/29, gateway .14 (last host)
)

const giaddrTok = "a0000fe" // a relay outside the pool

// addrChoices: the requested-address universe of the property (own / another client's / gateway / broadcast /
// network / outside / none) is realised by naming every host of the tiny network plus the special addresses.
func (n net4) addrChoices() []string {
	var out []string
	for a := n.base; a <= n.bcast(); a++ {
		out = append(out, fmt.Sprintf("%x", a))
	}
	out = append(out, fmt.Sprintf("%x", n.bcast()+1), "c0a86363", "0", "-")
	return out
}

func randOp(r *rand.Rand, n net4, clients, cids int) string {
	return randOpD(r, n, clients, cids, nil, 0)
}

// randOpD: extra = addresses outside the pool worth naming (the Nexus allocations); depth 1 = inside a gap
func randOpD(r *rand.Rand, n net4, clients, cids int, extra []string, depth int) string {
	m := fmt.Sprintf("m%d", 1+r.Intn(clients))
	addrs := n.addrChoices()
	gi, cid := "-", "-"
	if r.Intn(4) == 0 {
		gi = giaddrTok
		if r.Intn(5) != 0 {
			cid = fmt.Sprintf("c%d", 1+r.Intn(cids))
		}
	} else if r.Intn(12) == 0 {
		cid = fmt.Sprintf("c%d", 1+r.Intn(cids)) // option 82 on an unrelayed packet
	}
	if r.Intn(14) == 0 {
		cid = hx.Pick(r, []string{"e", "r", "x"}) // empty circuit-id / remote-id only / truncated TLV
	}
	if len(extra) > 0 && r.Intn(3) == 0 {
		addrs = append(addrs, extra...) // Nexus allocations
	}
	if depth == 0 && r.Intn(25) == 0 { // a message handled inside the lock gap of a cleanup pass
		inner := randOpD(r, n, clients, cids, extra, 1)
		for strings.HasPrefix(inner, "tick") || strings.HasPrefix(inner, "cleanup") || strings.HasPrefix(inner, "inf") {
			inner = randOpD(r, n, clients, cids, extra, 1)
		}
		return "gap " + inner
	}
	switch x := r.Intn(100); {
	case x < 26:
		if r.Intn(3) == 0 { // DISCOVER naming the address the client would like (option 50)
			return fmt.Sprintf("discr %s %s %s %s", m, hx.Pick(r, addrs), gi, cid)
		}
		return fmt.Sprintf("disc %s %s %s", m, gi, cid)
	case x < 60:
		req, ci := hx.Pick(r, addrs), "-"
		if r.Intn(6) == 0 { // renewal style: ciaddr instead of option 50
			ci, req = hx.Pick(r, addrs), "-"
			if r.Intn(3) == 0 {
				req = "0"
			}
		}
		return fmt.Sprintf("req %s %s %s %s %s", m, req, ci, gi, cid)
	case x < 70:
		return "rel " + m
	case x < 80:
		return fmt.Sprintf("dec %s %s", m, hx.Pick(r, addrs))
	case x < 83:
		return fmt.Sprintf("inf %s %s", m, hx.Pick(r, addrs))
	case x < 95:
		return fmt.Sprintf("tick %d", hx.Pick(r, []int{1, 1, 2, 4, 5, 6, 11, 12}))
	default:
		return "cleanup"
	}
}

// protocolOp follows the protocol (DISCOVER, then REQUEST of what was offered, renewals, releases) so that
// long runs reach full pools, expiry and reuse instead of dying in NAKs.
type pclient struct{ offered, leased string }

func (comp) Gen(r *rand.Rand, tier string, emit func([]string)) {
	nShort, nLong, nProto, nWindow := 700, 15, 25, 600
	if tier == "thorough" {
		nShort, nLong, nProto, nWindow = 20000, 400, 800, 20000
	}
	nets := []net4{net29, net29, net29b, net30}
	// configuration: lease 300 s (a multiple of the one-minute grid) or 290 s (expiry falls between the message
	// instant and the ticker, so the cleanup's lock gap can be entered); one in five runs is in Nexus mode
	config := func(n net4) (string, []string) {
		lease := 300
		if r.Intn(3) == 0 {
			lease = 290
		}
		op := n.newOp(lease)
		if r.Intn(5) != 0 {
			return op, nil
		}
		switch r.Intn(3) {
		case 0:
			return op + " -", nil
		case 1:
			return op + " m1:a010005", []string{"a010005"}
		default:
			return op + " m1:a010005,m3:a010006", []string{"a010005", "a010006"}
		}
	}
	for i := 0; i < nShort; i++ {
		n := nets[r.Intn(len(nets))]
		clients := 2 + r.Intn(3)
		op, extra := config(n)
		seq := []string{op}
		for j, k := 0, 2+r.Intn(10); j < k; j++ {
			seq = append(seq, randOpD(r, n, clients, 2, extra, 0))
		}
		emit(seq)
	}
	// random to depth 200 with 6 clients on a /29
	for i := 0; i < nLong; i++ {
		op, extra := config(net29)
		seq := []string{op}
		for j := 0; j < 200; j++ {
			seq = append(seq, randOpD(r, net29, 6, 3, extra, 0))
		}
		emit(seq)
	}
	// protocol-following clients with occasional misbehaviour, 6 clients on a /29, depth 200
	for i := 0; i < nProto; i++ {
		emit(protoSeq(r, net29, 6, 200))
	}
	// the expired-but-unswept window: 3 clients, 3 addresses
	for i := 0; i < nWindow; i++ {
		emit(windowSeq(r))
	}
	exhaustive(r, tier, emit)
}

// windowSeq: histories around the window in which a lease has run out but the once-a-minute sweep has not removed
// it yet (the lease is still in the table, its pool binding still exists).  Messages arrive on whole minutes and the
// ticker fires 30 s later, so after `tick 5` a lease made at 0 (300 s or 290 s) is over and was not swept at 270.
// The skeleton is
//
//	A obtains X;  tick 5;  A: DISCOVER naming Y (option 50);  B: REQUEST X;  sweep;  C: REQUEST X
//
// over 3 clients and the first 3 host addresses, with every role drawn at random (so A, B, C and X, Y coincide
// often), every step dropped or replaced now and then, and random window messages in between.
func windowSeq(r *rand.Rand) []string {
	n := net29
	hosts := []string{fmt.Sprintf("%x", n.base+2), fmt.Sprintf("%x", n.base+3), fmt.Sprintf("%x", n.base+4)}
	cl := func() string { return fmt.Sprintf("m%d", 1+r.Intn(3)) }
	ad := func() string { return hosts[r.Intn(len(hosts))] }
	other := func(not string, f func() string) string { // mostly a different one
		x := f()
		for i := 0; i < 3 && x == not; i++ {
			x = f()
		}
		return x
	}
	noise := func() string {
		switch x := r.Intn(100); {
		case x < 30:
			return fmt.Sprintf("discr %s %s - -", cl(), hx.Pick(r, append([]string{"-", "0", fmt.Sprintf("%x", n.gw)}, hosts...)))
		case x < 40:
			return fmt.Sprintf("disc %s - -", cl())
		case x < 72:
			return fmt.Sprintf("req %s %s - - -", cl(), ad())
		case x < 80:
			return fmt.Sprintf("req %s - %s - -", cl(), ad())
		case x < 88:
			return "rel " + cl()
		case x < 94:
			return fmt.Sprintf("dec %s %s", cl(), ad())
		default:
			return fmt.Sprintf("discr %s %s %s c1", cl(), ad(), giaddrTok)
		}
	}
	// lease 290: over at `tick 5` for DISCOVER/REQUEST and for an explicit `cleanup`; lease 300: over for the handlers
	// (not Before its end) but not yet for `cleanup` (not After its end) - only the next ticker pass removes it
	seq := []string{n.newOp(hx.Pick(r, []int{290, 290, 300}))}
	maybeNoise := func() {
		for r.Intn(4) == 0 {
			seq = append(seq, noise())
		}
	}
	a, x := cl(), hosts[0]
	// A obtains X (the head of the free list): DISCOVER + REQUEST, INIT-REBOOT REQUEST, or DISCOVER naming it
	switch r.Intn(4) {
	case 0:
		seq = append(seq, fmt.Sprintf("req %s %s - - -", a, x))
	case 1:
		seq = append(seq, fmt.Sprintf("discr %s %s - -", a, x), fmt.Sprintf("req %s %s - - -", a, x))
	default:
		seq = append(seq, fmt.Sprintf("disc %s - -", a), fmt.Sprintf("req %s %s - - -", a, x))
	}
	if r.Intn(3) == 0 { // a second lessee
		b := other(a, cl)
		seq = append(seq, fmt.Sprintf("req %s %s - - -", b, hosts[1]))
	}
	maybeNoise()
	// the lease runs out, the sweep has not run (tick 4: not yet over; tick 6: swept at 330)
	seq = append(seq, fmt.Sprintf("tick %d", hx.Pick(r, []int{5, 5, 5, 5, 5, 5, 4, 6})))
	maybeNoise()
	y := other(x, ad)
	if r.Intn(8) != 0 {
		who := a
		if r.Intn(6) == 0 {
			who = cl()
		}
		seq = append(seq, fmt.Sprintf("discr %s %s - -", who, y))
	}
	maybeNoise()
	b := other(a, cl)
	if r.Intn(8) != 0 {
		if r.Intn(5) == 0 {
			seq = append(seq, fmt.Sprintf("disc %s - -", b)) // takes the head of the free list
		} else {
			want := x
			if r.Intn(6) == 0 {
				want = ad()
			}
			seq = append(seq, fmt.Sprintf("req %s %s - - -", b, want))
		}
	}
	maybeNoise()
	// the sweep (or the first client's RELEASE, which frees by address as well)
	switch r.Intn(8) {
	case 0:
		seq = append(seq, "rel "+a)
	case 1:
		seq = append(seq, "gap "+noise())
	case 2, 3:
		seq = append(seq, "tick 1")
	default:
		seq = append(seq, "cleanup")
	}
	maybeNoise()
	c := other(b, cl)
	switch r.Intn(6) {
	case 0:
		seq = append(seq, fmt.Sprintf("disc %s - -", c))
	case 1:
		seq = append(seq, fmt.Sprintf("discr %s %s - -", c, x), fmt.Sprintf("req %s %s - - -", c, x))
	default:
		seq = append(seq, fmt.Sprintf("req %s %s - - -", c, x))
	}
	maybeNoise()
	seq = append(seq, "disc m9 - -")
	return seq
}

// protoSeq cannot see replies (sequences are generated before they run), so it tracks what a correct
// server WOULD answer on this network (first free address) only approximately: it simply names, for REQUEST,
// a host address derived from the client's number, which after a few DISCOVERs is very often the offered one.
func protoSeq(r *rand.Rand, n net4, clients, depth int) []string {
	seq := []string{n.newOp(hx.Pick(r, []int{300, 300, 290}))}
	for j := 0; j < depth; j++ {
		k := 1 + r.Intn(clients)
		m := fmt.Sprintf("m%d", k)
		// the free list starts at base+2 (gateway = base+1) and is handed out in order
		guess := fmt.Sprintf("%x", n.base+1+uint32(k))
		switch x := r.Intn(100); {
		case x < 30:
			seq = append(seq, fmt.Sprintf("disc %s - -", m))
		case x < 62:
			seq = append(seq, fmt.Sprintf("req %s %s - - -", m, guess))
		case x < 70:
			seq = append(seq, fmt.Sprintf("req %s - %s - -", m, guess))
		case x < 78:
			seq = append(seq, "rel "+m)
		case x < 82:
			seq = append(seq, fmt.Sprintf("dec %s %s", m, guess))
		case x < 86:
			seq = append(seq, fmt.Sprintf("req %s %s - %s c%d", m, guess, giaddrTok, 1+r.Intn(2)))
		case x < 97:
			seq = append(seq, fmt.Sprintf("tick %d", hx.Pick(r, []int{1, 2, 3, 5, 6})))
		default:
			seq = append(seq, randOp(r, n, clients, 2))
		}
	}
	return seq
}

// exhaustive: every sequence over a small alphabet.  The property record's quantifier says "k<=4 exhaustively to
// depth 6"; the full product "4 clients x depth 6 x the whole alphabet" is ~10^10 sequences and is NOT enumerated.
// What is enumerated are six smaller scopes that cover it by depth OR by breadth:
//
//	A1: 2 clients, 13 letters (incl. the exact-expiry `tick 5`, `tick 6`, `cleanup`, a relayed option-82 REQUEST),
//	    depth 5 on the /30 (ONE usable address) and depth 4 on the /29
//	A2: 2 clients, depth 6, 8 letters (incl. `tick 5` and `tick 6`), on the /30
//	B : 3 clients, depth 4, 21 letters on the /29 (requested address in {first host, gateway, none})
//	C : 4 clients, depth 3, 43 letters on the /29 (requested address in {two hosts, gateway, broadcast, network, outside, none})
//	G : 2 clients, depth 4, 13 letters on the /30 with lease 290 s: messages handled INSIDE the lock gap of a cleanup
//	    pass (`gap …`), exact ticks, two malformed option-82 letters
//	N : Nexus mode, 3 clients, depth 3, 17 letters (Nexus allocation, local address, decline of the Nexus address)
//	W : the expired-but-unswept window (m1 leases the first host, `tick 5`): 3 clients, 2 addresses, depth 4, 12 letters
//	    (DISCOVER with / without option 50, REQUEST by the lessee and by the others, RELEASE, `cleanup`, `tick 1`)
//
// each followed by two closing DISCOVERs.  thorough: all of it (~0.83 million sequences); quick: a seeded sample.
func exhaustive(r *rand.Rand, tier string, emit func([]string)) {
	type scope struct {
		newOp  string
		alpha  []string
		depth  int
		keep   int      // quick tier: keep one in `keep`
		prefix []string // fixed operations between `new` and the enumerated part
	}
	var scopes []scope
	// A1
	for _, nd := range []struct {
		n     net4
		depth int
		keep  int
	}{{net30, 5, 130}, {net29, 4, 12}} {
		n := nd.n
		var a []string
		for k := 1; k <= 2; k++ {
			m := fmt.Sprintf("m%d", k)
			a = append(a, fmt.Sprintf("disc %s - -", m), fmt.Sprintf("req %s %x - - -", m, n.base+2),
				"rel "+m, fmt.Sprintf("dec %s %x", m, n.base+2))
		}
		a = append(a, fmt.Sprintf("req m2 %x - %s c1", n.base+2, giaddrTok), fmt.Sprintf("req m1 %x - - c1", n.base+2),
			"tick 5", "tick 6", "cleanup")
		scopes = append(scopes, scope{n.newOp(300), a, nd.depth, nd.keep, nil})
	}
	// A2
	{
		n := net30
		x := n.base + 2
		a := []string{"disc m1 - -", fmt.Sprintf("req m1 %x - - -", x), "disc m2 - -", fmt.Sprintf("req m2 %x - - -", x),
			fmt.Sprintf("dec m1 %x", x), "rel m1", "tick 5", "tick 6"}
		scopes = append(scopes, scope{n.newOp(300), a, 6, 90, nil})
	}
	// B, C
	for _, sc := range []struct {
		clients, depth int
		full           bool
		keep           int
	}{{3, 4, false, 70}, {4, 3, true, 20}} {
		n := net29
		var reqs []string
		if sc.full {
			reqs = []string{fmt.Sprintf("%x", n.base+2), fmt.Sprintf("%x", n.base+3), fmt.Sprintf("%x", n.gw),
				fmt.Sprintf("%x", n.bcast()), fmt.Sprintf("%x", n.base), "c0a86363", "-"}
		} else {
			reqs = []string{fmt.Sprintf("%x", n.base+2), fmt.Sprintf("%x", n.gw), "-"}
		}
		var a []string
		for k := 1; k <= sc.clients; k++ {
			m := fmt.Sprintf("m%d", k)
			a = append(a, fmt.Sprintf("disc %s - -", m), "rel "+m)
			for _, x := range reqs {
				a = append(a, fmt.Sprintf("req %s %s - - -", m, x))
			}
			a = append(a, fmt.Sprintf("dec %s %x", m, n.base+2))
		}
		a = append(a, "tick 6", fmt.Sprintf("disc m2 %s c1", giaddrTok), fmt.Sprintf("req m1 %x - %s c1", n.base+2, giaddrTok))
		scopes = append(scopes, scope{n.newOp(300), a, sc.depth, sc.keep, nil})
	}
	// G: lease 290 s — at `tick 5` the lease has run out but the ticker has not fired yet
	{
		n := net30
		x := n.base + 2
		a := []string{"disc m1 - -", fmt.Sprintf("req m1 %x - - -", x), fmt.Sprintf("req m2 %x - - -", x), "rel m1",
			"tick 5", "tick 1", "cleanup",
			fmt.Sprintf("gap req m1 %x - - -", x), "gap rel m1", fmt.Sprintf("gap req m2 %x - - -", x),
			fmt.Sprintf("gap dec m1 %x", x),
			fmt.Sprintf("req m1 %x - %s e", x, giaddrTok), fmt.Sprintf("req m1 %x - %s x", x, giaddrTok)}
		scopes = append(scopes, scope{n.newOp(290), a, 4, 6, nil})
	}
	// N: Nexus mode; m1 is an activated subscriber (allocation 10.1.0.5), m2 and m3 live in the walled garden
	{
		n := net29
		var a []string
		for k := 1; k <= 3; k++ {
			m := fmt.Sprintf("m%d", k)
			a = append(a, fmt.Sprintf("disc %s - -", m), fmt.Sprintf("req %s a010005 - - -", m),
				fmt.Sprintf("req %s %x - - -", m, n.base+2), "rel "+m, fmt.Sprintf("dec %s a010005", m))
		}
		a = append(a, "tick 6", fmt.Sprintf("req m2 %x - - -", n.gw))
		scopes = append(scopes, scope{n.newOp(300) + " m1:a010005", a, 3, 3, nil})
	}
	// W: the expired-but-unswept window.  m1 holds X = first host (lease 290 s); at `tick 5` (300 s) its lease is over,
	// the sweep has not run (it ran at 270 s), and an explicit `cleanup` would remove it.  3 clients, 2 addresses (X, Y), depth 4, 12 letters: DISCOVER with and without option 50, REQUEST
	// for X / Y by the lessee and by the others, RELEASE, the sweep (`cleanup`, `tick 1`).
	{
		n := net29
		x, y := n.base+2, n.base+3
		a := []string{
			fmt.Sprintf("discr m1 %x - -", y), "disc m1 - -", fmt.Sprintf("discr m2 %x - -", x), "disc m2 - -",
			fmt.Sprintf("req m1 %x - - -", y), fmt.Sprintf("req m1 %x - - -", x), fmt.Sprintf("req m2 %x - - -", x),
			fmt.Sprintf("req m3 %x - - -", x), fmt.Sprintf("req m2 %x - - -", y), "rel m1", "cleanup", "tick 1"}
		scopes = append(scopes, scope{n.newOp(290), a, 4, 40, []string{fmt.Sprintf("req m1 %x - - -", x), "tick 5"}})
	}
	for _, sc := range scopes {
		var rec func(prefix []string, depth int)
		rec = func(prefix []string, depth int) {
			if depth == 0 {
				if tier != "thorough" && r.Intn(sc.keep) != 0 {
					return
				}
				seq := append(append([]string{sc.newOp}, sc.prefix...), prefix...)
				// closing observers: what a fresh client and the first client are told afterwards
				seq = append(seq, "disc m9 - -", "disc m1 - -")
				emit(seq)
				return
			}
			for _, x := range sc.alpha {
				rec(append(prefix[:len(prefix):len(prefix)], x), depth-1)
			}
		}
		rec(nil, sc.depth)
	}
}

func main() {
	fmt.Fprintln(os.Stderr, "dhcp4: build the harness as a test binary (go test -c -tags verif ./cmd/dhcp4): it needs testing/synctest")
	os.Exit(2)
}
