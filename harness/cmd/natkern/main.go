// natkern drives the REAL nat.Manager (pkg/nat) TOGETHER with the natively compiled, UNMODIFIED bpf/nat44.c
// (cshim runner runprog-nat44) in ONE sequence: the manager writes its port-block allocations into a real kernel
// subscriber_nat map (and, since the fix of finding G6-nat-stale-sessions, purges nat_sessions / nat_reverse /
// eim_table on release); the kernel maps and the runner's maps are kept identical byte for byte in both directions
// (what the manager writes is `put` into the runner, what nat44_egress / nat44_ingress create is written into the
// kernel maps), so the manager sees the session state the programs created and the programs see the manager's
// allocations.  Nothing but raw bytes crosses the boundary.
//
// Property (C10 at kernel level, C16 for NAT state): a translation never uses a port outside the sender's CURRENT
// block, an inbound packet is only delivered to the holder of the block its port lies in, and releasing a
// subscriber removes every session / reverse / EIM entry it owned.
//
// Addresses are byte palindromes (10.7.7.10, 198.18.18.198, …): for these the Go key image (host-order integer,
// finding D10) and the wire image the C program uses coincide, so D10 does not mask the behaviour examined here.
//
//	new pps=<ports per subscriber> start=<port> end=<port> eim=0|1 pub=<hexip>[,<hexip>]   => ok
//	alloc <hexip>      => ok [s=<key>:<value>]           (kernel-map differences; allocated_at zeroed)  | err <text>
//	dealloc <hexip>    => ok [s-=<key>] [x-=<key>…] [r-=<key>…] [e-=<key>…]
//	pkt egress|ingress <hexframe>   => <verdict> same|<hexframe-after>[ ev=N]      (as the runner prints it)
//	maps               => x=<key>:<nat_ip nat_port orig_port orig_ip>,… r=<key>:<value>,… e=<key>:<ext_ip ext_port>,… s=<key>:<block 12 bytes>,…
//	fault on|off       => ok      (the manager's handle of subscriber_nat is a CLOSED duplicate: every Put and every Delete
//	                               of the manager fails with EBADF; the kernel map itself is untouched and still read back)
//	                               alloc / dealloc then answer `err kernel-write-failed` where the write was attempted
package main

import (
	"encoding/hex"
	"fmt"
	"math/rand"
	"net"
	"os"
	"sort"
	"strconv"
	"strings"

	"bngverif/hx"

	"github.com/cilium/ebpf"
	"github.com/cilium/ebpf/rlimit"
	"github.com/codelaboratoryltd/bng/pkg/nat"
	"go.uber.org/zap"
)

type comp struct{}

var shared *hx.CRunner
var kmaps = map[string]*ebpf.Map{}
var deadSub *ebpf.Map // a closed duplicate of the subscriber_nat handle (fault injection)

var names = []string{"subscriber_nat", "nat_sessions", "nat_reverse", "eim_table"}
var tags = map[string]string{"subscriber_nat": "s", "nat_sessions": "x", "nat_reverse": "r", "eim_table": "e"}

// geometries as declared in bpf/nat44.c
var specs = map[string]ebpf.MapSpec{
	"subscriber_nat": {Type: ebpf.Hash, KeySize: 4, ValueSize: 64, MaxEntries: 1024},
	"nat_sessions":   {Type: ebpf.LRUHash, KeySize: 16, ValueSize: 80, MaxEntries: 4096},
	"nat_reverse":    {Type: ebpf.LRUHash, KeySize: 16, ValueSize: 16, MaxEntries: 4096},
	"eim_table":      {Type: ebpf.LRUHash, KeySize: 8, ValueSize: 32, MaxEntries: 4096},
}

type run struct {
	c    *hx.CRunner
	mgr  *nat.Manager
	snap map[string]map[string]string
}

func (comp) NewRun() hx.Run {
	if shared == nil {
		c, err := hx.StartCRunner("nat44")
		if err != nil {
			fmt.Fprintln(os.Stderr, "natkern harness:", err)
			os.Exit(3)
		}
		shared = c
	}
	shared.Reset()
	return &run{c: shared}
}

func (r *run) Close() {}

func clearMap(m *ebpf.Map) {
	var kb, vb []byte
	var keys [][]byte
	it := m.Iterate()
	for it.Next(&kb, &vb) {
		keys = append(keys, append([]byte(nil), kb...))
	}
	for _, k := range keys {
		_ = m.Delete(k)
	}
}

func kernelDump(m *ebpf.Map) map[string]string {
	out := map[string]string{}
	var kb, vb []byte
	it := m.Iterate()
	for it.Next(&kb, &vb) {
		out[hex.EncodeToString(kb)] = hex.EncodeToString(vb)
	}
	return out
}

func (r *run) runnerDump(name string) map[string]string {
	out := map[string]string{}
	obs := r.c.Do("dump " + name)
	if obs == "-" || obs == "" {
		return out
	}
	for _, kv := range strings.Split(obs, ",") {
		if i := strings.IndexByte(kv, '='); i > 0 {
			out[kv[:i]] = kv[i+1:]
		}
	}
	return out
}

func sortedKeys(m map[string]string) []string {
	ks := make([]string, 0, len(m))
	for k := range m {
		ks = append(ks, k)
	}
	sort.Strings(ks)
	return ks
}

// value as shown in an observation: allocated_at (wall clock) of subscriber_nat is zeroed
func shown(name, v string) string {
	if name == "subscriber_nat" && len(v) == 128 {
		return v[:32] + "0000000000000000" + v[48:]
	}
	return v
}

// kernelToRunner applies what the manager changed in the kernel maps to the runner and renders it
func (r *run) kernelToRunner() []string {
	var toks []string
	for _, n := range names {
		after := kernelDump(kmaps[n])
		before := r.snap[n]
		for _, k := range sortedKeys(before) {
			if _, ok := after[k]; !ok {
				r.c.Do("del " + n + " " + k)
				toks = append(toks, tags[n]+"-="+k)
			}
		}
		for _, k := range sortedKeys(after) {
			if before[k] != after[k] {
				r.c.Do("put " + n + " " + k + " " + after[k])
				toks = append(toks, tags[n]+"="+k+":"+shown(n, after[k]))
			}
		}
		r.snap[n] = after
	}
	return toks
}

// runnerToKernel writes what the programs changed in the runner's maps into the kernel maps
func (r *run) runnerToKernel() string {
	for _, n := range names {
		after := r.runnerDump(n)
		before := r.snap[n]
		for k := range before {
			if _, ok := after[k]; !ok {
				kb, _ := hex.DecodeString(k)
				_ = kmaps[n].Delete(kb)
			}
		}
		for k, v := range after {
			if before[k] != v {
				kb, _ := hex.DecodeString(k)
				vb, _ := hex.DecodeString(v)
				if err := kmaps[n].Put(kb, vb); err != nil {
					return "err kernel-put " + n + " " + err.Error()
				}
			}
		}
		r.snap[n] = after
	}
	return ""
}

func parseIP(h string) net.IP {
	b, err := hex.DecodeString(h)
	if err != nil || len(b) != 4 {
		return nil
	}
	return net.IP(b)
}

func (r *run) start(toks []string) string {
	kv := map[string]string{}
	for _, t := range toks {
		if i := strings.IndexByte(t, '='); i > 0 {
			kv[t[:i]] = t[i+1:]
		}
	}
	pps, e1 := strconv.Atoi(kv["pps"])
	start, e2 := strconv.Atoi(kv["start"])
	end, e3 := strconv.Atoi(kv["end"])
	if e1 != nil || e2 != nil || e3 != nil || kv["pub"] == "" {
		return "badop"
	}
	if len(kmaps) == 0 {
		_ = rlimit.RemoveMemlock()
		for _, n := range names {
			sp := specs[n]
			m, err := ebpf.NewMap(&sp)
			if err != nil {
				return "err kernel-map " + err.Error()
			}
			kmaps[n] = m
		}
		d, err := kmaps["subscriber_nat"].Clone()
		if err != nil {
			return "err kernel-map " + err.Error()
		}
		d.Close()
		deadSub = d
	}
	r.snap = map[string]map[string]string{}
	for _, n := range names {
		clearMap(kmaps[n])
		r.snap[n] = map[string]string{}
		sp := specs[n]
		r.c.Do(fmt.Sprintf("decl %s %d %d %d %d", n, sp.Type, sp.KeySize, sp.ValueSize, sp.MaxEntries))
	}
	eim := kv["eim"] == "1"
	mgr, err := nat.NewManager(nat.ManagerConfig{Interface: "verif0", PortsPerSubscriber: pps, PortRangeStart: start,
		PortRangeEnd: end, EnableEIM: eim}, zap.NewNop())
	if err != nil {
		return "err " + strings.ReplaceAll(err.Error(), " ", "_")
	}
	mgr.SetSubscriberNATMapForVerif(kmaps["subscriber_nat"])
	mgr.SetSessionMapsForVerif(kmaps["nat_sessions"], kmaps["nat_reverse"], kmaps["eim_table"])
	for _, p := range strings.Split(kv["pub"], ",") {
		ip := parseIP(p)
		if ip == nil {
			return "badop"
		}
		if err := mgr.AddPublicIP(ip); err != nil {
			return "err " + strings.ReplaceAll(err.Error(), " ", "_")
		}
	}
	// what Start() publishes in nat_config_map[0]: {flags, port_range_start, port_range_end, default_ports_per_sub}
	flags := 0
	if eim {
		flags |= 1
	}
	cfg := fmt.Sprintf("%02x000000%02x%02x%02x%02x%02x%02x000000000000", flags, start&255, start>>8, end&255, end>>8, pps&255, (pps>>8)&255)
	r.c.Do("put nat_config_map 00000000 " + cfg)
	r.mgr = mgr
	return "ok"
}

// errText renders an error of the manager; failures of the kernel-map write are named, not quoted (errno text)
func errText(err error) string {
	if strings.Contains(err.Error(), "eBPF map") || strings.Contains(err.Error(), "subscriber NAT entry") {
		return "kernel-write-failed"
	}
	return strings.ReplaceAll(err.Error(), " ", "_")
}

func (r *run) Do(op string) string {
	toks := hx.Fields(op)
	if len(toks) == 0 {
		return "badop"
	}
	if toks[0] == "new" {
		return r.start(toks[1:])
	}
	if r.mgr == nil {
		return "badop"
	}
	switch {
	case toks[0] == "alloc" && len(toks) == 2:
		ip := parseIP(toks[1])
		if ip == nil {
			return "badop"
		}
		_, err := r.mgr.AllocateNAT(ip)
		d := r.kernelToRunner()
		if err != nil {
			return strings.Join(append([]string{"err", errText(err)}, d...), " ")
		}
		return strings.Join(append([]string{"ok"}, d...), " ")
	case toks[0] == "dealloc" && len(toks) == 2:
		ip := parseIP(toks[1])
		if ip == nil {
			return "badop"
		}
		err := r.mgr.DeallocateNAT(ip)
		d := r.kernelToRunner()
		if err != nil {
			return strings.Join(append([]string{"err", errText(err)}, d...), " ")
		}
		return strings.Join(append([]string{"ok"}, d...), " ")
	case toks[0] == "pkt" && len(toks) == 3 && (toks[1] == "egress" || toks[1] == "ingress"):
		obs := r.c.Do("run tc nat44_" + toks[1] + " " + toks[2])
		if e := r.runnerToKernel(); e != "" {
			return e
		}
		return obs
	case toks[0] == "fault" && len(toks) == 2 && (toks[1] == "on" || toks[1] == "off"):
		if toks[1] == "on" {
			r.mgr.SetSubscriberNATMapForVerif(deadSub)
		} else {
			r.mgr.SetSubscriberNATMapForVerif(kmaps["subscriber_nat"])
		}
		return "ok"
	case toks[0] == "maps" && len(toks) == 1:
		var out []string
		cut := map[string]int{"nat_sessions": 24, "nat_reverse": 32, "eim_table": 12, "subscriber_nat": 24}
		for _, n := range []string{"nat_sessions", "nat_reverse", "eim_table", "subscriber_nat"} {
			k := kernelDump(kmaps[n])
			var items []string
			for _, key := range sortedKeys(k) {
				items = append(items, key+":"+k[key][:cut[n]])
			}
			if len(items) == 0 {
				items = []string{"-"}
			}
			out = append(out, tags[n]+"="+strings.Join(items, ","))
		}
		return strings.Join(out, " ")
	}
	return "badop"
}

// ---------------------------------------------------------------------------------------------- frames

type ip4 [4]byte

func be16(v uint16) []byte { return []byte{byte(v >> 8), byte(v)} }

func ipChecksum(h []byte) uint16 {
	var s uint32
	for i := 0; i+1 < len(h); i += 2 {
		s += uint32(h[i])<<8 | uint32(h[i+1])
	}
	for s>>16 != 0 {
		s = s&0xffff + s>>16
	}
	return ^uint16(s)
}

func frame(proto byte, src, dst ip4, sport, dport uint16) string {
	f := []byte{0x02, 0, 0, 0, 0, 0x01, 0x02, 0, 0, 0, 0, 0x02, 0x08, 0x00}
	var l4 []byte
	switch proto {
	case 6:
		l4 = append(append(be16(sport), be16(dport)...), 0, 0, 0, 1, 0, 0, 0, 2, 0x50, 0x10, 0xff, 0xff, 0xbe, 0xef, 0, 0)
	case 17:
		l4 = append(append(be16(sport), be16(dport)...), 0, 12, 0xbe, 0xef)
	default:
		l4 = append([]byte{8, 0, 0xbe, 0xef}, append(be16(sport), 0, 7)...)
	}
	tot := 20 + len(l4) + 4
	iph := []byte{0x45, 0, byte(tot >> 8), byte(tot), 0x12, 0x34, 0, 0, 64, proto, 0, 0}
	iph = append(append(iph, src[:]...), dst[:]...)
	c := ipChecksum(iph)
	iph[10], iph[11] = byte(c>>8), byte(c)
	f = append(append(f, iph...), l4...)
	f = append(f, 1, 2, 3, 4)
	return hex.EncodeToString(f)
}

var (
	privs = []ip4{{10, 7, 7, 10}, {10, 8, 8, 10}, {10, 9, 9, 10}, {10, 0, 0, 10}}
	pubs  = []ip4{{198, 18, 18, 198}, {203, 0, 0, 203}}
	dsts  = []ip4{{8, 8, 8, 8}, {9, 9, 9, 9}}
)

func hexip(a ip4) string { return hex.EncodeToString(a[:]) }

func egress(proto byte, src, dst ip4, sport, dport uint16) string {
	return "pkt egress " + frame(proto, src, dst, sport, dport)
}

// the reply of dst:dport to pub:natPort (ICMP: echo id = natPort)
func reply(proto byte, dst, pub ip4, dport, natPort uint16) string {
	if proto == 1 {
		return "pkt ingress " + frame(proto, dst, pub, natPort, 0)
	}
	return "pkt ingress " + frame(proto, dst, pub, dport, natPort)
}

func (comp) Gen(r *rand.Rand, tier string, emit func([]string)) {
	thorough := tier == "thorough"
	// the review's scenario, for every protocol, with and without EIM: k1 holds block 0 and has a flow; k1 is released;
	// k2 gets block 0; k1's address is allocated again (block 1); the old flow's packet, a new flow from the same inner
	// port, k2's own flow to the same destination, and the replies to the old and new mappings
	for _, eim := range []int{0, 1} {
		for _, proto := range []byte{17, 6, 1} {
			a, b, d := privs[0], privs[1], dsts[0]
			emit([]string{
				fmt.Sprintf("new pps=4 start=2000 end=2011 eim=%d pub=%s", eim, hexip(pubs[0])),
				"alloc " + hexip(a), egress(proto, a, d, 5000, 53), "maps",
				"dealloc " + hexip(a), "maps",
				"alloc " + hexip(b), "alloc " + hexip(a),
				egress(proto, a, d, 5000, 53), egress(proto, a, dsts[1], 5000, 53),
				reply(proto, d, pubs[0], 53, 2000), reply(proto, d, pubs[0], 53, 2004),
				egress(proto, b, d, 5000, 53), reply(proto, d, pubs[0], 53, 2000), "maps",
			})
			// the address is released and nothing takes its place: the reply to the old mapping must not be delivered
			emit([]string{
				fmt.Sprintf("new pps=4 start=2000 end=2011 eim=%d pub=%s", eim, hexip(pubs[0])),
				"alloc " + hexip(a), egress(proto, a, d, 5000, 53), "dealloc " + hexip(a),
				reply(proto, d, pubs[0], 53, 2000), egress(proto, a, d, 5000, 53), "maps",
			})
		}
	}
	// the kernel refuses the Delete of k1's block (finding C10-delete-failure-frees-block): k1 must keep the block -- its
	// flow keeps its port, k2 gets another block, a second release (the handle works again) removes everything
	for _, eim := range []int{0, 1} {
		for _, proto := range []byte{17, 6, 1} {
			a, b, d := privs[0], privs[1], dsts[0]
			emit([]string{
				fmt.Sprintf("new pps=4 start=2000 end=2011 eim=%d pub=%s", eim, hexip(pubs[0])),
				"alloc " + hexip(a), egress(proto, a, d, 5000, 53), "fault on", "dealloc " + hexip(a), "alloc " + hexip(privs[2]), "maps",
				"fault off", "alloc " + hexip(b), egress(proto, a, d, 5000, 53), egress(proto, b, d, 5000, 53),
				reply(proto, d, pubs[0], 53, 2000), reply(proto, d, pubs[0], 53, 2004), "maps",
				"dealloc " + hexip(a), "alloc " + hexip(privs[2]), egress(proto, privs[2], d, 5000, 53), reply(proto, d, pubs[0], 53, 2000), "maps",
			})
		}
	}
	n := 150
	steps := 40
	if thorough {
		n, steps = 1500, 60
	}
	for i := 0; i < n; i++ {
		npub := 1 + r.Intn(2)
		pub := hexip(pubs[0])
		if npub == 2 {
			pub += "," + hexip(pubs[1])
		}
		pps := hx.Pick(r, []int{2, 4, 4, 8})
		blocks := hx.Pick(r, []int{1, 2, 3})
		start := 2000
		end := start + pps*blocks - 1
		ops := []string{fmt.Sprintf("new pps=%d start=%d end=%d eim=%d pub=%s", pps, start, end, r.Intn(2), pub)}
		for j := 0; j < steps; j++ {
			p := hx.Pick(r, privs[:3])
			proto := hx.Pick(r, []byte{17, 17, 6, 1})
			d := hx.Pick(r, dsts)
			switch r.Intn(13) {
			case 12:
				ops = append(ops, "fault "+hx.Pick(r, []string{"on", "off", "off"}))
			case 0, 1, 2:
				ops = append(ops, "alloc "+hexip(p))
			case 3, 4:
				ops = append(ops, "dealloc "+hexip(p))
			case 5:
				ops = append(ops, "maps")
			case 6, 7, 8:
				ops = append(ops, reply(proto, d, hx.Pick(r, pubs[:npub]), 53, uint16(start+r.Intn(pps*blocks))))
			default:
				ops = append(ops, egress(proto, p, d, uint16(5000+r.Intn(2)), 53))
			}
		}
		ops = append(ops, "fault off", "maps")
		emit(ops)
	}
}

func main() { hx.Main(comp{}) }
