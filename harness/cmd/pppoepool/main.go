// pppoepool drives the real pppoe.IPPool (pkg/pppoe/server.go): NewIPPool's address walk,
// Allocate(sessionID), Release(sessionID).
package main

import (
	"fmt"
	"math/rand"
	"net"
	"strconv"

	"bngverif/flx"
	"bngverif/hx"

	"github.com/codelaboratoryltd/bng/pkg/pppoe"
)

type comp struct{}

func a(s string) uint32 { return flx.U32(net.ParseIP(s)) }

func newOp(g flx.V4) string { return fmt.Sprintf("new %x %d %x", g.Net, g.Ones, g.Gw) }

var smallGeos = []flx.V4{
	{Net: a("10.0.0.0"), Ones: 29, Gw: a("10.0.0.1")},        // 5 (gateway inside)
	{Net: a("10.0.0.8"), Ones: 29, Gw: a("10.255.0.1")},      // 6 (gateway elsewhere)
	{Net: a("192.168.7.4"), Ones: 30, Gw: a("192.168.7.5")},  // 1
	{Net: a("192.168.7.4"), Ones: 30, Gw: a("192.168.7.7")},  // 2
	{Net: a("10.9.9.8"), Ones: 31, Gw: a("10.0.0.1")},        // 1
	{Net: a("10.9.9.9"), Ones: 32, Gw: a("10.0.0.1")},        // 0
	{Net: a("100.64.0.16"), Ones: 28, Gw: a("100.64.0.17")},  // 13
	{Net: a("255.255.255.248"), Ones: 29, Gw: a("10.0.0.1")}, // 6: 255.255.255.255 is both the all-ones and the subnet broadcast; the walk wraps to 0.0.0.0
}

var largeGeos = []flx.V4{
	{Net: a("10.0.2.0"), Ones: 23, Gw: a("10.0.2.1")},
	{Net: a("10.16.0.0"), Ones: 20, Gw: a("10.16.0.1")},
}

func randOp(r *rand.Rand, subs int) string {
	s := fmt.Sprintf("s%d", 1+r.Intn(subs))
	if r.Intn(100) < 60 {
		return "alloc " + s
	}
	return "release " + s
}

func tail(subs int) []string {
	var out []string
	for i := 1; i <= subs; i++ {
		out = append(out, fmt.Sprintf("alloc s%d", i))
	}
	return out
}

func (comp) Gen(r *rand.Rand, tier string, emit func([]string)) {
	nSmall, nLarge := 1200, 6
	if tier == "thorough" {
		nSmall, nLarge = 25000, 60
	}
	for i := 0; i < nSmall; i++ {
		g := smallGeos[r.Intn(len(smallGeos))]
		subs := 2 + r.Intn(8)
		seq := []string{newOp(g)}
		for j, n := 0, 3+r.Intn(30); j < n; j++ {
			seq = append(seq, randOp(r, subs))
		}
		emit(append(seq, tail(subs)...))
	}
	for i := 0; i < nLarge; i++ {
		g := largeGeos[r.Intn(len(largeGeos))]
		subs := 300 + r.Intn(1500)
		seq := []string{newOp(g)}
		for j := 0; j < 2500; j++ {
			seq = append(seq, randOp(r, subs))
		}
		emit(seq)
	}
	if tier == "thorough" {
		// every alloc/release sequence over 3 subscribers: depth 6 on a 2-address pool, depth 7 on a 1-address pool
		for gi, g := range []flx.V4{smallGeos[2], smallGeos[4]} {
			var alpha []string
			for s := 1; s <= 3; s++ {
				alpha = append(alpha, fmt.Sprintf("alloc s%d", s), fmt.Sprintf("release s%d", s))
			}
			var rec func(p []string, depth int)
			rec = func(p []string, depth int) {
				if depth == 0 {
					seq := append([]string{newOp(g)}, p...)
					emit(append(seq, tail(4)...))
					return
				}
				for _, x := range alpha {
					rec(append(p[:len(p):len(p)], x), depth-1)
				}
			}
			rec(nil, 6+gi)
		}
	}
}

type run struct{ p *pppoe.IPPool }

func (comp) NewRun() hx.Run { return &run{} }
func (r *run) Close()       {}

func (r *run) Do(op string) string {
	f := hx.Fields(op)
	if f[0] == "new" {
		if len(f) != 4 {
			return "badop"
		}
		nw, ok1 := flx.ParseHex4(f[1])
		ones, err := strconv.Atoi(f[2])
		gw, ok2 := flx.ParseHex4(f[3])
		if !ok1 || !ok2 || err != nil || ones < 8 {
			return "badop" // NewIPPool walks the whole network: anything wider than a /8 is not driven
		}
		p, err := pppoe.NewIPPool(fmt.Sprintf("%s/%d", nw, ones), gw.String())
		if err != nil {
			return "invalid"
		}
		r.p = p
		return "ok"
	}
	if r.p == nil || len(f) != 2 || len(f[1]) < 2 || f[1][0] != 's' {
		return "badop"
	}
	if _, err := strconv.Atoi(f[1][1:]); err != nil {
		return "badop"
	}
	switch f[0] {
	case "alloc":
		ip := r.p.Allocate(f[1])
		if ip == nil {
			return "exhausted"
		}
		return "ok " + flx.Hex4(ip)
	case "release":
		r.p.Release(f[1])
		return "ok"
	}
	return "badop"
}

func main() { hx.Main(comp{}) }
