// coa drives the real radius.CoAServer (pkg/radius/coa.go) for property C15: every datagram goes through
// the unmodified receiveLoop over a loopback UDP socket; scripted handlers record their invocations.
//
//	new                              => ok
//	md5 <hex>                        => <crypto/md5 digest>
//	dg <secret hex> <ack|nak|def|long> <datagram hex>  => drop | act <coa|dm> <fields|-> <response hex> | panic … | hang
//	dgp <secret hex> <policy> <prime hex> <datagram hex>  => the same for the datagram, delivered immediately after <prime>
package main

import (
	"bufio"
	"bytes"
	"crypto/md5"
	"encoding/binary"
	"encoding/hex"
	"fmt"
	"math/rand"
	"os"
	"os/exec"
	"runtime"
	"strconv"
	"strings"

	"bngverif/coadrv"
	"bngverif/hx"
)

// comp: `replay`, when set, holds the observations an executor process produced for the next sequence
// (thorough tier: the sequences are executed by a pool of processes, see Gen)
type comp struct{ replay []string }

var drivers = map[string]*coadrv.Driver{}

func driver(secret string) *coadrv.Driver {
	if d, ok := drivers[secret]; ok {
		return d
	}
	d, err := coadrv.New(secret)
	if err != nil {
		panic("harness: " + err.Error())
	}
	drivers[secret] = d
	return d
}

type run struct{}

// replayRun hands out observations recorded by an executor process, in order
type replayRun struct {
	obs []string
	i   int
}

func (r *replayRun) Do(op string) string {
	if r.i >= len(r.obs) {
		return "harness-lost-observation"
	}
	r.i++
	return r.obs[r.i-1]
}
func (r *replayRun) Close() {}

func (c *comp) NewRun() hx.Run {
	if c.replay != nil {
		return &replayRun{obs: c.replay}
	}
	return run{}
}
func (run) Close() {}

func unhex(s string) ([]byte, bool) {
	if s == "-" {
		return []byte{}, true
	}
	b, err := hex.DecodeString(s)
	return b, err == nil
}

func (run) Do(op string) string {
	f := hx.Fields(op)
	switch {
	case len(f) == 1 && f[0] == "new":
		return "ok"
	case len(f) == 2 && f[0] == "md5":
		b, ok := unhex(f[1])
		if !ok {
			return "badop"
		}
		s := md5.Sum(b)
		return hex.EncodeToString(s[:])
	case len(f) == 4 && f[0] == "dg":
		sec, ok1 := unhex(f[1])
		dg, ok2 := unhex(f[3])
		if !ok1 || !ok2 || len(sec) == 0 || !okPolicy(f[2]) {
			return "badop"
		}
		return driver(string(sec)).Send(f[2], dg)
	case len(f) == 5 && f[0] == "dgp":
		sec, ok1 := unhex(f[1])
		prime, ok2 := unhex(f[3])
		dg, ok3 := unhex(f[4])
		if !ok1 || !ok2 || !ok3 || len(sec) == 0 || !okPolicy(f[2]) {
			return "badop"
		}
		return driver(string(sec)).SendPrimed(f[2], prime, dg)
	}
	return "badop"
}

func okPolicy(p string) bool { return p == "ack" || p == "nak" || p == "def" || p == "long" }

func hexs(b []byte) string {
	if len(b) == 0 {
		return "-"
	}
	return hex.EncodeToString(b)
}

func cat(parts ...[]byte) []byte {
	var out []byte
	for _, p := range parts {
		out = append(out, p...)
	}
	return out
}

func u32(v uint32) []byte { b := make([]byte, 4); binary.BigEndian.PutUint32(b, v); return b }

// attribute areas: well-formed ones and ones the parser must refuse
func attrSets(r *rand.Rand) [][]byte {
	A := coadrv.Attr
	return [][]byte{
		{},
		A(1, []byte("alice")),
		cat(A(1, []byte("bob")), A(44, []byte("sess-0001")), A(4, []byte{10, 0, 0, 1}), A(8, []byte{100, 64, 0, 9}),
			A(31, []byte("aa:bb:cc:00:11:22")), A(27, u32(3600)), A(28, u32(600)), A(11, []byte("gold"))),
		cat(A(44, []byte("s")), A(4, []byte{10, 0, 0}), A(27, []byte{1, 2, 3}), A(28, []byte{1, 2, 3, 4, 5}), A(26, []byte{0, 0, 0x9, 1, 2})),
		cat(A(1, []byte("carol")), []byte{0x55}),                                          // one trailing byte: tolerated by parseAttributes
		cat(A(1, []byte("dave")), []byte{44, 1}),                                          // attribute length 1
		cat(A(1, []byte("erin")), []byte{44, 0}),                                          // attribute length 0
		cat(A(1, []byte("fred")), []byte{44, 9, 1, 2}),                                    // attribute overruns the packet
		cat(A(1, nil), A(44, nil), A(11, nil)),                                            // empty values
		cat(A(1, []byte("x")), A(1, []byte("y")), A(44, []byte("a")), A(44, []byte("b"))), // repeated attributes: last wins
	}
}

// generate produces the operation sequences of a tier (nothing is executed here)
func generate(r *rand.Rand, tier string, emit func([]string)) {
	thorough := tier == "thorough"
	secrets := []string{"s3cret", "a", "testing123-a-much-longer-shared-secret-0123456789-0123456789-0123456789"}
	policies := []string{"ack", "nak", "def"}
	dgop := func(sec, pol string, d []byte) string {
		return fmt.Sprintf("dg %s %s %s", hex.EncodeToString([]byte(sec)), pol, hexs(d))
	}

	// 1. MD5 validation
	{
		seq := []string{"new"}
		for _, n := range []int{0, 1, 2, 3, 54, 55, 56, 57, 63, 64, 65, 118, 119, 120, 121, 127, 128, 129, 255, 256, 1000} {
			b := make([]byte, n)
			r.Read(b)
			seq = append(seq, "md5 "+hexs(b))
		}
		for i := 0; i < 40; i++ {
			b := make([]byte, r.Intn(300))
			r.Read(b)
			seq = append(seq, "md5 "+hexs(b))
		}
		emit(seq)
	}

	// 2. signed requests of every shape, with each policy and secret
	for si, sec := range secrets {
		sets := attrSets(r)
		seq := []string{"new"}
		for ai, attrs := range sets {
			for _, code := range []byte{40, 43, 1, 4, 41, 44, 45, 0, 255} {
				if code != 40 && code != 43 && ai > 2 {
					continue
				}
				p := coadrv.Sign(code, byte(r.Intn(256)), attrs, sec)
				seq = append(seq, dgop(sec, policies[(ai+si+int(code))%3], p))
				// trailing bytes after the RADIUS length are ignored
				seq = append(seq, dgop(sec, policies[(ai+si)%3], cat(p, []byte{1, 2, 3})))
				// signed with another secret
				seq = append(seq, dgop(secrets[(si+1)%3], "ack", p))
				// the handler answers with a 300-byte Reply-Message
				if code == 40 || code == 43 {
					seq = append(seq, dgop(sec, "long", p))
				}
				// zero authenticator / authenticator of the request without secret
				z := append([]byte(nil), p...)
				copy(z[4:20], make([]byte, 16))
				seq = append(seq, dgop(sec, "ack", z))
			}
		}
		emit(seq)
	}

	// 3. every single-bit flip, every truncation, every length-field value of interest
	nbase := 2
	if thorough {
		nbase = 6
	}
	for si, sec := range secrets {
		sets := attrSets(r)
		for b := 0; b < nbase; b++ {
			attrs := sets[(1+b+si)%len(sets)]
			if !thorough && len(attrs) > 30 {
				attrs = sets[1]
			}
			code := []byte{43, 40}[(b+si)%2]
			p := coadrv.Sign(code, byte(7+b), attrs, sec)
			pol := policies[(b+si)%3]
			seq := []string{"new", dgop(sec, pol, p)}
			for bit := 0; bit < len(p)*8; bit++ {
				m := append([]byte(nil), p...)
				m[bit/8] ^= 1 << uint(bit%8)
				seq = append(seq, dgop(sec, pol, m))
			}
			emit(seq)
			seq = []string{"new"}
			for n := 0; n <= len(p); n++ {
				seq = append(seq, dgop(sec, pol, p[:n]))
			}
			// length field tampering, not re-signed and re-signed
			for _, L := range []int{0, 1, 2, 3, 4, 19, 20, 21, len(p) - 2, len(p) - 1, len(p), len(p) + 1, len(p) + 2, 255, 256, 4095, 4096, 4097, 0xfffe, 0xffff} {
				if L < 0 {
					continue
				}
				m := append([]byte(nil), p...)
				binary.BigEndian.PutUint16(m[2:4], uint16(L))
				seq = append(seq, dgop(sec, pol, m))
				// re-signed over the first L bytes (authentic when 20 <= L <= len and the attributes still parse)
				if L >= 20 && L <= len(m) {
					copy(m[4:20], make([]byte, 16))
					h := md5.New()
					h.Write(m[:L])
					h.Write([]byte(sec))
					copy(m[4:20], h.Sum(nil))
					seq = append(seq, dgop(sec, pol, m))
				}
				// padded so that the datagram is at least L bytes long
				if L > len(p) && L <= 4200 {
					m2 := append(append([]byte(nil), m...), make([]byte, L-len(p))...)
					seq = append(seq, dgop(sec, pol, m2))
				}
			}
			emit(seq)
		}
	}

	// 3b. the listener reuses ONE receive buffer: a datagram shorter than its Length field must not be completed
	// by what the previous datagram left behind.  The previous datagram is the full packet P the test datagram
	// was cut from (every cut 20..len-1, and a few below 20), a padded P, or junk that ends in P's tail.
	dgpop := func(sec, pol string, prime, d []byte) string {
		return fmt.Sprintf("dgp %s %s %s %s", hex.EncodeToString([]byte(sec)), pol, hexs(prime), hexs(d))
	}
	for si, sec := range secrets {
		if !thorough && si == 2 {
			continue
		}
		sets := attrSets(r)
		shapes := []int{1, 2, 4}
		if thorough {
			shapes = []int{0, 1, 2, 3, 4, 8, 9}
		}
		for bi, ai := range shapes {
			for ci, code := range []byte{43, 40} {
				if !thorough && ai == 2 && (ci+si)%2 == 1 {
					continue
				}
				p := coadrv.Sign(code, byte(0x40+bi), sets[ai], sec)
				pol := policies[(bi+ci+si)%3]
				seq := []string{"new", dgop(sec, pol, p)}
				for k := 0; k < len(p); k++ {
					if k < 20 && k%6 != 1 {
						continue
					}
					seq = append(seq, dgpop(sec, pol, p, p[:k]))
				}
				if len(p) > 24 {
					k := 20 + (len(p)-20)/2
					// the previous datagram is longer than P (trailing bytes), or is not authentic itself
					seq = append(seq, dgpop(sec, pol, cat(p, []byte{9, 9, 9}), p[:k]))
					junk := append(bytes.Repeat([]byte{0xee}, k), p[k:]...)
					seq = append(seq, dgpop(sec, pol, junk, p[:k]))
					seq = append(seq, dgpop(sec, pol, junk, p[:len(p)-1]))
					// Length field larger than what is sent AND larger than P: completed by a longer previous datagram
					longer := coadrv.Sign(code, byte(0x60+bi), cat(sets[ai], coadrv.Attr(18, []byte("tail"))), sec)
					seq = append(seq, dgpop(sec, pol, longer, longer[:len(p)]))
					seq = append(seq, dgpop(sec, pol, longer, longer[:20]))
					// a different authentic packet before: nothing to complete with
					seq = append(seq, dgpop(sec, pol, longer, p[:k]))
					// and the full packet after its own truncation is still acted on
					seq = append(seq, dgpop(sec, pol, p[:k], p))
				}
				emit(seq)
			}
		}
	}

	// 3c. authenticity is a property of EACH datagram, never of what the listener saw before: right after a valid
	// request P (nothing in between), datagrams that keep P's first 20 bytes (code, id, length, authenticator) but
	// carry other attribute bytes of the same total length must be dropped - a listener that remembers "this
	// header+authenticator verified" (retransmission cache) would act on them.
	for si, sec := range secrets {
		if !thorough && si == 2 {
			continue
		}
		A := coadrv.Attr
		shapes := [][]byte{
			cat(A(44, []byte("sess-0001")), A(1, []byte("bob"))),
			cat(A(1, []byte("alice")), A(44, []byte("s1")), A(8, []byte{100, 64, 0, 9}), A(27, u32(3600)), A(11, []byte("gold"))),
			A(44, []byte("only-one-attribute")),
		}
		for bi, attrs := range shapes {
			for ci, code := range []byte{43, 40} {
				p := coadrv.Sign(code, byte(0x70+bi), attrs, sec)
				pol := policies[(bi+ci+si)%3]
				forge := func(newAttrs []byte) []byte { return cat(p[:20], newAttrs) }
				var forged [][]byte
				// another Acct-Session-Id / User-Name of the same length
				f1 := append([]byte(nil), attrs...)
				for off := 0; off+2 <= len(f1); off += int(f1[off+1]) {
					if f1[off+1] < 2 {
						break
					}
					if (f1[off] == 44 || f1[off] == 1) && f1[off+1] > 2 {
						g := append([]byte(nil), attrs...)
						for k := off + 2; k < off+int(f1[off+1]); k++ {
							g[k] = 'X'
						}
						forged = append(forged, forge(g))
					}
				}
				// attribute order swapped (first attribute moved to the end)
				if l0 := int(attrs[1]); l0 < len(attrs) {
					forged = append(forged, forge(cat(attrs[l0:], attrs[:l0])))
				}
				// one attribute type changed, one value bit flipped at every attribute byte (quick: every third)
				g := append([]byte(nil), attrs...)
				g[0] = 31
				forged = append(forged, forge(g))
				for k := 0; k < len(attrs); k++ {
					if !thorough && k%3 != 2 {
						continue
					}
					g := append([]byte(nil), attrs...)
					g[k] ^= 0x01
					forged = append(forged, forge(g))
				}
				// the whole area replaced by ONE attribute of the same total length
				if len(attrs) <= 255 {
					forged = append(forged, forge(A(44, bytes.Repeat([]byte("z"), len(attrs)-2))))
				}
				seq := []string{"new", dgop(sec, pol, p)}
				for _, f := range forged {
					seq = append(seq, dgpop(sec, pol, p, f))
				}
				// a true retransmission IS authentic; and once another valid request came in between, still dropped
				seq = append(seq, dgpop(sec, pol, p, p))
				q := coadrv.Sign(code, byte(0x78+bi), attrs, sec)
				seq = append(seq, dgpop(sec, pol, q, forged[0]), dgpop(sec, pol, p, cat(q[:20], forged[0][20:])))
				emit(seq)
			}
		}
	}

	// 4. random datagrams and random mutations of signed requests
	nrand := 600
	maxLen := 300
	if thorough {
		nrand, maxLen = 6000, 2048
	}
	seq := []string{"new"}
	for i := 0; i < nrand; i++ {
		sec := secrets[r.Intn(len(secrets))]
		var d []byte
		switch r.Intn(4) {
		case 0:
			d = make([]byte, r.Intn(maxLen))
			r.Read(d)
		case 1: // random body with a plausible header
			d = make([]byte, 20+r.Intn(maxLen))
			r.Read(d)
			d[0] = []byte{40, 43}[r.Intn(2)]
			binary.BigEndian.PutUint16(d[2:4], uint16(len(d)-r.Intn(3)))
		default: // signed request with a few random byte edits
			sets := attrSets(r)
			d = coadrv.Sign([]byte{40, 43}[r.Intn(2)], byte(r.Intn(256)), sets[r.Intn(len(sets))], sec)
			for k := r.Intn(3); k > 0; k-- {
				d[r.Intn(len(d))] = byte(r.Intn(256))
			}
		}
		seq = append(seq, dgop(sec, policies[r.Intn(3)], d))
		if len(seq) >= 200 {
			emit(seq)
			seq = []string{"new"}
		}
	}
	if len(seq) > 1 {
		emit(seq)
	}

	if thorough {
		deep(r, emit)
	}
}

// deep is the exhaustive part of the thorough tier: for a few thousand signed base requests - every secret shape
// (1 byte, NUL, high bytes, 64 and 200 bytes; an EMPTY secret cannot be configured, NewCoAServer refuses it), codes
// 40/43 and the other RADIUS codes, 0..N attributes incl. vendor-specific, zero-length and maximum-length values,
// identifiers spread over 0..255, every handler policy - EVERY single-bit flip of the whole datagram, EVERY
// truncation, extension by 1..8 trailing bytes, and the length field set to EVERY value 0..len+4 (as is, re-signed
// over the first L bytes, and padded to L bytes); plus a stream of random datagrams.
func deep(r *rand.Rand, emit func([]string)) {
	A := coadrv.Attr
	secrets := []string{"s3cret", "a", "\x00", "\xff\xfe\x80\x01", "pass word", strings.Repeat("k", 64),
		strings.Repeat("0123456789", 20), "testing123-a-much-longer-shared-secret-0123456789-0123456789-0123456789"}
	policies := []string{"ack", "nak", "def", "long"}
	rb := func(n int) []byte { b := make([]byte, n); r.Read(b); return b }
	known := []byte{1, 4, 8, 11, 27, 28, 31, 44}
	randAttrs := func() []byte {
		var out []byte
		for k := r.Intn(7); k > 0; k-- {
			t := known[r.Intn(len(known))]
			l := []int{0, 1, 3, 4, 4, 5, 12}[r.Intn(7)]
			out = append(out, A(t, rb(l))...)
		}
		return out
	}
	shapes := func() [][]byte {
		sets := attrSets(r)
		many := []byte{}
		for i := 0; i < 20; i++ {
			many = append(many, A(byte(1+i), rb(1))...)
		}
		return append(sets,
			A(26, cat(u32(9), []byte{1, 6}, rb(4))),                      // vendor-specific, one sub-attribute
			cat(A(26, u32(311)), A(26, nil), A(26, []byte{0, 0, 0})),     // vendor-specific, short bodies
			cat(A(1, nil), A(4, nil), A(8, nil), A(27, nil), A(44, nil)), // zero-length values
			A(1, rb(253)),                       // maximum-length value
			cat(A(44, rb(253)), A(31, rb(253))), // two maximum-length values
			many,
			randAttrs(), randAttrs(), randAttrs())
	}
	id := 0
	nextID := func() byte { id += 37; return byte(id) } // 37 is odd: every identifier 0..255 comes up
	dg := func(sec, pol string, d []byte) string {
		return fmt.Sprintf("dg %s %s %s", hex.EncodeToString([]byte(sec)), pol, hexs(d))
	}
	exhaust := func(sec, pol string, p []byte) {
		seq := []string{"new", dg(sec, pol, p)}
		for bit := 0; bit < len(p)*8; bit++ {
			m := append([]byte(nil), p...)
			m[bit/8] ^= 1 << uint(bit%8)
			seq = append(seq, dg(sec, pol, m))
		}
		for n := 0; n < len(p); n++ {
			seq = append(seq, dg(sec, pol, p[:n]))
		}
		for k := 1; k <= 8; k++ {
			seq = append(seq, dg(sec, pol, cat(p, bytes.Repeat([]byte{byte(k * 31)}, k))))
		}
		for L := 0; L <= len(p)+4; L++ {
			m := append([]byte(nil), p...)
			binary.BigEndian.PutUint16(m[2:4], uint16(L))
			seq = append(seq, dg(sec, pol, m))
			if L >= 20 && L <= len(m) {
				copy(m[4:20], make([]byte, 16))
				h := md5.New()
				h.Write(m[:L])
				h.Write([]byte(sec))
				copy(m[4:20], h.Sum(nil))
				seq = append(seq, dg(sec, pol, m))
			}
			if L > len(p) {
				seq = append(seq, dg(sec, pol, append(append([]byte(nil), m...), make([]byte, L-len(p))...)))
			}
		}
		emit(seq)
	}
	rounds := 34
	if v, err := strconv.Atoi(os.Getenv("VERIF_COA_ROUNDS")); err == nil && v > 0 {
		rounds = v
	}
	n := 0
	for round := 0; round < rounds; round++ {
		for _, sec := range secrets {
			for ai, attrs := range shapes() {
				big := len(attrs) > 120
				if big && (round+ai)%3 != 0 { // the 2200-flip bases: a third of the rounds
					continue
				}
				for _, code := range []byte{43, 40} {
					n++
					exhaust(sec, policies[n%4], coadrv.Sign(code, nextID(), attrs, sec))
				}
				if ai%4 == round%4 && !big {
					other := []byte{1, 2, 3, 4, 5, 11, 12, 41, 42, 44, 45, 0, 255}[(round+ai)%13]
					n++
					exhaust(sec, policies[n%4], coadrv.Sign(other, nextID(), attrs, sec))
				}
			}
		}
	}
	// random datagrams: mostly short, some up to 2 KiB, half of them with a plausible header
	seq := []string{"new"}
	for i := 0; i < 300000; i++ {
		l := r.Intn(96)
		switch r.Intn(20) {
		case 0:
			l = r.Intn(2049)
		case 1, 2:
			l = 20 + r.Intn(300)
		}
		d := rb(l)
		if l >= 20 && r.Intn(2) == 0 {
			d[0] = []byte{40, 43}[r.Intn(2)]
			binary.BigEndian.PutUint16(d[2:4], uint16(l-r.Intn(3)))
		}
		seq = append(seq, dg(secrets[r.Intn(len(secrets))], policies[r.Intn(4)], d))
		if len(seq) >= 500 {
			emit(seq)
			seq = []string{"new"}
		}
	}
	if len(seq) > 1 {
		emit(seq)
	}
}

// ---------------------------------------------------------------------------------------------
// Executing the sequences.  Quick: in this process.  Thorough: the sequences are dealt round-robin to a pool of
// executor processes (`<bin> serve`, each with its own listeners, GOMAXPROCS=2) and their traces are emitted in
// production order - the UDP request/response ping-pong of one listener is latency-bound, not CPU-bound.

func serve(c *comp) {
	sc := bufio.NewScanner(os.Stdin)
	sc.Buffer(make([]byte, 1<<20), 1<<26)
	w := bufio.NewWriterSize(os.Stdout, 1<<16)
	var cur []string
	flush := func() {
		if len(cur) > 0 {
			hx.ExecSeq(c, cur, w)
			cur = nil
		}
	}
	for sc.Scan() {
		line := strings.TrimRight(sc.Text(), "\r\n")
		if strings.TrimSpace(line) == "" {
			flush()
			continue
		}
		cur = append(cur, line)
	}
	flush()
	w.Flush()
}

type child struct {
	cmd  *exec.Cmd
	jobs chan []string
	out  chan []string
}

func startChild() *child {
	cmd := exec.Command(os.Args[0], "serve")
	cmd.Env = append(os.Environ(), "GOMAXPROCS=2")
	cmd.Stderr = os.Stderr
	in, err := cmd.StdinPipe()
	if err != nil {
		panic(err)
	}
	out, err := cmd.StdoutPipe()
	if err != nil {
		panic(err)
	}
	if err := cmd.Start(); err != nil {
		panic(err)
	}
	ch := &child{cmd: cmd, jobs: make(chan []string, 8), out: make(chan []string, 8)}
	go func() { // feed
		w := bufio.NewWriterSize(in, 1<<16)
		for seq := range ch.jobs {
			for _, op := range seq {
				w.WriteString(op)
				w.WriteByte('\n')
			}
			w.WriteByte('\n')
			w.Flush()
		}
		in.Close()
	}()
	go func() { // collect
		sc := bufio.NewScanner(out)
		sc.Buffer(make([]byte, 1<<20), 1<<26)
		var cur []string
		for sc.Scan() {
			line := sc.Text()
			if line == "" {
				if cur != nil {
					ch.out <- cur
					cur = nil
				}
				continue
			}
			if i := strings.Index(line, " => "); i >= 0 {
				cur = append(cur, line[i+4:])
			}
		}
		close(ch.out)
	}()
	return ch
}

func (c *comp) Gen(r *rand.Rand, tier string, emit func([]string)) {
	if os.Getenv("VERIF_COA_COUNT") != "" { // size of the generated set, nothing executed
		n, ops := 0, 0
		generate(r, tier, func(seq []string) { n++; ops += len(seq) })
		fmt.Fprintf(os.Stderr, "sequences=%d ops=%d\n", n, ops)
		return
	}
	if tier != "thorough" {
		generate(r, tier, emit)
		return
	}
	nw := runtime.NumCPU()
	if v, err := strconv.Atoi(os.Getenv("VERIF_COA_WORKERS")); err == nil && v > 0 {
		nw = v
	}
	children := make([]*child, nw)
	for i := range children {
		children[i] = startChild()
	}
	type job struct {
		seq []string
		ch  *child
	}
	// bounded channels everywhere; dealt and collected in the same round-robin order, so the collector always
	// waits for the oldest outstanding sequence, whose input its feeder has already flushed: no deadlock
	ordered := make(chan job, 4*nw)
	go func() {
		n := 0
		generate(r, tier, func(seq []string) {
			ch := children[n%nw]
			n++
			ordered <- job{seq, ch}
			ch.jobs <- seq
		})
		for _, ch := range children {
			close(ch.jobs)
		}
		close(ordered)
	}()
	for j := range ordered {
		obs, ok := <-j.ch.out
		if !ok {
			panic("coa: an executor process died")
		}
		c.replay = obs
		emit(j.seq)
	}
	c.replay = nil
	for _, ch := range children {
		ch.cmd.Wait()
	}
}

func main() {
	c := &comp{}
	if len(os.Args) > 1 && os.Args[1] == "serve" {
		serve(c)
		return
	}
	hx.Main(c)
}
