// decoders is the differential fuzz harness of property C09: every network-facing decoder / handler of bng
// is called on valid packets built with the repository's own serializers, on every length-field mutation and
// truncation of them, and on random bytes — stateful handlers in every protocol state — and the result
// (ok + canonical parsed summary | err | panic | hang) is printed for comparison with the Lean models.
// See lean/Bng/Drv/Decoders.lean for the line protocol.
package main

import (
	"bytes"
	"context"
	"crypto/md5"
	"encoding/binary"
	"encoding/hex"
	"encoding/json"
	"fmt"
	"math/rand"
	"net"
	"net/http"
	"net/http/httptest"
	"strconv"
	"strings"
	"sync"
	"time"

	"bngverif/coadrv"
	"bngverif/hx"

	"github.com/codelaboratoryltd/bng/pkg/ebpf"

	"github.com/codelaboratoryltd/bng/pkg/dhcp"
	"github.com/codelaboratoryltd/bng/pkg/dhcpv6"
	"github.com/codelaboratoryltd/bng/pkg/ha"
	"github.com/codelaboratoryltd/bng/pkg/nat"
	"github.com/codelaboratoryltd/bng/pkg/pppoe"
	"github.com/codelaboratoryltd/bng/pkg/radius"
	"github.com/codelaboratoryltd/bng/pkg/ztp"
	"github.com/insomniacslk/dhcp/dhcpv4"
	"go.uber.org/zap"
	lradius "layeh.com/radius"
)

type comp struct{}

var (
	nop       = zap.NewNop()
	cliMAC    = net.HardwareAddr{2, 0, 0, 0, 0, 0x11}
	srvMAC    = net.HardwareAddr{2, 0, 0, 0, 0, 0x01}
	coaMu     sync.Mutex
	coaDrvs   = map[string]*coadrv.Driver{}
	fsmNames  = []string{"Initial", "Starting", "Closed", "Stopped", "Closing", "Stopping", "ReqSent", "AckRcvd", "AckSent", "Opened"}
	lcpMagic  = uint32(0x0a0b0c0d)
	v6LocalID = uint64(0x0102030405060708)
)

func hexs(b []byte) string {
	if len(b) == 0 {
		return "-"
	}
	return hex.EncodeToString(b)
}

// hexOpt: "-" for nil, "e" for present-but-empty
func hexOpt(b []byte) string {
	if b == nil {
		return "-"
	}
	if len(b) == 0 {
		return "e"
	}
	return hex.EncodeToString(b)
}

func unhex(s string) ([]byte, bool) {
	if s == "-" {
		return []byte{}, true
	}
	b, err := hex.DecodeString(s)
	if err != nil {
		return nil, false
	}
	return b[:len(b):len(b)], true // cap == len: reading past the input is a panic, not a silent over-read
}

func listOr(xs []string) string {
	if len(xs) == 0 {
		return "-"
	}
	return strings.Join(xs, ",")
}

func showTags(ts []pppoe.Tag) string {
	var xs []string
	for _, t := range ts {
		xs = append(xs, fmt.Sprintf("%04x:%s", t.Type, hex.EncodeToString(t.Value)))
	}
	return listOr(xs)
}

func showOpts(os []pppoe.LCPOption) string {
	var xs []string
	for _, o := range os {
		xs = append(xs, fmt.Sprintf("%02x:%s", o.Type, hex.EncodeToString(o.Data)))
	}
	return listOr(xs)
}

func showV6(os []dhcpv6.Option) string {
	var xs []string
	for _, o := range os {
		xs = append(xs, fmt.Sprintf("%04x:%s", o.Code, hex.EncodeToString(o.Data)))
	}
	return listOr(xs)
}

// ---------------------------------------------------------------- one sequence

type run struct {
	srv  *pppoe.Server
	sock *pppoe.VerifSocket
	sess *pppoe.Session
	sm   *pppoe.SessionManager
	// smHung: a CreateSession call never returned; it still holds the manager's mutex, so every later
	// call on this manager would block as well
	smHung bool
	v6     *dhcpv6.Server
	v6conn *net.UDPConn
	sse    *ha.HASyncer
}

func (comp) NewRun() hx.Run { return &run{} }
func (r *run) Close() {
	if r.v6conn != nil {
		r.v6conn.Close()
	}
}

func newServer(svc string) (*pppoe.Server, *pppoe.VerifSocket) {
	s, sock, err := pppoe.NewServerForVerif(pppoe.ServerConfig{Interface: "v0", ServiceName: svc}, nop, srvMAC)
	if err != nil {
		panic("harness: " + err.Error())
	}
	return s, sock
}

func (r *run) server() {
	if r.srv != nil {
		return
	}
	r.srv, r.sock = newServer("internet")
	s, err := r.srv.CreateSessionForVerif(cliMAC)
	if err != nil {
		panic("harness: " + err.Error())
	}
	s.MagicNumber = 0x01020304
	r.sess = s
}

// maskNak zeroes the values the code draws at random (magic number / interface id suggestions in a Nak)
func maskNak(code byte, optType byte, optData []byte) []byte {
	out := append([]byte(nil), optData...)
	for off := 0; off+2 <= len(out); {
		l := int(out[off+1])
		if l < 2 || off+l > len(out) {
			break
		}
		if code == 3 && out[off] == optType {
			for i := off + 2; i < off+l; i++ {
				out[i] = 0
			}
		}
		off += l
	}
	return out
}

type sentBuf struct {
	mu   sync.Mutex
	pkts [][]byte
}

func (s *sentBuf) send(proto uint16, data []byte) {
	s.mu.Lock()
	s.pkts = append(s.pkts, append([]byte(nil), data...))
	s.mu.Unlock()
}
func (s *sentBuf) drain() [][]byte {
	s.mu.Lock()
	defer s.mu.Unlock()
	out := s.pkts
	s.pkts = nil
	return out
}

func lcpPkt(code, id byte, data []byte) []byte {
	return (&pppoe.LCPPacket{Code: code, Identifier: id, Data: data}).Serialize()
}

// cp is what the three control-protocol automata have in common
type cp interface {
	Open()
	Up()
	Down()
	Close()
	ReceivePacket([]byte) error
	VerifLastID() uint8 // hook: identifier of the outstanding Configure-Request
}

// toState drives a fresh automaton into `state` with `wantID` as the identifier of its outstanding
// Configure-Request (each matched empty Configure-Nak in Req-Sent makes it send the next request).
// goodReq is a Configure-Request every automaton acknowledges.
func toState(m cp, state string, wantID int, goodReq []byte) bool {
	term := lcpPkt(5, 3, nil)
	reqSent := func() {
		m.Open()
		m.Up()
		for i := 0; i < 300 && int(m.VerifLastID()) != wantID; i++ {
			m.ReceivePacket(lcpPkt(3, m.VerifLastID(), nil))
		}
	}
	ack := func() { m.ReceivePacket(lcpPkt(2, m.VerifLastID(), nil)) }
	switch state {
	case "Initial":
	case "Starting":
		m.Open()
	case "Closed":
		m.Up()
	case "ReqSent":
		reqSent()
	case "AckRcvd":
		reqSent()
		ack()
	case "AckSent":
		reqSent()
		m.ReceivePacket(goodReq)
	case "Opened":
		reqSent()
		m.ReceivePacket(goodReq)
		ack()
	case "Stopped":
		reqSent()
		m.ReceivePacket(term)
	case "Closing":
		reqSent()
		m.ReceivePacket(goodReq)
		ack()
		m.Close()
	case "Stopping":
		reqSent()
		m.ReceivePacket(goodReq)
		ack()
		m.ReceivePacket(term)
	default:
		return false
	}
	return int(m.VerifLastID()) == wantID
}

// idsOf: the identifiers of the outstanding Configure-Request the generator uses in a state
func idsOf(state string) []int {
	switch state {
	case "Initial", "Starting", "Closed":
		return []int{0} // no request sent yet
	case "ReqSent", "Opened":
		return []int{1, 3}
	}
	return []int{1}
}

func stateIdx(s string) int {
	for i, n := range fsmNames {
		if n == s {
			return i
		}
	}
	return -1
}

func (r *run) Do(op string) string {
	f := hx.Fields(op)
	if len(f) == 0 {
		return "badop"
	}
	arg := func(i int) ([]byte, bool) {
		if i >= len(f) {
			return nil, false
		}
		return unhex(f[i])
	}
	switch f[0] {
	case "new":
		return "ok"

	case "pppoehdr":
		b, ok := arg(1)
		if !ok {
			return "badop"
		}
		h, err := pppoe.ParsePPPoEHeader(b)
		if err != nil {
			return "err"
		}
		return fmt.Sprintf("ok %d %d %d %d", h.VerType, h.Code, h.SessionID, h.Length)

	case "tags":
		b, ok := arg(1)
		if !ok {
			return "badop"
		}
		ts, err := pppoe.ParseTags(b)
		if err != nil {
			return "err"
		}
		return "ok " + showTags(ts)

	case "lcppkt":
		b, ok := arg(1)
		if !ok {
			return "badop"
		}
		p, err := pppoe.ParseLCPPacket(b)
		if err != nil {
			return "err"
		}
		return fmt.Sprintf("ok %d %d %d %s", p.Code, p.Identifier, p.Length, hexs(p.Data))

	case "lcpopts":
		b, ok := arg(1)
		if !ok {
			return "badop"
		}
		os, err := pppoe.ParseLCPOptions(b)
		if err != nil {
			return "err"
		}
		return "ok " + showOpts(os)

	case "padt":
		b, ok := arg(1)
		if !ok {
			return "badop"
		}
		sid, ts, err := pppoe.ParsePADT(b)
		if err != nil {
			return "err"
		}
		return fmt.Sprintf("ok %d %s", sid, showTags(ts))

	case "echo":
		b, ok := arg(1)
		if !ok {
			return "badop"
		}
		m, p, err := pppoe.ParseEchoPacket(b)
		if err != nil {
			return "err"
		}
		return fmt.Sprintf("ok %d %s", m, hexs(p))

	case "disc":
		svc, ok1 := arg(1)
		b, ok2 := arg(2)
		if !ok1 || !ok2 || len(svc) == 0 {
			return "badop"
		}
		srv, sock := newServer(string(svc))
		before := srv.GetStats()
		srv.HandleDiscoveryForVerif(cliMAC, b)
		after := srv.GetStats()
		var hu []byte
		for _, fr := range sock.Drain() {
			if fr.EtherType != pppoe.EtherTypePPPoEDiscovery || len(fr.Data) < 20 {
				continue
			}
			ts, _ := pppoe.ParseTags(fr.Data[20:])
			if t := pppoe.FindTag(ts, pppoe.TagHostUniq); t != nil {
				hu = t.Value
				if hu == nil {
					hu = []byte{}
				}
			}
		}
		d := func(k string) uint64 { return after[k] - before[k] }
		switch {
		case d("padi_received") == 1:
			return fmt.Sprintf("padi %d %s", d("pado_sent"), hexOpt(hu))
		case d("padr_received") == 1:
			return fmt.Sprintf("padr %d %s", d("pads_sent"), hexOpt(hu))
		case d("padt_received") == 1:
			return fmt.Sprintf("padt %d", binary.BigEndian.Uint16(b[2:4]))
		}
		return "none"

	case "sess":
		b, ok := arg(1)
		if !ok {
			return "badop"
		}
		r.server()
		before := r.sess.BytesIn
		r.sock.Drain()
		r.srv.HandleSessionForVerif(cliMAC, b)
		var xs []string
		for _, fr := range r.sock.Drain() {
			if fr.EtherType != pppoe.EtherTypePPPoESession || len(fr.Data) < 22 {
				continue
			}
			proto := binary.BigEndian.Uint16(fr.Data[20:22])
			pl := append([]byte(nil), fr.Data[22:]...)
			if proto == pppoe.ProtocolLCP && len(pl) >= 2 && pl[0] == 1 {
				pl[1] = 0 // identifier of the server's own Configure-Request
			}
			xs = append(xs, fmt.Sprintf("%04x:%s", proto, hex.EncodeToString(pl)))
		}
		if r.sess.BytesIn == before {
			return "nf"
		}
		return "ok " + listOr(xs)

	case "srvpap":
		b, ok := arg(1)
		if !ok {
			return "badop"
		}
		r.server()
		r.sock.Drain()
		r.sess.Username = ""
		r.srv.HandlePAPForVerif(r.sess, b)
		for _, fr := range r.sock.Drain() {
			if fr.EtherType == pppoe.EtherTypePPPoESession && len(fr.Data) >= 22 &&
				binary.BigEndian.Uint16(fr.Data[20:22]) == pppoe.ProtocolPAP {
				return fmt.Sprintf("ok %s %s", hexs([]byte(r.sess.Username)), hexs(fr.Data[22:]))
			}
		}
		return "none"

	case "pap", "chap":
		var b []byte
		var ok bool
		cfg := pppoe.DefaultAuthConfig()
		proto := uint16(pppoe.ProtocolPAP)
		nStart := 1
		if f[0] == "chap" {
			var aerr error
			if len(f) != 3 {
				return "badop"
			}
			if nStart, aerr = strconv.Atoi(f[1]); aerr != nil || nStart < 1 || nStart > 255 {
				return "badop"
			}
			b, ok = arg(2)
			cfg.Protocol = pppoe.ProtocolCHAP
			proto = pppoe.ProtocolCHAP
		} else {
			b, ok = arg(1)
		}
		if !ok {
			return "badop"
		}
		sb := &sentBuf{}
		a := pppoe.NewAuthenticator(cfg, nil, sb.send, nop)
		for i := 0; i < nStart; i++ { // every Start sends a fresh challenge with the next identifier
			if err := a.Start(); err != nil {
				return "harness-err"
			}
		}
		if ch := sb.drain(); f[0] == "chap" {
			// the LIVE challenge identifier, as the peer sees it on the wire
			if len(ch) != nStart || len(ch[nStart-1]) < 2 || int(ch[nStart-1][1]) != nStart {
				return "harness-state chap-id"
			}
		}
		if err := a.ReceivePacket(proto, b); err != nil {
			return "err"
		}
		pk := sb.drain()
		if len(pk) == 0 {
			return "ign"
		}
		return fmt.Sprintf("ok %s %s", hexs([]byte(a.GetUsername())), hexs(pk[0]))

	case "lcp", "ipcp", "ipv6cp":
		want := map[string]int{"lcp": 5, "ipcp": 4, "ipv6cp": 5}[f[0]]
		wantID, aerr := strconv.Atoi(f[2])
		if len(f) != want || stateIdx(f[1]) < 0 || aerr != nil || wantID < 0 || wantID > 255 {
			return "badop"
		}
		b, ok := arg(want - 1)
		if !ok {
			return "badop"
		}
		sb := &sentBuf{}
		var m cp
		var getState func() int
		var goodReq []byte
		var maskType byte
		switch f[0] {
		case "lcp":
			if f[3] != fmt.Sprintf("%08x", lcpMagic) {
				return "badop"
			}
			cfg := pppoe.DefaultLCPConfig()
			cfg.MagicNumber = lcpMagic
			cfg.RestartTimer = time.Hour
			l, err := pppoe.NewLCPStateMachine(cfg, sb.send, nop)
			if err != nil {
				return "harness-err"
			}
			m, getState = l, func() int { return int(l.GetState()) }
			goodReq = lcpPkt(1, 9, pppoe.SerializeLCPOptions([]pppoe.LCPOption{{Type: pppoe.LCPOptMRU, Data: []byte{0x05, 0xd4}}}))
			maskType = pppoe.LCPOptMagicNumber
		case "ipcp":
			cfg := pppoe.DefaultIPCPConfig()
			cfg.PeerIP = net.ParseIP("10.0.0.2")
			cfg.PrimaryDNS = net.ParseIP("8.8.8.8")
			cfg.RestartTimer = time.Hour
			i := pppoe.NewIPCPStateMachine(cfg, "s1", sb.send, nop)
			m, getState = i, func() int { return int(i.GetState()) }
			goodReq = lcpPkt(1, 9, pppoe.SerializeLCPOptions([]pppoe.LCPOption{{Type: pppoe.IPCPOptIPAddress, Data: []byte{10, 0, 0, 2}}}))
			maskType = 0xff
		case "ipv6cp":
			if f[3] != fmt.Sprintf("%016x", v6LocalID) {
				return "badop"
			}
			i, err := pppoe.NewIPV6CPStateMachine(pppoe.IPV6CPConfig{LocalInterfaceID: v6LocalID, MaxRetransmit: 10, RestartTimer: time.Hour}, sb.send, nop)
			if err != nil {
				return "harness-err"
			}
			m, getState = i, func() int { return int(i.GetState()) }
			goodReq = lcpPkt(1, 9, pppoe.SerializeLCPOptions([]pppoe.LCPOption{{Type: pppoe.IPV6CPOptInterfaceID, Data: []byte{9, 9, 9, 9, 9, 9, 9, 9}}}))
			maskType = pppoe.IPV6CPOptInterfaceID
		}
		defer m.Down() // stops the restart timer
		// the LIVE identifier is read back through the hook: the op is only meaningful if the automaton
		// really is in that state with that outstanding identifier
		if !toState(m, f[1], wantID, goodReq) || getState() != stateIdx(f[1]) {
			return fmt.Sprintf("harness-state %s %d", fsmNames[getState()], m.VerifLastID())
		}
		sb.drain()
		if err := m.ReceivePacket(b); err != nil {
			return "err"
		}
		pk := sb.drain()
		code := b[0]
		switch {
		case code == 1:
			if len(pk) == 0 || len(pk[0]) < 4 {
				return "ok cr-missing"
			}
			p := pk[0]
			return fmt.Sprintf("ok cr %d %d %s", p[0], p[1], hexs(maskNak(p[0], maskType, p[4:])))
		case f[0] != "lcp":
			return "ok plain"
		case code == 7:
			return "ok cj " + fsmNames[getState()]
		case code == 8:
			return "ok pj " + fsmNames[getState()]
		case code == 9:
			if len(pk) == 0 {
				return "ok echo -"
			}
			return "ok echo " + hexs(pk[0])
		case code >= 2 && code <= 6, code == 10, code == 11:
			return "ok plain"
		default:
			if len(pk) == 0 || len(pk[0]) < 4 {
				return "ok unk-missing"
			}
			return "ok unk " + hexs(pk[0][4:])
		}

	case "opt82":
		b, ok := arg(1)
		if !ok {
			return "badop"
		}
		req, err := dhcpv4.New()
		if err != nil {
			return "harness-err"
		}
		req.Options[uint8(dhcpv4.OptionRelayAgentInformation.Code())] = b
		info := dhcp.ParseOption82ForVerif(req)
		if info == nil {
			return "nil"
		}
		return fmt.Sprintf("ok %s %s", hexOpt(info.CircuitID), hexOpt(info.RemoteID))

	case "ztp":
		b, ok := arg(1)
		if !ok {
			return "badop"
		}
		return "ok " + hexs([]byte(ztp.ParseVendorOptionsForVerif(b)))

	case "v6msg":
		b, ok := arg(1)
		if !ok {
			return "badop"
		}
		m, err := dhcpv6.ParseMessage(b)
		if err != nil {
			return "err"
		}
		return fmt.Sprintf("ok %d %s %s", m.Type, hexs(m.TransactionID[:]), showV6(m.Options))

	case "v6opts":
		b, ok := arg(1)
		if !ok {
			return "badop"
		}
		os, err := dhcpv6.ParseOptions(b)
		if err != nil {
			return "err"
		}
		return "ok " + showV6(os)

	case "duid":
		b, ok := arg(1)
		if !ok {
			return "badop"
		}
		d, err := dhcpv6.ParseDUID(b)
		if err != nil {
			return "err"
		}
		return fmt.Sprintf("ok %d %s", d.Type, hexs(d.Data))

	case "iana":
		b, ok := arg(1)
		if !ok {
			return "badop"
		}
		i, err := dhcpv6.ParseIANA(b)
		if err != nil {
			return "err"
		}
		return fmt.Sprintf("ok %d %d %d %s", i.IAID, i.T1, i.T2, showV6(i.Options))

	case "iapd":
		b, ok := arg(1)
		if !ok {
			return "badop"
		}
		i, err := dhcpv6.ParseIAPD(b)
		if err != nil {
			return "err"
		}
		return fmt.Sprintf("ok %d %d %d %s", i.IAID, i.T1, i.T2, showV6(i.Options))

	case "iaaddr":
		b, ok := arg(1)
		if !ok {
			return "badop"
		}
		a, err := dhcpv6.ParseIAAddress(b)
		if err != nil {
			return "err"
		}
		return fmt.Sprintf("ok %s %d %d %s", hexs(a.Address), a.PreferredLifetime, a.ValidLifetime, showV6(a.Options))

	case "iaprefix":
		b, ok := arg(1)
		if !ok {
			return "badop"
		}
		p, err := dhcpv6.ParseIAPrefix(b)
		if err != nil {
			return "err"
		}
		return fmt.Sprintf("ok %d %d %d %s %s", p.PreferredLifetime, p.ValidLifetime, p.PrefixLength, hexs(p.Prefix), showV6(p.Options))

	case "radattrs":
		b, ok := arg(1)
		if !ok {
			return "badop"
		}
		as, err := radius.ParseAttributesForVerif(b)
		if err != nil {
			return "err"
		}
		var xs []string
		for _, a := range as {
			xs = append(xs, fmt.Sprintf("%02x:%s", a.Type, hex.EncodeToString(a.Value)))
		}
		return "ok " + listOr(xs)

	case "coa":
		sec, ok1 := arg(1)
		b, ok2 := arg(3)
		if !ok1 || !ok2 || len(sec) == 0 {
			return "badop"
		}
		coaMu.Lock()
		d := coaDrvs[string(sec)]
		if d == nil {
			var err error
			d, err = coadrv.New(string(sec))
			if err != nil {
				coaMu.Unlock()
				return "harness-err " + err.Error()
			}
			coaDrvs[string(sec)] = d
		}
		coaMu.Unlock()
		return d.Send(f[2], b)

	case "hastream":
		valid, ok1 := arg(1)
		b, ok2 := arg(2)
		if !ok1 || !ok2 {
			return "badop"
		}
		_ = valid
		return haStream(b)

	case "lib-ftp-out", "lib-ftp-in", "lib-sip-out", "lib-sip-in":
		b, ok := arg(1)
		if !ok {
			return "badop"
		}
		mgr, err := nat.NewManager(nat.ManagerConfig{Interface: "v0"}, nop)
		if err != nil {
			return "harness-err"
		}
		h := nat.NewALGHandler(mgr, nop)
		conn := &nat.ALGConnection{SubscriberID: 1, PrivateIP: net.ParseIP("10.0.0.5"), PrivatePort: 40000,
			PublicIP: net.ParseIP("203.0.113.1"), PublicPort: 2000, DestIP: net.ParseIP("198.51.100.7"), DestPort: 21, Protocol: 6}
		var alg nat.ProtocolALG = nat.NewFTPALG(h, nop)
		if strings.HasPrefix(f[0], "lib-sip") {
			alg = nat.NewSIPALG(h, nop)
		}
		var out []byte
		if strings.HasSuffix(f[0], "-out") {
			out, err = alg.ProcessOutbound(conn, b)
		} else {
			out, err = alg.ProcessInbound(conn, b)
		}
		if err != nil {
			return "err"
		}
		return fmt.Sprintf("ok %d", len(out))

	case "lib-v6srv":
		b, ok := arg(1)
		if !ok {
			return "badop"
		}
		if r.v6 == nil {
			srv, err := dhcpv6.NewServer(dhcpv6.ServerConfig{Interface: "lo", AddressPool: "2001:db8:1::/120",
				PrefixPool: "2001:db8:100::/48", DelegationLength: 56, DNSServers: []string{"2001:4860:4860::8888"}}, nop)
			if err != nil {
				return "harness-err " + err.Error()
			}
			conn, err := net.ListenUDP("udp", &net.UDPAddr{IP: net.IPv4(127, 0, 0, 1)})
			if err != nil {
				return "harness-err " + err.Error()
			}
			srv.SetConnForVerif(conn)
			r.v6, r.v6conn = srv, conn
		}
		msg, err := dhcpv6.ParseMessage(b)
		if err != nil {
			return "err"
		}
		r.v6.HandleMessageForVerif(msg, r.v6conn.LocalAddr().(*net.UDPAddr))
		return "ok"

	case "lib-hasse":
		// pkg/ha/sync.go handleSSEData: decode + apply one SSE payload on a standby syncer (state persists in the run)
		b, ok := arg(1)
		if !ok {
			return "badop"
		}
		if r.sse == nil {
			r.sse = ha.NewHASyncer(ha.SyncConfig{NodeID: "standby", Role: ha.RoleStandby,
				Partner: &ha.PartnerInfo{NodeID: "active", Endpoint: "127.0.0.1:1"}}, ha.NewInMemorySessionStore(), nop)
		}
		if err := r.sse.HandleSSEDataForVerif(b); err != nil {
			return "err"
		}
		st := r.sse.Stats()
		return fmt.Sprintf("ok %d %d", st.MessagesReceived, st.SessionsSynced)

	case "lib-radauth", "lib-radacct":
		// pkg/radius/client.go: the response handling of Authenticate / SendAccounting, fed by a scripted
		// RADIUS server on loopback.  mode "signed": <code> <attribute bytes> wrapped in a correctly signed
		// response to the client's request; mode "raw": the datagram as is (identifier patched in).
		if len(f) != 4 || (f[1] != "signed" && f[1] != "raw") {
			return "badop"
		}
		code, err := strconv.Atoi(f[2])
		b, ok := arg(3)
		if err != nil || !ok || code < 0 || code > 255 {
			return "badop"
		}
		return radClient(f[0] == "lib-radacct", f[1] == "raw", byte(code), b)

	case "lib-dhcp4-conc":
		// dhcp server4 runs every packet in a goroutine of its own, next to the lease-cleanup loop
		if len(f) != 2 {
			return "badop"
		}
		sd, err := strconv.Atoi(f[1])
		if err != nil {
			return "badop"
		}
		return dhcp4Concurrent(int64(sd))

	case "lib-dhcp4":
		b, ok := arg(1)
		if !ok {
			return "badop"
		}
		pkt, err := dhcpv4.FromBytes(b)
		if err != nil {
			return "err"
		}
		info := dhcp.ParseOption82ForVerif(pkt)
		if info == nil {
			return "ok nil"
		}
		return fmt.Sprintf("ok %s %s", hexOpt(info.CircuitID), hexOpt(info.RemoteID))

	case "lib-hamsg":
		b, ok := arg(1)
		if !ok {
			return "badop"
		}
		m, err := ha.DecodeSyncMessage(b)
		if err != nil {
			return "err"
		}
		return fmt.Sprintf("ok %d", len(m.Sessions))

	case "lib-radius":
		b, ok := arg(1)
		if !ok {
			return "badop"
		}
		p, err := lradius.Parse(b, []byte("s3cret"))
		if err != nil {
			return "err"
		}
		return fmt.Sprintf("ok %d", p.Code)

	case "sm":
		if r.sm == nil {
			r.sm = pppoe.NewSessionManager()
		}
		if r.smHung {
			return "hang"
		}
		create := func() (uint16, string) {
			type res struct {
				id  uint16
				err error
			}
			ch := make(chan res, 1)
			go func() {
				s, err := r.sm.CreateSession(cliMAC, srvMAC)
				if err != nil {
					ch <- res{0, err}
					return
				}
				ch <- res{s.ID, nil}
			}()
			select {
			case x := <-ch:
				if x.err != nil {
					return 0, "full"
				}
				return x.id, "ok"
			case <-time.After(60 * time.Second):
				r.smHung = true
				return 0, "hang"
			}
		}
		switch {
		case len(f) == 3 && f[1] == "fill":
			n, err := strconv.Atoi(f[2])
			if err != nil {
				return "badop"
			}
			last := uint16(0)
			for i := 0; i < n; i++ {
				id, st := create()
				if st == "hang" {
					return "hang"
				}
				if st == "full" {
					return fmt.Sprintf("full %d", i)
				}
				last = id
			}
			return fmt.Sprintf("ok %d", last)
		case len(f) == 3 && f[1] == "rm":
			id, err := strconv.Atoi(f[2])
			if err != nil {
				return "badop"
			}
			r.sm.RemoveSession(uint16(id))
			return "ok"
		case len(f) == 3 && f[1] == "next":
			v, err := strconv.Atoi(f[2])
			if err != nil || v < 0 || v > 65535 {
				return "badop"
			}
			r.sm.SetNextIDForVerif(uint16(v))
			return "ok"
		case len(f) == 2 && f[1] == "create":
			id, st := create()
			if st == "ok" {
				return fmt.Sprintf("ok %d", id)
			}
			return st
		}
	}
	return "badop"
}

// ---------------------------------------------------------------- RADIUS client behind a scripted server

const radSecret = "s3cret"

// radClient: a response the client discards makes it wait for its timeout, so the timeout is short; an "err" is
// confirmed once with a timeout ten times as long, so that a stall of the machine is not mistaken for a discarded response.
func radClient(acct, raw bool, code byte, body []byte) string {
	out := radClientT(acct, raw, code, body, 60*time.Millisecond)
	if out == "err" {
		out = radClientT(acct, raw, code, body, 600*time.Millisecond)
	}
	return out
}

func radClientT(acct, raw bool, code byte, body []byte, timeout time.Duration) string {
	// the accounting port is the authentication port + 1
	var auth, ac *net.UDPConn
	for try := 0; try < 50 && ac == nil; try++ {
		a, err := net.ListenUDP("udp", &net.UDPAddr{IP: net.IPv4(127, 0, 0, 1)})
		if err != nil {
			return "harness-err " + err.Error()
		}
		b, err := net.ListenUDP("udp", &net.UDPAddr{IP: net.IPv4(127, 0, 0, 1), Port: a.LocalAddr().(*net.UDPAddr).Port + 1})
		if err != nil {
			a.Close()
			continue
		}
		auth, ac = a, b
	}
	if ac == nil {
		return "harness-err no port pair"
	}
	defer auth.Close()
	defer ac.Close()
	serve := func(c *net.UDPConn) {
		buf := make([]byte, 4096)
		for {
			n, from, err := c.ReadFromUDP(buf)
			if err != nil {
				return
			}
			if n < 20 {
				continue
			}
			var resp []byte
			if raw {
				resp = append([]byte(nil), body...)
				if len(resp) > 1 {
					resp[1] = buf[1]
				}
			} else {
				resp = make([]byte, 20+len(body))
				resp[0], resp[1] = code, buf[1]
				binary.BigEndian.PutUint16(resp[2:4], uint16(len(resp)))
				copy(resp[20:], body)
				h := md5.New()
				h.Write(resp[:4])
				h.Write(buf[4:20])
				h.Write(body)
				h.Write([]byte(radSecret))
				copy(resp[4:20], h.Sum(nil))
			}
			c.WriteToUDP(resp, from)
		}
	}
	go serve(auth)
	go serve(ac)
	cl, err := radius.NewClient(radius.ClientConfig{
		Servers: []radius.ServerConfig{{Host: "127.0.0.1", Port: auth.LocalAddr().(*net.UDPAddr).Port, Secret: radSecret}},
		NASID:   "bng-verif", Timeout: timeout, Retries: 1}, nop)
	if err != nil {
		return "harness-err " + err.Error()
	}
	ctx, cancel := context.WithTimeout(context.Background(), 5*time.Second)
	defer cancel()
	if acct {
		if err := cl.SendAccounting(ctx, &radius.AcctRequest{SessionID: "s1", Username: "u", MAC: cliMAC, StatusType: radius.AcctStatusStop,
			InputOctets: 1 << 33, OutputOctets: 7, SessionTime: 5, TerminateCause: 1}); err != nil {
			return "err"
		}
		return "ok"
	}
	resp, err := cl.Authenticate(ctx, &radius.AuthRequest{Username: "u", Password: "p", MAC: cliMAC})
	if err != nil {
		return "err"
	}
	return fmt.Sprintf("ok acc=%v st=%d it=%d ip=%s fi=%s class=%s reason=%s", resp.Accepted, resp.SessionTimeout, resp.IdleTimeout,
		hexs(resp.FramedIP), hexs([]byte(resp.FilterID)), hexs(resp.Class), hexs([]byte(resp.RejectReason)))
}

// ---------------------------------------------------------------- DHCPv4 handlers, concurrently

type syncConn struct {
	mu sync.Mutex
	n  int
}

func (c *syncConn) ReadFrom(p []byte) (int, net.Addr, error) { return 0, nil, fmt.Errorf("no read") }
func (c *syncConn) WriteTo(p []byte, a net.Addr) (int, error) {
	c.mu.Lock()
	c.n++
	c.mu.Unlock()
	return len(p), nil
}
func (c *syncConn) Close() error                       { return nil }
func (c *syncConn) LocalAddr() net.Addr                { return &net.UDPAddr{IP: net.IPv4zero, Port: 67} }
func (c *syncConn) SetDeadline(t time.Time) error      { return nil }
func (c *syncConn) SetReadDeadline(t time.Time) error  { return nil }
func (c *syncConn) SetWriteDeadline(t time.Time) error { return nil }

// dhcp4Concurrent: the real slow-path handler from several goroutines (as server4 runs it) for a handful of
// clients on a tiny pool with millisecond leases, next to the expired-lease cleanup.  Only a panic is observable.
func dhcp4Concurrent(sd int64) string {
	pm := dhcp.NewPoolManager(nil, nop)
	pool, err := dhcp.NewPool(dhcp.PoolConfig{ID: 1, Name: "p", Network: "10.9.0.0/28", Gateway: "10.9.0.1",
		DNSServers: []string{"8.8.8.8"}, LeaseTime: time.Millisecond, ClientClass: dhcp.ClientClassResidential})
	if err != nil {
		return "harness-err " + err.Error()
	}
	if err := pm.AddPool(pool); err != nil {
		return "harness-err " + err.Error()
	}
	loader, err := ebpf.NewLoader("lo", nop)
	if err != nil {
		return "harness-err " + err.Error()
	}
	srv, err := dhcp.NewServer(dhcp.ServerConfig{Interface: "lo", ServerIP: net.IPv4(10, 9, 0, 1)}, loader, pm, nop)
	if err != nil {
		return "harness-err " + err.Error()
	}
	conn := &syncConn{}
	peer := &net.UDPAddr{IP: net.IPv4(10, 9, 0, 200), Port: 68}
	var workers, cleaner sync.WaitGroup
	panics := make(chan string, 64)
	guard := func(wg *sync.WaitGroup, f func()) {
		defer wg.Done()
		defer func() {
			if e := recover(); e != nil {
				select {
				case panics <- strings.ReplaceAll(fmt.Sprint(e), "\n", " "):
				default:
				}
			}
		}()
		f()
	}
	stop := make(chan struct{})
	for w := 0; w < 6; w++ {
		workers.Add(1)
		rr := rand.New(rand.NewSource(sd*31 + int64(w)))
		go guard(&workers, func() {
			for i := 0; i < 150; i++ {
				mac := net.HardwareAddr{2, 0, 0, 0, 1, byte(rr.Intn(4))}
				ip := net.IPv4(10, 9, 0, byte(2+rr.Intn(13)))
				mt := []dhcpv4.MessageType{dhcpv4.MessageTypeDiscover, dhcpv4.MessageTypeRequest, dhcpv4.MessageTypeRequest,
					dhcpv4.MessageTypeRelease, dhcpv4.MessageTypeDecline, dhcpv4.MessageTypeInform}[rr.Intn(6)]
				mods := []dhcpv4.Modifier{dhcpv4.WithHwAddr(mac), dhcpv4.WithMessageType(mt)}
				switch mt {
				case dhcpv4.MessageTypeRequest, dhcpv4.MessageTypeDecline:
					mods = append(mods, dhcpv4.WithOption(dhcpv4.OptRequestedIPAddress(ip)), dhcpv4.WithOption(dhcpv4.OptServerIdentifier(net.IPv4(10, 9, 0, 1))))
				case dhcpv4.MessageTypeRelease:
					mods = append(mods, dhcpv4.WithClientIP(ip))
				}
				if rr.Intn(3) == 0 {
					mods = append(mods, dhcpv4.WithOption(dhcpv4.OptGeneric(dhcpv4.OptionRelayAgentInformation, []byte{1, 3, 'c', 'i', byte('0' + rr.Intn(3))})))
				}
				p, err := dhcpv4.New(mods...)
				if err != nil {
					continue
				}
				srv.HandleDHCPForVerif(conn, peer, p)
			}
		})
	}
	cleaner.Add(1)
	go guard(&cleaner, func() {
		for {
			select {
			case <-stop:
				return
			default:
				srv.CleanupExpiredForVerif()
			}
		}
	})
	done := make(chan struct{})
	go func() {
		workers.Wait()
		close(stop)
		cleaner.Wait()
		close(done)
	}()
	select {
	case <-done:
	case <-time.After(20 * time.Second):
		return "hang"
	}
	select {
	case p := <-panics:
		return "panic " + p
	default:
		return "ok"
	}
}

// ---------------------------------------------------------------- HA stream

// haStream serves the bytes as the partner's SSE stream and runs the real connectToStream on it.
func haStream(stream []byte) string {
	ts := httptest.NewServer(http.HandlerFunc(func(w http.ResponseWriter, req *http.Request) {
		w.Header().Set("Content-Type", "text/event-stream")
		w.WriteHeader(200)
		w.Write(stream)
	}))
	defer ts.Close()
	cfg := ha.SyncConfig{NodeID: "standby", Role: ha.RoleStandby,
		Partner: &ha.PartnerInfo{NodeID: "active", Endpoint: strings.TrimPrefix(ts.URL, "http://")}, RequestTimeout: 5 * time.Second}
	s := ha.NewHASyncer(cfg, ha.NewInMemorySessionStore(), nop)
	done := make(chan string, 1)
	go func() {
		defer func() {
			if e := recover(); e != nil {
				done <- "panic " + strings.ReplaceAll(fmt.Sprint(e), "\n", " ")
			}
		}()
		s.ConnectToStreamForVerif() // always ends with "connection closed" when the stream ends
		st := s.Stats()
		done <- fmt.Sprintf("ok %d %d", st.MessagesReceived, st.BytesReceived)
	}()
	select {
	case x := <-done:
		return x
	case <-time.After(60 * time.Second):
		return "hang"
	}
}

func haValidMsg() []byte {
	m := &ha.SyncMessage{Type: ha.SyncTypeHeartbeat, Timestamp: time.Unix(1700000000, 0).UTC()}
	b, err := json.Marshal(m)
	if err != nil {
		panic(err)
	}
	return b
}

// ---------------------------------------------------------------- generator

type lf struct{ off, size int } // a length field inside a seed packet

type seed struct {
	b  []byte
	lf []lf
}

func shift(fs []lf, by int) []lf {
	out := make([]lf, len(fs))
	for i, f := range fs {
		out[i] = lf{f.off + by, f.size}
	}
	return out
}

// tlv1: type(1) len(1) value, len counts `hdr` bytes of header (2 for LCP/RADIUS, 0 for option 82)
func tlv1Fields(b []byte, hdr int) []lf {
	var out []lf
	for off := 0; off+2 <= len(b); {
		out = append(out, lf{off + 1, 1})
		l := int(b[off+1]) + (2 - hdr)
		if l < 2 || off+l > len(b) {
			break
		}
		off += l
	}
	return out
}

// tlv2: type(2) len(2) value (PPPoE tags, DHCPv6 options)
func tlv2Fields(b []byte) []lf {
	var out []lf
	for off := 0; off+4 <= len(b); {
		out = append(out, lf{off + 2, 2})
		l := 4 + int(binary.BigEndian.Uint16(b[off+2:off+4]))
		if off+l > len(b) {
			break
		}
		off += l
	}
	return out
}

func put(b []byte, f lf, v int) []byte {
	out := append([]byte(nil), b...)
	if f.size == 1 {
		out[f.off] = byte(v)
	} else {
		binary.BigEndian.PutUint16(out[f.off:f.off+2], uint16(v))
	}
	return out
}

// mutants: the seed, every length field set to every interesting value, truncation at every offset,
// trailing junk, and (dense) every byte position set to boundary values
func mutants(r *rand.Rand, s seed, dense bool) [][]byte {
	out := [][]byte{s.b}
	seen := map[string]bool{string(s.b): true}
	add := func(b []byte) {
		if !seen[string(b)] {
			seen[string(b)] = true
			out = append(out, b)
		}
	}
	for _, f := range s.lf {
		if f.off+f.size > len(s.b) {
			continue
		}
		cur := int(s.b[f.off])
		max := 0xff
		if f.size == 2 {
			cur = int(binary.BigEndian.Uint16(s.b[f.off : f.off+2]))
			max = 0xffff
		}
		rem := len(s.b) - f.off - f.size // bytes after the field
		vals := []int{0, 1, 2, 3, 4, 5, 6, 7, 8, cur - 2, cur - 1, cur + 1, cur + 2, rem - 1, rem, rem + 1, rem + 2,
			len(s.b) - 1, len(s.b), len(s.b) + 1, max, max - 1, max - 5, max - 6, max/2 + 1}
		for _, v := range vals {
			if v >= 0 && v <= max {
				add(put(s.b, f, v))
			}
		}
	}
	for n := 0; n < len(s.b); n++ {
		add(append([]byte(nil), s.b[:n]...))
	}
	add(append(append([]byte(nil), s.b...), 0))
	add(append(append([]byte(nil), s.b...), 0xff, 0xff, 0xff))
	add(append(append([]byte(nil), s.b...), s.b...))
	if dense {
		for i := range s.b {
			for _, v := range []int{0, 1, 2, 3, 4, 0x7f, 0x80, 0xfe, 0xff, int(s.b[i]) - 1, int(s.b[i]) + 1, len(s.b) - i, len(s.b) - i - 1} {
				m := append([]byte(nil), s.b...)
				m[i] = byte(v)
				add(m)
			}
		}
	}
	return out
}

func randoms(r *rand.Rand, n, maxLen int, heads [][]byte) [][]byte {
	var out [][]byte
	for i := 0; i < n; i++ {
		l := r.Intn(maxLen + 1)
		if r.Intn(3) == 0 {
			l = r.Intn(12)
		}
		b := make([]byte, l)
		r.Read(b)
		if len(heads) > 0 && r.Intn(2) == 0 { // plausible first bytes, random rest
			h := heads[r.Intn(len(heads))]
			copy(b, h)
		}
		out = append(out, b)
	}
	return out
}

func cat(parts ...[]byte) []byte {
	var out []byte
	for _, p := range parts {
		out = append(out, p...)
	}
	return out
}

func u16(v int) []byte { return []byte{byte(v >> 8), byte(v)} }
func u32(v uint32) []byte {
	b := make([]byte, 4)
	binary.BigEndian.PutUint32(b, v)
	return b
}

// ---- seeds built with the repository's own serializers

func tagSeeds() []seed {
	sets := [][]pppoe.Tag{
		{},
		{{Type: pppoe.TagServiceName, Value: []byte("internet")}, {Type: pppoe.TagHostUniq, Value: []byte{1, 2, 3, 4}}},
		{{Type: pppoe.TagServiceName, Value: nil}, {Type: pppoe.TagHostUniq, Value: nil}, {Type: pppoe.TagACCookie, Value: bytes.Repeat([]byte{7}, 16)}},
		{{Type: pppoe.TagServiceName, Value: []byte("other")}, {Type: pppoe.TagHostUniq, Value: []byte{9}}},
		{{Type: pppoe.TagACCookie, Value: []byte{1}}, {Type: pppoe.TagEndOfList, Value: nil}, {Type: pppoe.TagHostUniq, Value: []byte{5, 5}}},
		{{Type: pppoe.TagGenericErr, Value: []byte("bye")}},
	}
	var out []seed
	for _, ts := range sets {
		b := pppoe.SerializeTags(ts)
		out = append(out, seed{b, tlv2Fields(b)})
	}
	return out
}

func discSeeds() []seed {
	var out []seed
	for _, code := range []uint8{pppoe.CodePADI, pppoe.CodePADR, pppoe.CodePADT, pppoe.CodePADO, 0} {
		for i, ts := range tagSeeds() {
			if code != pppoe.CodePADI && code != pppoe.CodePADR && i > 2 {
				continue
			}
			h := &pppoe.PPPoEHeader{VerType: 0x11, Code: code, SessionID: uint16(i), Length: uint16(len(ts.b))}
			b := cat(h.Serialize(), ts.b)
			out = append(out, seed{b, append([]lf{{4, 2}}, shift(ts.lf, 6)...)})
		}
	}
	return out
}

func padtSeeds() []seed {
	var out []seed
	out = append(out, seed{pppoe.SerializePADT(7, nil), []lf{{4, 2}}})
	b := pppoe.SerializePADT(0x1234, pppoe.BuildPADTErrorTags(pppoe.TagGenericErr, "session closed"))
	out = append(out, seed{b, append([]lf{{4, 2}}, shift(tlv2Fields(b[6:]), 6)...)})
	h := &pppoe.PPPoEHeader{VerType: 0x11, Code: pppoe.CodePADI, SessionID: 1, Length: 0}
	out = append(out, seed{h.Serialize(), []lf{{4, 2}}})
	return out
}

type optSet = []pppoe.LCPOption

func lcpOptSeeds() []seed {
	sets := []optSet{
		{},
		{{Type: 1, Data: u16(1492)}, {Type: 5, Data: u32(0x11223344)}},
		{{Type: 1, Data: u16(1500)}, {Type: 5, Data: u32(0)}, {Type: 7}, {Type: 8}},
		{{Type: 1, Data: u16(32)}, {Type: 3, Data: []byte{0xc0, 0x23}}, {Type: 5, Data: u32(lcpMagic)}},
		{{Type: 1, Data: []byte{5}}, {Type: 3, Data: []byte{0xc2}}, {Type: 5, Data: []byte{1, 2, 3}}, {Type: 7, Data: []byte{1}}, {Type: 99, Data: []byte("zz")}},
		{{Type: 3, Data: []byte{0xc2, 0x23, 5}}, {Type: 5, Data: u32(lcpMagic)}, {Type: 5, Data: u32(lcpMagic)}},
		// IPCP
		{{Type: 3, Data: []byte{0, 0, 0, 0}}, {Type: 129, Data: []byte{0, 0, 0, 0}}, {Type: 131, Data: []byte{0, 0, 0, 0}}},
		{{Type: 3, Data: []byte{10, 0, 0, 2}}, {Type: 129, Data: []byte{1, 1, 1, 1}}},
		{{Type: 3, Data: []byte{10, 0, 0, 9}}, {Type: 2, Data: []byte{0, 0x2d}}, {Type: 131, Data: []byte{1}}},
		// IPv6CP
		{{Type: 1, Data: []byte{1, 2, 3, 4, 5, 6, 7, 9}}},
		{{Type: 1, Data: make([]byte, 8)}},
		{{Type: 1, Data: []byte{1, 2, 3, 4, 5, 6, 7, 8}}, {Type: 1, Data: []byte{1, 2, 3, 4, 5, 6, 7, 8}}},
	}
	var out []seed
	for _, s := range sets {
		b := pppoe.SerializeLCPOptions(s)
		out = append(out, seed{b, tlv1Fields(b, 2)})
	}
	return out
}

// LCP-format packets of every code
func lcpPktSeeds() []seed {
	var out []seed
	for i, o := range lcpOptSeeds() {
		for _, code := range []byte{1, 2, 3, 4} {
			if code != 1 && i%3 != 1 {
				continue
			}
			for _, id := range []byte{1, 2} {
				if id == 2 && code == 1 {
					continue
				}
				b := lcpPkt(code, id, o.b)
				out = append(out, seed{b, append([]lf{{2, 2}}, shift(o.lf, 4)...)})
			}
		}
	}
	plain := func(code, id byte, data []byte) {
		out = append(out, seed{lcpPkt(code, id, data), []lf{{2, 2}}})
	}
	plain(5, 3, []byte("bye"))
	plain(6, 3, nil)
	for _, d := range [][]byte{nil, {1}, {4}, {9}, {1, 2, 3}} {
		plain(7, 4, d) // Code-Reject
	}
	for _, d := range [][]byte{nil, {0xc0}, {0xc0, 0x21}, {0x80, 0x21, 1, 2}, {0xc0, 0x21, 9, 9, 9}} {
		plain(8, 5, d) // Protocol-Reject
	}
	for n := 0; n <= 9; n++ {
		plain(9, 6, bytes.Repeat([]byte{0xab}, n)) // Echo-Request with 0..9 data bytes
	}
	plain(10, 6, u32(1))
	plain(11, 6, u32(1))
	plain(0, 7, []byte{1, 2})
	plain(12, 7, nil)
	plain(200, 7, []byte("unknown code"))
	return out
}

func papSeeds() []seed {
	mk := func(code, id byte, user, pass []byte) seed {
		body := cat([]byte{byte(len(user))}, user, []byte{byte(len(pass))}, pass)
		b := cat([]byte{code, id}, u16(4+len(body)), body)
		return seed{b, []lf{{2, 2}, {4, 1}, {5 + len(user), 1}}}
	}
	return []seed{
		mk(1, 1, []byte("alice"), []byte("secret")),
		mk(1, 2, nil, nil),
		mk(1, 3, []byte("u"), bytes.Repeat([]byte("p"), 40)),
		mk(2, 4, []byte("bob"), []byte("x")),
		{[]byte{1, 1, 0, 4}, []lf{{2, 2}}},
		{[]byte{1, 1, 0, 5, 0}, []lf{{2, 2}, {4, 1}}},
	}
}

func chapSeeds() []seed {
	mk := func(code, id byte, val, name []byte) seed {
		body := cat([]byte{byte(len(val))}, val, name)
		b := cat([]byte{code, id}, u16(4+len(body)), body)
		return seed{b, []lf{{2, 2}, {4, 1}}}
	}
	return []seed{
		mk(2, 1, bytes.Repeat([]byte{0x5a}, 16), []byte("alice")),
		mk(2, 1, nil, nil),
		mk(2, 2, []byte{1}, []byte("wrong-id")),
		mk(1, 1, []byte{1, 2}, []byte("challenge")),
		{[]byte{2, 1, 0, 4}, []lf{{2, 2}}},
	}
}

func sessSeeds() []seed {
	var out []seed
	wrap := func(sid uint16, proto int, p seed) {
		h := &pppoe.PPPoEHeader{VerType: 0x11, Code: 0, SessionID: sid, Length: uint16(2 + len(p.b))}
		b := cat(h.Serialize(), u16(proto), p.b)
		out = append(out, seed{b, append([]lf{{4, 2}}, shift(p.lf, 8)...)})
	}
	lp := lcpPktSeeds()
	for i, p := range lp {
		if i%4 == 0 || p.b[0] == 9 || p.b[0] == 3 {
			wrap(1, pppoe.ProtocolLCP, p)
		}
		if i%9 == 0 {
			wrap(1, pppoe.ProtocolIPCP, p)
		}
	}
	for _, p := range papSeeds() {
		wrap(1, pppoe.ProtocolPAP, p)
	}
	wrap(1, pppoe.ProtocolIP, seed{[]byte{0x45, 0, 0, 20}, nil})
	wrap(1, 0x1234, seed{nil, nil})
	wrap(2, pppoe.ProtocolLCP, lp[1]) // unknown session
	return out
}

func subOptSeeds() []seed {
	mk := func(parts ...[]byte) seed {
		b := cat(parts...)
		return seed{b, tlv1Fields(b, 0)}
	}
	so := func(t byte, v []byte) []byte { return cat([]byte{t, byte(len(v))}, v) }
	return []seed{
		mk(so(1, []byte("eth 0/1/2:100")), so(2, []byte("olt-7"))),
		mk(so(1, nil), so(2, nil)),
		mk(so(2, []byte{1}), so(1, []byte{2}), so(1, []byte{3}), so(9, []byte("x"))),
		mk(so(5, []byte("skip me")), so(1, []byte("https://nexus.example/api"))),
		mk(so(1, bytes.Repeat([]byte{0x41}, 200))),
		{[]byte{1}, nil},
	}
}

func v6OptSeeds() []seed {
	iaaddr := (&dhcpv6.IAAddress{Address: net.ParseIP("2001:db8::1"), PreferredLifetime: 100, ValidLifetime: 200}).Serialize()
	iapfx := (&dhcpv6.IAPrefix{PreferredLifetime: 1, ValidLifetime: 2, PrefixLength: 56, Prefix: net.ParseIP("2001:db8:1::")}).Serialize()
	iana := (&dhcpv6.IANA{IAID: 7, T1: 10, T2: 20, Options: []dhcpv6.Option{dhcpv6.MakeIAAddressOption(&dhcpv6.IAAddress{Address: net.ParseIP("2001:db8::2"), PreferredLifetime: 3, ValidLifetime: 4})}}).Serialize()
	duid := (&dhcpv6.DUID{Type: 3, Data: []byte{0, 1, 2, 0, 0, 0, 0, 0x11}}).Serialize()
	sets := [][]dhcpv6.Option{
		{},
		{dhcpv6.MakeClientIDOption(duid), {Code: dhcpv6.OptIANA, Data: iana}},
		{{Code: dhcpv6.OptIAAddr, Data: iaaddr}, {Code: dhcpv6.OptIAPrefix, Data: iapfx}, dhcpv6.MakeStatusCodeOption(0, "ok")},
		{{Code: 6, Data: []byte{0, 23, 0, 24}}, {Code: 8, Data: []byte{0, 0}}, {Code: 14, Data: nil}},
	}
	var out []seed
	for _, s := range sets {
		b := dhcpv6.SerializeOptions(s)
		out = append(out, seed{b, tlv2Fields(b)})
	}
	return out
}

func v6Seeds() map[string][]seed {
	out := map[string][]seed{}
	opts := v6OptSeeds()
	out["v6opts"] = opts
	for i, o := range opts {
		m := &dhcpv6.Message{Type: uint8(1 + i), TransactionID: [3]byte{1, 2, byte(i)}}
		b := cat(m.Serialize(), o.b)
		out["v6msg"] = append(out["v6msg"], seed{b, shift(o.lf, 4)})
		ia := cat(u32(uint32(i)), u32(100), u32(200), o.b)
		out["iana"] = append(out["iana"], seed{ia, shift(o.lf, 12)})
		out["iapd"] = append(out["iapd"], seed{ia, shift(o.lf, 12)})
		a := cat((&dhcpv6.IAAddress{Address: net.ParseIP("2001:db8::1"), PreferredLifetime: 100, ValidLifetime: 200}).Serialize(), o.b)
		out["iaaddr"] = append(out["iaaddr"], seed{a, shift(o.lf, 24)})
		p := cat((&dhcpv6.IAPrefix{PreferredLifetime: 1, ValidLifetime: 2, PrefixLength: 56, Prefix: net.ParseIP("2001:db8:1::")}).Serialize(), o.b)
		out["iaprefix"] = append(out["iaprefix"], seed{p, shift(o.lf, 25)})
	}
	out["duid"] = []seed{
		{(&dhcpv6.DUID{Type: 1, Data: []byte{0, 1, 1, 2, 3, 4, 2, 0, 0, 0, 0, 1}}).Serialize(), nil},
		{[]byte{0, 3}, nil},
	}
	return out
}

func radiusSeeds(secret string) (attrs []seed, dgrams []seed) {
	A := coadrv.Attr
	sets := [][]byte{
		{},
		A(1, []byte("alice")),
		cat(A(1, []byte("bob")), A(44, []byte("sess-0001")), A(4, []byte{10, 0, 0, 1}), A(8, []byte{100, 64, 0, 9}),
			A(31, []byte("aa:bb:cc:00:11:22")), A(27, u32(3600)), A(28, u32(600)), A(11, []byte("gold"))),
		cat(A(44, []byte("s")), A(4, []byte{10, 0, 0}), A(27, []byte{1, 2, 3}), A(26, []byte{0, 0, 9, 1, 2})),
		cat(A(1, []byte("carol")), []byte{0x55}),
	}
	for i, a := range sets {
		attrs = append(attrs, seed{a, tlv1Fields(a, 2)})
		d := coadrv.Sign([]byte{43, 40}[i%2], byte(i+1), a, secret)
		dgrams = append(dgrams, seed{d, append([]lf{{2, 2}}, shift(tlv1Fields(a, 2), 20)...)})
	}
	return
}

// matchedCP: Configure-Ack/Nak/Reject carrying the identifier of the outstanding Configure-Request (so the
// handler does NOT drop them and walks the options): every option type the protocol knows and some it does
// not x every option length 2..8 x value bytes at protocol constants, alone and next to a well-formed option.
func matchedCP(proto string, id int) [][]byte {
	types := map[string][]byte{
		"lcp":    {1, 3, 5, 7, 8, 0, 2, 4, 99},
		"ipcp":   {1, 2, 3, 129, 131, 0, 99},
		"ipv6cp": {1, 2, 0, 99},
	}[proto]
	tmpls := [][]byte{{0xc0, 0x23}, {0xc2, 0x23}, {0x80, 0x21}, {0x80, 0x57}, {0xc0, 0x21}, {0x00, 0x21}, {0x00, 0x00}, {0xff, 0xff},
		{0x05, 0xd4}, {0x00, 0x40}, {0x0a, 0x0b, 0x0c, 0x0d}, {10, 0, 0, 2}, {8, 8, 8, 8}, {1, 2, 3, 4, 5, 6, 7, 8}}
	pad := []byte{0x05, 0x80, 0x00, 0x01, 0x02, 0x03}
	good := map[string][]byte{"lcp": {1, 4, 0x05, 0xd4}, "ipcp": {3, 6, 10, 0, 0, 2}, "ipv6cp": {1, 10, 9, 9, 9, 9, 9, 9, 9, 9}}[proto]
	seen := map[string]bool{}
	var out [][]byte
	add := func(b []byte) {
		if !seen[string(b)] {
			seen[string(b)] = true
			out = append(out, b)
		}
	}
	for _, code := range []byte{3, 4, 2} {
		for _, t := range types {
			for L := 2; L <= 8; L++ {
				for _, tm := range tmpls {
					opt := append([]byte{t, byte(L)}, append(append([]byte(nil), tm...), pad...)[:L-2]...)
					add(lcpPkt(code, byte(id), opt))
					if code != 2 && (L <= 4 || tm[0] >= 0x80) {
						add(lcpPkt(code, byte(id), cat(good, opt)))
						add(lcpPkt(code, byte(id), cat(opt, good)))
					}
				}
			}
		}
	}
	return out
}

// matchedAuth: PAP requests and CHAP responses (identifier = the outstanding challenge) with every small
// size byte against every body length
func matchedAuth(code byte, id int, chap bool) [][]byte {
	var out [][]byte
	for _, v := range []int{0, 1, 2, 3, 4, 5, 8, 16, 255} {
		for n := 0; n <= 7; n++ {
			body := append([]byte{byte(v)}, bytes.Repeat([]byte{0x61}, n)...)
			if !chap && n >= v && n > 0 { // PAP: put a password length after the peer id
				body[min(1+v, len(body)-1)] = byte(n - v)
			}
			out = append(out, cat([]byte{code, byte(id)}, u16(4+len(body)), body))
		}
	}
	out = append(out, cat([]byte{code, byte(id)}, u16(4)))
	return out
}

func (comp) Gen(r *rand.Rand, tier string, emit func([]string)) {
	thorough := tier == "thorough"
	maxRand, nRand := 256, 60
	if thorough {
		maxRand, nRand = 2048, 400
	}
	// one sequence per (entry point, batch): "new" + calls
	batch := func(prefix string, inputs [][]byte) {
		seq := []string{"new"}
		for _, b := range inputs {
			seq = append(seq, prefix+" "+hexs(b))
			if len(seq) > 400 {
				emit(seq)
				seq = []string{"new"}
			}
		}
		if len(seq) > 1 {
			emit(seq)
		}
	}
	// quick: full mutation of the first `full` seeds, length fields + truncation of a sample of the rest
	all := func(seeds []seed, heads [][]byte, fullN int) [][]byte {
		var out [][]byte
		for i, s := range seeds {
			if thorough || i < fullN {
				out = append(out, mutants(r, s, thorough || len(s.b) <= 24)...)
			} else if (i+int(r.Int31n(3)))%3 == 0 {
				out = append(out, mutants(r, s, false)...)
			} else {
				out = append(out, s.b)
			}
		}
		return append(out, randoms(r, nRand, maxRand, heads)...)
	}
	headsOf := func(seeds []seed, n int) [][]byte {
		var hs [][]byte
		for _, s := range seeds {
			if len(s.b) >= n {
				hs = append(hs, s.b[:n])
			}
		}
		return hs
	}

	tags := tagSeeds()
	disc := discSeeds()
	batch("pppoehdr", all(disc[:3], nil, 1))
	batch("tags", all(tags, headsOf(tags, 4), 3))
	lcpPkts := lcpPktSeeds()
	batch("lcppkt", all(lcpPkts[:12], headsOf(lcpPkts, 4), 3))
	lopts := lcpOptSeeds()
	batch("lcpopts", all(lopts, headsOf(lopts, 2), 4))
	padt := padtSeeds()
	batch("padt", all(append(padt, disc[:4]...), headsOf(padt, 6), 3))
	batch("echo", all([]seed{{u32(7), nil}, {cat(u32(lcpMagic), []byte("payload")), nil}}, nil, 2))
	for _, svc := range []string{"internet", "x"} {
		batch("disc "+hex.EncodeToString([]byte(svc)), all(disc, headsOf(disc, 6), 4))
	}
	batch("sess", all(sessSeeds(), headsOf(sessSeeds(), 8), 4))
	pap := papSeeds()
	batch("srvpap", all(pap, headsOf(pap, 4), 3))
	batch("pap", all(pap, headsOf(pap, 4), 3))
	batch("pap", matchedAuth(1, 1, false))
	batch("srvpap", matchedAuth(1, 1, false))
	chap := chapSeeds()
	batch("chap 1", all(chap, headsOf(chap, 4), 3))
	// CHAP responses keyed on the LIVE challenge identifier (1 after one challenge, 3 after three)
	for _, id := range []int{1, 3} {
		in := matchedAuth(2, id, true)
		for _, s := range chap[:2] {
			m := append([]byte(nil), s.b...)
			m[1] = byte(id)
			in = append(in, mutants(r, seed{m, s.lf}, false)...)
		}
		batch(fmt.Sprintf("chap %d", id), in)
	}

	// the three automata, every state
	for si, st := range fsmNames {
		var in [][]byte
		for i, s := range lcpPkts {
			switch {
			case thorough:
				in = append(in, mutants(r, s, len(s.b) <= 16)...)
			case s.b[0] == 9 || s.b[0] == 7 || s.b[0] == 8: // echo / code-reject / protocol-reject: everything, every state
				in = append(in, mutants(r, s, false)...)
			case (i+si)%5 == 0:
				in = append(in, mutants(r, s, false)...)
			default:
				in = append(in, s.b)
			}
		}
		in = append(in, randoms(r, nRand/2, maxRand, headsOf(lcpPkts, 4))...)
		pre := fmt.Sprintf("%s %d", st, idsOf(st)[0])
		batch(fmt.Sprintf("lcp %s %08x", pre, lcpMagic), in)
		// packets that MATCH the outstanding identifier: the handlers walk their options instead of dropping them
		for k, id := range idsOf(st) {
			for _, proto := range []string{"lcp", "ipcp", "ipv6cp"} {
				var mi [][]byte
				for j, b := range matchedCP(proto, id) {
					// quick: everything in Req-Sent (id 1) and Opened (id 3), a rotating sixth elsewhere
					full := thorough || (st == "ReqSent" && k == 0) || (st == "Opened" && k == 1)
					if full || (j+si)%6 == 0 {
						mi = append(mi, b)
					}
				}
				p2 := fmt.Sprintf("%s %d", st, id)
				switch proto {
				case "lcp":
					batch(fmt.Sprintf("lcp %s %08x", p2, lcpMagic), mi)
				case "ipcp":
					batch("ipcp "+p2, mi)
				default:
					batch(fmt.Sprintf("ipv6cp %s %016x", p2, v6LocalID), mi)
				}
			}
		}
		var in2 [][]byte
		for i, s := range lcpPkts {
			if s.b[0] > 4 && !thorough && i%3 != 0 {
				continue
			}
			if thorough || (i+si)%4 == 0 {
				in2 = append(in2, mutants(r, s, false)...)
			} else {
				in2 = append(in2, s.b)
			}
		}
		in2 = append(in2, randoms(r, nRand/3, maxRand, headsOf(lcpPkts, 4))...)
		batch("ipcp "+pre, in2)
		batch(fmt.Sprintf("ipv6cp %s %016x", pre, v6LocalID), in2)
	}

	sub := subOptSeeds()
	batch("opt82", all(sub, nil, 3))
	batch("ztp", all(sub, nil, 3))
	for name, seeds := range map[string][]seed{} {
		_ = name
		_ = seeds
	}
	v6 := v6Seeds()
	for _, name := range []string{"v6msg", "v6opts", "duid", "iana", "iapd", "iaaddr", "iaprefix"} {
		batch(name, all(v6[name], headsOf(v6[name], 4), 2))
	}
	attrs, dgrams := radiusSeeds("s3cret")
	batch("radattrs", all(attrs, nil, 3))
	sec := hex.EncodeToString([]byte("s3cret"))
	for i, pol := range []string{"ack", "nak", "def"} {
		var in [][]byte
		for j, s := range dgrams {
			if thorough || (i+j)%3 == 0 {
				in = append(in, mutants(r, s, false)...)
			} else {
				in = append(in, s.b)
			}
		}
		in = append(in, randoms(r, nRand/3, maxRand, headsOf(dgrams, 4))...)
		batch(fmt.Sprintf("coa %s %s", sec, pol), in)
	}

	// library decoders behind bng's wrappers: fuzz only (not modelled)
	{
		ftp := []string{"PORT 10,0,0,5,195,80\r\n", "EPRT |1|10.0.0.5|50000|\r\n", "EPRT |1|not-an-ip|70000|\r\n", "port 999,999,999,999,999,999\r\nPORT 1,2,3,4,5,6",
			"227 Entering Passive Mode (198,51,100,7,200,10)\r\n", "229 Entering Extended Passive Mode (|||99999999999999999999|)\r\n", "USER anonymous\r\n", ""}
		sip := []string{"INVITE sip:bob@example.com SIP/2.0\r\nVia: SIP/2.0/UDP 10.0.0.5:5060\r\nContact: <sip:alice@10.0.0.5>\r\n\r\nc=IN IP4 10.0.0.5\r\no=- 1 1 IN IP4 203.0.113.1\r\n", "via:", "\r\n\r\n"}
		var ftpIn, sipIn [][]byte
		for _, s := range ftp {
			ftpIn = append(ftpIn, mutants(r, seed{[]byte(s), nil}, thorough)...)
		}
		for _, s := range sip {
			sipIn = append(sipIn, mutants(r, seed{[]byte(s), nil}, false)...)
		}
		sipIn = append(sipIn, bytes.Repeat([]byte("Via: 10.0.0.5 "), 6000)) // a line longer than bufio.Scanner's token limit
		ftpIn = append(ftpIn, randoms(r, nRand/3, maxRand, [][]byte{[]byte("PORT "), []byte("227 "), []byte("EPRT |1|")})...)
		sipIn = append(sipIn, randoms(r, nRand/3, maxRand, [][]byte{[]byte("Via: "), []byte("c=IN IP4 ")})...)
		batch("lib-ftp-out", ftpIn)
		batch("lib-ftp-in", ftpIn)
		batch("lib-sip-out", sipIn)
		batch("lib-sip-in", sipIn)
		// DHCPv4 packets carrying option 82, through dhcpv4.FromBytes
		var d4 [][]byte
		for _, so := range subOptSeeds() {
			if len(so.b) > 250 {
				continue
			}
			pkt, err := dhcpv4.New(dhcpv4.WithOption(dhcpv4.OptGeneric(dhcpv4.OptionRelayAgentInformation, so.b)))
			if err != nil {
				continue
			}
			raw := pkt.ToBytes()
			if thorough {
				d4 = append(d4, mutants(r, seed{raw, nil}, false)...)
			} else {
				d4 = append(d4, raw)
				for n := 230; n <= len(raw); n++ {
					d4 = append(d4, raw[:n])
				}
				for i := 236; i < len(raw); i++ {
					for _, v := range []byte{0, 1, 0xff, raw[i] + 1} {
						m := append([]byte(nil), raw...)
						m[i] = v
						d4 = append(d4, m)
					}
				}
			}
		}
		d4 = append(d4, randoms(r, nRand/3, 400, nil)...)
		batch("lib-dhcp4", d4)
		// whole DHCPv6 messages through the server's dispatcher and per-message handlers
		{
			duid := (&dhcpv6.DUID{Type: 3, Data: []byte{0, 1, 2, 0, 0, 0, 0, 0x11}}).Serialize()
			srvDUID := (&dhcpv6.DUID{Type: dhcpv6.DUIDTypeLL, Data: []byte{0, 1}}).Serialize()
			iana := (&dhcpv6.IANA{IAID: 7, T1: 10, T2: 20, Options: []dhcpv6.Option{dhcpv6.MakeIAAddressOption(&dhcpv6.IAAddress{Address: net.ParseIP("2001:db8:1::5"), PreferredLifetime: 3, ValidLifetime: 4})}})
			iapd := (&dhcpv6.IAPD{IAID: 9, T1: 10, T2: 20, Options: []dhcpv6.Option{dhcpv6.MakeIAPrefixOption(&dhcpv6.IAPrefix{PreferredLifetime: 1, ValidLifetime: 2, PrefixLength: 56, Prefix: net.ParseIP("2001:db8:100::")})}})
			var in [][]byte
			for t := uint8(0); t <= 13; t++ {
				m := &dhcpv6.Message{Type: t, TransactionID: [3]byte{1, 2, t}, Options: []dhcpv6.Option{
					dhcpv6.MakeClientIDOption(duid), {Code: dhcpv6.OptServerID, Data: srvDUID}, dhcpv6.MakeIANAOption(iana), dhcpv6.MakeIAPDOption(iapd),
					{Code: dhcpv6.OptORO, Data: []byte{0, 23, 0, 24}}}}
				raw := m.Serialize()
				sd := seed{raw, shift(tlv2Fields(raw[4:]), 4)}
				if thorough || t == 1 || t == 3 || t == 8 {
					in = append(in, mutants(r, sd, false)...)
				} else {
					in = append(in, raw)
				}
			}
			in = append(in, randoms(r, nRand/3, maxRand, [][]byte{{1, 0, 0, 1, 0, 1}, {3, 0, 0, 1, 0, 3}})...)
			batch("lib-v6srv", in)
			// ... and in every protocol state that matters: ONE server, Solicit -> Request installs the lease of
			// this DUID, then the mutated Renew / Rebind / Release / Decline / Confirm / Information-Request finds it;
			// the Request is repeated before every mutant so that a Release/Decline does not leave later ones stateless
			mk := func(t uint8, withServerID bool, ia *dhcpv6.IANA, pd *dhcpv6.IAPD) []byte {
				opts := []dhcpv6.Option{dhcpv6.MakeClientIDOption(duid)}
				if withServerID {
					opts = append(opts, dhcpv6.Option{Code: dhcpv6.OptServerID, Data: srvDUID})
				}
				if ia != nil {
					opts = append(opts, dhcpv6.MakeIANAOption(ia))
				}
				if pd != nil {
					opts = append(opts, dhcpv6.MakeIAPDOption(pd))
				}
				return (&dhcpv6.Message{Type: t, TransactionID: [3]byte{9, 9, t}, Options: opts}).Serialize()
			}
			solicit := mk(1, false, &dhcpv6.IANA{IAID: 7}, &dhcpv6.IAPD{IAID: 9})
			request := mk(3, true, &dhcpv6.IANA{IAID: 7}, &dhcpv6.IAPD{IAID: 9})
			seq := []string{"new", "lib-v6srv " + hexs(solicit), "lib-v6srv " + hexs(request)}
			for _, t := range []uint8{5, 6, 8, 9, 4, 11, 3} { // renew rebind release decline confirm info-request request
				raw := mk(t, t != 6 && t != 4, iana, iapd)
				ms := mutants(r, seed{raw, shift(tlv2Fields(raw[4:]), 4)}, false)
				for j, m := range ms {
					if !thorough && j%4 != 0 && j > 40 {
						continue
					}
					seq = append(seq, "lib-v6srv "+hexs(request), "lib-v6srv "+hexs(m))
					if len(seq) > 400 {
						emit(seq)
						seq = []string{"new", "lib-v6srv " + hexs(solicit), "lib-v6srv " + hexs(request)}
					}
				}
			}
			emit(seq)
		}
		// HA: whole SSE payloads through handleSSEData (decode AND apply to the standby's store), in sequence
		{
			ts := time.Unix(1700000000, 0).UTC()
			sess := func(id string) ha.SessionState {
				return ha.SessionState{SessionID: id, SubscriberID: "sub-" + id, MAC: "02:00:00:00:00:01", IP: "10.0.0.9", VLAN: 100,
					SessionType: "ipoe", CreatedAt: ts, LastActivity: ts, State: "active"}
			}
			var msgs [][]byte
			for _, m := range []*ha.SyncMessage{
				{Type: ha.SyncTypeAdd, Sessions: []ha.SessionState{sess("a")}, Timestamp: ts, SequenceNum: 1, NodeID: "active"},
				{Type: ha.SyncTypeUpdate, Sessions: []ha.SessionState{sess("a"), sess("b")}, Timestamp: ts, SequenceNum: 2, NodeID: "active"},
				{Type: ha.SyncTypeDelete, Sessions: []ha.SessionState{{SessionID: "a"}, {SessionID: "zz"}}, Timestamp: ts, SequenceNum: 3, NodeID: "active"},
				{Type: ha.SyncTypeFull, Sessions: []ha.SessionState{sess("c")}, Timestamp: ts, SequenceNum: 4, NodeID: "active"},
				{Type: ha.SyncTypeFull, Timestamp: ts, NodeID: "active"},
				{Type: ha.SyncTypeHeartbeat, Timestamp: ts, NodeID: "active"},
				{Type: ha.SyncTypeFullRequest, Timestamp: ts, NodeID: "x"},
				{Type: "bogus", Sessions: []ha.SessionState{sess("d")}, Timestamp: ts},
			} {
				b, err := json.Marshal(m)
				if err == nil {
					msgs = append(msgs, b)
				}
			}
			msgs = append(msgs, []byte(`{"type":"add","sessions":[null]}`), []byte(`{"type":"delete","sessions":[{}]}`), []byte(`{"type":"add","sessions":null}`),
				[]byte(`{"type":"update","sessions":[{"session_id":""}]}`), []byte(`null`), []byte(`{}`), []byte(`{"type":"add","sessions":[{"vlan":-1,"s_tag":65535}]}`))
			var in [][]byte
			for i, m := range msgs {
				in = append(in, m)
				if thorough || i < 3 {
					in = append(in, mutants(r, seed{m, nil}, false)...)
				}
			}
			in = append(in, msgs...) // and once more, on the state the mutants left behind
			batch("lib-hasse", append(in, randoms(r, nRand/3, maxRand, [][]byte{[]byte("{\"type\":\"add\",\"sessions\":[")})...))
		}
		// pkg/radius/client.go: what Authenticate / SendAccounting make of the server's answer
		{
			A := coadrv.Attr
			goodAttrs := [][]byte{
				{},
				cat(A(27, u32(3600)), A(28, u32(600)), A(8, []byte{10, 1, 2, 3}), A(11, []byte("gold")), A(25, []byte("class-1")), A(18, []byte("welcome"))),
				cat(A(27, []byte{1, 2, 3}), A(28, []byte{1, 2, 3, 4, 5}), A(8, []byte{10, 1, 2}), A(8, nil), A(11, nil), A(25, nil)), // wrong-size values
				cat(A(26, []byte{0, 0, 0, 9, 1, 3, 0x41}), A(26, []byte{0, 0}), A(26, nil), A(79, []byte{1, 2}), A(80, bytes.Repeat([]byte{0}, 16))),
				cat(A(18, bytes.Repeat([]byte("r"), 253)), A(18, []byte("second"))),
				cat(A(8, []byte{10, 1, 2, 3}), []byte{0x55}),   // dangling byte
				cat(A(11, []byte("x")), []byte{25, 1}),         // attribute length 1
				cat(A(11, []byte("x")), []byte{25, 200, 1, 2}), // attribute overruns
			}
			seq := []string{"new"}
			for _, a := range goodAttrs {
				for _, code := range []int{2, 3, 11, 5, 0, 255} {
					seq = append(seq, fmt.Sprintf("lib-radauth signed %d %s", code, hexs(a)))
				}
				for _, code := range []int{5, 2, 4} {
					seq = append(seq, fmt.Sprintf("lib-radacct signed %d %s", code, hexs(a)))
				}
			}
			// unsigned / truncated / oversized-length datagrams: the client must time out, not crash
			base := cat([]byte{2, 0, 0, 26}, bytes.Repeat([]byte{0xaa}, 16), A(27, u32(60)))
			raws := [][]byte{{}, {2}, base[:19], base[:20], base, base[:25]}
			for _, L := range []int{0, 19, 20, 27, 4096, 0xffff} {
				m := append([]byte(nil), base...)
				binary.BigEndian.PutUint16(m[2:4], uint16(L))
				raws = append(raws, m)
			}
			if thorough {
				raws = append(raws, randoms(r, 40, 200, [][]byte{{2, 0, 0, 26}})...)
			}
			for i, b := range raws {
				seq = append(seq, fmt.Sprintf("lib-radauth raw 0 %s", hexs(b)))
				if i%3 == 0 {
					seq = append(seq, fmt.Sprintf("lib-radacct raw 0 %s", hexs(b)))
				}
			}
			emit(seq)
		}
		// dhcp server4 handles every packet in its own goroutine: the handlers, concurrently, next to the cleanup loop
		{
			n := 2
			if thorough {
				n = 12
			}
			seq := []string{"new"}
			for i := 0; i < n; i++ {
				seq = append(seq, fmt.Sprintf("lib-dhcp4-conc %d", r.Intn(1<<30)))
			}
			emit(seq)
		}
		hv := haValidMsg()
		batch("lib-hamsg", append(mutants(r, seed{hv, nil}, false), randoms(r, nRand/3, maxRand, [][]byte{[]byte("{\"type\":")})...))
		_, dg := radiusSeeds("s3cret")
		var rin [][]byte
		for _, s := range dg {
			rin = append(rin, mutants(r, s, false)...)
		}
		batch("lib-radius", append(rin, randoms(r, nRand/3, maxRand, nil)...))
	}

	// HA sync stream: framing mutations around a valid heartbeat message
	{
		v := haValidMsg()
		line := func(p []byte) []byte { return cat([]byte("data: "), p, []byte("\n")) }
		streams := [][]byte{
			{},
			line(v),
			cat(line(v), []byte("\n"), line(v), []byte(": comment\n\n")),
			cat([]byte("data: \n"), line(v)),
			cat([]byte("data:"), v, []byte("\n"), line(v)),
			cat(line(v), []byte("data: ")),    // unterminated tail
			cat(line(v), []byte("data: "), v), // unterminated payload
			cat([]byte("data: \xff\xfe\n"), line(v)),
			cat([]byte("event: x\ndata: "), v[:len(v)-1], []byte("\n")),
			cat([]byte("\n\n\n"), []byte("data: \n"), []byte("data:  \n")),
			[]byte("data: "),
			[]byte("data:"),
			[]byte("data: \n"),
			[]byte("\n"),
		}
		base := cat(line(v), line(v))
		for n := 0; n <= len(base); n++ {
			if thorough || n < 16 || n%3 == 0 || n > len(base)-12 {
				streams = append(streams, base[:n])
			}
		}
		for _, b := range randoms(r, nRand/4, maxRand, [][]byte{[]byte("data: "), []byte("data: \n")}) {
			for i := range b { // random bytes, but never something encoding/json could accept as an object
				if b[i] == '{' || b[i] == 'n' {
					b[i] = '\n'
				}
			}
			streams = append(streams, b)
		}
		seq := []string{"new"}
		for _, s := range streams {
			seq = append(seq, fmt.Sprintf("hastream %s %s", hex.EncodeToString(v), hexs(s)))
		}
		emit(seq)
	}

	// CreateSession's id search
	emit([]string{"new", "sm create", "sm create", "sm rm 1", "sm create", "sm next 65535", "sm create", "sm create", "sm next 0", "sm create",
		"sm next 2", "sm create", "sm rm 65535", "sm next 65535", "sm create", "sm create"})
	emit([]string{"new", "sm fill 65535", "sm create", "sm create", "sm rm 700", "sm create", "sm create", "sm rm 1", "sm rm 65535", "sm next 65535",
		"sm create", "sm create", "sm create"})
	emit([]string{"new", "sm next 40000", "sm fill 65534", "sm create", "sm create", "sm rm 39999", "sm next 40001", "sm create", "sm create"})
	if thorough {
		for k := 0; k < 4; k++ {
			seq := []string{"new", fmt.Sprintf("sm next %d", r.Intn(65536)), fmt.Sprintf("sm fill %d", 65000+r.Intn(536))}
			for i := 0; i < 600; i++ {
				switch r.Intn(4) {
				case 0:
					seq = append(seq, fmt.Sprintf("sm rm %d", r.Intn(65536)))
				case 1:
					seq = append(seq, fmt.Sprintf("sm next %d", r.Intn(65536)))
				default:
					seq = append(seq, "sm create")
				}
			}
			emit(seq)
		}
	}
}

func main() { hx.Main(comp{}) }
