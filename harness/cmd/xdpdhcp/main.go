// xdpdhcp drives the natively compiled bpf/dhcp_fastpath.c (cshim runner) and, in `srv` sequences, the REAL
// slow path (pkg/dhcp Server + PoolManager) writing through the REAL pkg/ebpf Loader into REAL kernel maps.
// After every call into the Go code all kernel maps are read back in full; every difference is reported
// (`d=`) and applied to the runner, so the C program answers from exactly the bytes the Go code wrote.
//
// The drivable binary is the TEST binary of this package (testing/synctest gives the slow path a virtual
// clock): `go test -c -tags verif ./cmd/xdpdhcp`, see main_test.go.
//
// raw sequences (arbitrary map bytes; C07 and the model/native differential):
//
//	new raw                                  => ok
//	put sub|vlan|cid|pools|cfg <key> <val>   => ok
//	del sub|vlan|cid|pools <key>             => ok | err …
//	run <hexframe> clk=<ns>                  => <verdict> same | <verdict> <hexframe-after> | FAULT …
//
// srv sequences (cache states produced by the real Go code):
//
//	new srv <serverip8hex>                   => ok t=<unix> d=<delta>
//	setcfg <mac12hex> <ip8hex> <ifindex>     => d=<delta>                  Loader.SetServerConfig (what Server.Start does)
//	addpool <id> <net8hex>/<plen> <gw8hex> <dns8hex,…|-> <leaseSecs|Nms> <vlan> <class>   => ok d=<delta> | err …
//	slow <dhcp-payload-hex>                  => q=<kind>:<mac>:<giaddr>:<cid|none>:<opt50|-> r=<reply-hex|none> sv=<type:yiaddr:54:51:1:3:6|-> L=<leases> C=<cid index> d=<delta>
//	cleanup                                  => L=… C=… d=…                 one cleanupExpiredLeases pass
//	tick <seconds> | tickms <ms>             => ok                          virtual time passes
//	rmpool <id>                              => ok d=… | err d=-            PoolManager.RemovePool
//	setdefault <id>                          => ok | err                    PoolManager.SetDefaultPool
//	vlanadd <stag> <ctag> <poolid> <ip8hex> <expUnix>  => d=…               Loader.AddVLANSubscriber (API state)
//	vlandel <stag> <ctag>                    => d=…
//	run <hexframe> clk=<spec>                => as above; spec = <ns> | unix[+n|-n] (the slow path's clock, in s, as ns) | up<n> (n s since boot)
//
//	delta  = +<map>:<key>:<val>,-<map>:<key>,…  sorted by map then key, `-` if empty
//	leases = <mac>:<ip>:<expUnix>:<cidhex|->:<ms of ExpiresAt>,… sorted by MAC;   C = <cidhex>:<mac>:<ip>:<expUnix>,… sorted by circuit-id
package main

import (
	"encoding/binary"
	"encoding/hex"
	"fmt"
	"net"
	"os"
	"sort"
	"strconv"
	"strings"
	"time"

	"bngverif/hx"

	"github.com/cilium/ebpf"
	"github.com/cilium/ebpf/rlimit"
	"github.com/codelaboratoryltd/bng/pkg/dhcp"
	bngebpf "github.com/codelaboratoryltd/bng/pkg/ebpf"
	"github.com/insomniacslk/dhcp/dhcpv4"
	"go.uber.org/zap"
)

type comp struct{}

// the runner is started once, outside any synctest bubble (main_test.go)
var shared *hx.CRunner

func startRunner() {
	if shared != nil {
		return
	}
	c, err := hx.StartCRunner("dhcp_fastpath")
	if err != nil {
		fmt.Fprintln(os.Stderr, "xdpdhcp harness:", err)
		os.Exit(3)
	}
	shared = c
}

var cName = map[string]string{
	"sub": "subscriber_pools", "vlan": "vlan_subscriber_pools", "cid": "circuit_id_subscribers",
	"pools": "ip_pools", "cfg": "server_config",
}
var mapOrder = []string{"cfg", "cid", "pools", "sub", "vlan"}

type fakeConn struct{ sent [][]byte }

func (c *fakeConn) ReadFrom(p []byte) (int, net.Addr, error) { return 0, nil, os.ErrDeadlineExceeded }
func (c *fakeConn) WriteTo(p []byte, a net.Addr) (int, error) {
	c.sent = append(c.sent, append([]byte(nil), p...))
	return len(p), nil
}
func (c *fakeConn) Close() error                       { return nil }
func (c *fakeConn) LocalAddr() net.Addr                { return &net.UDPAddr{IP: net.IPv4zero, Port: 67} }
func (c *fakeConn) SetDeadline(t time.Time) error      { return nil }
func (c *fakeConn) SetReadDeadline(t time.Time) error  { return nil }
func (c *fakeConn) SetWriteDeadline(t time.Time) error { return nil }

type run struct {
	mode   string
	c      *hx.CRunner
	kmaps  map[string]*ebpf.Map // by short name (+ "stats", "cidmap")
	shadow map[string]map[string]string
	loader *bngebpf.Loader
	pm     *dhcp.PoolManager
	srv    *dhcp.Server
	conn   *fakeConn
}

func (comp) NewRun() hx.Run {
	startRunner()
	shared.Reset()
	return &run{c: shared}
}

func (r *run) Close() {
	for _, m := range r.kmaps {
		if m != nil {
			m.Close()
		}
	}
}

func ip4(s string) net.IP {
	v, err := strconv.ParseUint(s, 16, 32)
	if err != nil {
		return nil
	}
	ip := make(net.IP, 4)
	binary.BigEndian.PutUint32(ip, uint32(v))
	return ip
}

func ipHex(ip net.IP) string {
	v4 := ip.To4()
	if v4 == nil {
		return "nil"
	}
	return fmt.Sprintf("%08x", binary.BigEndian.Uint32(v4))
}

func errText(err error) string {
	return strings.ReplaceAll(strings.ReplaceAll(err.Error(), "\n", " "), " ", "_")
}

// ---------------------------------------------------------------- kernel maps

func (r *run) initKernel() string {
	_ = rlimit.RemoveMemlock()
	// key/value sizes as declared in bpf/maps.h; cilium refuses a Put whose Go value has another binary size and the
	// runner answers FAULT mapsize when the C program declares other sizes than the entries it was given
	specs := map[string]*ebpf.MapSpec{
		"sub":    {Type: ebpf.Hash, KeySize: 8, ValueSize: 25, MaxEntries: 4096},
		"vlan":   {Type: ebpf.Hash, KeySize: 4, ValueSize: 25, MaxEntries: 4096},
		"pools":  {Type: ebpf.Hash, KeySize: 4, ValueSize: 28, MaxEntries: 256},
		"stats":  {Type: ebpf.Array, KeySize: 4, ValueSize: 80, MaxEntries: 1},
		"cfg":    {Type: ebpf.Array, KeySize: 4, ValueSize: 16, MaxEntries: 1},
		"cidmap": {Type: ebpf.Hash, KeySize: 8, ValueSize: 8, MaxEntries: 4096},
		"cid":    {Type: ebpf.Hash, KeySize: 32, ValueSize: 25, MaxEntries: 4096},
	}
	r.kmaps = map[string]*ebpf.Map{}
	for n, s := range specs {
		m, err := ebpf.NewMap(s)
		if err != nil {
			return "err kernel-map " + n + " " + errText(err)
		}
		r.kmaps[n] = m
	}
	r.shadow = map[string]map[string]string{}
	for _, n := range mapOrder {
		r.shadow[n] = map[string]string{}
	}
	return ""
}

// sync reads every kernel map in full, reports what changed since the last sync and applies it to the runner
func (r *run) sync() string {
	var toks []string
	for _, n := range mapOrder {
		now := map[string]string{}
		var kb, vb []byte
		it := r.kmaps[n].Iterate()
		for it.Next(&kb, &vb) {
			now[hex.EncodeToString(kb)] = hex.EncodeToString(vb)
		}
		keys := map[string]bool{}
		for k := range now {
			keys[k] = true
		}
		for k := range r.shadow[n] {
			keys[k] = true
		}
		sorted := make([]string, 0, len(keys))
		for k := range keys {
			sorted = append(sorted, k)
		}
		sort.Strings(sorted)
		for _, k := range sorted {
			nv, in := now[k]
			ov, was := r.shadow[n][k]
			switch {
			case in && (!was || ov != nv):
				toks = append(toks, "+"+n+":"+k+":"+nv)
				r.c.Do("put " + cName[n] + " " + k + " " + nv)
			case !in && was:
				toks = append(toks, "-"+n+":"+k)
				r.c.Do("del " + cName[n] + " " + k)
			}
		}
		r.shadow[n] = now
	}
	if len(toks) == 0 {
		return "-"
	}
	return strings.Join(toks, ",")
}

func (r *run) leases() string {
	byMAC, byCid := r.srv.LeasesForVerif()
	var ls []string
	for _, l := range byMAC {
		cid := "-"
		if len(l.CircuitID) > 0 {
			cid = hex.EncodeToString(l.CircuitID)
		}
		ls = append(ls, fmt.Sprintf("%s:%s:%d:%s:%d", hex.EncodeToString(l.MAC), ipHex(l.IP), l.ExpiresAt.Unix(), cid, l.ExpiresAt.Nanosecond()/1000000))
	}
	sort.Strings(ls)
	var cs []string
	for _, l := range byCid {
		cs = append(cs, fmt.Sprintf("%s:%s:%s:%d", l.Key, hex.EncodeToString(l.MAC), ipHex(l.IP), l.ExpiresAt.Unix()))
	}
	sort.Strings(cs)
	j := func(x []string) string {
		if len(x) == 0 {
			return "-"
		}
		return strings.Join(x, ",")
	}
	return "L=" + j(ls) + " C=" + j(cs)
}

// ---------------------------------------------------------------- ops

func (r *run) resolveClk(spec string) (uint64, bool) {
	switch {
	case strings.HasPrefix(spec, "unix"):
		d := int64(0)
		if len(spec) > 4 {
			v, err := strconv.ParseInt(spec[4:], 10, 64)
			if err != nil {
				return 0, false
			}
			d = v
		}
		return uint64(time.Now().Unix()+d) * 1000000000, true
	case strings.HasPrefix(spec, "up"):
		v, err := strconv.ParseUint(spec[2:], 10, 64)
		return v * 1000000000, err == nil
	}
	v, err := strconv.ParseUint(spec, 10, 64)
	return v, err == nil
}

func (r *run) doRun(f []string) string {
	if len(f) != 3 || !strings.HasPrefix(f[2], "clk=") {
		return "badop"
	}
	clk, ok := r.resolveClk(f[2][4:])
	if !ok {
		return "badop"
	}
	if _, err := hex.DecodeString(f[1]); err != nil && f[1] != "-" {
		return "badop"
	}
	r.c.Do(fmt.Sprintf("clock %d", clk))
	obs := r.c.Do("run xdp dhcp_fastpath_prog " + f[1])
	if strings.HasPrefix(obs, "FAULT") {
		return obs
	}
	// "<ret> same|<hex>" possibly followed by runner annotations (ev=…): keep verdict and frame
	t := strings.Fields(obs)
	if len(t) < 2 {
		return obs
	}
	return t[0] + " " + t[1]
}

func kindOf(t dhcpv4.MessageType) string {
	switch t {
	case dhcpv4.MessageTypeDiscover:
		return "disc"
	case dhcpv4.MessageTypeRequest:
		return "req"
	case dhcpv4.MessageTypeRelease:
		return "rel"
	case dhcpv4.MessageTypeDecline:
		return "dec"
	case dhcpv4.MessageTypeInform:
		return "inf"
	}
	return "other"
}

// circuitID mirrors what the server's option-82 parser extracts (sub-option 1, last occurrence wins);
// "none" = no option 82 / no sub-option 1
func circuitID(p *dhcpv4.DHCPv4) string {
	o := p.Options.Get(dhcpv4.OptionRelayAgentInformation)
	if len(o) == 0 {
		return "none"
	}
	cid, found := []byte(nil), false
	for off := 0; off+2 <= len(o); {
		t, l := o[off], int(o[off+1])
		off += 2
		if off+l > len(o) {
			break
		}
		if t == 1 {
			cid, found = o[off:off+l], true
		}
		off += l
	}
	if !found {
		return "none"
	}
	if len(cid) == 0 {
		return "-"
	}
	return hex.EncodeToString(cid)
}

func (r *run) doSlow(payload []byte) string {
	p, err := dhcpv4.FromBytes(payload)
	if err != nil {
		return "q=unparsed r=none sv=- " + r.leases() + " d=" + r.sync()
	}
	opt50 := "-"
	if ip := p.RequestedIPAddress(); ip != nil {
		opt50 = ipHex(ip)
	}
	q := fmt.Sprintf("q=%s:%s:%s:%s:%s", kindOf(p.MessageType()), hex.EncodeToString(p.ClientHWAddr), ipHex(p.GatewayIPAddr), circuitID(p), opt50)
	r.conn.sent = nil
	r.srv.HandleDHCPForVerif(r.conn, &net.UDPAddr{IP: net.IPv4bcast, Port: 68}, p)
	reply, sv := "none", "-"
	if len(r.conn.sent) == 1 {
		reply = hex.EncodeToString(r.conn.sent[0])
		// the fields C03 compares, as the library reads them back from the reply the server built
		if resp, err := dhcpv4.FromBytes(r.conn.sent[0]); err == nil &&
			(resp.MessageType() == dhcpv4.MessageTypeOffer || resp.MessageType() == dhcpv4.MessageTypeAck) {
			h := func(b []byte) string {
				if len(b) == 0 {
					return "-"
				}
				return hex.EncodeToString(b)
			}
			o := func(c dhcpv4.OptionCode) string { return h(resp.Options.Get(c)) }
			sv = strings.Join([]string{o(dhcpv4.OptionDHCPMessageType), h(resp.YourIPAddr.To4()), o(dhcpv4.OptionServerIdentifier),
				o(dhcpv4.OptionIPAddressLeaseTime), o(dhcpv4.OptionSubnetMask), o(dhcpv4.OptionRouter),
				o(dhcpv4.OptionDomainNameServer)}, ":")
		}
	} else if len(r.conn.sent) > 1 {
		reply = fmt.Sprintf("multi%d", len(r.conn.sent))
	}
	return q + " r=" + reply + " sv=" + sv + " " + r.leases() + " d=" + r.sync()
}

func (r *run) Do(op string) string {
	f := hx.Fields(op)
	if len(f) == 0 {
		return "badop"
	}
	if f[0] == "new" {
		if len(f) == 2 && f[1] == "raw" {
			r.mode = "raw"
			return "ok"
		}
		if len(f) == 3 && f[1] == "srv" {
			sip := ip4(f[2])
			if sip == nil {
				return "badop"
			}
			if e := r.initKernel(); e != "" {
				return e
			}
			logger := zap.NewNop()
			loader, err := bngebpf.NewLoader("verif0", logger)
			if err != nil {
				return "err " + errText(err)
			}
			loader.SetMapsForVerif(bngebpf.MapsForVerif{
				SubscriberPools: r.kmaps["sub"], VLANSubscriberPools: r.kmaps["vlan"], IPPools: r.kmaps["pools"],
				Stats: r.kmaps["stats"], ServerConfig: r.kmaps["cfg"], CircuitIDMap: r.kmaps["cidmap"],
				CircuitIDSubscribers: r.kmaps["cid"],
			})
			r.loader = loader
			r.pm = dhcp.NewPoolManager(loader, logger)
			srv, err := dhcp.NewServer(dhcp.ServerConfig{Interface: "verif0", ServerIP: sip}, loader, r.pm, logger)
			if err != nil {
				return "err " + errText(err)
			}
			r.srv, r.conn, r.mode = srv, &fakeConn{}, "srv"
			return fmt.Sprintf("ok t=%d d=%s", time.Now().Unix(), r.sync())
		}
		return "badop"
	}
	switch r.mode {
	case "raw":
		switch f[0] {
		case "put":
			if len(f) != 4 || cName[f[1]] == "" {
				return "badop"
			}
			return r.c.Do("put " + cName[f[1]] + " " + f[2] + " " + f[3])
		case "del":
			if len(f) != 3 || cName[f[1]] == "" || f[1] == "cfg" {
				return "badop"
			}
			return r.c.Do("del " + cName[f[1]] + " " + f[2])
		case "run":
			return r.doRun(f)
		}
		return "badop"
	case "srv":
		switch f[0] {
		case "setcfg":
			if len(f) != 4 {
				return "badop"
			}
			mac, err := hex.DecodeString(f[1])
			ip := ip4(f[2])
			idx, err2 := strconv.Atoi(f[3])
			if err != nil || ip == nil || err2 != nil {
				return "badop"
			}
			if err := r.loader.SetServerConfig(net.HardwareAddr(mac), ip, idx); err != nil {
				return "err " + errText(err)
			}
			return "d=" + r.sync()
		case "addpool":
			if len(f) != 8 {
				return "badop"
			}
			id, e1 := strconv.ParseUint(f[1], 10, 32)
			np := strings.SplitN(f[2], "/", 2)
			gw := ip4(f[3])
			// lease time: `<n>` seconds or `<n>ms`
			var leaseDur time.Duration
			var e2 error
			if strings.HasSuffix(f[5], "ms") {
				var n int64
				n, e2 = strconv.ParseInt(strings.TrimSuffix(f[5], "ms"), 10, 64)
				leaseDur = time.Duration(n) * time.Millisecond
			} else {
				var n int64
				n, e2 = strconv.ParseInt(f[5], 10, 64)
				leaseDur = time.Duration(n) * time.Second
			}
			vlan, e3 := strconv.ParseUint(f[6], 10, 32)
			class, e4 := strconv.ParseUint(f[7], 10, 8)
			if e1 != nil || len(np) != 2 || ip4(np[0]) == nil || gw == nil || e2 != nil || e3 != nil || e4 != nil {
				return "badop"
			}
			var dns []string
			if f[4] != "-" {
				for _, d := range strings.Split(f[4], ",") {
					if ip4(d) == nil {
						return "badop"
					}
					dns = append(dns, ip4(d).String())
				}
			}
			pool, err := dhcp.NewPool(dhcp.PoolConfig{ID: uint32(id), Name: "p" + f[1], Network: ip4(np[0]).String() + "/" + np[1],
				Gateway: gw.String(), DNSServers: dns, LeaseTime: leaseDur,
				ClientClass: dhcp.ClientClass(class), VlanID: uint32(vlan)})
			if err != nil {
				return "err newpool"
			}
			if err := r.pm.AddPool(pool); err != nil {
				return "err addpool d=" + r.sync()
			}
			return "ok d=" + r.sync()
		case "slow":
			if len(f) != 2 {
				return "badop"
			}
			b, err := hex.DecodeString(f[1])
			if err != nil {
				return "badop"
			}
			return r.doSlow(b)
		case "cleanup":
			r.srv.CleanupExpiredForVerif()
			return r.leases() + " d=" + r.sync()
		case "tick":
			if len(f) != 2 {
				return "badop"
			}
			n, err := strconv.Atoi(f[1])
			if err != nil || n < 0 {
				return "badop"
			}
			time.Sleep(time.Duration(n) * time.Second)
			return "ok"
		case "tickms":
			if len(f) != 2 {
				return "badop"
			}
			n, err := strconv.Atoi(f[1])
			if err != nil || n < 0 {
				return "badop"
			}
			time.Sleep(time.Duration(n) * time.Millisecond)
			return "ok"
		case "rmpool":
			if len(f) != 2 {
				return "badop"
			}
			id, err := strconv.ParseUint(f[1], 10, 32)
			if err != nil {
				return "badop"
			}
			if err := r.pm.RemovePool(uint32(id)); err != nil {
				return "err d=" + r.sync()
			}
			return "ok d=" + r.sync()
		case "setdefault":
			if len(f) != 2 {
				return "badop"
			}
			id, err := strconv.ParseUint(f[1], 10, 32)
			if err != nil {
				return "badop"
			}
			if err := r.pm.SetDefaultPool(uint32(id)); err != nil {
				return "err"
			}
			return "ok"
		case "vlanadd":
			if len(f) != 6 {
				return "badop"
			}
			s, e1 := strconv.ParseUint(f[1], 10, 16)
			c, e2 := strconv.ParseUint(f[2], 10, 16)
			pid, e3 := strconv.ParseUint(f[3], 10, 32)
			ip := ip4(f[4])
			exp, e4 := strconv.ParseUint(f[5], 10, 64)
			if e1 != nil || e2 != nil || e3 != nil || ip == nil || e4 != nil {
				return "badop"
			}
			a := &bngebpf.PoolAssignment{PoolID: uint32(pid), AllocatedIP: bngebpf.IPToUint32(ip), LeaseExpiry: exp}
			if err := r.loader.AddVLANSubscriber(uint16(s), uint16(c), a); err != nil {
				return "err " + errText(err)
			}
			return "d=" + r.sync()
		case "vlandel":
			if len(f) != 3 {
				return "badop"
			}
			s, e1 := strconv.ParseUint(f[1], 10, 16)
			c, e2 := strconv.ParseUint(f[2], 10, 16)
			if e1 != nil || e2 != nil {
				return "badop"
			}
			_ = r.loader.RemoveVLANSubscriber(uint16(s), uint16(c))
			return "d=" + r.sync()
		case "run":
			return r.doRun(f)
		}
		return "badop"
	}
	return "badop"
}

func main() {
	fmt.Fprintln(os.Stderr, "xdpdhcp: build the harness as a test binary (go test -c -tags verif ./cmd/xdpdhcp): it needs testing/synctest")
	os.Exit(2)
}
