package main

// Small-scope exhaustive server sequences: one relayed subscriber m1 whose lease goes through every sequence (depth
// 4, thorough: 5) over the alphabet
//
//	reqX / reqY  REQUEST carrying option 82 circuit-id X / Y          reqN   REQUEST without option 82 (unicast renewal)
//	rel          RELEASE            dec  DECLINE of the leased address   exp   the lease time passes, then one cleanup pass
//	tick         a minute passes
//
// and is then probed by the fast path: a DISCOVER from ANOTHER MAC carrying circuit-id X resp. Y where the program
// looks for option 82 ([53][1][t][82]…), and a DISCOVER of m1 itself — each on the since-boot clock and on the slow
// path's clock.  A cache entry that outlives its lease (or its circuit-id) answers one of these probes.
// The quick tier runs a seeded fraction plus every depth-4 sequence in which a renewal without option 82 is followed by
// a REQUEST under another circuit-id (the circuit index must then have been re-pointed at the renewed lease).

import (
	"encoding/hex"
	"fmt"
	"math/rand"
	"strings"
)

var exhAlphabet = []string{"reqX", "reqN", "reqY", "rel", "dec", "exp", "tick"}

func exhFrame(mac [6]byte, mt byte, want uint32, cid []byte, relayed bool, cidFirst bool) fp {
	p := defFP()
	p.mac = mac
	p.bootpTo = 320
	if relayed {
		p.giaddr = 0x0a00fe01
	}
	o := []byte{53, 1, mt}
	if cid != nil && cidFirst {
		o = append(o, opt82(cid, false)...)
	}
	if want != 0 {
		o = append(o, 50, 4, byte(want>>24), byte(want>>16), byte(want>>8), byte(want))
	}
	if cid != nil && !cidFirst {
		o = append(o, 55, 4, 1, 3, 6, 51)
		o = append(o, opt82(cid, true)...)
	}
	p.opts = append(o, 255)
	return p
}

func genExhSeq(r *rand.Rand, word []string, lease int) []string {
	g := &sgen{r: r, run: comp{}.NewRun().(*run), lease: lease}
	defer g.run.Close()
	m1 := [6]byte{2, 0, 0, 0, 0, 1}
	m9 := [6]byte{2, 0, 0, 0, 0, 9}
	X, Y := []byte("olt1/0/1:X"), []byte("olt1/0/2:Y")
	g.do("new srv 0a000101")
	g.do("setcfg 0200000000fe 0a000101 2")
	g.do(fmt.Sprintf("addpool 1 0a000100/24 0a000101 08080808 %d 0 1", lease))
	var offer uint32
	slow := func(p fp) string { return g.do("slow " + hex.EncodeToString(p.bootp())) }
	if yi, mt := replyInfo(slow(exhFrame(m1, 1, 0, X, true, false))); mt == 2 {
		offer = yi
	}
	for _, a := range word {
		switch a {
		case "reqX", "reqY", "reqN":
			var cid []byte
			if a == "reqX" {
				cid = X
			} else if a == "reqY" {
				cid = Y
			}
			if yi, mt := replyInfo(slow(exhFrame(m1, 3, offer, cid, cid != nil, false))); mt == 5 {
				offer = yi
			}
		case "rel":
			p := exhFrame(m1, 7, 0, nil, false, false)
			p.ciaddr = offer
			slow(p)
		case "dec":
			slow(exhFrame(m1, 4, offer, nil, false, false))
		case "exp":
			g.do(fmt.Sprintf("tick %d", lease+1))
			g.do("cleanup")
		case "tick":
			g.do("tick 60")
		}
	}
	for _, clk := range []string{"up100", "unix"} {
		g.do(runOp(exhFrame(m9, 1, 0, X, false, true).frame(), clk))
		g.do(runOp(exhFrame(m9, 1, 0, Y, false, true).frame(), clk))
		g.do(runOp(exhFrame(m1, 1, 0, nil, false, false).frame(), clk))
	}
	return g.ops
}

// renewal without option 82 followed (later) by a REQUEST under another circuit-id
func exhMustRun(word []string) bool {
	s := strings.Join(word, " ")
	i := strings.Index(s, "reqN")
	return i >= 0 && strings.Contains(s[i:], "reqY")
}

func genExhaustive(r *rand.Rand, tier string, emit func([]string)) {
	// quick: depth 4, a seeded twelfth plus the must-run words; thorough: all of depth 4 and a seeded tenth of depth 5
	type plan struct{ depth, keep int }
	plans := []plan{{4, 12}}
	if tier == "thorough" {
		plans = []plan{{4, 1}, {5, 10}}
	}
	for _, pl := range plans {
		var rec func(prefix []string)
		rec = func(prefix []string) {
			if len(prefix) == pl.depth {
				if pl.keep > 1 && r.Intn(pl.keep) != 0 && !(pl.depth == 4 && exhMustRun(prefix)) {
					return
				}
				word := append([]string(nil), prefix...)
				var ops []string
				sr := rand.New(rand.NewSource(r.Int63()))
				inBubble(func() { ops = genExhSeq(sr, word, 600) })
				emit(ops)
				return
			}
			for _, a := range exhAlphabet {
				rec(append(prefix[:len(prefix):len(prefix)], a))
			}
		}
		rec(nil)
	}
}

// Clients whose hardware address is not six bytes long (BOOTP hlen 1, 5, 7, 16): the lease table is keyed by the
// text form of chaddr[:hlen], MACToUint64 takes the first six bytes (0 for shorter addresses), the program always
// reads chaddr[0..6].  Each such client gets a lease (with and without a circuit-id), the lease ends by expiry +
// cleanup, RELEASE or DECLINE, and the fast path is probed with the client's own DISCOVER and with another MAC
// presenting its circuit-id.
func genHlen(r *rand.Rand, tier string, emit func([]string)) {
	for _, hl := range []byte{1, 5, 7, 16} {
		for _, withCid := range []bool{false, true} {
			for _, end := range []string{"exp", "rel", "dec"} {
				var ops []string
				sr := rand.New(rand.NewSource(r.Int63()))
				inBubble(func() {
					g := &sgen{r: sr, run: comp{}.NewRun().(*run), lease: 600}
					defer g.run.Close()
					m1 := [6]byte{2, 0, 0, 0, 7, hl}
					var X []byte
					if withCid {
						X = []byte(fmt.Sprintf("olt9/0/%d", hl))
					}
					mk := func(mac [6]byte, mt byte, want uint32, cid []byte, first bool) fp {
						p := exhFrame(mac, mt, want, cid, cid != nil && !first, first)
						if mac == m1 {
							p.hlen = hl
							for i := range p.chx {
								if 6+i < int(hl) {
									p.chx[i] = byte(0xa0 + i)
								}
							}
							if hl < 6 {
								for i := int(hl); i < 6; i++ {
									p.mac[i] = 0 // bytes beyond hlen are padding
								}
							}
						}
						return p
					}
					g.do("new srv 0a000101")
					g.do("setcfg 0200000000fe 0a000101 2")
					g.do("addpool 1 0a000100/24 0a000101 08080808 600 0 1")
					var offer uint32
					slow := func(p fp) string { return g.do("slow " + hex.EncodeToString(p.bootp())) }
					if yi, mt := replyInfo(slow(mk(m1, 1, 0, X, false))); mt == 2 {
						offer = yi
					}
					if yi, mt := replyInfo(slow(mk(m1, 3, offer, X, false))); mt == 5 {
						offer = yi
					}
					g.do(runOp(mk(m1, 1, 0, nil, false).frame(), "up100"))
					switch end {
					case "exp":
						g.do("tick 601")
						g.do("cleanup")
					case "rel":
						p := mk(m1, 7, 0, nil, false)
						p.ciaddr = offer
						slow(p)
					case "dec":
						slow(mk(m1, 4, offer, nil, false))
					}
					for _, clk := range []string{"up100", "unix"} {
						g.do(runOp(mk(m1, 1, 0, nil, false).frame(), clk))
						if withCid {
							g.do(runOp(mk([6]byte{2, 0, 0, 0, 0, 9}, 1, 0, X, true).frame(), clk))
						}
					}
					ops = g.ops
				})
				emit(ops)
			}
		}
	}
}

// Expiry inside the expiry second: the lease is acknowledged at X.5 s (ExpiresAt = X+600.5 s, the cache holds X+600),
// the fast path is probed at X+600.4 s (alive for both), at X+600.6 s (userspace: now.After(ExpiresAt); the program:
// `X+600 > X+600` is false) and at X+601.1 s, then after the cleanup pass.
func genSubsecond(r *rand.Rand, tier string, emit func([]string)) {
	var ops []string
	sr := rand.New(rand.NewSource(r.Int63()))
	inBubble(func() {
		g := &sgen{r: sr, run: comp{}.NewRun().(*run), lease: 600}
		defer g.run.Close()
		m1 := [6]byte{2, 0, 0, 0, 0, 1}
		g.do("new srv 0a000101")
		g.do("setcfg 0200000000fe 0a000101 2")
		g.do("addpool 1 0a000100/24 0a000101 08080808 600 0 1")
		g.do("tickms 500")
		var offer uint32
		slow := func(p fp) string { return g.do("slow " + hex.EncodeToString(p.bootp())) }
		if yi, mt := replyInfo(slow(exhFrame(m1, 1, 0, nil, false, false))); mt == 2 {
			offer = yi
		}
		slow(exhFrame(m1, 3, offer, nil, false, false))
		probe := func() {
			g.do(runOp(exhFrame(m1, 1, 0, nil, false, false).frame(), "unix"))
			g.do(runOp(exhFrame(m1, 1, 0, nil, false, false).frame(), "up100"))
		}
		g.do("tick 599")
		g.do("tickms 900")
		probe()
		g.do("tickms 200")
		probe()
		g.do("tickms 500")
		probe()
		g.do("cleanup")
		probe()
		ops = g.ops
	})
	emit(ops)
}

// Edge values of the pool fields, written through the real PoolManager.AddPool -> Loader.AddPool: lease time 0,
// below one second, one second, above 2^31 s and 2^32-1 s; no / one / two DNS servers; gateway 0.0.0.0; a /30.
// (A /0 or /1 pool cannot be built: dhcp.NewPool materialises every host address; prefix lengths 0, 31, 32, 33 and
// 255 reach the program through raw ip_pools bytes in genStructured.)  Each pool serves one client: DISCOVER and
// REQUEST through the slow path, then the fast path and the slow path answer the same DISCOVER and the same
// renewal REQUEST (reply-differs compares lease time, mask, router, DNS, server id field by field), and the map
// delta of `addpool` is compared with the model's ip_pools bytes.
func genPoolEdges(r *rand.Rand, tier string, emit func([]string)) {
	leases := []string{"0", "500ms", "999ms", "1", "1500ms", "2147483653", "4294967295"}
	type shape struct {
		plen    int
		gw, dns string
	}
	shapes := []shape{{24, "0a000101", "-"}, {24, "0a000101", "08080808"}, {30, "0a000101", "08080808,08080404"},
		{24, "00000000", "08080808"}, {28, "0a00010e", "-"}}
	for li, lease := range leases {
		for si, sh := range shapes {
			if tier != "thorough" && (li+si)%2 == 1 && lease != "0" {
				continue
			}
			var ops []string
			sr := rand.New(rand.NewSource(r.Int63()))
			inBubble(func() {
				g := &sgen{r: sr, run: comp{}.NewRun().(*run)}
				defer g.run.Close()
				m1 := [6]byte{2, 0, 0, 0, 0, 1}
				g.do("new srv 0a000101")
				if si != 3 || li%2 == 0 { // also with server_config unset when the gateway is 0.0.0.0
					g.do("setcfg 0200000000fe 0a000101 2")
				}
				g.do(fmt.Sprintf("addpool 1 0a000100/%d %s %s %s %d %d", sh.plen, sh.gw, sh.dns, lease, 100*si, 1+si%3))
				var offer uint32
				slow := func(p fp) string { return g.do("slow " + hex.EncodeToString(p.bootp())) }
				if yi, mt := replyInfo(slow(exhFrame(m1, 1, 0, nil, false, false))); mt == 2 {
					offer = yi
				}
				slow(exhFrame(m1, 3, offer, nil, false, false))
				both := func(p fp, clk string) {
					g.do(runOp(p.frame(), clk))
					slow(p)
				}
				// on the since-boot clock (alive for the program whatever the lease time) and on the slow path's clock
				both(exhFrame(m1, 1, 0, nil, false, false), "up100")
				both(exhFrame(m1, 3, offer, nil, false, false), "up100")
				both(exhFrame(m1, 1, 0, nil, false, false), "unix")
				g.do("tickms 600")
				both(exhFrame(m1, 3, offer, nil, false, false), "unix")
				g.do("tick 1")
				both(exhFrame(m1, 1, 0, nil, false, false), "unix")
				g.do("cleanup")
				g.do(runOp(exhFrame(m1, 1, 0, nil, false, false).frame(), "up100"))
				ops = g.ops
			})
			emit(ops)
		}
	}
}
