package main

// Frame and sequence generators of the xdpdhcp component.

import (
	"encoding/binary"
	"encoding/hex"
	"fmt"
	"math/rand"
)

// fp = frame parameters of a structured DHCP request frame
type fp struct {
	outer   uint16 // 0 = untagged, 0x8100 / 0x88a8 = outer tag protocol
	inner   uint16 // 0 = single tag, else inner tag protocol (0x8100 is what the program recognises)
	svid    uint16
	cvid    uint16
	etype   uint16 // payload ethertype (0x0800)
	ihl     int
	proto   byte // IP protocol (17)
	dport   uint16
	op      byte
	mac     [6]byte
	hlen    byte     // BOOTP hlen (0 = 6)
	chx     [10]byte // chaddr bytes 6..15
	xid     uint32
	flags   uint16
	ciaddr  uint32
	giaddr  uint32
	magic   uint32
	opts    []byte
	bootpTo int  // pad the BOOTP message (incl. options) with zeros up to this size
	sname   byte // fill byte of sname/file (shows whether the reply clears them)
}

func defFP() fp {
	return fp{etype: 0x0800, ihl: 5, proto: 17, dport: 67, op: 1, mac: [6]byte{2, 0, 0, 0, 0, 1}, xid: 0x12345678,
		magic: 0x63825363, bootpTo: 300, sname: 0x41}
}

func (p fp) bootp() []byte {
	b := make([]byte, 240, 240+len(p.opts))
	hl := p.hlen
	if hl == 0 {
		hl = 6
	}
	b[0], b[1], b[2], b[3] = p.op, 1, hl, 1
	binary.BigEndian.PutUint32(b[4:], p.xid)
	binary.BigEndian.PutUint16(b[8:], 7)
	binary.BigEndian.PutUint16(b[10:], p.flags)
	binary.BigEndian.PutUint32(b[12:], p.ciaddr)
	binary.BigEndian.PutUint32(b[24:], p.giaddr)
	copy(b[28:], p.mac[:])
	copy(b[34:], p.chx[:])
	for i := 44; i < 236; i++ {
		b[i] = p.sname
	}
	binary.BigEndian.PutUint32(b[236:], p.magic)
	b = append(b, p.opts...)
	for len(b) < p.bootpTo {
		b = append(b, 0)
	}
	return b
}

func (p fp) frame() []byte {
	bootp := p.bootp()
	var f []byte
	f = append(f, 0xff, 0xff, 0xff, 0xff, 0xff, 0xff)
	f = append(f, p.mac[:]...)
	if p.outer != 0 {
		f = binary.BigEndian.AppendUint16(f, p.outer)
		f = binary.BigEndian.AppendUint16(f, 0x2000|p.svid)
		if p.inner != 0 {
			f = binary.BigEndian.AppendUint16(f, p.inner)
			f = binary.BigEndian.AppendUint16(f, 0x4000|p.cvid)
		}
	}
	f = binary.BigEndian.AppendUint16(f, p.etype)
	ihlBytes := p.ihl * 4
	hdrLen := ihlBytes
	if hdrLen < 20 {
		hdrLen = 20 // the fixed header is always there; a short IHL makes the program look for UDP inside it
	}
	ip := make([]byte, hdrLen)
	ip[0] = 0x40 | byte(p.ihl&0x0f)
	binary.BigEndian.PutUint16(ip[2:], uint16(hdrLen+8+len(bootp)))
	binary.BigEndian.PutUint16(ip[4:], 0xbeef)
	ip[8], ip[9] = 128, p.proto
	copy(ip[16:], []byte{255, 255, 255, 255})
	for i := 20; i < hdrLen; i++ {
		ip[i] = byte(0x80 + i) // IP options: arbitrary non-zero bytes
	}
	f = append(f, ip...)
	udp := make([]byte, 8)
	binary.BigEndian.PutUint16(udp[0:], 68)
	binary.BigEndian.PutUint16(udp[2:], p.dport)
	binary.BigEndian.PutUint16(udp[4:], uint16(8+len(bootp)))
	binary.BigEndian.PutUint16(udp[6:], 0xabcd)
	f = append(f, udp...)
	return append(f, bootp...)
}

// preamble puts option 53 at offset k of the options area
func preamble(k int) []byte {
	switch {
	case k == 0:
		return nil
	case k == 1:
		return []byte{0}
	}
	o := []byte{12, byte(k - 2)}
	for i := 0; i < k-2; i++ {
		o = append(o, byte('a'+i))
	}
	return o
}

func opt82(cid []byte, remote bool) []byte {
	v := append([]byte{1, byte(len(cid))}, cid...)
	if remote {
		v = append(v, 2, 4, 'r', 'e', 'm', '1')
	}
	return append([]byte{82, byte(len(v))}, v...)
}

// padTo fills the options area with pad options up to offset n
func padTo(o []byte, n int) []byte {
	for len(o) < n {
		o = append(o, 0)
	}
	return o
}

// ---------------------------------------------------------------- raw cache states

func le32(v uint32) []byte { return binary.LittleEndian.AppendUint32(nil, v) }

func assignment(poolID, ip uint32, exp uint64) string {
	b := append(le32(poolID), le32(ip)...)
	b = append(b, le32(0)...)
	b = append(b, 1)
	b = binary.LittleEndian.AppendUint64(b, exp)
	b = append(b, 0, 0, 0, 0)
	return hex.EncodeToString(b)
}

func poolVal(network uint32, plen byte, gw, dns1, dns2, lease uint32) string {
	b := append(le32(network), plen, 0, 0, 0)
	b = append(b, le32(gw)...)
	b = append(b, le32(dns1)...)
	b = append(b, le32(dns2)...)
	b = append(b, le32(lease)...)
	b = append(b, le32(0)...)
	return hex.EncodeToString(b)
}

func cfgVal(mac [6]byte, ip, ifidx uint32) string {
	b := append(mac[:], 0, 0)
	b = append(b, le32(ip)...)
	b = append(b, le32(ifidx)...)
	return hex.EncodeToString(b)
}

func macKeyHex(m [6]byte) string {
	return hex.EncodeToString([]byte{m[5], m[4], m[3], m[2], m[1], m[0], 0, 0})
}

func vlanKeyHex(s, c uint16) string {
	return hex.EncodeToString(binary.LittleEndian.AppendUint16(binary.LittleEndian.AppendUint16(nil, s), c))
}

func cidKeyHex(cid []byte) string {
	k := make([]byte, 32)
	copy(k, cid)
	return hex.EncodeToString(k)
}

var srvMAC = [6]byte{2, 0, 0, 0, 0, 0xfe}

// stdCache: one subscriber known under all three keys, pool 1 with two DNS servers, server config set
func stdCache(p fp, cid []byte, exp uint64, dns int) []string {
	d1, d2 := uint32(0), uint32(0)
	if dns >= 1 {
		d1 = 0x08080808
	}
	if dns >= 2 {
		d2 = 0x08080404
	}
	s := []string{
		"put pools 01000000 " + poolVal(0x0a000100, 24, 0x0a000101, d1, d2, 3600),
		"put cfg 00000000 " + cfgVal(srvMAC, 0x0a000101, 2),
		"put sub " + macKeyHex(p.mac) + " " + assignment(1, 0x0a000105, exp),
	}
	if p.outer != 0 {
		c := p.cvid
		if p.inner != 0x8100 {
			c = 0
		}
		s = append(s, "put vlan "+vlanKeyHex(p.svid, c)+" "+assignment(1, 0x0a000106, exp))
	}
	if cid != nil {
		s = append(s, "put cid "+cidKeyHex(cid)+" "+assignment(1, 0x0a000107, exp))
	}
	return s
}

func runOp(f []byte, clk string) string {
	h := "-"
	if len(f) > 0 {
		h = hex.EncodeToString(f)
	}
	return "run " + h + " clk=" + clk
}

func vlanModes() []fp {
	var out []fp
	for _, m := range [][2]uint16{{0, 0}, {0x8100, 0}, {0x88a8, 0}, {0x88a8, 0x8100}, {0x8100, 0x8100}, {0x88a8, 0x88a8}} {
		p := defFP()
		p.outer, p.inner, p.svid, p.cvid = m[0], m[1], 100, 200
		out = append(out, p)
	}
	return out
}

// ---------------------------------------------------------------- generators

func genStructured(r *rand.Rand, tier string, emit func([]string)) {
	cid := []byte("olt1/1/3:100")
	// (a) VLAN mode x IHL x position of option 53 x message type x BOOTP size, cache hit under every key
	for _, base := range vlanModes() {
		for ihl := 0; ihl <= 15; ihl++ {
			if tier != "thorough" && ihl < 5 && r.Intn(2) == 0 {
				continue
			}
			seq := []string{"new raw"}
			p := base
			p.ihl = ihl
			seq = append(seq, stdCache(p, cid, 2000000000, 2)...)
			for k := 0; k <= 12; k++ {
				for _, mt := range []byte{1, 3, 2, 7} {
					if mt != 1 && mt != 3 && r.Intn(3) != 0 {
						continue
					}
					q := p
					q.xid = r.Uint32()
					q.opts = append(preamble(k), 53, 1, mt)
					if mt == 3 {
						q.opts = append(q.opts, 50, 4, 10, 0, 1, 5)
					}
					q.opts = append(q.opts, 55, 4, 1, 3, 6, 51, 255)
					q.bootpTo = []int{0, 300, 304, 320, 548}[r.Intn(5)]
					if r.Intn(4) == 0 {
						q.giaddr = 0x0a000a01
					}
					if r.Intn(4) == 0 {
						q.flags = 0x8000
					}
					if r.Intn(4) == 0 {
						q.ciaddr = 0x0a000105
					}
					seq = append(seq, runOp(q.frame(), "17000000000"))
				}
			}
			emit(seq)
		}
	}
	// (b) option 82 placements x circuit-id lengths (hit by circuit-id only: no MAC / VLAN entry)
	for _, base := range vlanModes()[:3] {
		for _, clen := range []int{0, 1, 2, 12, 31, 32, 33, 40} {
			c := make([]byte, clen)
			for i := range c {
				c[i] = byte('A' + i%26)
			}
			seq := []string{"new raw",
				"put pools 01000000 " + poolVal(0x0a000100, 24, 0x0a000101, 0x08080808, 0, 3600),
				"put cfg 00000000 " + cfgVal(srvMAC, 0x0a000101, 2),
				"put cid " + cidKeyHex(c) + " " + assignment(1, 0x0a000107, 2000000000)}
			for pos := 0; pos <= 24; pos++ {
				q := base
				q.xid = r.Uint32()
				q.giaddr = 0x0a000a01
				switch {
				case pos == 0: // [53][1][x][82]… : option 82 at offset 3
					q.opts = append([]byte{53, 1, 1}, opt82(c, r.Intn(2) == 0)...)
				case pos < 3:
					continue
				default: // option 53 first, pad options, option 82 at offset pos
					q.opts = padTo([]byte{53, 1, 3}, pos)
					q.opts = append(q.opts, opt82(c, r.Intn(2) == 0)...)
				}
				q.opts = append(q.opts, 255)
				q.bootpTo = []int{0, 300, 310, 548}[r.Intn(4)]
				seq = append(seq, runOp(q.frame(), "5000000000"))
			}
			emit(seq)
		}
	}
	// (b2) prefix lengths the slow path cannot configure (0, 1, 31, 32, 33, 255), lease times 0 / 1 / 2^31+5 / 2^32-1,
	// gateway and DNS servers 0: raw ip_pools bytes, cache hit by MAC
	{
		p := defFP()
		p.opts = []byte{53, 1, 1, 255}
		p.bootpTo = 320
		for _, plen := range []byte{0, 1, 31, 32, 33, 255} {
			for _, lease := range []uint32{0, 1, 0x80000005, 0xffffffff} {
				seq := []string{"new raw",
					"put pools 01000000 " + poolVal(0x0a000100, plen, uint32(plen)<<8, 0, 0x08080404*uint32(plen&1), lease),
					"put cfg 00000000 " + cfgVal(srvMAC, 0x0a000101, 2),
					"put sub " + macKeyHex(p.mac) + " " + assignment(1, 0x0a000105, 2000000000),
					runOp(p.frame(), "17000000000")}
				emit(seq)
			}
		}
	}
	// (c) the negative header cases and the lookups that fail
	{
		seq := []string{"new raw"}
		p := defFP()
		p.opts = []byte{53, 1, 1, 255}
		seq = append(seq, stdCache(p, nil, 100, 1)...)
		for _, mod := range []func(*fp){
			func(q *fp) {}, func(q *fp) { q.etype = 0x86dd }, func(q *fp) { q.proto = 6 }, func(q *fp) { q.dport = 68 },
			func(q *fp) { q.op = 2 }, func(q *fp) { q.magic = 0x63825364 }, func(q *fp) { q.mac[5] = 9 },
			func(q *fp) { q.opts = []byte{53, 2, 1, 0, 255} }, func(q *fp) { q.opts = []byte{255} },
		} {
			q := p
			mod(&q)
			for _, clk := range []string{"0", "99999999999", "100000000000", "100999999999", "101000000000", "18446744073709551615"} {
				seq = append(seq, runOp(q.frame(), clk))
			}
		}
		seq = append(seq, "del pools 01000000", runOp(p.frame(), "0"))
		emit(seq)
	}
}

func genTruncation(r *rand.Rand, tier string, emit func([]string)) {
	cid := []byte("trunc-cid")
	for i, base := range vlanModes() {
		if tier != "thorough" && i%2 == 1 && i != 3 {
			continue
		}
		p := base
		p.opts = append([]byte{53, 1, 1}, opt82(cid, true)...)
		p.opts = append(p.opts, 55, 3, 1, 3, 6, 255)
		p.bootpTo = 320
		full := p.frame()
		seq := append([]string{"new raw"}, stdCache(p, cid, 2000000000, 2)...)
		for n := 0; n <= len(full); n++ {
			seq = append(seq, runOp(full[:n], "1000000000"))
		}
		emit(seq)
		// the same frame hit by MAC only, with trailing bytes up to 1600
		seq = append([]string{"new raw"}, stdCache(p, nil, 2000000000, 1)[:3]...)
		step := 7
		if tier == "thorough" {
			step = 1
		}
		for n := len(full); n <= 1600; n += step {
			g := append(append([]byte(nil), full...), make([]byte, n-len(full))...)
			seq = append(seq, runOp(g, "1000000000"))
		}
		emit(seq)
	}
}

func genMutation(r *rand.Rand, tier string, emit func([]string)) {
	cid := []byte("mut")
	for _, base := range []fp{vlanModes()[0], vlanModes()[3]} {
		p := base
		p.opts = padTo([]byte{53, 1, 3, 50, 4, 10, 0, 1, 5}, 13)
		p.opts = append(p.opts, opt82(cid, false)...)
		p.opts = append(p.opts, 255)
		p.bootpTo = 312
		full := p.frame()
		seq := append([]string{"new raw"}, stdCache(p, cid, 2000000000, 2)...)
		// every byte of the headers and of the first 80 option bytes gets three other values
		limit := len(full)
		for i := 0; i < limit; i++ {
			if i >= 14+len(full)-len(p.bootp())+44 && i < len(full)-len(p.bootp())+236 && tier != "thorough" && i%16 != 0 {
				continue // sname/file: sampled
			}
			for _, v := range []byte{full[i] ^ 0xff, full[i] + 1, byte(r.Intn(256))} {
				g := append([]byte(nil), full...)
				g[i] = v
				seq = append(seq, runOp(g, "1000000000"))
			}
		}
		emit(seq)
	}
	// random multi-byte mutations with random cache bytes
	n := 40
	if tier == "thorough" {
		n = 400
	}
	for s := 0; s < n; s++ {
		p := vlanModes()[r.Intn(6)]
		p.ihl = []int{5, 5, 5, 6, 15, 0, 4}[r.Intn(7)]
		p.opts = append(preamble(r.Intn(8)), 53, 1, byte(1+2*r.Intn(2)))
		if r.Intn(2) == 0 {
			p.opts = append(p.opts, opt82([]byte{byte(r.Intn(4))}, false)...)
		}
		p.opts = append(p.opts, 255)
		p.bootpTo = 240 + r.Intn(120)
		full := p.frame()
		seq := []string{"new raw"}
		rb := func(n int) string {
			b := make([]byte, n)
			r.Read(b)
			if r.Intn(2) == 0 { // plausible pool id / small expiry so that later stages are reached
				copy(b, []byte{1, 0, 0, 0})
			}
			return hex.EncodeToString(b)
		}
		seq = append(seq, "put pools 01000000 "+rb(28), "put cfg 00000000 "+rb(16),
			"put sub "+macKeyHex(p.mac)+" "+rb(25), "put vlan "+vlanKeyHex(100, uint16(200*r.Intn(2)))+" "+rb(25),
			"put cid "+cidKeyHex([]byte{byte(r.Intn(4))})+" "+rb(25))
		for j := 0; j < 30; j++ {
			g := append([]byte(nil), full...)
			for m := r.Intn(4); m >= 0; m-- {
				g[r.Intn(len(g))] = byte(r.Intn(256))
			}
			if r.Intn(3) == 0 {
				g = g[:r.Intn(len(g)+1)]
			}
			seq = append(seq, runOp(g, fmt.Sprint(uint64(r.Intn(4))*1000000000)))
		}
		emit(seq)
	}
}

func genRandom(r *rand.Rand, tier string, emit func([]string)) {
	// every length 0..1600 once with random content (quick: the first 400 lengths and a sample of the rest)
	seq := []string{"new raw"}
	for n := 0; n <= 1600; n++ {
		if tier != "thorough" && n > 400 && n%9 != 0 {
			continue
		}
		b := make([]byte, n)
		r.Read(b)
		if n >= 14 && r.Intn(2) == 0 { // half of them with a recognisable start
			copy(b[12:], []byte{8, 0})
			if n > 40 {
				b[14] = 0x45
				b[23] = 17
				b[36], b[37] = 0, 67
			}
		}
		seq = append(seq, runOp(b, "0"))
		if len(seq) > 200 {
			emit(seq)
			seq = []string{"new raw"}
		}
	}
	emit(seq)
}

func (comp) Gen(r *rand.Rand, tier string, emit func([]string)) {
	genStructured(r, tier, emit)
	genTruncation(r, tier, emit)
	genMutation(r, tier, emit)
	genRandom(r, tier, emit)
	genHlen(r, tier, emit)
	genSubsecond(r, tier, emit)
	genPoolEdges(r, tier, emit)
	genExhaustive(r, tier, emit)
	genServer(r, tier, emit)
}
