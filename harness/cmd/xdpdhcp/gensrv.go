package main

// Generator of `srv` sequences: cache states produced by driving the REAL slow path.  A REQUEST has to name the
// address that was offered, so the generator is adaptive: it executes the sequence it is building on a private
// instance (inside its own synctest bubble) to learn the slow path's answers, then emits the finished op list;
// the harness executes it again from scratch (everything is deterministic on the virtual clock).

import (
	"encoding/binary"
	"encoding/hex"
	"fmt"
	"math/rand"
	"strings"
)

// inBubble runs fn inside a synctest bubble (installed by main_test.go)
var inBubble = func(fn func()) { fn() }

type client struct {
	mac    [6]byte
	cid    []byte // option 82 circuit-id this client's relay adds (nil: none)
	offer  uint32 // last address offered / acked by the slow path
	leased bool
	relay  bool
	vlan   int // index into vlanModes()
}

type sgen struct {
	r       *rand.Rand
	run     *run
	ops     []string
	lease   int
	pools   int
	oldCids [][]byte
}

func (g *sgen) do(op string) string {
	g.ops = append(g.ops, op)
	return g.run.Do(op)
}

func field(obs, key string) string {
	for _, t := range strings.Fields(obs) {
		if strings.HasPrefix(t, key+"=") {
			return t[len(key)+1:]
		}
	}
	return ""
}

// yiaddr and message type of a slow-path reply
func replyInfo(obs string) (yi uint32, mt byte) {
	r := field(obs, "r")
	b, err := hex.DecodeString(r)
	if err != nil || len(b) < 244 {
		return 0, 0
	}
	yi = binary.BigEndian.Uint32(b[16:20])
	for i := 240; i+2 < len(b); {
		if b[i] == 0 {
			i++
			continue
		}
		if b[i] == 255 {
			break
		}
		if b[i] == 53 {
			return yi, b[i+2]
		}
		i += 2 + int(b[i+1])
	}
	return yi, 0
}

// request builds the frame parameters of a message of client c
func (g *sgen) request(c *client, mt byte, want uint32, layout int) fp {
	p := vlanModes()[c.vlan]
	p.mac = c.mac
	p.xid = g.r.Uint32()
	p.bootpTo = []int{304, 312, 400, 548}[g.r.Intn(4)]
	if g.r.Intn(12) == 0 {
		p.bootpTo = 300 // fewer than 64 option bytes: never answered by the fast path
	}
	if c.relay {
		p.giaddr = 0x0a00fe01
	}
	if g.r.Intn(5) == 0 {
		p.flags = 0x8000
	}
	var o []byte
	switch layout {
	case 0: // [53][1][t] first
		o = []byte{53, 1, mt}
	case 1: // client-id first (option 53 at offset 9: not seen by the program)
		o = append([]byte{61, 7, 1}, c.mac[:]...)
		o = append(o, 53, 1, mt)
	default: // a short host name first: option 53 at offset 2..6
		o = append(preamble(2+g.r.Intn(5)), 53, 1, mt)
	}
	if want != 0 && (mt == 3 || mt == 4) {
		o = append(o, 50, 4, byte(want>>24), byte(want>>16), byte(want>>8), byte(want))
	}
	if mt == 3 && want == 0 { // renewal: ciaddr
		p.ciaddr = c.offer
	}
	if mt == 7 {
		p.ciaddr = c.offer
	}
	if c.cid != nil {
		switch g.r.Intn(4) {
		case 0: // where the program looks for it after [53][1][t]
			if layout == 0 && len(o) == 3 {
				o = append(o, opt82(c.cid, g.r.Intn(2) == 0)...)
			} else {
				o = append(o, opt82(c.cid, true)...)
			}
		case 1: // at offset 12..19
			if len(o) <= 12+g.r.Intn(8) {
				o = padTo(o, 12+g.r.Intn(8))
			}
			o = append(o, opt82(c.cid, g.r.Intn(2) == 0)...)
		default: // at the end, where relay agents put it
			o = append(o, 55, 4, 1, 3, 6, 51)
			o = append(o, opt82(c.cid, true)...)
		}
	} else {
		o = append(o, 55, 4, 1, 3, 6, 51)
	}
	p.opts = append(o, 255)
	return p
}

var clkSpecs = []string{"up100", "up100", "up86400", "unix", "unix", "unix+1", "unix-1", "0", "up4000000000"}

// both = the fast path sees the frame first (state before), then the slow path gets the same message
func (g *sgen) both(p fp) string {
	g.do(runOp(p.frame(), clkSpecs[g.r.Intn(len(clkSpecs))]))
	return g.do("slow " + hex.EncodeToString(p.bootp()))
}

func (g *sgen) probe(cs []*client) {
	// circuit-ids some client used earlier, presented by a MAC that never had a lease
	for _, old := range g.oldCids {
		if g.r.Intn(3) == 0 {
			g.do(runOp(exhFrame([6]byte{2, 0, 0, 0, 0, 0x99}, 1, 0, old, false, true).frame(), clkSpecs[g.r.Intn(len(clkSpecs))]))
		}
	}
	for _, c := range cs {
		if g.r.Intn(2) == 0 {
			continue
		}
		p := g.request(c, 1, 0, 0)
		g.do(runOp(p.frame(), clkSpecs[g.r.Intn(len(clkSpecs))]))
	}
}

func genServerSeq(r *rand.Rand, steps int, variant int) []string {
	g := &sgen{r: r, run: comp{}.NewRun().(*run)}
	defer g.run.Close()
	sip := uint32(0x0a000101)
	if variant%5 == 1 {
		sip = 0x0a0001fe // server address other than the gateway
	}
	g.do(fmt.Sprintf("new srv %08x", sip))
	if variant%7 != 3 { // Server.Start configures the fast path; one variant leaves server_config unset
		g.do(fmt.Sprintf("setcfg 0200000000fe %08x 2", sip))
	}
	plen := []int{24, 24, 28, 20, 16, 30}[r.Intn(6)]
	g.lease = []int{60, 600, 3600, 86400, 0, 1}[r.Intn(6)]
	dns := []string{"-", "08080808", "08080808,08080404", "01010101,09090909", "08080808,08080404,01010101"}[r.Intn(5)]
	pool1 := fmt.Sprintf("addpool 1 0a000100/%d 0a000101 %s %d %d %d", plen, dns, g.lease, r.Intn(3)*100, 1+r.Intn(3))
	pool2 := fmt.Sprintf("addpool 2 0a000200/24 0a000201 08080808 %d 0 2", g.lease)
	// which pool ClassifyClient hands out: the first one added, the one SetDefaultPool names, or — after the default
	// pool was removed — the only one left (with more than one left the Go choice follows map iteration order)
	switch variant % 8 {
	case 0, 1, 2:
		g.do(pool1)
	case 3:
		g.do(pool1)
		g.do(pool2)
	case 4:
		g.do(pool2)
		g.do(pool1)
	case 5:
		g.do(pool2)
		g.do(pool1)
		g.do("setdefault 1")
		g.do("setdefault 7")
	case 6:
		g.do(pool1)
		g.do(pool2)
		g.do("rmpool 1")
		g.do("rmpool 9")
	case 7:
		g.do(pool2)
		g.do(pool1)
		g.do("rmpool 1")
		g.do(pool1)
	}
	if r.Intn(3) == 0 {
		g.do(fmt.Sprintf("tickms %d", []int{1, 250, 500, 999}[r.Intn(4)]))
	}
	var cs []*client
	for k := 1; k <= 2+r.Intn(3); k++ {
		c := &client{mac: [6]byte{2, 0, 0, 0, 0, byte(k)}}
		switch r.Intn(4) {
		case 0:
			c.cid = []byte(fmt.Sprintf("olt1/0/%d", k))
			c.relay = true
		case 1:
			if variant%3 == 0 {
				// two long circuit-ids that agree in their first 32 bytes: one circuit_id_subscribers key
				c.cid = []byte(fmt.Sprintf("a-very-long-circuit-identifier-prefix-%d", k))
			} else {
				c.cid = []byte(fmt.Sprintf("port-%d-of-a-long-circuit-identifier-%d", k, k)) // > 32 bytes
			}
			c.relay = r.Intn(2) == 0
		case 2:
			c.relay = r.Intn(3) == 0
		}
		if r.Intn(5) == 0 {
			c.vlan = 1 + r.Intn(3)
		}
		if variant%9 == 4 && k == 1 {
			// a MAC whose bytes 1..3 read "option 53, length 1, type 3/1" when the client identifier comes first
			c.mac = [6]byte{2, 0x35, 1, byte(1 + 2*r.Intn(2)), 0, 1}
		}
		cs = append(cs, c)
	}
	for i := 0; i < steps; i++ {
		c := cs[r.Intn(len(cs))]
		layout := []int{0, 0, 0, 2, 2, 1}[r.Intn(6)]
		if c.mac[1] == 0x35 && r.Intn(2) == 0 {
			layout = 1
		}
		switch x := r.Intn(20); {
		case x < 5: // DISCOVER
			obs := g.both(g.request(c, 1, 0, layout))
			if yi, mt := replyInfo(obs); mt == 2 {
				c.offer = yi
			}
		case x < 10: // REQUEST for what was offered (sometimes for something else)
			want := c.offer
			if r.Intn(6) == 0 {
				want = 0x0a000100 + uint32(1+r.Intn(12))
			}
			if c.leased && r.Intn(3) == 0 {
				want = 0 // renewal through ciaddr
			}
			obs := g.both(g.request(c, 3, want, layout))
			if yi, mt := replyInfo(obs); mt == 5 {
				c.offer, c.leased = yi, true
			}
		case x < 12: // RELEASE
			g.both(g.request(c, 7, 0, 0))
			c.leased = false
			g.probe(cs)
		case x < 14: // DECLINE
			want := c.offer
			if r.Intn(4) == 0 {
				want = 0x0a000100 + uint32(1+r.Intn(12))
			}
			g.both(g.request(c, 4, want, 0))
			g.probe(cs)
		case x < 16:
			n := []int{1, 30, g.lease / 2, g.lease - 1, g.lease, g.lease + 1, 2 * g.lease}[r.Intn(7)]
			if n < 0 {
				n = 0
			}
			g.do(fmt.Sprintf("tick %d", n))
			if r.Intn(3) == 0 {
				g.do(fmt.Sprintf("tickms %d", []int{100, 400, 600, 900}[r.Intn(4)]))
			}
			g.probe(cs)
		case x < 17:
			g.do("cleanup")
			g.probe(cs)
		case x < 18: // the client moves to another port / its relay starts or stops adding option 82
			if c.cid != nil && len(g.oldCids) < 4 {
				g.oldCids = append(g.oldCids, c.cid)
			}
			if r.Intn(2) == 0 {
				c.cid = []byte(fmt.Sprintf("moved-%d", r.Intn(3)))
			} else {
				c.cid = nil
			}
		case x < 19: // QinQ entries are written through the Loader API (no code path of pkg/dhcp sets Lease.STag/CTag)
			if r.Intn(2) == 0 {
				g.do(fmt.Sprintf("vlanadd 100 %d 1 0a00010%x %d", []int{0, 200}[r.Intn(2)], 3+r.Intn(4), 946684800+int64(r.Intn(2*g.lease+1))))
			} else {
				g.do(fmt.Sprintf("vlandel 100 %d", []int{0, 200}[r.Intn(2)]))
			}
		default:
			g.probe(cs)
		}
	}
	g.probe(cs)
	return g.ops
}

func genServer(r *rand.Rand, tier string, emit func([]string)) {
	n, steps := 60, 24
	if tier == "thorough" {
		n, steps = 600, 40
	}
	for i := 0; i < n; i++ {
		var ops []string
		sr := rand.New(rand.NewSource(r.Int63()))
		inBubble(func() { ops = genServerSeq(sr, steps, i) })
		emit(ops)
	}
}
