// extractpaths is the C16 translator: for every session-termination entry point of the gateway it lists the
// "effects" (calls and map deletes) that are syntactically reachable from it inside its own package, and writes
// them as a Lean table (lean/Bng/Gen/Paths.lean).  Bng.Spec.C16Paths states — and `decide`s on every run —
// that every termination path reaches every release the session type needs (or the gap is a recorded finding).
//
// It is deliberately small: go/parser + go/ast only, no type information.  An entry is (package dir, receiver
// type, function, selector); the selector picks the whole body, or the else-branch of the last `if <cond>`.
// The closure follows calls `x.f(...)` / `f(...)` to a FuncDecl named f of the SAME package (methods of any
// receiver), to depth 4.  Effects are rendered with go/types.ExprString of the callee expression; `delete(m, k)`
// becomes "delete <m>".  Logging, formatting, locking and time calls are dropped from the table.
//
// What it cannot see: calls through function values and interfaces are listed by the expression they are called
// through (e.g. "t.updateEBPFMaps"), conditions guarding a call are not recorded (the correspondence run judges
// behaviour; this table judges presence), and an entry point that is renamed makes the translator fail loudly.
package main

import (
	"flag"
	"fmt"
	"go/ast"
	"go/parser"
	"go/token"
	"go/types"
	"os"
	"path/filepath"
	"sort"
	"strings"
)

type entry struct {
	name string // name in the Lean table
	dir  string // package directory under the repo
	recv string // receiver type ("" for a plain function)
	fn   string
	sel  string // "" whole body | "else:<cond>" else-branch of the last `if <cond>` in the body
}

var entries = []entry{
	{"pppoe.Server.handlePADT", "pkg/pppoe", "Server", "handlePADT", ""},
	{"pppoe.Server.handleLCPTermRequest", "pkg/pppoe", "Server", "handleLCPTermRequest", ""},
	{"pppoe.Server.handlePAP/rejected", "pkg/pppoe", "Server", "handlePAP", "else:authenticated"},
	{"pppoe.Server.cleanupLoop", "pkg/pppoe", "Server", "cleanupLoop", ""},
	{"pppoe.Server.Stop", "pkg/pppoe", "Server", "Stop", ""},
	{"pppoe.SessionTeardown.cleanup", "pkg/pppoe", "SessionTeardown", "cleanup", ""},
	{"pppoe.SessionTeardown.TerminateSession", "pkg/pppoe", "SessionTeardown", "TerminateSession", ""},
	{"pppoe.SessionTeardown.HandleClientPADT", "pkg/pppoe", "SessionTeardown", "HandleClientPADT", ""},
	{"pppoe.SessionTeardown.TerminateAll", "pkg/pppoe", "SessionTeardown", "TerminateAll", ""},
	{"pppoe.SessionTeardown.TerminateByID", "pkg/pppoe", "SessionTeardown", "TerminateByID", ""},
	{"pppoe.SessionTeardown.TerminateByMAC", "pkg/pppoe", "SessionTeardown", "TerminateByMAC", ""},
	{"pppoe.SessionTeardown.TerminateByUsername", "pkg/pppoe", "SessionTeardown", "TerminateByUsername", ""},
	{"dhcp.Server.handleRelease", "pkg/dhcp", "Server", "handleRelease", ""},
	{"dhcp.Server.handleDecline", "pkg/dhcp", "Server", "handleDecline", ""},
	{"dhcp.Server.cleanupExpiredLeases", "pkg/dhcp", "Server", "cleanupExpiredLeases", ""},
	{"subscriber.Manager.TerminateSession", "pkg/subscriber", "Manager", "TerminateSession", ""},
	{"subscriber.Manager.cleanupExpiredSessions", "pkg/subscriber", "Manager", "cleanupExpiredSessions", ""},
	{"subscriber.Manager.Stop", "pkg/subscriber", "Manager", "Stop", ""},
}

// the session tables: a function that deletes from one of them ends sessions
var sessionTables = map[string][]string{
	"pkg/pppoe":      {"m.sessions"},
	"pkg/dhcp":       {"s.leases"},
	"pkg/subscriber": {"m.sessions"},
}

func qual(dir string, fd *ast.FuncDecl) string {
	pkg := filepath.Base(dir)
	if r := recvName(fd); r != "" {
		return pkg + "." + r + "." + fd.Name.Name
	}
	return pkg + "." + fd.Name.Name
}

var dropPrefix = []string{"zap.", "fmt.", "time.", "hex.", "atomic.", "context.", "errors.", "strings.", "net.", "binary.",
	"len", "string", "append", "make", "uint", "int", "cancel", "panic", "copy", "byte", "new", "min", "max"}

func dropped(name string) bool {
	for _, p := range dropPrefix {
		if name == p || strings.HasPrefix(name, p) && (strings.HasSuffix(p, ".") || len(name) == len(p) ||
			!isIdentChar(name[len(p)])) {
			return true
		}
	}
	if strings.Contains(name, ".logger.") || strings.HasSuffix(name, ".Lock") || strings.HasSuffix(name, ".Unlock") ||
		strings.HasSuffix(name, ".RLock") || strings.HasSuffix(name, ".RUnlock") || strings.HasPrefix(name, "func(") {
		return true
	}
	return false
}

func isIdentChar(c byte) bool {
	return c == '_' || c >= '0' && c <= '9' || c >= 'a' && c <= 'z' || c >= 'A' && c <= 'Z'
}

type pkgInfo struct {
	funcs map[string][]*ast.FuncDecl // by bare name
}

func loadPkg(dir string) (*pkgInfo, error) {
	fset := token.NewFileSet()
	files, err := filepath.Glob(filepath.Join(dir, "*.go"))
	if err != nil {
		return nil, err
	}
	p := &pkgInfo{funcs: map[string][]*ast.FuncDecl{}}
	for _, f := range files {
		base := filepath.Base(f)
		if strings.HasSuffix(base, "_test.go") || strings.HasPrefix(base, "verif_") {
			continue
		}
		af, err := parser.ParseFile(fset, f, nil, 0)
		if err != nil {
			return nil, err
		}
		for _, d := range af.Decls {
			if fd, ok := d.(*ast.FuncDecl); ok && fd.Body != nil {
				p.funcs[fd.Name.Name] = append(p.funcs[fd.Name.Name], fd)
			}
		}
	}
	return p, nil
}

func recvName(fd *ast.FuncDecl) string {
	if fd.Recv == nil || len(fd.Recv.List) == 0 {
		return ""
	}
	t := fd.Recv.List[0].Type
	if st, ok := t.(*ast.StarExpr); ok {
		t = st.X
	}
	if id, ok := t.(*ast.Ident); ok {
		return id.Name
	}
	return types.ExprString(t)
}

func selectBlock(fd *ast.FuncDecl, sel string) (ast.Node, error) {
	if sel == "" {
		return fd.Body, nil
	}
	if strings.HasPrefix(sel, "else:") {
		cond := strings.TrimPrefix(sel, "else:")
		var found ast.Node
		ast.Inspect(fd.Body, func(n ast.Node) bool {
			if is, ok := n.(*ast.IfStmt); ok && types.ExprString(is.Cond) == cond && is.Else != nil {
				found = is.Else
			}
			return true
		})
		if found == nil {
			return nil, fmt.Errorf("no `if %s { } else { }` in %s", cond, fd.Name.Name)
		}
		return found, nil
	}
	return nil, fmt.Errorf("unknown selector %q", sel)
}

var dropSuffix = []string{".String", ".Equal", ".IsZero", ".Seconds", ".Done", ".After", ".Stop", ".Serialize", ".To4"}

// callee resolves a call to the FuncDecl it certainly names: a method of the current receiver called through the
// receiver identifier, or a name that exactly one function or method of the package carries.
func callee(p *pkgInfo, cur *ast.FuncDecl, ce *ast.CallExpr) *ast.FuncDecl {
	var bare string
	viaRecv := false
	switch f := ce.Fun.(type) {
	case *ast.Ident:
		bare = f.Name
	case *ast.SelectorExpr:
		bare = f.Sel.Name
		if id, ok := f.X.(*ast.Ident); ok && cur.Recv != nil && len(cur.Recv.List) > 0 &&
			len(cur.Recv.List[0].Names) > 0 && cur.Recv.List[0].Names[0].Name == id.Name {
			viaRecv = true
		}
	}
	if bare == "" {
		return nil
	}
	cands := p.funcs[bare]
	if viaRecv {
		for _, c := range cands {
			if recvName(c) == recvName(cur) {
				return c
			}
		}
		return nil
	}
	if _, isIdent := ce.Fun.(*ast.Ident); isIdent {
		for _, c := range cands {
			if c.Recv == nil {
				return c
			}
		}
		return nil
	}
	if len(cands) == 1 && cands[0].Recv != nil {
		return cands[0]
	}
	return nil
}

func collect(p *pkgInfo, cur *ast.FuncDecl, n ast.Node, depth int, seen map[*ast.FuncDecl]bool, out map[string]bool) {
	// (seen doubles as the set of functions reached)
	ast.Inspect(n, func(x ast.Node) bool {
		ce, ok := x.(*ast.CallExpr)
		if !ok {
			return true
		}
		name := types.ExprString(ce.Fun)
		if name == "delete" && len(ce.Args) >= 1 {
			out["delete "+types.ExprString(ce.Args[0])] = true
			return true
		}
		fd := callee(p, cur, ce)
		keep := !dropped(name)
		if !strings.Contains(name, ".") && fd == nil {
			keep = false // conversions and builtins
		}
		for _, sfx := range dropSuffix {
			if strings.HasSuffix(name, sfx) {
				keep = false
			}
		}
		if strings.ContainsAny(name, "()[] ") {
			keep = false
		}
		if keep {
			out[name] = true
		}
		// follow into the same package
		if fd != nil && depth > 0 && !seen[fd] {
			seen[fd] = true
			collect(p, fd, fd.Body, depth-1, seen, out)
		}
		return true
	})
}

func main() {
	repo := flag.String("repo", "/repo", "repository root")
	out := flag.String("out", "", "Lean file to write")
	flag.Parse()
	pkgs := map[string]*pkgInfo{}
	var reach []string
	var b strings.Builder
	b.WriteString("/- GENERATED by harness/cmd/extractpaths from the repository's working tree - do not edit.\n")
	b.WriteString("   (termination entry point, effects syntactically reachable from it inside its package) -/\n")
	b.WriteString("namespace Bng.Gen.Paths\n\ndef paths : List (String × List String) := [\n")
	for i, e := range entries {
		p := pkgs[e.dir]
		if p == nil {
			var err error
			p, err = loadPkg(filepath.Join(*repo, e.dir))
			if err != nil {
				fmt.Fprintln(os.Stderr, "extractpaths:", err)
				os.Exit(1)
			}
			pkgs[e.dir] = p
		}
		var fd *ast.FuncDecl
		for _, c := range p.funcs[e.fn] {
			if recvName(c) == e.recv {
				fd = c
			}
		}
		if fd == nil {
			fmt.Fprintf(os.Stderr, "extractpaths: entry point %s: no func (%s) %s in %s\n", e.name, e.recv, e.fn, e.dir)
			os.Exit(1)
		}
		blk, err := selectBlock(fd, e.sel)
		if err != nil {
			fmt.Fprintf(os.Stderr, "extractpaths: entry point %s: %v\n", e.name, err)
			os.Exit(1)
		}
		eff := map[string]bool{}
		seen := map[*ast.FuncDecl]bool{fd: true}
		collect(p, fd, blk, 4, seen, eff)
		var rs []string
		for f := range seen {
			rs = append(rs, fmt.Sprintf("%q", qual(e.dir, f)))
		}
		sort.Strings(rs)
		reach = append(reach, fmt.Sprintf("  (%q, [%s])", e.name, strings.Join(rs, ", ")))
		var names []string
		for k := range eff {
			names = append(names, k)
		}
		sort.Strings(names)
		var q []string
		for _, k := range names {
			q = append(q, fmt.Sprintf("%q", k))
		}
		sep := ","
		if i == len(entries)-1 {
			sep = ""
		}
		fmt.Fprintf(&b, "  (%q, [%s])%s\n", e.name, strings.Join(q, ", "), sep)
	}
	b.WriteString("]\n\n/-- functions reached from each entry point (the entry point's own function included) -/\n")
	b.WriteString("def reach : List (String × List String) := [\n" + strings.Join(reach, ",\n") + "\n]\n\n")
	// every function of the three packages that deletes from a session table
	var dels []string
	for _, dir := range []string{"pkg/pppoe", "pkg/dhcp", "pkg/subscriber"} {
		p := pkgs[dir]
		if p == nil {
			var err error
			if p, err = loadPkg(filepath.Join(*repo, dir)); err != nil {
				fmt.Fprintln(os.Stderr, "extractpaths:", err)
				os.Exit(1)
			}
		}
		var names []string
		for _, fds := range p.funcs {
			for _, fd := range fds {
				hit := false
				ast.Inspect(fd.Body, func(x ast.Node) bool {
					if ce, ok := x.(*ast.CallExpr); ok && types.ExprString(ce.Fun) == "delete" && len(ce.Args) >= 1 {
						for _, t := range sessionTables[dir] {
							if types.ExprString(ce.Args[0]) == t {
								hit = true
							}
						}
					}
					return true
				})
				if hit {
					names = append(names, fmt.Sprintf("%q", qual(dir, fd)))
				}
			}
		}
		sort.Strings(names)
		dels = append(dels, names...)
	}
	b.WriteString("/-- every function that deletes from a session table (pppoe SessionManager.sessions, dhcp Server.leases,\n    subscriber Manager.sessions) -/\n")
	b.WriteString("def deleters : List String := [" + strings.Join(dels, ", ") + "]\n\n")
	// every function that calls one of them directly: a termination path, whoever wrote it
	isDel := map[string]bool{}
	for _, d := range dels {
		isDel[strings.Trim(d, "\"")] = true
	}
	var callers []string
	for _, dir := range []string{"pkg/pppoe", "pkg/dhcp", "pkg/subscriber"} {
		p := pkgs[dir]
		if p == nil {
			p, _ = loadPkg(filepath.Join(*repo, dir))
		}
		var names []string
		for _, fds := range p.funcs {
			for _, fd := range fds {
				hit := false
				ast.Inspect(fd.Body, func(x ast.Node) bool {
					if ce, ok := x.(*ast.CallExpr); ok {
						if c := callee(p, fd, ce); c != nil && isDel[qual(dir, c)] {
							hit = true
						}
					}
					return true
				})
				if hit {
					names = append(names, fmt.Sprintf("%q", qual(dir, fd)))
				}
			}
		}
		sort.Strings(names)
		callers = append(callers, names...)
	}
	b.WriteString("/-- every function that directly calls one of the deleters -/\n")
	b.WriteString("def deleterCallers : List String := [" + strings.Join(callers, ", ") + "]\n")
	b.WriteString("\nend Bng.Gen.Paths\n")
	if *out == "" {
		fmt.Print(b.String())
		return
	}
	tmp := *out + ".tmp"
	if err := os.WriteFile(tmp, []byte(b.String()), 0o644); err != nil {
		fmt.Fprintln(os.Stderr, "extractpaths:", err)
		os.Exit(1)
	}
	if err := os.Rename(tmp, *out); err != nil {
		fmt.Fprintln(os.Stderr, "extractpaths:", err)
		os.Exit(1)
	}
	fmt.Fprintln(os.Stderr, "extractpaths: wrote", *out)
}
