// Package coadrv drives the REAL radius.CoAServer receive loop over a loopback UDP socket, one datagram
// at a time, and reports what the listener did with it (used by cmd/coa for C15 and cmd/decoders for C09).
//
// The loop runs in a goroutine of the harness (hook ReceiveLoopForVerif) under recover, so a panic of the
// listener is an observation; after each test datagram a signed sentinel request is sent, and its answer
// marks the point where the listener has finished with the test datagram (no sleeps, no guessing).
package coadrv

import (
	"context"
	"crypto/md5"
	"encoding/binary"
	"encoding/hex"
	"fmt"
	"net"
	"strings"
	"sync"
	"time"

	"github.com/codelaboratoryltd/bng/pkg/radius"
	"go.uber.org/zap"
)

const sentinelUser = "__verif_sentinel__"

// Driver is one CoAServer with one shared secret.
type Driver struct {
	secret  string
	srv     *radius.CoAServer
	cli     *net.UDPConn
	cancel  context.CancelFunc
	replies chan []byte
	panics  chan string

	mu      sync.Mutex
	policy  string
	invoked []string // "<kind> <fields>" of every non-sentinel handler invocation since the last setPolicy
	seq     uint32
}

func hx(b []byte) string {
	if len(b) == 0 {
		return "-"
	}
	return hex.EncodeToString(b)
}

// New starts a listener on 127.0.0.1:<ephemeral>.
func New(secret string) (*Driver, error) {
	srv, err := radius.NewCoAServer(radius.CoAServerConfig{Address: "127.0.0.1:0", Secret: secret}, zap.NewNop())
	if err != nil {
		return nil, err
	}
	d := &Driver{secret: secret, srv: srv, replies: make(chan []byte, 16), panics: make(chan string, 4), policy: "ack"}
	addr, err := srv.ListenForVerif()
	if err != nil {
		return nil, err
	}
	cli, err := net.DialUDP("udp", nil, addr.(*net.UDPAddr))
	if err != nil {
		return nil, err
	}
	d.cli = cli
	ctx, cancel := context.WithCancel(context.Background())
	d.cancel = cancel
	d.installHandlers()
	go d.reader()
	d.runLoop(ctx)
	return d, nil
}

func (d *Driver) runLoop(ctx context.Context) {
	go func() {
		defer func() {
			if e := recover(); e != nil {
				d.panics <- strings.ReplaceAll(fmt.Sprint(e), "\n", " ")
				d.runLoop(ctx) // the listener is dead: start a new one for the next datagram
			}
		}()
		d.srv.ReceiveLoopForVerif(ctx)
	}()
}

func (d *Driver) reader() {
	buf := make([]byte, 65536)
	for {
		n, err := d.cli.Read(buf)
		if err != nil {
			return
		}
		d.replies <- append([]byte(nil), buf[:n]...)
	}
}

func ipBytes(ip net.IP) []byte {
	if ip == nil {
		return nil
	}
	return []byte(ip)
}

func (d *Driver) reply() (bool, uint32, string) {
	switch d.policy {
	case "nak":
		return false, 503, "no"
	case "long": // a Reply-Message longer than an attribute value can hold (253 octets)
		return false, 503, strings.Repeat("m", 300)
	default:
		return true, 0, ""
	}
}

func (d *Driver) installHandlers() {
	d.srv.SetCoAHandler(func(ctx context.Context, req *radius.CoARequest) *radius.CoAResponse {
		d.mu.Lock()
		defer d.mu.Unlock()
		if req.Username == sentinelUser {
			return &radius.CoAResponse{Success: false}
		}
		d.invoked = append(d.invoked, fmt.Sprintf("coa u=%s;n=%s;f=%s;c=%s;s=%s;st=%d;it=%d;fi=%s", hx([]byte(req.Username)),
			hx(ipBytes(req.NASIPAddress)), hx(ipBytes(req.FramedIP)), hx([]byte(req.CallingStation)),
			hx([]byte(req.SessionID)), req.SessionTimeout, req.IdleTimeout, hx([]byte(req.FilterID))))
		ok, ec, msg := d.reply()
		return &radius.CoAResponse{Success: ok, ErrorCause: ec, Message: msg}
	})
	d.srv.SetDisconnectHandler(func(ctx context.Context, req *radius.DisconnectRequest) *radius.DisconnectResponse {
		d.mu.Lock()
		defer d.mu.Unlock()
		if req.Username == sentinelUser {
			return &radius.DisconnectResponse{Success: false}
		}
		d.invoked = append(d.invoked, fmt.Sprintf("dm u=%s;n=%s;f=%s;c=%s;s=%s;st=0;it=0;fi=-", hx([]byte(req.Username)),
			hx(ipBytes(req.NASIPAddress)), hx(ipBytes(req.FramedIP)), hx([]byte(req.CallingStation)),
			hx([]byte(req.SessionID))))
		ok, ec, msg := d.reply()
		return &radius.DisconnectResponse{Success: ok, ErrorCause: ec, Message: msg}
	})
}

func (d *Driver) setPolicy(p string) {
	d.mu.Lock()
	changed := (d.policy == "def") != (p == "def")
	d.policy = p
	d.invoked = nil
	d.mu.Unlock()
	if changed {
		if p == "def" {
			d.srv.SetCoAHandler(nil)
			d.srv.SetDisconnectHandler(nil)
		} else {
			d.installHandlers()
		}
	}
}

// Sign builds a correctly signed request (RFC 5176: MD5 over the packet with a zero authenticator + secret).
func Sign(code, id byte, attrs []byte, secret string) []byte {
	p := make([]byte, 20+len(attrs))
	p[0], p[1] = code, id
	binary.BigEndian.PutUint16(p[2:4], uint16(len(p)))
	copy(p[20:], attrs)
	h := md5.New()
	h.Write(p)
	h.Write([]byte(secret))
	copy(p[4:20], h.Sum(nil))
	return p
}

// Attr encodes one attribute.
func Attr(t byte, v []byte) []byte { return append([]byte{t, byte(2 + len(v))}, v...) }

func (d *Driver) isReplyTo(resp, reqAuth []byte) bool {
	if len(resp) < 20 {
		return false
	}
	h := md5.New()
	h.Write(resp[:4])
	h.Write(reqAuth)
	h.Write(resp[20:])
	h.Write([]byte(d.secret))
	return string(h.Sum(nil)) == string(resp[4:20])
}

// Send delivers one datagram and returns the canonical observation:
//
//	drop | act <coa|dm> <fields|-> <response hex|-> | panic <msg> | hang
func (d *Driver) Send(policy string, dgram []byte) string {
	return d.exchange(policy, nil, dgram, 0)
}

// SendPrimed delivers `prime` and then, with NOTHING in between, `dgram`, and reports what the listener
// did with `dgram`.  The listener reads every datagram into one reused buffer, so this is how a datagram
// that is shorter than its RADIUS Length field meets the tail the previous datagram left behind.  Whether
// `prime` itself is answered is learnt first by sending it alone.
func (d *Driver) SendPrimed(policy string, prime, dgram []byte) string {
	first := d.Send(policy, prime)
	primeActs := 0
	switch {
	case strings.HasPrefix(first, "act"):
		primeActs = 1
	case first != "drop":
		return "prime-" + first
	}
	return d.exchange(policy, prime, dgram, primeActs)
}

// exchange sends [prime,] dgram and the sentinel back to back (UDP between one socket pair on loopback keeps
// the order and the listener is one goroutine), collects everything answered before the sentinel's answer,
// and attributes the first `primeActs` answers / handler invocations to the prime.
func (d *Driver) exchange(policy string, prime, dgram []byte, primeActs int) string {
	d.setPolicy(policy)
	d.seq++
	nonce := fmt.Sprintf("n%d", d.seq)
	sentinel := Sign(40, byte(d.seq), append(Attr(1, []byte(sentinelUser)), Attr(44, []byte(nonce))...), d.secret)
	if prime != nil {
		if _, err := d.cli.Write(prime); err != nil {
			return "senderr " + err.Error()
		}
	}
	if _, err := d.cli.Write(dgram); err != nil {
		return "senderr " + err.Error()
	}
	if _, err := d.cli.Write(sentinel); err != nil {
		return "senderr " + err.Error()
	}
	var got [][]byte
	panicked := ""
	timeout := time.After(10 * time.Second)
	for done := false; !done; {
		select {
		case r := <-d.replies:
			if d.isReplyTo(r, sentinel[4:20]) {
				done = true
			} else {
				got = append(got, r)
			}
		case p := <-d.panics:
			panicked = p
		case <-timeout:
			return "hang"
		}
	}
	if panicked != "" {
		return "panic " + panicked
	}
	d.mu.Lock()
	invs := append([]string(nil), d.invoked...)
	d.mu.Unlock()
	if len(got) < primeActs || (policy != "def" && len(invs) < primeActs) {
		return fmt.Sprintf("prime-lost replies=%d invocations=%d", len(got), len(invs))
	}
	got = got[primeActs:]
	if policy != "def" {
		invs = invs[primeActs:]
	}
	if len(got) > 1 || len(invs) > 1 {
		return fmt.Sprintf("extra replies=%d invocations=%d", len(got), len(invs))
	}
	if len(invs) == 0 && len(got) == 0 {
		return "drop"
	}
	var testReply []byte
	if len(got) == 1 {
		testReply = got[0]
	}
	inv := ""
	if len(invs) == 1 {
		inv = invs[0]
	} else {
		kind := "?"
		if len(testReply) > 0 {
			switch testReply[0] {
			case 41, 42:
				kind = "dm"
			case 44, 45:
				kind = "coa"
			}
		}
		inv = kind + " -"
	}
	return fmt.Sprintf("act %s %s", inv, hx(testReply))
}

// Close stops the listener.
func (d *Driver) Close() {
	d.cancel()
	d.srv.Stop()
	d.cli.Close()
}
