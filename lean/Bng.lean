import Bng.Map
import Bng.Spec.C01
