import Bng.Drv.Common
import Bng.Drv.Vlan
import Bng.Drv.Qinq
import Bng.Drv.PppSess
import Bng.Drv.CircuitKey
import Bng.Drv.Index
/-
  bngdrv-c20 <component> < trace     (the driver of property C20: its five components alone, used by checks/c20.py)
-/
open Bng.Drv

def components : List (String × Component) := [
  ("vlan", VlanDrv.component),
  ("qinq", QinqDrv.component),
  ("pppsess", PppSessDrv.component),
  ("circuitkey", CircuitKeyDrv.component),
  ("index", IndexDrv.component)
]

def main (args : List String) : IO UInt32 := do
  match args with
  | [name] =>
    match components.lookup name with
    | some c => runComponent c
    | none => IO.eprintln s!"unknown component {name}"; return 2
  | _ => IO.eprintln "usage: bngdrv-c20 <component> < trace"; return 2
