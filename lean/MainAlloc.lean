import Bng.Drv.Common
import Bng.Drv.Bitmap
import Bng.Drv.Epoch
import Bng.Drv.Dist
import Bng.Drv.PoolAlloc
/-
  bngdrv-alloc <component> < trace — the allocator components (bitmap, epoch, dist) alone
  (development convenience; the same components are registered in Main.lean).
-/
open Bng.Drv

def components : List (String × Component) := [
  ("bitmap", BitmapDrv.component),
  ("epoch", EpochDrv.component),
  ("dist", DistDrv.component),
  ("poolalloc", PoolAllocDrv.component)
]

def main (args : List String) : IO UInt32 := do
  match args with
  | [name] =>
    match components.lookup name with
    | some c => runComponent c
    | none => IO.eprintln s!"unknown component {name}"; return 2
  | _ => IO.eprintln "usage: bngdrv-alloc <component> < trace"; return 2
