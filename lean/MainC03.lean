import Bng.Drv.Common
import Bng.Drv.XdpDhcp
import Bng.Drv.TcSafe
/-
  bngdrv-c03 <component> < trace      (development convenience: the C03/C07 components alone;
  the same components are registered in Main.lean)
-/
open Bng.Drv

def components : List (String × Component) := [
  ("xdpdhcp", XdpDhcpDrv.component),
  ("tcprogs", TcSafeDrv.component)
]

def main (args : List String) : IO UInt32 := do
  match args with
  | [name] =>
    match components.lookup name with
    | some c => runComponent c
    | none => IO.eprintln s!"unknown component {name}"; return 2
  | _ => IO.eprintln "usage: bngdrv-c03 <component> < trace"; return 2
