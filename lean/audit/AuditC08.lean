import Bng.Spec.C08
import Bng.Spec.C08Names
import Bng.Audit
#audit_module Bng.Spec.C08
#audit_module Bng.Spec.C08Names
