import Bng.Spec.C08
import Bng.Audit
#audit_module Bng.Spec.C08
