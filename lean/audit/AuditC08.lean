import Bng.Spec.C08
import Bng.Spec.C08Names
import Bng.Spec.C08Locks
import Bng.Audit
#audit_module Bng.Spec.C08
#audit_module Bng.Spec.C08Names
#audit_module Bng.Spec.C08Locks
