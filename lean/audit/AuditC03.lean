import Bng.Spec.C03
import Bng.Audit
#audit_module Bng.Spec.C03
