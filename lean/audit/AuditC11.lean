import Bng.Spec.C11
import Bng.Audit
#audit_module Bng.Spec.C11
