import Bng.Spec.C09
import Bng.Audit
#audit_module Bng.Spec.C09
