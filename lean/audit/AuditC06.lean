import Bng.Spec.C06
import Bng.Audit
#audit_module Bng.Spec.C06
