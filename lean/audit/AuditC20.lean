import Bng.Spec.C20
import Bng.Spec.C20Index
import Bng.Audit
#audit_module Bng.Spec.C20
#audit_module Bng.Spec.C20Index
