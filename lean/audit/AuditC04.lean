import Bng.Spec.C04
import Bng.Spec.C04Auth
import Bng.Spec.C16PppoeWhole
import Bng.Audit
#audit_module Bng.Spec.C04
#audit_module Bng.Spec.C04Auth
#audit_module Bng.Spec.C16PppoeWhole
