import Bng.Spec.C07
import Bng.Spec.C07Tc
import Bng.Spec.C07Nat44
import Bng.Audit
#audit_module Bng.Spec.C07
#audit_module Bng.Spec.C07Tc
#audit_module Bng.Spec.C07Nat44
