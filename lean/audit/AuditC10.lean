import Bng.Spec.C10
import Bng.Audit
#audit_module Bng.Spec.C10
