import Bng.Spec.C10
import Bng.Spec.C10NatKern
import Bng.Audit
#audit_module Bng.Spec.C10
#audit_module Bng.Spec.C10NatKern
