import Bng.Spec.C17
import Bng.Spec.C17Locks
import Bng.Audit
#audit_module Bng.Spec.C17
#audit_module Bng.Spec.C17Locks
