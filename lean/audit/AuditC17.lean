import Bng.Spec.C17
import Bng.Audit
#audit_module Bng.Spec.C17
