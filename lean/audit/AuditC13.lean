import Bng.Spec.C13
import Bng.Spec.C13Locks
import Bng.Audit
#audit_module Bng.Spec.C13
#audit_module Bng.Spec.C13Locks
