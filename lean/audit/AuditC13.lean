import Bng.Spec.C13
import Bng.Audit
#audit_module Bng.Spec.C13
