import Bng.Spec.C14
import Bng.Spec.C14Locks
import Bng.Audit
#audit_module Bng.Spec.C14
#audit_module Bng.Spec.C14Locks
