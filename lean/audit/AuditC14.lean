import Bng.Spec.C14
import Bng.Audit
#audit_module Bng.Spec.C14
