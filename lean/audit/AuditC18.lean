import Bng.Spec.C18
import Bng.Audit
#audit_module Bng.Spec.C18
