import Bng.Spec.C15
import Bng.Audit
#audit_module Bng.Spec.C15
