import Bng.Spec.C15
import Bng.Spec.C15Proc
import Bng.Audit
#audit_module Bng.Spec.C15
#audit_module Bng.Spec.C15Proc
