import Bng.Spec.C12
import Bng.Audit
#audit_module Bng.Spec.C12
