import Bng.Spec.C12
import Bng.Spec.C12Nexus
import Bng.Spec.C12Locks
import Bng.Audit
#audit_module Bng.Spec.C12
#audit_module Bng.Spec.C12Nexus
#audit_module Bng.Spec.C12Locks
