import Bng.Spec.C19
import Bng.Spec.C19Locks
import Bng.Spec.C19Race
import Bng.Audit
#audit_module Bng.Spec.C19
#audit_module Bng.Spec.C19Locks
#audit_module Bng.Spec.C19Race
