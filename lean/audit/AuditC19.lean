import Bng.Spec.C19
import Bng.Audit
#audit_module Bng.Spec.C19
