import Bng.Spec.C02
import Bng.Audit
#audit_module Bng.Spec.C02
