import Bng.Drv.Common
import Bng.Drv.NcpRef
/-
  bngdrv-ncp-ref <lcp|ipcp|ipv6cp> < trace
  As bngdrv-ncp, over the committed reference tables Bng/GenRef (search fallback when the translator refuses the source).
-/
open Bng.Drv

def components : List (String × Component) := [
  ("lcp", NcpRefDrv.lcp), ("ipcp", NcpRefDrv.ipcp), ("ipv6cp", NcpRefDrv.ipv6cp)
]

def main (args : List String) : IO UInt32 := do
  match args with
  | [name] =>
    match components.lookup name with
    | some c => runComponent c
    | none => IO.eprintln s!"unknown component {name}"; return 2
  | _ => IO.eprintln "usage: bngdrv-ncp-ref <component> < trace"; return 2
