import Bng.Drv.Common
import Bng.Drv.FreeList
import Bng.Drv.Nexus
import Bng.Drv.PeerCluster
/-
  bngdrv-pools <component> < trace — the free-list pool, nexus and peer-cluster components alone
  (development convenience: the same components are registered in Main.lean).
-/
open Bng.Drv

def components : List (String × Component) := [
  ("dhcppool", FreeListDrv.component .dhcp),
  ("v6addr", FreeListDrv.component .v6addr),
  ("v6prefix", FreeListDrv.component .v6prefix),
  ("pppoepool", FreeListDrv.component .pppoe),
  ("localpool", FreeListDrv.component .localp),
  ("nexushash", NexusDrv.component),
  ("nexusclient", NexusClientDrv.component),
  ("peercluster", PeerClusterDrv.component)
]

def main (args : List String) : IO UInt32 := do
  match args with
  | [name] =>
    match components.lookup name with
    | some c => runComponent c
    | none => IO.eprintln s!"unknown component {name}"; return 2
  | _ => IO.eprintln "usage: bngdrv-pools <component> < trace"; return 2
