import Bng.Drv.Common
import Bng.Drv.Ncp
/-
  bngdrv-ncp <lcp|ipcp|ipv6cp> < trace
  The driver of property C11.  It lives in its own executable because it imports the REGENERATED modules
  Bng/Gen/Fsm*.lean: a translator failure must not take the common `bngdrv` of the other properties down.
-/
open Bng.Drv

def components : List (String × Component) := [
  ("lcp", NcpDrv.lcp), ("ipcp", NcpDrv.ipcp), ("ipv6cp", NcpDrv.ipv6cp)
]

def main (args : List String) : IO UInt32 := do
  match args with
  | [name] =>
    match components.lookup name with
    | some c => runComponent c
    | none => IO.eprintln s!"unknown component {name}"; return 2
  | _ => IO.eprintln "usage: bngdrv-ncp <component> < trace"; return 2
