import Bng.Drv.Common
import Bng.Drv.HaSync
import Bng.Drv.Failover
/-
  bngdrv-ha <component> < trace     (development convenience: the C13/C14 components alone; the same components are
  registered in Main.lean)
-/
open Bng.Drv

def components : List (String × Component) := [
  ("hasync", HaSyncDrv.component),
  ("failover", FailoverDrv.component)
]

def main (args : List String) : IO UInt32 := do
  match args with
  | [name] =>
    match components.lookup name with
    | some c => runComponent c
    | none => IO.eprintln s!"unknown component {name}"; return 2
  | _ => IO.eprintln "usage: bngdrv-ha <component> < trace"; return 2
