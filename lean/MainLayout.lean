import Bng.Drv.Common
import Bng.Drv.Layout
/-
  bngdrv-layout <component> < trace
  Driver of the C06 byte-level correspondence.  A separate executable because it links the REGENERATED
  tables (Bng/Gen/Layout.lean): a translator failure must not take the common `bngdrv` down.
-/
open Bng.Drv

def components : List (String × Component) := [
  ("layout", LayoutDrv.component)
]

def main (args : List String) : IO UInt32 := do
  match args with
  | [name] =>
    match components.lookup name with
    | some c => runComponent c
    | none => IO.eprintln s!"unknown component {name}"; return 2
  | _ => IO.eprintln "usage: bngdrv-layout <component> < trace"; return 2
