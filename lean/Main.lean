import Bng.Drv.Common
import Bng.Drv.Bitmap
/-
  bngdrv <component> < trace
  Replays implementation traces on the Lean models and evaluates the property monitors.
-/
open Bng.Drv

def components : List (String × Component) := [
  ("bitmap", BitmapDrv.component)
]

def main (args : List String) : IO UInt32 := do
  match args with
  | [name] =>
    match components.lookup name with
    | some c => runComponent c
    | none => IO.eprintln s!"unknown component {name}"; return 2
  | _ => IO.eprintln "usage: bngdrv <component> < trace"; return 2
