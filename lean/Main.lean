import Bng.Drv.Common
import Bng.Drv.XdpDhcp
import Bng.Drv.TcSafe
import Bng.Drv.Decoders
import Bng.Drv.Coa
import Bng.Drv.CoaProc
import Bng.Drv.Acct
import Bng.Drv.AcctBackoff
import Bng.Drv.AcctDirect
import Bng.Drv.TokenBucket
import Bng.Drv.Antispoof
import Bng.Drv.HaSync
import Bng.Drv.Failover
import Bng.Drv.Dhcp4
import Bng.Drv.Dhcp6
import Bng.Drv.Dhcp6Int
import Bng.Drv.Bitmap
import Bng.Drv.PppoeServer
import Bng.Drv.PppAuth
import Bng.Drv.Teardown
import Bng.Drv.DhcpTerm
import Bng.Drv.SubMgr
import Bng.Drv.FreeList
import Bng.Drv.Nexus
import Bng.Drv.PeerCluster
import Bng.Drv.Epoch
import Bng.Drv.Dist
import Bng.Drv.PoolAlloc
import Bng.Drv.Nat
import Bng.Drv.Nat44
import Bng.Drv.NatKern
import Bng.Drv.Vlan
import Bng.Drv.Qinq
import Bng.Drv.PppSess
import Bng.Drv.CircuitKey
import Bng.Drv.Index
import Bng.Drv.Rendezvous
/-
  bngdrv <component> < trace
  Replays implementation traces on the Lean models and evaluates the property monitors.
-/
open Bng.Drv

def components : List (String × Component) := [
  ("xdpdhcp", XdpDhcpDrv.component),
  ("tcprogs", TcSafeDrv.component),
  ("decoders", DecodersDrv.component),
  ("coa", CoaDrv.component),
  ("coaproc", CoaProcDrv.component),
  ("acct", AcctDrv.component),
  ("acctretry", AcctBackoffDrv.component),
  ("acctdirect", AcctDirectDrv.component),
  ("qos", TokenBucketDrv.component),
  ("antispoof", AntispoofDrv.component),
  ("hasync", HaSyncDrv.component),
  ("failover", FailoverDrv.component),
  ("dhcp4", Dhcp4Drv.component),
  ("dhcp6", Dhcp6Drv.component),
  ("dhcp6int", Dhcp6IntDrv.component),
  ("bitmap", BitmapDrv.component),
  ("pppoesrv", PppoeServerDrv.component),
  ("pppauth", PppAuthDrv.component),
  ("teardown", TeardownDrv.component),
  ("dhcpterm", DhcpTermDrv.component),
  ("submgr", SubMgrDrv.component),
  ("dhcppool", FreeListDrv.component .dhcp),
  ("v6addr", FreeListDrv.component .v6addr),
  ("v6prefix", FreeListDrv.component .v6prefix),
  ("pppoepool", FreeListDrv.component .pppoe),
  ("localpool", FreeListDrv.component .localp),
  ("nexushash", NexusDrv.component),
  ("nexusclient", NexusClientDrv.component),
  ("peercluster", PeerClusterDrv.component),
  ("nat", NatDrv.component),
  ("rendezvous", RendezvousDrv.component),
  ("nat44", Nat44Drv.component),
  ("natkern", NatKernDrv.component),
  ("epoch", EpochDrv.component),
  ("dist", DistDrv.component),
  ("poolalloc", PoolAllocDrv.component),
  ("vlan", VlanDrv.component),
  ("qinq", QinqDrv.component),
  ("pppsess", PppSessDrv.component),
  ("circuitkey", CircuitKeyDrv.component),
  ("index", IndexDrv.component)
]

def main (args : List String) : IO UInt32 := do
  match args with
  | [name] =>
    match components.lookup name with
    | some c => runComponent c
    | none => IO.eprintln s!"unknown component {name}"; return 2
  | _ => IO.eprintln "usage: bngdrv <component> < trace"; return 2
