import Bng.Drv.Common
import Bng.Model.Antispoof
/-
  bngdrv component `antispoof` (C18): replays traces of the real antispoof.Manager (real kernel maps) + the
  natively compiled bpf/antispoof.c on the model and runs the source-validation monitors on the
  IMPLEMENTATION's observations.

    new <mode>                        => ok [cfg=<val>]
    setmode <mode>                    => ok [cfg=<val>]
    bind m=<mac> a=<ip4|->            => ok [b=<key>:<val>]
    bind6 m=<mac> a=<ip6|->           => ok [b=<key>:<val>]
    unbind m=<mac>                    => ok [b-=<key>]
    range <ip4>/<len>                 => ok [r=<key>:<val>] [r-=<key>]
    rangemask <ip4> <mask4>           => ok [r=…] | err IPv4_prefix_mask_required
    range16 <ip4>/<len>               => as range; the address is passed in its 16-byte form (::ffff:a.b.c.d)
    range16m <ip4>/<len>              => err IPv4_prefix_mask_required (16-byte address with a 128-bit mask)
    (bind/bind6/unbind with a MAC that is not 6 bytes => err invalid_MAC_address)
    rawbind <key> <val>               => ok | err size
    rawcfg <val>                      => ok | err size
    rawrange <key> <val>              => ok | err size | err kernel
    frame <hexframe>                  => <ret> [ev=N]

  Monitors.  The SPEC STATE is built from the control-plane operations alone (who is bound to what, in which mode,
  which ranges are allowed); it never looks at map bytes except for the `raw…` operations, which have no
  control-plane meaning and are interpreted as the program reads them.
    strict    in-force mode strict: forwarded ⇔ source = the address bound to the sender's MAC
    loose     in-force mode loose: forwarded ⇔ source ∈ an allowed range
    logonly   in-force mode log-only: always forwarded
    forward   disabled mode, non-IP frames and frames without a complete IP header are forwarded
    binding   after every control-plane operation the program's view of the touched record (bytes the
              implementation reported, decoded as the C reads them) equals what was asked for
-/
namespace Bng.Drv.AntispoofDrv
open Bng Bng.Drv Bng.Antispoof
open Bng.TokenBucket (Bytes leBytes leNat)

structure SpecBind where
  v4 : Option Bytes := none
  v6 : Option Bytes := none
  mode : UInt8 := 0
deriving DecidableEq, Repr

structure St where
  started : Bool := false
  mgr : Mgr := { mode := 1 }
  maps : Maps := {}
  -- monitor: spec state (from control-plane ops)
  sMode : UInt8 := 1
  sDefault : UInt8 := 0
  sBinds : AMap Bytes SpecBind := []
  sNets : List (Bytes × Nat) := []
  -- monitor: the bytes the implementation reported
  iBinds : AMap Bytes Bytes := []
  iCfg : Bytes := zeros 8
  iRanges : AMap Bytes Bytes := []

def hex (bs : Bytes) : String := bytesToHex bs
def dropStr (s : String) (n : Nat) : String := String.ofList (s.toList.drop n)

def kvTok (t : String) : Option (String × String) :=
  match t.splitOn "=" with
  | [k, v] => some (k, v)
  | _ => none

def argOf (toks : List String) (k : String) : Option String :=
  (toks.filterMap kvTok).lookup k

/-- lexicographic order on byte strings (= order of their hex rendering) -/
def bytesLt : Bytes → Bytes → Bool
  | [], [] => false
  | [], _ :: _ => true
  | _ :: _, [] => false
  | a :: as, b :: bs => if a < b then true else if b < a then false else bytesLt as bs

def insertSorted (k : Bytes) : List Bytes → List Bytes
  | [] => [k]
  | x :: xs => if bytesLt k x then k :: x :: xs else x :: insertSorted k xs

def sortKeys (ks : List Bytes) : List Bytes := ks.foldl (fun acc k => insertSorted k acc) []

/-- the report of what changed between two tables, as the harness prints it -/
def diffMaps (tag : String) (old new : AMap Bytes Bytes) : String :=
  let changed := (sortKeys (AMap.keys new).eraseDups).filter fun k => AMap.lookup old k ≠ AMap.lookup new k
  let gone := (sortKeys (AMap.keys old).eraseDups).filter fun k => (AMap.lookup new k).isNone
  String.join (changed.map fun k => s!" {tag}={hex k}:{hex ((AMap.lookup new k).getD [])}") ++
  String.join (gone.map fun k => s!" {tag}-={hex k}")

def cfgDiff (old new : Bytes) : String := if old = new then "" else s!" cfg={hex new}"

/-- apply the implementation's report tokens to the monitor's copy of the reported bytes -/
def applyReport (st : St) (itoks : List String) : St :=
  itoks.foldl (fun s t =>
    if t.startsWith "cfg=" then
      match parseHexBytes (dropStr t 4) with | some v => { s with iCfg := v } | none => s
    else if t.startsWith "b-=" then
      match parseHexBytes (dropStr t 3) with | some k => { s with iBinds := AMap.erase s.iBinds k } | none => s
    else if t.startsWith "r-=" then
      match parseHexBytes (dropStr t 3) with | some k => { s with iRanges := AMap.erase s.iRanges k } | none => s
    else if t.startsWith "b=" ∨ t.startsWith "r=" then
      match (dropStr t 2).splitOn ":" with
      | [k, v] => match parseHexBytes k, parseHexBytes v with
        | some kb, some vb =>
          if t.startsWith "b=" then { s with iBinds := AMap.insert s.iBinds kb vb }
          else { s with iRanges := AMap.insert s.iRanges kb vb }
        | _, _ => s
      | _ => s
    else s) st

/-- the binding of `mac` as the PROGRAM reads the reported bytes: (v4 in wire order, v6, mode) -/
def progView (st : St) (mac : Bytes) : Option SpecBind :=
  ((AMap.lookup st.iBinds (macKeyOfFrame (zeros 6 ++ mac))).bind Binding.decode).map fun b =>
    ({ v4 := if b.valid4 ≠ (0 : UInt8) then some b.addr4.reverse else none,
       v6 := if b.valid6 ≠ (0 : UInt8) then some b.addr6 else none,
       mode := b.mode } : SpecBind)

def showBind : Option SpecBind → String
  | none => "none"
  | some b => s!"v4={match b.v4 with | some a => hex a | none => "-"} v6={match b.v6 with | some a => hex a | none => "-"} mode={b.mode.toNat}"

/-- `binding` verdict for one MAC -/
def checkBinding (st : St) (mac : Bytes) (what : String) : List (String × String × String) :=
  let want := AMap.lookup st.sBinds mac
  let got := progView st mac
  if want = got then [] else
    [("binding", "none", s!"{what} {hex mac}: asked [{showBind want}], the program sees [{showBind got}]")]

def checkDefault (st : St) (what : String) : List (String × String × String) :=
  if st.iCfg.headD 0 = st.sDefault then [] else
    [("binding", "none", s!"{what}: default mode asked {st.sDefault.toNat}, the program sees {(st.iCfg.headD 0).toNat}")]

/-- Where the IP header really is: strip up to two VLAN tags (TPIDs 0x8100, 0x88a8, 0x9100, 0x9200) and a PPPoE
    session header (0x8864 + PPP protocol 0x0021 / 0x0057).  Returns (encapsulated?, ethertype of the payload,
    offset of the payload). -/
def l3 (frame : Bytes) : Bool × Bytes × Nat :=
  let et := fun (off : Nat) => (frame.drop off).take 2
  let isTag := fun (e : Bytes) => e = [0x81, 0x00] ∨ e = [0x88, 0xa8] ∨ e = [0x91, 0x00] ∨ e = [0x92, 0x00]
  let (tagged, off) : Bool × Nat :=
    if isTag (et 12) then (if isTag (et 16) then (true, 20) else (true, 16)) else (false, 12)
  if et off = [0x88, 0x64] then
    let ppp := et (off + 8)
    let inner : Bytes := if ppp = [0x00, 0x21] then [0x08, 0x00] else if ppp = [0x00, 0x57] then [0x86, 0xdd] else ppp
    (true, inner, off + 10)
  else (tagged, et off, off + 2)

/-- verdicts for one observed frame -/
def observeFrame (st : St) (frame : Bytes) (ret : Nat) : List (String × String × String) :=
  if frame.length < 14 then
    if ret = TC_ACT_OK then [] else [("forward", "none", "runt frame dropped")]
  else
  let mac := (frame.drop 6).take 6
  let sb := AMap.lookup st.sBinds mac
  let mode := match sb with | some b => b.mode | none => st.sDefault
  let (tagged, et, off) := l3 frame
  let fwd := ret = TC_ACT_OK
  -- D51 = an encapsulated frame FORWARDED although it should have been dropped (nothing else)
  let tagClause := fun (should fwd : Bool) => if tagged ∧ fwd ∧ !should then "D51" else "none"
  -- the source address, if the frame has a complete IP header
  let src4 := if et = [0x08, 0x00] ∧ frame.length ≥ off + 20 then some ((frame.drop (off + 12)).take 4) else none
  let src6 := if et = [0x86, 0xdd] ∧ frame.length ≥ off + 40 then some ((frame.drop (off + 8)).take 16) else none
  if mode = DISABLED then
    if fwd then [] else [("forward", "none", s!"mode disabled for {hex mac} but the frame was dropped")]
  else if src4.isNone ∧ src6.isNone then
    if fwd then [] else [("forward", "none", s!"non-IP / incomplete frame from {hex mac} dropped")]
  else if mode = LOG_ONLY then
    if fwd then [] else [("logonly", "none", s!"log-only mode for {hex mac} but the frame was dropped")]
  else if mode = STRICT then
    let bound : Option Bytes := match src4, src6 with
      | some _, _ => sb.bind (·.v4)
      | _, some _ => sb.bind (·.v6)
      | _, _ => none
    let src := (src4.getD (src6.getD []))
    let should : Bool := bound = some src
    if should = fwd then [] else
      [("strict", tagClause should fwd,
        s!"strict for {hex mac} bound [{match bound with | some a => hex a | none => "-"}] source {hex src}: {if fwd then "forwarded" else "dropped"}")]
  else if mode = LOOSE then
    match src4, src6 with
    | some s, _ =>
      let should : Bool := st.sNets.any fun (n, l) => inNet s n l
      if should = fwd then [] else
        [("loose", tagClause should fwd, s!"loose for {hex mac} source {hex s} {if should then "in" else "outside"} the allowed ranges: {if fwd then "forwarded" else "dropped"}")]
    | _, some s =>
      -- no IPv6 range can be configured: no IPv6 source lies in an allowed range
      if fwd then
        -- KF-loose-v6 is exactly: forwarded because the MAC has no IPv6 binding, or because the source IS the bound
        -- address.  A frame forwarded with a source other than the bound one is a different defect: clause none.
        let bound6 := sb.bind (·.v6)
        let kf := bound6 = none ∨ bound6 = some s
        [("loose", if tagged then "D51" else if kf then "KF-loose-v6" else "none",
          s!"loose for {hex mac} IPv6 source {hex s} (bound [{match bound6 with | some a => hex a | none => "-"}]) forwarded although no IPv6 range exists")]
      else []
    | _, _ => []
  else []

def parseMode (s : String) : Option UInt8 :=
  match s.toNat? with
  | some n => if n < 256 then some (UInt8.ofNat n) else none
  | none => none

def step (st : St) (toks : List String) (impl : String) : St × LineResult :=
  let itoks := splitTokens impl
  let ok := itoks.head? == some "ok"
  -- a call the manager must refuse: it must neither succeed nor crash
  let refused : List (String × String × String) :=
    if itoks.head? == some "err" then [] else
      [("binding", "none", s!"the manager must refuse this call, it answered: {impl}")]
  match toks with
  | ["new", n] =>
    match parseMode n with
    | some n =>
      let g := newManager n
      let (g', m') := setMode g {} g.mode
      let st0 : St := { started := true, mgr := g', maps := m' }
      let st1 := applyReport { st0 with sMode := g.mode, sDefault := g.mode } itoks
      (st1, { modelObs := "ok" ++ cfgDiff (zeros 8) m'.config,
              viols := if ok then checkDefault st1 "new" else [] })
    | none => (st, { modelObs := "badop" })
  | _ =>
  if !st.started then (st, { modelObs := "badop" }) else
  match toks with
  | ["setmode", n] =>
    match parseMode n with
    | some n =>
      let (g', m') := setMode st.mgr st.maps n
      -- spec: the mode set is the mode in force for EVERY MAC, bound or not
      let sb := st.sBinds.map fun e => (e.1, { e.2 with mode := n })
      let st1 := applyReport { st with mgr := g', maps := m', sMode := n, sDefault := n, sBinds := sb } itoks
      let vb := (AMap.keys st1.sBinds).eraseDups.flatMap fun mac => checkBinding st1 mac "SetMode"
      (st1, { modelObs := "ok" ++ diffMaps "b" st.maps.bindings m'.bindings ++ cfgDiff st.maps.config m'.config,
              viols := if ok then checkDefault st1 "setmode" ++ vb else [] })
    | none => (st, { modelObs := "badop" })
  | ["bind", m, a] =>
    match (kvTok m).bind (fun (k, v) => if k == "m" then parseHexBytes v else none), kvTok a with
    | some mac, some ("a", av) =>
      let ip : Option (Option Bytes) := if av == "-" then some none else (parseHexBytes av).map some
      match ip with
      | some ip =>
        if mac.length = 0 ∨ mac.length > 8 ∨ (ip.map (·.length)).getD 4 ≠ 4 then (st, { modelObs := "badop" }) else
        if mac.length ≠ 6 then (st, { modelObs := "err invalid_MAC_address", viols := refused }) else
        let m' := addBinding st.mgr st.maps mac ip
        -- spec: exactly what was written changes: the IPv4 address (and the mode); an IPv6 binding stays
        let old := (AMap.lookup st.sBinds mac).getD {}
        let nb : SpecBind := { old with v4 := ip, mode := st.sMode }
        let st0 : St := { st with maps := m', sBinds := AMap.insert st.sBinds mac nb }
        let st1 := applyReport st0 itoks
        (st1, { modelObs := "ok" ++ diffMaps "b" st.maps.bindings m'.bindings,
                viols := if ok then checkBinding st1 mac "AddBinding" else [] })
      | none => (st, { modelObs := "badop" })
    | _, _ => (st, { modelObs := "badop" })
  | ["bind6", m, a] =>
    match (kvTok m).bind (fun (k, v) => if k == "m" then parseHexBytes v else none), kvTok a with
    | some mac, some ("a", av) =>
      let ip : Option (Option Bytes) := if av == "-" then some none else (parseHexBytes av).map some
      match ip with
      | some ip =>
        if mac.length = 0 ∨ mac.length > 8 ∨ (ip.map (·.length)).getD 16 ≠ 16 then (st, { modelObs := "badop" }) else
        if mac.length ≠ 6 then (st, { modelObs := "err invalid_MAC_address", viols := refused }) else
        let m' := addBindingV6 st.mgr st.maps mac ip
        let old := (AMap.lookup st.sBinds mac).getD {}
        let nv6 : Option Bytes := match ip with | some a => some a | none => old.v6
        let nb : SpecBind := { old with v6 := nv6, mode := st.sMode }
        let st1 := applyReport { st with maps := m', sBinds := AMap.insert st.sBinds mac nb } itoks
        (st1, { modelObs := "ok" ++ diffMaps "b" st.maps.bindings m'.bindings,
                viols := if ok then checkBinding st1 mac "AddBindingV6" else [] })
      | none => (st, { modelObs := "badop" })
    | _, _ => (st, { modelObs := "badop" })
  | ["unbind", m] =>
    match (kvTok m).bind (fun (k, v) => if k == "m" then parseHexBytes v else none) with
    | some mac =>
      if mac.length = 0 ∨ mac.length > 8 then (st, { modelObs := "badop" }) else
      if mac.length ≠ 6 then (st, { modelObs := "err invalid_MAC_address", viols := refused }) else
      let m' := removeBinding st.maps mac
      let st1 := applyReport { st with maps := m', sBinds := AMap.erase st.sBinds mac } itoks
      (st1, { modelObs := "ok" ++ diffMaps "b" st.maps.bindings m'.bindings,
              viols := if ok then checkBinding st1 mac "RemoveBinding" else [] })
    | none => (st, { modelObs := "badop" })
  | ["range", r] =>
    match r.splitOn "/" with
    | [a, l] =>
      match parseHexBytes a, l.toNat? with
      | some ip, some len =>
        if ip.length ≠ 4 ∨ len > 32 then (st, { modelObs := "badop" }) else
        let m' := addAllowedRange st.maps ip len
        let st1 := applyReport { st with maps := m', sNets := (ip, len) :: st.sNets } itoks
        -- the program must find every address of the range: some reported entry covers exactly ip/len
        let covered := st1.iRanges.any fun (k, _) => prefixLen k = len ∧ prefixMatch len (k.drop 4) ip
        (st1, { modelObs := "ok" ++ diffMaps "r" st.maps.ranges m'.ranges,
                viols := if ok ∧ !covered then
                  [("binding", "none", s!"AddAllowedRange {hex ip}/{len}: no trie entry covers it as the program reads the key")] else [] })
      | _, _ => (st, { modelObs := "badop" })
    | _ => (st, { modelObs := "badop" })
  | ["rangemask", a, mk] =>
    match parseHexBytes a, parseHexBytes mk with
    | some ip, some mask =>
      if ip.length ≠ 4 ∨ mask.length ≠ 4 then (st, { modelObs := "badop" }) else
      match maskLen mask with
      | none => (st, { modelObs := "err IPv4_prefix_mask_required", viols := refused })
      | some len =>
        let m' := addAllowedRange st.maps ip len
        let st1 := applyReport { st with maps := m', sNets := (ip, len) :: st.sNets } itoks
        let covered := st1.iRanges.any fun (k, _) => prefixLen k = len ∧ prefixMatch len (k.drop 4) ip
        (st1, { modelObs := "ok" ++ diffMaps "r" st.maps.ranges m'.ranges,
                viols := if ok ∧ !covered then
                  [("binding", "none", s!"AddAllowedRange {hex ip} mask {hex mask}: no trie entry covers it as the program reads the key")] else [] })
    | _, _ => (st, { modelObs := "badop" })
  | ["rawbind", k, v] =>
    match parseHexBytes k, parseHexBytes v with
    | some kb, some vb =>
      if kb.length ≠ 8 ∨ vb.length ≠ 24 then (st, { modelObs := "err size" }) else
      let m' := { st.maps with bindings := AMap.insert st.maps.bindings kb vb }
      -- spec state: as the program reads the bytes (a raw write has no control-plane meaning)
      let mac := ((leBytes 8 (leNat kb)).take 6).reverse
      let st1 := { st with maps := m', iBinds := if impl == "ok" then AMap.insert st.iBinds kb vb else st.iBinds }
      let st2 := if impl == "ok" ∧ leNat kb < 2 ^ 48 then
          { st1 with sBinds := match progView st1 mac with
              | some b => AMap.insert st1.sBinds mac b
              | none => st1.sBinds }
        else st1
      (st2, { modelObs := "ok" })
    | _, _ => (st, { modelObs := "badop" })
  | ["rawcfg", v] =>
    match parseHexBytes v with
    | some vb =>
      if vb.length ≠ 8 then (st, { modelObs := "err size" }) else
      let st1 := { st with maps := { st.maps with config := vb } }
      (if impl == "ok" then { st1 with iCfg := vb, sDefault := vb.headD 0 } else st1, { modelObs := "ok" })
    | none => (st, { modelObs := "badop" })
  | ["rawrange", k, v] =>
    match parseHexBytes k, parseHexBytes v with
    | some kb, some vb =>
      if kb.length ≠ 8 ∨ vb.length ≠ 1 then (st, { modelObs := "err size" }) else
      if prefixLen kb > 32 then (st, { modelObs := "err kernel" }) else
      let m' := { st.maps with ranges := lpmInsert st.maps.ranges kb vb }
      let st1 := { st with maps := m' }
      (if impl == "ok" then
         { st1 with iRanges := lpmInsert st1.iRanges kb vb, sNets := (kb.drop 4, prefixLen kb) :: st.sNets }
       else st1, { modelObs := "ok" })
    | _, _ => (st, { modelObs := "badop" })
  | ["frame", f] =>
    match parseHexBytes f with
    | some frame =>
      let r := run st.maps frame
      let obs := s!"{r.ret}" ++ (if r.events > 0 then s!" ev={r.events}" else "")
      let vs := match itoks.head?.bind String.toNat? with
        | some ret => observeFrame st frame ret
        | none => []
      (st, { modelObs := obs, viols := vs })
    | none => (st, { modelObs := "badop" })
  | _ => (st, { modelObs := "badop" })

/-- `range16 <ip4>/<len>`: the same network handed to AddAllowedRange with its IPv4 address in the 16-byte
    (`::ffff:a.b.c.d`) form that net.ParseIP / net.IPv4 / IP.To16 produce and a 32-bit mask — the manager must
    normalise it (`To4`), so the model and the specification are those of `range`.
    `range16m <ip4>/<len>`: 16-byte address AND a 128-bit mask (`96+len`): `Mask.Size()` reports 128 bits, refused. -/
def stepN (st : St) (toks : List String) (impl : String) : St × LineResult :=
  match toks with
  | ["range16", r] => step st ["range", r] impl
  | ["range16m", r] =>
    match r.splitOn "/" with
    | [a, l] =>
      match parseHexBytes a, l.toNat? with
      | some ip, some len =>
        if ip.length ≠ 4 ∨ len > 32 then (st, { modelObs := "badop" }) else
        (st, { modelObs := "err IPv4_prefix_mask_required",
               viols := if impl.startsWith "ok" then
                 [("binding", "none", s!"AddAllowedRange {hex ip}/{len} with a 128-bit mask accepted")] else [] })
      | _, _ => (st, { modelObs := "badop" })
    | _ => (st, { modelObs := "badop" })
  | _ => step st toks impl

def component : Component := { σ := St, init := {}, step := stepN }

end Bng.Drv.AntispoofDrv
