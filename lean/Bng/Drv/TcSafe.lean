import Bng.Drv.Common
import Bng.Model.TcSafe
import Bng.Model.Antispoof
import Bng.Model.TokenBucket
/-
  bngdrv component `tcprogs` (C07): replays native runs of antispoof_ingress / qos_egress_prog / qos_ingress_prog on
  the checked-access models of `Bng.TcSafe`; the map side (bindings, LPM trie, token buckets) is supplied by the
  functional models of C18 / C19 (`Bng.Antispoof`, `Bng.TokenBucket`).

    new                                   => ok
    put <map> <key> <val>                 => ok      maps: subscriber_bindings antispoof_config allowed_ranges_v4 qos_egress qos_ingress
    clock <ns>                            => ok
    run <prog> <hexframe> len=<skb->len>  => <ret> same [prio=N] [ev=N] | <ret> <hexframe-after> … | FAULT …

  Monitors (C07, on the native program's answer): `fault`, `undefined-verdict` (not TC_ACT_OK / TC_ACT_SHOT),
  `pass-modified` (frame changed, under TC_ACT_OK or TC_ACT_SHOT: these programs contain no packet store).
-/
namespace Bng.Drv.TcSafeDrv
open Bng Bng.Drv Bng.C Bng.TcSafe

structure St where
  as : Antispoof.Maps := {}
  qos : TokenBucket.Maps := {}
  now : Nat := 0

def monitors (impl : String) : List (String × String × String) :=
  match splitTokens impl with
  | "FAULT" :: rest => [("fault", "none", "_".intercalate rest)]
  | v :: after :: _ =>
    match v.toNat? with
    | some n =>
      (if n != 0 && n != 2 then [("undefined-verdict", "none", v)] else []) ++
      -- the theorems claim "never modified", under TC_ACT_OK and under TC_ACT_SHOT alike
      (if after != "same" then [("pass-modified", "none", if n == 0 then "frame_changed_under_TC_ACT_OK" else "frame_changed_under_TC_ACT_SHOT")] else [])
    | none => [("undefined-verdict", "none", v)]
  | _ => [("undefined-verdict", "none", "unparseable")]

def showRes (f : Frame) (v : Nat) (f' : Frame) (prio : Option UInt8) (ev : Nat) : String :=
  let fr := if f' == f then "same" else bytesToHex f'
  let p := match prio with | some x => if x != 0 then s!" prio={x.toNat}" else "" | none => ""
  let e := if ev != 0 then s!" ev={ev}" else ""
  s!"{v} {fr}{p}{e}"

def fault : Fault → String
  | .oob off n size => s!"FAULT model off={off} n={n} size={size}"

def step (st : St) (toks : List String) (impl : String) : St × LineResult :=
  match toks with
  | ["new"] => ({}, { modelObs := "ok" })
  | ["clock", ns] =>
    match ns.toNat? with
    | some n => ({ st with now := n }, { modelObs := "ok" })
    | none => (st, { modelObs := "badop" })
  | ["put", name, k, v] =>
    match parseHexBytes k, parseHexBytes v with
    | some k, some v =>
      match name with
      | "subscriber_bindings" => ({ st with as := { st.as with bindings := AMap.insert st.as.bindings k v } }, { modelObs := "ok" })
      | "antispoof_config" => ({ st with as := { st.as with config := v } }, { modelObs := "ok" })
      | "allowed_ranges_v4" => ({ st with as := { st.as with ranges := Antispoof.lpmInsert st.as.ranges k v } }, { modelObs := "ok" })
      | "qos_egress" => ({ st with qos := { st.qos with egress := AMap.insert st.qos.egress k v } }, { modelObs := "ok" })
      | "qos_ingress" => ({ st with qos := { st.qos with ingress := AMap.insert st.qos.ingress k v } }, { modelObs := "ok" })
      | _ => (st, { modelObs := "badop" })
    | _, _ => (st, { modelObs := "badop" })
  | ["run", prog, fr, len] =>
    match parseHexBytes fr, (len.splitOn "=").getLast?.bind String.toNat? with
    | some f, some skbLen =>
      match prog with
      | "antispoof_ingress" =>
        let env : AsEnv := { config := some st.as.config, binding := fun k => AMap.lookup st.as.bindings k,
                             inRange := fun src => Antispoof.inAllowedRange st.as src }
        let obs := match antispoof f env with
          | .ok (v, f', ev) => showRes f v f' none ev
          | .error e => fault e
        (st, { modelObs := obs, viols := monitors impl })
      | "qos_egress_prog" | "qos_ingress_prog" =>
        let d : Dir := if prog == "qos_egress_prog" then .egress else .ingress
        let td : TokenBucket.Dir := if prog == "qos_egress_prog" then .egress else .ingress
        let now := UInt64.ofNat st.now
        let bucket : Bytes → Option (Bool × UInt8) := fun k =>
          match AMap.lookup (st.qos.get td) k with
          | none => none
          | some vb => match TokenBucket.Bucket.decode vb with
            | some b => let r := TokenBucket.check b now (UInt32.ofNat skbLen); some (r.2, r.1.prio)
            | none => none
        let obs := match qos d f bucket with
          | .ok (v, f', pr) => showRes f v f' pr 0
          | .error e => fault e
        -- the bucket the program updated in place
        let qos' := (TokenBucket.runProg td st.qos now f (UInt32.ofNat skbLen)).1
        ({ st with qos := qos' }, { modelObs := obs, viols := monitors impl })
      | _ => (st, { modelObs := "badop" })
    | _, _ => (st, { modelObs := "badop" })
  | _ => (st, { modelObs := "badop" })

def component : Component := { σ := St, init := {}, step := step }

end Bng.Drv.TcSafeDrv
