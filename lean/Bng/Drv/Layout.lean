import Bng.Drv.Common
import Bng.Gen.Layout
import Bng.Model.KeyEnc
/-
  bngdrv-layout component `layout` (C06): replays the traces of harness/cmd/layoutbytes.

  MODEL observation  = what the Go side does according to the REGENERATED tables (`Gen.Layout`: the
                       encoding/binary image of the static Go types) and the key-derivation models
                       (`Bng.KeyEnc`), plus what the natively compiled C programs do according to the C-side
                       models (`macU64CLoop`, `vlanKeyC`, `circuitKeyC`, `algKeyC`, `ipC`, `portC`, `wireC`).
                       A DIFF therefore means: a generated table or a model no longer says what cilium /
                       the real Go code / the real C program does.
  MONITOR            = the property: the bytes Go wrote (as read back from the real kernel map) must be the
                       bytes of the C record holding the same contents; keys derived by both sides for the
                       same logical input must be equal; what the C program emits for a value Go wrote must be
                       the logical value.
  verdicts: size, offset, width, byteorder, key.  A verdict is attributed to a recorded finding only under
  that finding's clause: D10 = the (map, side, leaf) tuple is in `KeyEnc.d10Fields` AND the Go bytes are the
  exact reversal of the expected ones; KF-C06-port-order likewise with `portOrderFields`;
  KF-C06-percpu-scalar = the map is one of `kfPercpuMaps`.

    new                                                   => ok
    put <map> <keyType> <valType> k=<leaf,…> v=<leaf,…>   => k=<hex> v=<hex> | err size-key | err size-value
    get <map> <keyType> <valType> rawk=<hex> rawv=<hex>   => v=<leaf,…> | err size-key | err size-value
    iter <map> <keyType> <valType> rawk=<hex> rawv=<hex>  => k=<leaf,…> v=<leaf,…> del=ok|notfound left=<n> | err size-key | err size-value
    percpu nat|qos|antispoof                              => err percpu | ok
    x qos|antispoof|dhcp|nat|purge|fnv|wg name=value …    => name=hex …
                                                          (`x antispoof … form=16`: the network address handed to AddAllowedRange in 16-byte form; same model)
    kf cidraw <options hex>                               => c=<hex|none>
    kf cid <cid hex> <extra>                              => go=<MakeCircuitIDKey> c=<key the program looks up|none>
    kf mac <6B>                                           => go=<MACToUint64 LE> c.dhcp=<…> c.antispoof=<…>
    kf vlan <s> <c|-> <pcp1> <dei1> <pcp2> <dei2>         => go=<key written by AddVLANSubscriber> c=<key looked up>
    kf ip <4B> | kf fnv <hex> | kf alg <port> <proto>     => go=<…> [c=<…>]
    kf macn <hardware address, 0..20 bytes>               => go:<pkg.func>=<key|panic> … back:<pkg.func>=<6B> … c.dhcp= c.antispoof=
    nput <map> <keyType> <valType> k=<leaf,…> <GoField>=<n|x…> …  => v=<hex> c.<member>=<n|x…> …   (verdict `field`)
    cfg antispoof setmode <n>                             => v=<hex> c.default_mode=<n> c.log_violations=<n>
    pget <map> <keyType> <valType> rawv=<hex>             => v=<leaf,…>
-/
namespace Bng.Drv.LayoutDrv
open Bng Bng.Drv Bng.Layout Bng.KeyEnc Bng.Gen.Layout

abbrev Verdict := String × String × String

def hexOf (bs : List UInt8) : String := if bs.isEmpty then "-" else bytesToHex bs

def kvOf (toks : List String) : List (String × String) :=
  toks.filterMap fun t => match t.splitOn "=" with
    | [k, v] => some (k, v)
    | _ => none

def arg (a : List (String × String)) (k : String) : String := (a.lookup k).getD ""

def argBytes (a : List (String × String)) (k : String) : Option (List UInt8) := parseHexBytes (arg a k)

def parseLeaves (s : String) : Option (List (List UInt8)) :=
  if s == "-" || s.isEmpty then some [] else (s.splitOn ",").mapM parseHexBytes

def ip4 (bs : List UInt8) : Option (UInt8 × UInt8 × UInt8 × UInt8) :=
  match bs with
  | [a, b, c, d] => some (a, b, c, d)
  | _ => none

def mac6 (bs : List UInt8) : Option (UInt8 × UInt8 × UInt8 × UInt8 × UInt8 × UInt8) :=
  match bs with
  | [a, b, c, d, e, f] => some (a, b, c, d, e, f)
  | _ => none

def findUse (m kt vt : String) : Option MapUse :=
  mapUses.find? fun u => u.map == m && u.goKey.name == kt && (match u.goVal with | some v => v.name == vt | none => false)

def leafStrings (s : Struct) (bs : List UInt8) : String :=
  ",".intercalate ((List.range (named s.fields).length).map fun i => hexOf (readField s i bs))

/-- clause for a byte-order verdict on `(m, side, leaf)`: D10 only for listed tuples whose bytes are exactly reversed -/
def d10Clause (m side leaf : String) (got want : List UInt8) : String :=
  if d10Fields.contains (m, side, leaf) && got == want.reverse then "D10" else "none"

def portClause (m side leaf : String) (got want : List UInt8) : String :=
  if portOrderFields.contains (m, side, leaf) && got == want.reverse then "KF-C06-port-order" else "none"

def kfPercpuMaps : List String := ["nat_stats_map", "qos_stats_map", "antispoof_stats"]

/-- compare a 4-byte IPv4 datum Go produced with what the C side expects for the same address -/
def ipCheck (what m side leaf : String) (got want : List UInt8) : List Verdict :=
  if got == want then [] else
    [(if got == want.reverse then "byteorder" else "key", d10Clause m side leaf got want,
      s!"{what}:({m},{side},{leaf}) go={hexOf got} c-expects={hexOf want}")]

/-- the token `name=` of the implementation's observation -/
def tok (obs : String) (name : String) : String :=
  arg (kvOf (splitTokens obs)) name

def tokBytes (obs name : String) : List UInt8 := (parseHexBytes (tok obs name)).getD []

def maskIP (plen : Nat) (bs : List UInt8) : List UInt8 :=
  let v := bs.foldl (fun acc b => acc * 256 + b.toNat) 0
  let m := v / 2 ^ (32 - plen) * 2 ^ (32 - plen)
  [UInt8.ofNat (m / 2 ^ 24), UInt8.ofNat (m / 2 ^ 16 % 256), UInt8.ofNat (m / 2 ^ 8 % 256), UInt8.ofNat (m % 256)]

/-! ## typed put / get -/

def doPut (toks : List String) (impl : String) : LineResult :=
  match toks with
  | [_, m, kt, vt, ka, va] =>
    match findUse m kt vt, parseLeaves ((ka.splitOn "=").getD 1 ""), parseLeaves ((va.splitOn "=").getD 1 "") with
    | some u, some kv, some vv =>
      match u.goVal with
      | none => { modelObs := "badop" }
      | some gv =>
        if kv.length != (named u.goKey.fields).length || vv.length != (named gv.fields).length then { modelObs := "badop" } else
        let model :=
          if u.goKey.size != u.cKeySize then "err size-key"
          else if gv.size != u.cValSize then "err size-value"
          else s!"k={hexOf (image u.goKey kv)} v={hexOf (image gv vv)}"
        -- the property: the bytes in the kernel map are the C record holding the same contents
        let wantK := image u.cKey kv
        let wantV := image u.cVal vv
        let want := s!"k={hexOf wantK} v={hexOf wantV}"
        let tuple := s!"map={m} go=({kt},{vt}) c=({u.cKey.name},{u.cVal.name})"
        let viols : List Verdict :=
          if impl == want then []
          else if impl.startsWith "err size" then
            [("size", "none", s!"{tuple} go-sizes=({u.goKey.size},{gv.size}) map-sizes=({u.cKeySize},{u.cValSize}) cilium:{impl}")]
          else
            let dk := firstDisagreement 0 (named u.goKey.fields) (named u.cKey.fields)
            let dv := firstDisagreement 0 (named gv.fields) (named u.cVal.fields)
            match dk, dv with
            | some (_, g, c, w), _ => [(if w == "offset" || w == "count" then "offset" else "width", "none",
                s!"{tuple} key-field go:{g} c:{c} {w} image={impl} c-image={want}")]
            | none, some (_, g, c, w) => [(if w == "offset" || w == "count" then "offset" else "width", "none",
                s!"{tuple} value-field go:{g} c:{c} {w} image={impl} c-image={want}")]
            | none, none => [("size", "none", s!"{tuple} image={impl} c-image={want}")]
        { modelObs := model, viols := viols }
    | _, _, _ => { modelObs := "badop" }
  | _ => { modelObs := "badop" }

def doGet (toks : List String) (impl : String) : LineResult :=
  match toks with
  | [_, m, kt, vt, ka, va] =>
    match findUse m kt vt, parseHexBytes ((ka.splitOn "=").getD 1 ""), parseHexBytes ((va.splitOn "=").getD 1 "") with
    | some u, some _, some rv =>
      match u.goVal with
      | none => { modelObs := "badop" }
      | some gv =>
        let model :=
          if u.goKey.size != u.cKeySize then "err size-key"
          else if gv.size != u.cValSize then "err size-value"
          else s!"v={leafStrings gv rv}"
        let want := s!"v={leafStrings u.cVal rv}"
        let tuple := s!"map={m} go=({kt},{vt}) c=({u.cKey.name},{u.cVal.name})"
        let viols : List Verdict :=
          if impl == want then []
          else if impl.startsWith "err size" then
            [("size", "none", s!"{tuple} go-sizes=({u.goKey.size},{gv.size}) map-sizes=({u.cKeySize},{u.cValSize}) cilium:{impl}")]
          else match firstDisagreement 0 (named gv.fields) (named u.cVal.fields) with
            | some (_, g, c, w) => [(if w == "offset" || w == "count" then "offset" else "width", "none",
                s!"{tuple} value-field go:{g} c:{c} {w} raw={hexOf rv} go-reads:{impl} c-wrote:{want}")]
            | none => [("size", "none", s!"{tuple} raw={hexOf rv} go-reads:{impl} c-wrote:{want}")]
        { modelObs := model, viols := viols }
    | _, _, _ => { modelObs := "badop" }
  | _ => { modelObs := "badop" }

/-- `iter <map> <keyType> <valType> rawk= rawv=`: the entry read with `MapIterator.Next(&k, &v)` — typed key AND value — and
    the key handed back to `Delete` (the pattern of `purgeSubscriberState`).  Model: the generated Go layouts decode the
    raw bytes; a key whose padding is zero (the programs zero it) re-marshals to the same bytes, so the Delete hits.
    Property: Go reads out of the bytes what a reader using the C record reads, and deletes the entry it was shown. -/
def doIter (toks : List String) (impl : String) : LineResult :=
  match toks with
  | [_, m, kt, vt, ka, va] =>
    match findUse m kt vt, parseHexBytes ((ka.splitOn "=").getD 1 ""), parseHexBytes ((va.splitOn "=").getD 1 "") with
    | some u, some rk, some rv =>
      match u.goVal with
      | none => { modelObs := "badop" }
      | some gv =>
        if u.mapType != "HASH" && u.mapType != "LRU_HASH" then { modelObs := "badop maptype" } else
        let kLeaves := (List.range (named u.goKey.fields).length).map fun i => readField u.goKey i rk
        if image u.goKey kLeaves != rk then { modelObs := "badop padding" } else
        let model :=
          if u.goKey.size != u.cKeySize then "err size-key"
          else if gv.size != u.cValSize then "err size-value"
          else s!"k={leafStrings u.goKey rk} v={leafStrings gv rv} del=ok left=0"
        let wantK := leafStrings u.cKey rk
        let wantV := leafStrings u.cVal rv
        let tuple := s!"map={m} (iteration) go=({kt},{vt}) c=({u.cKey.name},{u.cVal.name})"
        let viols : List Verdict :=
          if impl.startsWith "err size" then
            [("size", "none", s!"{tuple} go-sizes=({u.goKey.size},{gv.size}) map-sizes=({u.cKeySize},{u.cValSize}) cilium:{impl}")]
          else if !impl.startsWith "k=" then []
          else
            (if tok impl "k" == wantK then [] else
              match firstDisagreement 0 (named u.goKey.fields) (named u.cKey.fields) with
              | some (_, g, c, w) => [((if w == "offset" || w == "count" then "offset" else "width", "none",
                  s!"{tuple} key-field go:{g} c:{c} {w} raw={hexOf rk} go-reads:k={tok impl "k"} c-wrote:k={wantK}") : Verdict)]
              | none => [("size", "none", s!"{tuple} raw={hexOf rk} go-reads:k={tok impl "k"} c-wrote:k={wantK}")]) ++
            (if tok impl "v" == wantV then [] else
              match firstDisagreement 0 (named gv.fields) (named u.cVal.fields) with
              | some (_, g, c, w) => [((if w == "offset" || w == "count" then "offset" else "width", "none",
                  s!"{tuple} value-field go:{g} c:{c} {w} raw={hexOf rv} go-reads:v={tok impl "v"} c-wrote:v={wantV}") : Verdict)]
              | none => [("size", "none", s!"{tuple} raw={hexOf rv} go-reads:v={tok impl "v"} c-wrote:v={wantV}")]) ++
            (if tok impl "del" == "ok" && tok impl "left" == "0" then [] else
              [("key", "none", s!"{tuple} the key Go hands back to Delete is not the key the program wrote ({hexOf rk}): del={tok impl "del"} left={tok impl "left"}")])
        { modelObs := model, viols := viols }
    | _, _, _ => { modelObs := "badop" }
  | _ => { modelObs := "badop" }

/-! ## fields by NAME (`nput`, `cfg`) -/

/-- a field assignment of the op: Go leaf name ↦ a number or raw bytes (`x…`) -/
def parseAssign (t : String) : Option (String × (Nat ⊕ List UInt8)) :=
  match t.splitOn "=" with
  | [n, v] =>
    if v.startsWith "x" then (parseHexBytes (String.ofList (v.toList.drop 1))).map fun b => (n, .inr b)
    else v.toNat?.map fun x => (n, .inl x)
  | _ => none

def assignBytes (w : Nat) : Nat ⊕ List UInt8 → List UInt8
  | .inl x => leBytes w x
  | .inr b => fit w b

def showVal : Nat ⊕ List UInt8 → String
  | .inl x => toString x
  | .inr b => "x" ++ hexOf b

/-- what the compiled C code reads out of `bs` as record `c`, member by member: `c.<member>=<number | x<hex>>` -/
def cDecodeStr (c : Struct) (bs : List UInt8) : String :=
  " ".intercalate ((named c.fields).filterMap fun f =>
    if f.name.isEmpty then none else
    match f.kind with
    | .int => some s!"c.{f.name}={leVal (slice bs f.off f.width)}"
    | .bytes => some s!"c.{f.name}=x{hexOf (slice bs f.off f.width)}"
    | .arr _ => none)

/-- common engine of `nput` and `cfg`: Go writes `assigns` (by Go leaf name) into a zero value of its type; the model
    is the Go image (generated table) decoded by the C record; the property: the C member called like the Go field
    (or the member named in `expect`) reads the value that was assigned -/
def namedWrite (what m kt vt : String) (kvals : List (List UInt8)) (assigns : List (String × (Nat ⊕ List UInt8)))
    (expect : Option (List (String × String))) (impl : String) : LineResult :=
  match findUse m kt vt with
  | none => { modelObs := "badop" }
  | some u =>
    match u.goVal with
    | none => { modelObs := "badop" }
    | some gv =>
      if assigns.any (fun a => !(named gv.fields).any fun f => f.name == a.1) then { modelObs := "badop" } else
      let vals := (named gv.fields).map fun f =>
        match assigns.lookup f.name with
        | some v => assignBytes f.width v
        | none => List.replicate f.width 0
      let img := image gv vals
      let model :=
        if u.goKey.size != u.cKeySize then "err size-key"
        else if gv.size != u.cValSize then "err size-value"
        else s!"v={hexOf img} {cDecodeStr u.cVal img}"
      let _ := kvals
      -- expected C-side reading: explicit (cfg) or by name correspondence (nput)
      let wanted : List (String × String × String) := match expect with
        | some e => e.map fun (cn, v) => (cn, cn, v)
        | none => assigns.map fun (gn, v) =>
            let gnorm := ((named gv.fields).find? fun f => f.name == gn).map (·.norm) |>.getD "?"
            match (named u.cVal.fields).find? fun f => f.norm == gnorm with
            | some cf => (gn, cf.name, showVal v)
            | none => (gn, "?", showVal v)
      let viols : List Verdict :=
        if impl.startsWith "err size" then
          [("size", "none", s!"{what}: map={m} go=({kt},{vt}) go-size={gv.size} map-value-size={u.cValSize} cilium:{impl}")]
        else if !impl.startsWith "v=" then []
        else wanted.filterMap fun (gn, cn, v) =>
          if cn == "?" then
            some ("field", "none", s!"{what}: map={m} go={vt} c={u.cVal.name}: no C member is named like Go field {gn}")
          else if tok impl ("c." ++ cn) == v then none
          else some ("field", "none",
            s!"{what}: map={m} go={vt} c={u.cVal.name}: Go field {gn} was set to {v} but the C member {cn} reads {tok impl ("c." ++ cn)} (bytes {tok impl "v"})")
      { modelObs := model, viols := viols }

def doNput (toks : List String) (impl : String) : LineResult :=
  match toks with
  | _ :: m :: kt :: vt :: ka :: rest =>
    match parseLeaves ((ka.splitOn "=").getD 1 ""), rest.mapM parseAssign with
    | some kv, some as => namedWrite "nput" m kt vt kv as none impl
    | _, _ => { modelObs := "badop" }
  | _ => { modelObs := "badop" }

/-- `cfg antispoof setmode n`: the real `Manager.SetMode` writes `Config{DefaultMode: n, LogViolations: 1}`; the
    program must read `default_mode = n`, `log_violations = 1` -/
def doCfg (toks : List String) (impl : String) : LineResult :=
  match toks with
  | ["cfg", "antispoof", "setmode", ns] =>
    match ns.toNat? with
    | some n => namedWrite s!"antispoof.SetMode({n})" "antispoof_config" "uint32" "antispoof.Config" [[0, 0, 0, 0]]
        [("DefaultMode", .inl n), ("LogViolations", .inl 1)]
        (some [("default_mode", toString n), ("log_violations", "1")]) impl
    | none => { modelObs := "badop" }
  | _ => { modelObs := "badop" }

/-- `pget <map> <keyType> <valType> rawv=<hex>`: typed read of CPU 0's value of a per-CPU map into a slice -/
def doPget (toks : List String) (impl : String) : LineResult :=
  match toks with
  | [_, m, kt, vt, va] =>
    match findUse m kt vt, parseHexBytes ((va.splitOn "=").getD 1 "") with
    | some u, some rv =>
      match u.goVal with
      | none => { modelObs := "badop" }
      | some gv =>
        let model := if gv.size != u.cValSize then "err size-value" else s!"v={leafStrings gv rv}"
        let want := s!"v={leafStrings u.cVal rv}"
        let tuple := s!"map={m} (per-CPU) go=({kt},[]{vt}) c=({u.cKey.name},{u.cVal.name})"
        let viols : List Verdict :=
          if impl == want then []
          else if impl.startsWith "err size" then
            [("size", "none", s!"{tuple} go-size={gv.size} map-value-size={u.cValSize} cilium:{impl}")]
          else match firstDisagreement 0 (named gv.fields) (named u.cVal.fields) with
            | some (_, g, c, w) => [(if w == "offset" || w == "count" then "offset" else "width", "none",
                s!"{tuple} value-field go:{g} c:{c} {w} raw={hexOf rv} go-reads:{impl} c-wrote:{want}")]
            | none => [("size", "none", s!"{tuple} raw={hexOf rv} go-reads:{impl} c-wrote:{want}")]
        { modelObs := model, viols := viols }
    | _, _ => { modelObs := "badop" }
  | _ => { modelObs := "badop" }

def doPercpu (toks : List String) (impl : String) : LineResult :=
  let m := match toks with
    | [_, "nat"] => "nat_stats_map"
    | [_, "qos"] => "qos_stats_map"
    | [_, "antispoof"] => "antispoof_stats"
    | _ => ""
  match mapUses.find? (fun u => u.map == m && u.op == "Lookup") with
  | none => { modelObs := "badop" }
  | some u =>
    let percpu := u.mapType == "PERCPU_ARRAY" || u.mapType == "PERCPU_HASH"
    let model := if percpu && !u.goValSlice then "err percpu" else "ok"
    let viols : List Verdict :=
      if impl == "ok" then [] else
        [("size", if kfPercpuMaps.contains m && impl == "err percpu" && percpu && !u.goValSlice then "KF-C06-percpu-scalar" else "none",
          s!"map={m} type={u.mapType} go-value={(u.goVal.map (·.name)).getD "-"} slice={u.goValSlice} site={u.site} cilium:{impl}")]
    { modelObs := model, viols := viols }

/-! ## the real managers against the natively compiled programs -/

def xQos (a : List (String × String)) (impl : String) : LineResult :=
  match (argBytes a "ip").bind ip4 with
  | some (p, q, r, s) =>
    let ge := ipGo "qos_egress" "key" "" p q r s
    let gi := ipGo "qos_ingress" "key" "" p q r s
    let ce := ipC "qos_egress" "key" "" p q r s
    let ci := ipC "qos_ingress" "key" "" p q r s
    { modelObs := s!"go.egress={hexOf ge} go.ingress={hexOf gi} c.egress={hexOf ce} c.ingress={hexOf ci}",
      viols := ipCheck "key" "qos_egress" "key" "" (tokBytes impl "go.egress") (tokBytes impl "c.egress") ++
               ipCheck "key" "qos_ingress" "key" "" (tokBytes impl "go.ingress") (tokBytes impl "c.ingress") }
  | none => { modelObs := "badop" }

def xAntispoof (a : List (String × String)) (impl : String) : LineResult :=
  match (argBytes a "mac").bind mac6, argBytes a "ip", (arg a "plen").toNat? with
  | some (m0, m1, m2, m3, m4, m5), some ipb, some plen =>
    match ip4 ipb, ip4 (maskIP plen ipb) with
    | some (p, q, r, s), some (n0, n1, n2, n3) =>
      let gk := u64KeyBytes (macU64Shift m0 m1 m2 m3 m4 m5)
      let ck := u64KeyBytes (macU64Shift m0 m1 m2 m3 m4 m5)
      let gip := ipGo "subscriber_bindings" "value" "ipv4_addr" p q r s
      let glpm := leBytes 4 plen ++ ipGo "allowed_ranges_v4" "key" "ip" n0 n1 n2 n3
      let clpm := leBytes 4 32 ++ ipC "allowed_ranges_v4" "key" "ip" p q r s
      let strict := if ipC "subscriber_bindings" "value" "ipv4_addr" p q r s == gip then "0" else "2"
      { modelObs := s!"go.k={hexOf gk} c.k={hexOf ck} go.ipv4_addr={hexOf gip} go.lpm={hexOf glpm} c.lpm={hexOf clpm} c.strict={strict}",
        viols :=
          (if tok impl "go.k" == tok impl "c.k" then [] else
            [("key", "none", s!"mac:(subscriber_bindings,key) go={tok impl "go.k"} c={tok impl "c.k"}")]) ++
          -- the subscriber sends from its bound address: strict mode must let it pass (TC_ACT_OK = 0)
          (if tok impl "c.strict" == "0" then [] else
            let got := tokBytes impl "go.ipv4_addr"
            let want := ipC "subscriber_bindings" "value" "ipv4_addr" p q r s
            [("byteorder", d10Clause "subscriber_bindings" "value" "ipv4_addr" got want,
              s!"ipv4:(subscriber_bindings,value,ipv4_addr) go={hexOf got} program-compares-with={hexOf want} verdict-for-own-address={tok impl "c.strict"}")]) ++
          -- the trie matches the first plen bits of the data in memory order: the stored network address must be
          -- presented the way the program presents the source address it looks up
          ipCheck "lpm" "allowed_ranges_v4" "key" "ip" ((tokBytes impl "go.lpm").drop 4)
            (ipC "allowed_ranges_v4" "key" "ip" n0 n1 n2 n3) }
    | _, _ => { modelObs := "badop" }
  | _, _, _ => { modelObs := "badop" }

def dhcpOpts (cid : Option (List UInt8)) : List UInt8 :=
  let o := [53, 1, 1] ++ (match cid with
    | some c => [82, UInt8.ofNat (c.length + 2), 1, UInt8.ofNat c.length] ++ c
    | none => []) ++ [255]
  o ++ List.replicate (80 - o.length) 0

def xDhcp (a : List (String × String)) (impl : String) : LineResult :=
  let ipOf := fun k => (argBytes a k).bind ip4
  match (argBytes a "mac").bind mac6, ipOf "ip", ipOf "gw", ipOf "dns1", ipOf "dns2", ipOf "srv" with
  | some (m0, m1, m2, m3, m4, m5), some (i0, i1, i2, i3), some (g0, g1, g2, g3), some (d0, d1, d2, d3),
      some (e0, e1, e2, e3), some (s0, s1, s2, s3) =>
    let sTag := (arg a "s").toNat?
    let cTag := (arg a "c").toNat?
    let cid := if arg a "cid" == "-" then none else argBytes a "cid"
    let goMac := u64KeyBytes (macU64GoLoop [m0, m1, m2, m3, m4, m5])
    let cMac := u64KeyBytes (macU64CLoop m0 m1 m2 m3 m4 m5)
    let goVlan := match sTag with
      | some s => hexOf (vlanKeyGo s (cTag.getD 0))
      | none => "-"
    let cVlan := match sTag with
      | some s => hexOf (vlanKeyC (tciBytes 5 0 s) (cTag.map fun c => tciBytes 3 0 c))
      | none => "-"
    let goCid := match cid with
      | some c => hexOf (circuitKeyGo c)
      | none => "-"
    let cCid := match cid with
      | some _ => (match circuitKeyC (dhcpOpts cid) with | some k => hexOf k | none => "none")
      | none => "-"
    let gIp := ipGo "subscriber_pools" "value" "allocated_ip" i0 i1 i2 i3
    let gGw := ipGo "ip_pools" "value" "gateway" g0 g1 g2 g3
    let gD1 := ipGo "ip_pools" "value" "dns_primary" d0 d1 d2 d3
    let gD2 := ipGo "ip_pools" "value" "dns_secondary" e0 e1 e2 e3
    let gSrv := ipGo "server_config" "value" "server_ip" s0 s1 s2 s3
    let yi := wireC "subscriber_pools" "value" "allocated_ip" gIp
    let si := wireC "server_config" "value" "server_ip" gSrv
    let rt := wireC "ip_pools" "value" "gateway" gGw
    let dn := wireC "ip_pools" "value" "dns_primary" gD1 ++ wireC "ip_pools" "value" "dns_secondary" gD2
    let yiV := match sTag with
      | some _ => hexOf (wireC "vlan_subscriber_pools" "value" "allocated_ip" gIp)
      | none => "-"
    -- the circuit-id map is hit only when the C parser finds the circuit-id (else the MAC lookup misses: PASS = 2)
    let yiC := match cid with
      | some _ => (match circuitKeyC (dhcpOpts cid) with
          | some _ => hexOf (wireC "circuit_id_subscribers" "value" "allocated_ip" gIp)
          | none => "ret2")
      | none => "-"
    let wire := fun (what m leaf : String) (got want : List UInt8) =>
      if got == want then ([] : List Verdict) else
        [(if got == want.reverse then "byteorder" else "key", d10Clause m "value" leaf got want,
          s!"{what}:({m},value,{leaf}) reply-carries={hexOf got} configured={hexOf want}")]
    { modelObs := s!"go.mac={hexOf goMac} c.mac={hexOf cMac} go.vlan={goVlan} c.vlan={cVlan} go.cid={goCid} c.cid={cCid} " ++
        s!"go.allocated_ip={hexOf gIp} go.gateway={hexOf gGw} go.dns={hexOf gD1}{hexOf gD2} go.server_ip={hexOf gSrv} " ++
        s!"c.ret=3 c.yiaddr={hexOf yi} c.siaddr={hexOf si} c.serverid={hexOf si} c.router={hexOf rt} c.dns={hexOf dn} " ++
        s!"c.yiaddr.vlan={yiV} c.yiaddr.cid={yiC}",
      viols :=
        (if tok impl "go.mac" == tok impl "c.mac" then [] else
          [("key", "none", s!"mac:(subscriber_pools,key) go={tok impl "go.mac"} c={tok impl "c.mac"}")]) ++
        (if tok impl "go.vlan" == tok impl "c.vlan" then [] else
          [("key", "none", s!"vlan:(vlan_subscriber_pools,key) go={tok impl "go.vlan"} c={tok impl "c.vlan"}")]) ++
        (if tok impl "go.cid" == tok impl "c.cid" then [] else
          [("key", "none", s!"circuit-id:(circuit_id_subscribers,key) go={tok impl "go.cid"} c={tok impl "c.cid"}")]) ++
        -- the reply must carry the configured addresses
        wire "yiaddr" "subscriber_pools" "allocated_ip" (tokBytes impl "c.yiaddr") [i0, i1, i2, i3] ++
        (if sTag.isSome then wire "yiaddr" "vlan_subscriber_pools" "allocated_ip" (tokBytes impl "c.yiaddr.vlan") [i0, i1, i2, i3] else []) ++
        (if cid.isSome && (tok impl "c.yiaddr.cid").length == 8 then
          wire "yiaddr" "circuit_id_subscribers" "allocated_ip" (tokBytes impl "c.yiaddr.cid") [i0, i1, i2, i3] else []) ++
        wire "siaddr" "server_config" "server_ip" (tokBytes impl "c.siaddr") [s0, s1, s2, s3] ++
        wire "router" "ip_pools" "gateway" (tokBytes impl "c.router") [g0, g1, g2, g3] ++
        wire "dns1" "ip_pools" "dns_primary" ((tokBytes impl "c.dns").take 4) [d0, d1, d2, d3] ++
        wire "dns2" "ip_pools" "dns_secondary" ((tokBytes impl "c.dns").drop 4) [e0, e1, e2, e3] }
  | _, _, _, _, _, _ => { modelObs := "badop" }

def xNat (a : List (String × String)) (impl : String) : LineResult :=
  let ipOf := fun k => (argBytes a k).bind ip4
  match ipOf "priv", ipOf "pub", ipOf "dst", (arg a "sport").toNat?, (arg a "dport").toNat?, (arg a "proto").toNat? with
  | some (p0, p1, p2, p3), some (u0, u1, u2, u3), some (d0, d1, d2, d3), some sport, some dport, some proto =>
    let gPriv := ipGo "subscriber_nat" "key" "" p0 p1 p2 p3
    let gPub := ipGo "subscriber_nat" "value" "block.public_ip" u0 u1 u2 u3
    let gHair := ipGo "hairpin_ips" "key" "" u0 u1 u2 u3
    let gSrc := ipGo "nat_sessions" "key" "src_ip" p0 p1 p2 p3
    let gDst := ipGo "nat_sessions" "key" "dst_ip" d0 d1 d2 d3
    let gEimIp := ipGo "eim_table" "key" "internal_ip" p0 p1 p2 p3
    let goAlgK := leBytes 4 (algKeyGo dport proto)
    let goAlgV := leBytes 2 dport ++ [UInt8.ofNat proto, 1, 0, 0, 0, 0]
    let cSub := ipC "subscriber_nat" "key" "" p0 p1 p2 p3
    let cAlg := leBytes 4 (algKeyC (UInt8.ofNat (dport / 256)) (UInt8.ofNat (dport % 256)) proto)
    let cHair := ipC "hairpin_ips" "key" "" d0 d1 d2 d3
    let tail := [UInt8.ofNat proto, 0, 0, 0]
    let cSess := ipC "nat_sessions" "key" "src_ip" p0 p1 p2 p3 ++ ipC "nat_sessions" "key" "dst_ip" d0 d1 d2 d3 ++
      portC "nat_sessions" "key" "src_port" sport ++ portC "nat_sessions" "key" "dst_port" dport ++ tail
    let cEim := ipC "eim_table" "key" "internal_ip" p0 p1 p2 p3 ++ portC "eim_table" "key" "internal_port" sport ++
      [UInt8.ofNat proto, 0]
    let goSess := gSrc ++ gDst ++ portFieldGo sport ++ portFieldGo dport ++ tail
    let goEim := gEimIp ++ portFieldGo sport ++ [UInt8.ofNat proto, 0]
    let snat := wireC "subscriber_nat" "value" "block.public_ip" gPub
    let lookup := if goSess == cSess then "found" else "notfound"
    let eim := if goEim == cEim then "found" else "notfound"
    let missV := fun (what m : String) (ipLeaves : List (String × List UInt8 × List UInt8))
        (portLeaves : List (String × List UInt8 × List UInt8)) =>
      (ipLeaves.filterMap fun (leaf, got, want) =>
        if got == want then none else
          some ((if got == want.reverse then "byteorder" else "key", d10Clause m "key" leaf got want,
            s!"{what}:({m},key,{leaf}) go={hexOf got} program-stores={hexOf want} go-lookup-misses") : Verdict)) ++
      (portLeaves.filterMap fun (leaf, got, want) =>
        if got == want then none else
          some ((if got == want.reverse then "byteorder" else "key", portClause m "key" leaf got want,
            s!"{what}:({m},key,{leaf}) go={hexOf got} program-stores={hexOf want} go-lookup-misses") : Verdict))
    -- read-back: bytes the program stores in the value leaves, and what Go presents after decoding them
    let allocPort := 1024   -- first block of a fresh manager (ManagerConfig defaults), first port of the block
    let stIp := fun (leaf : String) (a b c d : UInt8) =>
      ordOf a b c d (match ipField? "nat_sessions" "value" leaf with | some f => f.c | none => .wire)
    let present := fun (stored : List UInt8) => hexOf stored.reverse              -- Go: LE integer, shown big-endian
    let presentPort := fun (stored : List UInt8) => toHexW (leVal stored) 4
    let rd := s!"rd.nat_ip={present (stIp "nat_ip" u0 u1 u2 u3)} rd.orig_ip={present (stIp "orig_ip" p0 p1 p2 p3)} " ++
      s!"rd.dest_ip={present (stIp "dest_ip" d0 d1 d2 d3)} rd.nat_port={presentPort (portC "nat_sessions" "value" "nat_port" allocPort)} " ++
      s!"rd.orig_port={presentPort (portC "nat_sessions" "value" "orig_port" sport)} rd.dest_port={presentPort (portC "nat_sessions" "value" "dest_port" dport)}"
    let rde := s!"rde.external_ip={present (ordOf u0 u1 u2 u3 (match ipField? "eim_table" "value" "external_ip" with | some f => f.c | none => .wire))} " ++
      s!"rde.external_port={presentPort (portC "eim_table" "value" "external_port" allocPort)}"
    let rdIp := fun (m leaf tokn : String) (want : List UInt8) =>
      let got := tokBytes impl tokn
      if got.isEmpty || got == want then ([] : List Verdict) else
        [(if got == want.reverse then "byteorder" else "key", d10Clause m "value" leaf got want,
          s!"read-back:({m},value,{leaf}) go-presents={hexOf got} flow-has={hexOf want}")]
    let rdPort := fun (m leaf tokn : String) (want : Nat) =>
      let got := tokBytes impl tokn
      let wantB := [UInt8.ofNat (want / 256), UInt8.ofNat (want % 256)]
      if got.isEmpty || got == wantB then ([] : List Verdict) else
        [(if got == wantB.reverse then "byteorder" else "key", portClause m "value" leaf got wantB,
          s!"read-back:({m},value,{leaf}) go-presents-port={hexOf got} flow-has={hexOf wantB}")]
    let wirePort := leVal (tokBytes impl "c.snat_port").reverse
    let cs := tokBytes impl "c.sess.k"
    let ce := tokBytes impl "c.eim.k"
    { modelObs := s!"go.hairpin={hexOf gHair} go.sub.k={hexOf gPriv} go.sub.public_ip={hexOf gPub} go.alg.k={hexOf goAlgK} go.alg.v={hexOf goAlgV} " ++
        s!"c.sub.k={hexOf cSub} c.alg.k={hexOf cAlg} c.hairpin.k={hexOf cHair} c.sess.k={hexOf cSess} c.eim.k={hexOf cEim} c.ret=0 " ++
        s!"c.snat_src={hexOf snat} c.snat_port={toHexW allocPort 4} go.lookup={lookup} go.eim={eim} {rd} {rde}",
      viols :=
        ipCheck "key" "subscriber_nat" "key" "" (tokBytes impl "go.sub.k") (tokBytes impl "c.sub.k") ++
        -- the hairpin set is keyed by what the program computes for a destination; Go stored the public address
        ipCheck "key" "hairpin_ips" "key" "" (tokBytes impl "go.hairpin") (ipC "hairpin_ips" "key" "" u0 u1 u2 u3) ++
        (if tok impl "go.alg.k" == tok impl "c.alg.k" then [] else
          [("key", "none", s!"alg:(alg_ports,key) go={tok impl "go.alg.k"} c={tok impl "c.alg.k"}")]) ++
        -- the translated source address on the wire must be the configured public address
        (let got := tokBytes impl "c.snat_src"; let want := [u0, u1, u2, u3]
         if got == want then [] else
          [(if got == want.reverse then "byteorder" else "key", d10Clause "subscriber_nat" "value" "block.public_ip" got want,
            s!"snat:(subscriber_nat,value,block.public_ip) wire-source={hexOf got} configured={hexOf want}")]) ++
        -- a session / mapping the program created must be found by the Go lookup for the same flow
        (if tok impl "go.lookup" == "found" then [] else
          missV "session" "nat_sessions"
            [("src_ip", gSrc, cs.take 4), ("dst_ip", gDst, (cs.drop 4).take 4)]
            [("src_port", portFieldGo sport, (cs.drop 8).take 2), ("dst_port", portFieldGo dport, (cs.drop 10).take 2)]) ++
        (if tok impl "go.eim" == "found" then [] else
          missV "eim" "eim_table" [("internal_ip", gEimIp, ce.take 4)] [("internal_port", portFieldGo sport, (ce.drop 4).take 2)]) ++
        -- what Go decodes from the value the program wrote must be the flow's addresses and ports
        rdIp "nat_sessions" "nat_ip" "rd.nat_ip" [u0, u1, u2, u3] ++
        rdIp "nat_sessions" "orig_ip" "rd.orig_ip" [p0, p1, p2, p3] ++
        rdIp "nat_sessions" "dest_ip" "rd.dest_ip" [d0, d1, d2, d3] ++
        rdPort "nat_sessions" "nat_port" "rd.nat_port" wirePort ++
        rdPort "nat_sessions" "orig_port" "rd.orig_port" sport ++
        rdPort "nat_sessions" "dest_port" "rd.dest_port" dport ++
        rdIp "eim_table" "external_ip" "rde.external_ip" [u0, u1, u2, u3] ++
        rdPort "eim_table" "external_port" "rde.external_port" wirePort }
  | _, _, _, _, _, _ => { modelObs := "badop" }

/-- `x purge priv= src= bsrc= pub= dst= sport= dport= proto=`: the real `DeallocateNAT(priv)` → `purgeSubscriberState` on
    real maps holding the session / reverse entry / EIM mapping the natively compiled nat44_egress created for a flow
    whose WIRE source is `src`, and those of a bystander subscriber `bsrc`.
    Model: the keys the program builds (convention tables `ipFields`, `portFields`, `carriedLeaves`), what the generated
    Go layouts decode from them, and `KeyEnc.purgeSelects` for what is deleted.
    Property: Go reads the entries as the program wrote them (layout), and releasing subscriber `priv` removes the
    entries of the flows from `priv` and no others. -/
def xPurge (a : List (String × String)) (impl : String) : LineResult :=
  let ipOf := fun k => (argBytes a k).bind ip4
  match ipOf "priv", ipOf "src", ipOf "bsrc", ipOf "pub", ipOf "dst", (arg a "sport").toNat?, (arg a "dport").toNat?, (arg a "proto").toNat? with
  | some (p0, p1, p2, p3), some (s0, s1, s2, s3), some (b0, b1, b2, b3), some (u0, u1, u2, u3), some (d0, d1, d2, d3),
      some sport, some dport, some proto =>
    let priv := [p0, p1, p2, p3]
    let src := [s0, s1, s2, s3]
    let bsrc := [b0, b1, b2, b3]
    if bsrc == priv || bsrc == src then { modelObs := "badop" } else
    if !isPrivateWire s0 s1 || !isPrivateWire b0 b1 then { modelObs := "nosession a=0 b=0" } else
    let allocPort := 1024   -- `priv` is the first allocation of a fresh manager: first block, first port
    let tail := [UInt8.ofNat proto, 0, 0, 0]
    let goSub := ipGo "subscriber_nat" "key" "" p0 p1 p2 p3
    let cSub := ipC "subscriber_nat" "key" "" s0 s1 s2 s3
    let cSess := ipC "nat_sessions" "key" "src_ip" s0 s1 s2 s3 ++ ipC "nat_sessions" "key" "dst_ip" d0 d1 d2 d3 ++
      portC "nat_sessions" "key" "src_port" sport ++ portC "nat_sessions" "key" "dst_port" dport ++ tail
    let cRevK := carriedIpC "nat_reverse" "key" "src_ip" d0 d1 d2 d3 ++ carriedIpC "nat_reverse" "key" "dst_ip" u0 u1 u2 u3 ++
      carriedPortC "nat_reverse" "key" "src_port" dport ++ carriedPortC "nat_reverse" "key" "dst_port" allocPort ++ tail
    let cRevV := ipC "nat_reverse" "value" "src_ip" s0 s1 s2 s3 ++ carriedIpC "nat_reverse" "value" "dst_ip" d0 d1 d2 d3 ++
      carriedPortC "nat_reverse" "value" "src_port" sport ++ carriedPortC "nat_reverse" "value" "dst_port" dport ++ tail
    let cEim := ipC "eim_table" "key" "internal_ip" s0 s1 s2 s3 ++ portC "eim_table" "key" "internal_port" sport ++
      [UInt8.ofNat proto, 0]
    match findUse "nat_sessions" "nat.natSessionKey" "nat.NATSession", findUse "nat_reverse" "nat.natSessionKey" "nat.natSessionKey",
        findUse "eim_table" "nat.EIMKey" "nat.EIMMapping" with
    | some uS, some uR, some uE =>
      let goV := fun (u : MapUse) => u.goVal.getD u.goKey
      let sel := fun (stored : List UInt8) => purgeSelects p0 p1 p2 p3 (stored.take 4)
      let yes := fun (b : Bool) => if b then "yes" else "no"
      let kept := fun (b : Bool) => if b then "gone" else "kept"
      let bSel := sel (ipC "nat_sessions" "key" "src_ip" b0 b1 b2 b3)
      let bSelR := sel (ipC "nat_reverse" "value" "src_ip" b0 b1 b2 b3)
      let bSelE := sel (ipC "eim_table" "key" "internal_ip" b0 b1 b2 b3)
      let model := s!"go.sub.k={hexOf goSub} c.sub.k={hexOf cSub} c.sess.k={hexOf cSess} c.rev.k={hexOf cRevK} c.rev.v={hexOf cRevV} " ++
        s!"c.eim.k={hexOf cEim} it.sess.k={leafStrings uS.goKey cSess} it.rev.k={leafStrings uR.goKey cRevK} " ++
        s!"it.rev.v={leafStrings (goV uR) cRevV} it.eim.k={leafStrings uE.goKey cEim} dealloc=ok " ++
        s!"gone.sess={yes (sel cSess)} gone.rev={yes (sel cRevV)} gone.eim={yes (sel cEim)} " ++
        s!"by.sess={kept bSel} by.rev={kept bSelR} by.eim={kept bSelE}"
      -- (a) layout: what Go's typed iteration decoded from the bytes the program wrote = what the C record says is there
      let readCheck := fun (what : String) (g c : Struct) (rawTok itTok : String) =>
        let raw := tokBytes impl rawTok
        let want := leafStrings c raw
        if tok impl itTok == want then ([] : List Verdict) else
          match firstDisagreement 0 (named g.fields) (named c.fields) with
          | some (_, gf, cf, w) => [(if w == "offset" || w == "count" then "offset" else "width", "none",
              s!"purge-iteration:{what} go={g.name} c={c.name} field go:{gf} c:{cf} {w} program-wrote={hexOf raw} go-reads:{tok impl itTok} c-record:{want}")]
          | none => [("size", "none", s!"purge-iteration:{what} go={g.name} c={c.name} program-wrote={hexOf raw} go-reads:{tok impl itTok} c-record:{want}")]
      -- (b) releasing `priv` must remove the entries of the flows from `priv` (as the program stores that address) and no others
      let got := tokBytes impl "go.sub.k"
      let own := src == priv
      let rel := fun (m side leaf goneTok : String) =>
        let removed := tok impl goneTok == "yes"
        if removed == own then ([] : List Verdict) else
          [(if got == priv.reverse then "byteorder" else "key", d10Clause m side leaf got priv,
            s!"purge:({m},{side},{leaf}) DeallocateNAT({hexOf priv}) compares the leaf with {hexOf got}; the program stores {hexOf priv} for that subscriber; " ++
            (if own then s!"the subscriber's own entry (wire source {hexOf src}) is left behind"
             else s!"the entry of the flow from {hexOf src} is removed instead"))]
      let bys := fun (m side leaf byTok : String) =>
        if tok impl byTok != "gone" then ([] : List Verdict) else
          [(if got == priv.reverse then "byteorder" else "key", d10Clause m side leaf got priv,
            s!"purge:({m},{side},{leaf}) DeallocateNAT({hexOf priv}) compares the leaf with {hexOf got} and removed the entry of the bystander flow from {hexOf bsrc}")]
      { modelObs := model,
        viols :=
          readCheck "nat_sessions.key" uS.goKey uS.cKey "c.sess.k" "it.sess.k" ++
          readCheck "nat_reverse.key" uR.goKey uR.cKey "c.rev.k" "it.rev.k" ++
          readCheck "nat_reverse.value" (goV uR) uR.cVal "c.rev.v" "it.rev.v" ++
          readCheck "eim_table.key" uE.goKey uE.cKey "c.eim.k" "it.eim.k" ++
          rel "nat_sessions" "key" "src_ip" "gone.sess" ++ rel "nat_reverse" "value" "src_ip" "gone.rev" ++
          rel "eim_table" "key" "internal_ip" "gone.eim" ++
          bys "nat_sessions" "key" "src_ip" "by.sess" ++ bys "nat_reverse" "value" "src_ip" "by.rev" ++
          bys "eim_table" "key" "internal_ip" "by.eim" }
    | _, _, _ => { modelObs := "badop no-purge-use-in-the-generated-table" }
  | _, _, _, _, _, _, _, _ => { modelObs := "badop" }

def xFnv (a : List (String × String)) : LineResult :=
  match argBytes a "cid", (argBytes a "mac").bind mac6 with
  | some cid, some (m0, m1, m2, m3, m4, m5) =>
    { modelObs := s!"go.k={hexOf (leBytes 8 (fnv1aGo cid))} go.v={hexOf (u64KeyBytes (macU64GoLoop [m0, m1, m2, m3, m4, m5]))}" }
  | _, _ => { modelObs := "badop" }

def xWg (a : List (String × String)) : LineResult :=
  match (argBytes a "ip").bind ip4, (arg a "port").toNat? with
  | some (p, q, r, s), some port =>
    let k := leBytes 8 (allowedDestKeyGo p q r s port 6)
    let v := ipFieldGo p q r s ++ leBytes 2 port ++ [6, 0] ++ leBytes 4 2
    { modelObs := s!"go.k={hexOf k} go.v={hexOf v}" }
  | _, _ => { modelObs := "badop" }

/-- a real manager method returned an error before anything could be read back (`AllocateNAT:err size-value`):
    the marshalling was rejected — one `size` verdict instead of a cascade of missing-token verdicts -/
def apiFailure (r : LineResult) (impl : String) : LineResult :=
  if impl.startsWith "go." then r
  else if (impl.splitOn "err size").length > 1 then
    { r with viols := [("size", "none", s!"a map call of the real manager was rejected by cilium: {impl}")] }
  else { r with viols := [] }

/-! ## the real Go key derivations on systematic inputs (`kf …`)

  The monitor judges the IMPLEMENTATION's answers twice: the key the real Go function produced must be the
  key the natively compiled program derives for the same input (where a kernel side exists), and it must be
  the key of the model the all-input theorems of Spec/C06 are about — a Go function that drifts from the
  proved model is a `key` verdict with the input as the failing input, not only a DIFF. -/

def kfCidOpts (cid : List UInt8) (extra : Nat) : List UInt8 :=
  let o := [53, 1, 1, 82, UInt8.ofNat (cid.length + 2 + extra), 1, UInt8.ofNat cid.length] ++ cid ++
    List.replicate extra 0 ++ [255]
  o ++ List.replicate (80 - o.length) 0

def goVsModel (what input got want : String) : List Verdict :=
  if got == want then [] else
    [("key", "none", s!"{what}: the real Go derivation differs from the proved model on input {input}: go={got} model={want}")]

def goVsC (what input got c : String) : List Verdict :=
  if got == c then [] else
    [("key", "none", s!"{what}: Go and the kernel program derive different keys for input {input}: go={got} c={c}")]

def doKf (toks : List String) (impl : String) : LineResult :=
  match toks with
  | ["kf", "cid", ch, ex] =>
    match parseHexBytes ch, ex.toNat? with
    | some cid, some extra =>
      let go := hexOf (circuitKeyGo cid)
      let c := match circuitKeyC (kfCidOpts cid extra) with | some k => hexOf k | none => "none"
      -- the program recognises the circuit-id (first branch of extract_circuit_id_fixed) exactly in this range
      let recognised := decide (0 < cid.length ∧ cid.length ≤ 32 ∧ 4 ≤ cid.length + 2 + extra)
      { modelObs := s!"go={go} c={c}",
        viols := goVsModel "MakeCircuitIDKey" ch (tok impl "go") go ++
          (if recognised then goVsC "circuit-id key (circuit_id_subscribers)" ch (tok impl "go") (tok impl "c") else []) }
    | _, _ => { modelObs := "badop" }
  | ["kf", "mac", mh] =>
    match (parseHexBytes mh).bind mac6 with
    | some (m0, m1, m2, m3, m4, m5) =>
      let go := hexOf (u64KeyBytes (macU64GoLoop [m0, m1, m2, m3, m4, m5]))
      let cd := hexOf (u64KeyBytes (macU64CLoop m0 m1 m2 m3 m4 m5))
      let ca := hexOf (u64KeyBytes (macU64Shift m0 m1 m2 m3 m4 m5))
      { modelObs := s!"go={go} c.dhcp={cd} c.antispoof={ca}",
        viols := goVsModel "MACToUint64" mh (tok impl "go") go ++
          goVsC "MAC key (subscriber_pools)" mh (tok impl "go") (tok impl "c.dhcp") ++
          goVsC "MAC key (subscriber_bindings)" mh (tok impl "go") (tok impl "c.antispoof") }
    | none => { modelObs := "badop" }
  | ["kf", "macn", mh] =>
    -- every MAC conversion the translator found in the repository, on a hardware address of any length
    match parseHexBytes mh with
    | some mac =>
      let key (n : Nat) := hexOf (u64KeyBytes n)
      -- the model of each Go conversion, by name; a conversion without a model is a DIFF ("unmodelled")
      let fwd : String → Option (Option Nat) := fun f =>
        if f == "pkg/ebpf.MACToUint64" || f == "pkg/walledgarden.macToUint64" then some (some (macU64GoLoop mac))
        else if f == "pkg/antispoof.macToUint64" then some (macU64ShiftL mac)
        else none
      let showFwd := fun (r : Option (Option Nat)) => match r with
        | some (some n) => key n
        | some none => "panic"
        | none => "unmodelled"
      let pairOf := fun (b : String) =>
        if b == "pkg/ebpf.Uint64ToMAC" then "pkg/ebpf.MACToUint64"
        else if b == "pkg/walledgarden.uint64ToMAC" then "pkg/walledgarden.macToUint64" else "?"
      let showBack := fun (b : String) => match fwd (pairOf b) with
        | some (some n) => hexOf (u64ToMac n)
        | some none => "panic"
        | none => "unmodelled"
      let c := key (macU64COf mac)
      let model := " ".intercalate (
        (macToU64Funcs.map fun f => s!"go:{f}={showFwd (fwd f)}") ++
        (u64ToMacFuncs.map fun b => s!"back:{b}={showBack b}") ++ [s!"c.dhcp={c}", s!"c.antispoof={c}"])
      -- the property, for a real hardware address (six bytes or more): every conversion yields the key the programs
      -- derive = the big-endian number of the FIRST six bytes, and the reverse gives those six bytes back
      let want := key (macKey6 mac)
      let viols : List Verdict :=
        if mac.length < 6 then
          macToU64Funcs.flatMap fun f => goVsModel s!"{f} (short address, {mac.length} bytes)" mh (tok impl ("go:" ++ f)) (showFwd (fwd f))
        else
          (macToU64Funcs.flatMap fun f =>
            let got := tok impl ("go:" ++ f)
            (if got == want then [] else
              [("key", "none", s!"{f}: key of the {mac.length}-byte hardware address {mh} is {got}, the first-six-bytes key is {want}")]) ++
            (if got == tok impl "c.dhcp" && got == tok impl "c.antispoof" then [] else
              [("key", "none", s!"{f}: key {got} for {mh} differs from the kernel's mac_to_u64 (dhcp {tok impl "c.dhcp"}, antispoof {tok impl "c.antispoof"})")])) ++
          (u64ToMacFuncs.flatMap fun b =>
            let got := tok impl ("back:" ++ b)
            if got == hexOf (mac.take 6) then [] else
              [("key", "none", s!"{b}∘{pairOf b}: {mh} comes back as {got}, not as its first six bytes {hexOf (mac.take 6)}")])
      { modelObs := model, viols := viols }
    | none => { modelObs := "badop" }
  | ["kf", "vlan", ss, cs, p1, d1, p2, d2] =>
    match ss.toNat?, p1.toNat?, d1.toNat?, p2.toNat?, d2.toNat? with
    | some s, some p1, some d1, some p2, some d2 =>
      let cTag := cs.toNat?
      let go := hexOf (vlanKeyGo s (cTag.getD 0))
      let c := hexOf (vlanKeyC (tciBytes p1 d1 s) (cTag.map fun c => tciBytes p2 d2 c))
      let inp := s!"s={ss} c={cs} pcp/dei={p1}/{d1},{p2}/{d2}"
      { modelObs := s!"go={go} c={c}",
        viols := goVsModel "VLANKey" inp (tok impl "go") go ++ goVsC "VLAN key (vlan_subscriber_pools)" inp (tok impl "go") (tok impl "c") }
    | _, _, _, _, _ => { modelObs := "badop" }
  | ["kf", "ip", ih] =>
    match (parseHexBytes ih).bind ip4 with
    | some (a, b, c, d) =>
      let go := hexOf (ipFieldGo a b c d)
      { modelObs := s!"go={go}", viols := goVsModel "IPToUint32" ih (tok impl "go") go }
    | none => { modelObs := "badop" }
  | ["kf", "fnv", ch] =>
    match parseHexBytes ch with
    | some cid =>
      let go := hexOf (leBytes 8 (fnv1aGo cid))
      { modelObs := s!"go={go}", viols := goVsModel "HashCircuitID" ch (tok impl "go") go }
    | none => { modelObs := "badop" }
  | ["kf", "alg", ps, qs] =>
    match ps.toNat?, qs.toNat? with
    | some port, some proto =>
      let go := hexOf (leBytes 4 (algKeyGo port proto))
      let c := hexOf (leBytes 4 (algKeyC (UInt8.ofNat (port / 256)) (UInt8.ofNat (port % 256)) proto))
      let inp := s!"port={ps} proto={qs}"
      { modelObs := s!"go={go} c={c}",
        viols := goVsModel "ALG key" inp (tok impl "go") go ++ goVsC "ALG key (alg_ports)" inp (tok impl "go") (tok impl "c") }
    | _, _ => { modelObs := "badop" }
  | _ => { modelObs := "badop" }

def step (st : Unit) (toks : List String) (impl : String) : Unit × LineResult :=
  let r : LineResult := match toks with
    | ["new"] => { modelObs := "ok" }
    | "put" :: _ => doPut toks impl
    | "get" :: _ => doGet toks impl
    | "iter" :: _ => doIter toks impl
    | "percpu" :: _ => doPercpu toks impl
    | "pget" :: _ => doPget toks impl
    | "nput" :: _ => doNput toks impl
    | "cfg" :: _ => doCfg toks impl
    | "x" :: "qos" :: rest => apiFailure (xQos (kvOf rest) impl) impl
    | "x" :: "antispoof" :: rest => apiFailure (xAntispoof (kvOf rest) impl) impl
    | "x" :: "dhcp" :: rest => apiFailure (xDhcp (kvOf rest) impl) impl
    | "x" :: "nat" :: rest => apiFailure (xNat (kvOf rest) impl) impl
    | "x" :: "purge" :: rest => apiFailure (xPurge (kvOf rest) impl) impl
    | "x" :: "fnv" :: rest =>
      let r := xFnv (kvOf rest)
      { r with viols := if impl.startsWith "go." then goVsModel "HashCircuitID/MACToUint64 (circuit_id_map entry)" (" ".intercalate rest) impl r.modelObs else [] }
    | "x" :: "wg" :: rest =>
      let r := xWg (kvOf rest)
      { r with viols := if impl.startsWith "go." then goVsModel "allowedDestKey (walled-garden entry)" (" ".intercalate rest) impl r.modelObs else [] }
    | ["kf", "cidraw", o] => match parseHexBytes o with
      | some opts => { modelObs := match circuitKeyC opts with | some k => s!"c={hexOf k}" | none => "c=none" }
      | none => { modelObs := "badop" }
    | "kf" :: _ => doKf toks impl
    | _ => { modelObs := "badop" }
  (st, r)

def component : Component := { σ := Unit, init := (), step := step }

end Bng.Drv.LayoutDrv
