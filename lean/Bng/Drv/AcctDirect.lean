import Bng.Drv.Common
import Bng.Model.AcctDirect
/-
  bngdrv component `acctdirect`: replays traces of harness/cmd/acctdirect (the real DHCPv4 slow path and the real
  PPPoE teardown with the real radius.Client against an accounting server that can be down) on Bng.AcctDirect and
  judges the server-side record stream of the implementation.

    new          => ok
    srv u|d      => ok
    dreq m<k>    => ack new|renew acc=<recs>
    drel m<k>    => ok|none acc=<recs>
    pmk p<k>     => ok|exists
    ppadt p<k>   => ok|nosuch acc=<recs>
    final        => ok

  Monitor `lost-stop` (at `final`): a session the server knows of (its Start was accepted; a PPPoE session: it was
  established) has ended and the server has accepted no Stop for it.  Clause KF-acct-direct-send: the session ended
  while the accounting server was unreachable (the model's ghost `endedDown`).
  Monitor `dup-stop`: a second Stop of one session is accepted.
-/
namespace Bng.Drv.AcctDirectDrv
open Bng Bng.Drv Bng.AcctDirect

def showSid (s : Sid) : String :=
  match s.path with
  | .dhcp => s!"m{s.k}.{s.gen}"
  | .pppoe => s!"p{s.k}"

def showRec (r : Rec) : String := (if r.kind == .start then "start/" else "stop/") ++ showSid r.sid

def showAcc (σ0 σ : State) : String :=
  let xs := (σ.log.drop σ0.log.length).map showRec
  if xs.isEmpty then "acc=-" else "acc=" ++ ",".intercalate xs

/-- monitor state: what the implementation's server accepted, and which sessions the harness saw end -/
structure Mon where
  started : List String := []    -- Start accepted, or PPPoE session established
  stopped : List String := []
  ended : List String := []

structure St where
  model : Option State := none
  mon : Mon := {}

def implRecs (impl : String) : List String :=
  match (splitTokens impl).find? (fun t => t.startsWith "acc=") with
  | some t =>
    let body := String.ofList (t.toList.drop 4)
    if body == "-" then [] else body.splitOn ","
  | none => []

def dropPrefix (s : String) (n : Nat) : String := String.ofList (s.toList.drop n)

def feed (m : Mon) (impl : String) : Mon × List (String × String) :=
  (implRecs impl).foldl (fun (m, vs) r =>
    if r.startsWith "start/" then ({ m with started := dropPrefix r 6 :: m.started }, vs)
    else if r.startsWith "stop/" then
      let n := dropPrefix r 5
      if m.stopped.contains n then (m, vs ++ [("dup-stop", n)]) else ({ m with stopped := n :: m.stopped }, vs)
    else (m, vs ++ [("identifiers", r)])) (m, [])

def clauseOf (σ : State) (name : String) : String :=
  if σ.endedDown.any (fun s => showSid s == name) then "KF-acct-direct-send" else "none"

def step (st : St) (toks : List String) (impl : String) : St × LineResult :=
  let bad : St × LineResult := (st, { modelObs := "badop" })
  match st.model, toks with
  | none, ["new"] => ({ model := some {}, mon := {} }, { modelObs := "ok" })
  | some σ, ["srv", a] =>
    if a == "u" then ({ st with model := some (AcctDirect.step σ (.srv true)) }, { modelObs := "ok" })
    else if a == "d" then ({ st with model := some (AcctDirect.step σ (.srv false)) }, { modelObs := "ok" })
    else bad
  | some σ, [op, x] =>
    let finish := fun (σ' : State) (res : String) (acc : Bool) (endedName : Option String)
        (startName : Option String) =>
      let (mon, vs) := feed st.mon impl
      let mon := match endedName with | some n => { mon with ended := n :: mon.ended } | none => mon
      let mon := match startName with | some n => { mon with started := n :: mon.started } | none => mon
      let bads := (implRecs impl).filter (·.endsWith "!")
      (({ model := some σ', mon := mon } : St),
       ({ modelObs := if acc then s!"{res} {showAcc σ σ'}" else res,
          viols := vs.map (fun (n, d) => (n, "none", s!"{d}")) ++
                   bads.map (fun b => ("identifiers", "none", s!"record {b} carries another session's identifiers")) } : LineResult))
    match op, parseTagged 'm' x, parseTagged 'p' x with
    | "dreq", some k, _ =>
      if k < 1 ∨ k > 6 then bad else
      let σ' := AcctDirect.step σ (.dreq k)
      finish σ' (if (find σ.leases k).isSome then "ack renew" else "ack new") true none none
    | "drel", some k, _ =>
      if k < 1 ∨ k > 6 then bad else
      let σ' := AcctDirect.step σ (.drel k)
      match find σ.leases k with
      | some g => finish σ' "ok" true (some (showSid { path := .dhcp, k := k, gen := g })) none
      | none => finish σ' "none" true none none
    | "pmk", _, some k =>
      if k < 1 ∨ k > 6 then bad else
      let σ' := AcctDirect.step σ (.pmk k)
      if σ.pppUsed.contains k then finish σ' "exists" false none none
      else finish σ' "ok" false none (some s!"p{k}")
    | "ppadt", _, some k =>
      if k < 1 ∨ k > 6 then bad else
      let σ' := AcctDirect.step σ (.ppadt k)
      if σ.ppp.contains k then finish σ' "ok" true (some s!"p{k}") none
      else finish σ' "nosuch" false none none
    | _, _, _ => bad
  | some σ, ["final"] =>
    let lost := (st.mon.ended.reverse.filter fun n => st.mon.started.contains n && !st.mon.stopped.contains n).eraseDups
    (st, { modelObs := "ok",
           viols := lost.map fun n => ("lost-stop", clauseOf σ n,
             s!"session {n} is known to the accounting server, has ended, and no Stop of it was ever accepted") })
  | _, _ => bad

def component : Component := { σ := St, init := {}, step := step }

end Bng.Drv.AcctDirectDrv
