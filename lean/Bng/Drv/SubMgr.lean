import Bng.Drv.Common
import Bng.Model.SubMgr
/-
  bngdrv component `submgr`: replays traces of the real subscriber.Manager termination path and runs the
  C16 monitor on the implementation's observations.

    new                       => ok
    create s1 m1              => ok|exists <snap>
    assign s1                 => ok|notfound|exhausted <snap>
    touch s1 activate|wall|unwall => ok|notfound <snap>
    term s1                   => ok|notfound|busy <snap>  | badop (while calls are parked)
    tbegin A s1               => parked|done:ok|done:notfound|done:busy <snap> | badop
    tresume A                 => done:ok <snap> | badop
    abegin P s1               => parked|done:notfound <snap> | badop      (AssignAddress held inside the allocator call)
    aresume P                 => done:ok|done:exhausted|done:gone <snap> | badop
    fault rel4|rel6 on|off    => ok <snap>      the allocator's ReleaseIPv4 / ReleaseIPv6 fails (and keeps the address)
    snap: rel=<a:n,…|-> held=<a:s1,…|-> sess=<s1,…|-> byip=<a:s1,…|-> ended=<s1:n,…|-> allocs=<a:n,…|-> relf=<a:n,…|->
-/
namespace Bng.Drv.SubMgrDrv
open Bng Bng.Drv Bng.SubMgr

def insSorted (k : Nat) : List Nat → List Nat
  | [] => [k]
  | x :: r => if k ≤ x then k :: x :: r else x :: insSorted k r
def sortNat (l : List Nat) : List Nat := l.foldl (fun acc k => insSorted k acc) []

def j (l : List String) : String := if l.isEmpty then "-" else ",".intercalate l

def showSnap (s : M) : String :=
  let rel := (sortNat ((s.rel.filter (·.2 > 0)).map (·.1))).map fun a => s!"{a}:{count s.rel a}"
  let held := (sortNat (s.owner.map (·.1))).map fun a => s!"{a}:s{(AMap.lookup s.owner a).getD 0}"
  let sess := (sortNat (s.sessions.map (·.1))).map fun n => s!"s{n}"
  let byip := ([2, 3, 4].filterMap fun a =>
    match AMap.lookup s.byIp a with
    | some n => if (AMap.lookup s.sessions n).isSome then some s!"{a}:s{n}" else none
    | none => none)
  let ended := (sortNat ((s.ended.filter (·.2 > 0)).map (·.1))).map fun n => s!"s{n}:{count s.ended n}"
  let allocs := (sortNat ((s.allocs.filter (·.2 > 0)).map (·.1))).map fun a => s!"{a}:{count s.allocs a}"
  let relf := (sortNat ((s.relf.filter (·.2 > 0)).map (·.1))).map fun a => s!"{a}:{count s.relf a}"
  s!"rel={j rel} held={j held} sess={j sess} byip={j byip} ended={j ended} allocs={j allocs} relf={j relf}"

def tagOf (t : String) : Option Nat :=
  match t with | "A" => some 0 | "B" => some 1 | "C" => some 2 | "P" => some 3 | "Q" => some 4 | _ => none

def parseOp (toks : List String) : Option Op :=
  match toks with
  | ["create", n, m] => do let n ← parseTagged 's' n; let m ← parseTagged 'm' m; pure (.create n m)
  | ["assign", n] => (parseTagged 's' n).map .assign
  | ["term", n] => (parseTagged 's' n).map .term
  | ["tbegin", t, n] => do let t ← tagOf t; let n ← parseTagged 's' n; pure (.tbegin t n)
  | ["tresume", t] => (tagOf t).map .tresume
  | ["abegin", t, n] => do let t ← tagOf t; let n ← parseTagged 's' n; pure (.abegin t n)
  | ["aresume", t] => (tagOf t).map .aresume
  | ["touch", n, k] => if k == "activate" || k == "wall" || k == "unwall" then (parseTagged 's' n).map .touch else none
  | _ => none

def showRes (op : Op) (r : Res) (s : M) : String :=
  let word := match r with
    | .ok => "ok" | .exists_ => "exists" | .notfound => "notfound" | .exhausted => "exhausted"
    | .busy => "busy" | .parked => "parked" | .badop => "badop" | .gone => "gone"
  match op, r with
  | _, .badop => "badop"
  | .tbegin _ _, .parked => s!"parked {showSnap s}"
  | .tbegin _ _, _ => s!"done:{word} {showSnap s}"
  | .tresume _, _ => s!"done:{word} {showSnap s}"
  | .abegin _ _, .parked => s!"parked {showSnap s}"
  | .abegin _ _, _ => s!"done:{word} {showSnap s}"
  | .aresume _, _ => s!"done:{word} {showSnap s}"
  | _, _ => s!"{word} {showSnap s}"

/-! ### monitor -/
structure Mon where
  allocs : AMap Nat Nat := []     -- address → times it was handed out (the allocator's own counter)
  prevHeld : List (Nat × Nat) := []
  macs : AMap Nat Nat := []       -- session → MAC it was created with (from the create ops that succeeded)

def field (impl key : String) : String :=
  match (splitTokens impl).find? (fun t => t.startsWith (key ++ "=")) with
  | some t => (t.drop (key.length + 1)).toString
  | none => ""

def parsePairsNS (s : String) : List (Nat × Nat) :=   -- "2:s1,3:s2"
  if s == "-" || s.isEmpty then [] else
  (s.splitOn ",").filterMap fun item => match item.splitOn ":" with
    | [a, n] => do let a ← a.toNat?; let n ← parseTagged 's' n; pure (a, n)
    | _ => none
def parsePairsNN (s : String) : List (Nat × Nat) :=   -- "2:1"
  if s == "-" || s.isEmpty then [] else
  (s.splitOn ",").filterMap fun item => match item.splitOn ":" with
    | [a, n] => do let a ← a.toNat?; let n ← n.toNat?; pure (a, n)
    | _ => none
def parsePairsSN (s : String) : List (Nat × Nat) :=   -- "s1:2"
  if s == "-" || s.isEmpty then [] else
  (s.splitOn ",").filterMap fun item => match item.splitOn ":" with
    | [a, n] => do let a ← parseTagged 's' a; let n ← n.toNat?; pure (a, n)
    | _ => none
def parseNames (s : String) : List Nat :=
  if s == "-" || s.isEmpty then [] else (s.splitOn ",").filterMap (parseTagged 's')

/-- a verdict with the session / address it is about (used to attribute it to a recorded finding) -/
structure V where
  name : String
  detail : String
  sess : Option Nat := none
  addr : Option Nat := none

def monitor (mn : Mon) (op : Op) (impl : String) : Mon × List V :=
  if !(impl.contains "rel=") then (mn, []) else
  let rel := parsePairsNN (field impl "rel")
  let held := parsePairsNS (field impl "held")
  let sess := parseNames (field impl "sess")
  let byip := parsePairsNS (field impl "byip")
  let ended := parsePairsSN (field impl "ended")
  let word := ((splitTokens impl).head?).getD ""
  -- the allocator's own count of successful allocations per address (an address handed out and given straight back
  -- never shows in `held`)
  let allocs : AMap Nat Nat := parsePairsNN (field impl "allocs")
  let macs := match op with
    | .create n m => if word == "ok" then AMap.insert mn.macs n m else mn.macs
    | _ => mn.macs
  let v1 := rel.filterMap fun (a, c) =>
    if c > SubMgr.count allocs a then
      some { name := "double-release", detail := s!"address {a} was released {c} times but handed out {SubMgr.count allocs a} times", addr := some a : V }
    else none
  let v2 := ended.filterMap fun (n, c) =>
    if c > 1 then some { name := "double-end", detail := s!"session s{n} ended {c} times", sess := some n : V } else none
  let v3 := ended.foldl (fun acc (n, _) =>
    acc ++
    (if sess.contains n then [{ name := "residue", detail := s!"s{n} ended but is still in the session table", sess := some n : V }] else []) ++
    (if byip.any (·.2 == n) then [{ name := "residue", detail := s!"s{n} ended but is still indexed by address", sess := some n : V }] else []) ++
    (held.filterMap fun (a, n') => if n' == n then
        some { name := "residue", detail := s!"s{n} ended but address {a} is still allocated to it", sess := some n, addr := some a : V } else none)) []
  let v4 := byip.filterMap fun (a, n) =>
    match held.find? (·.1 == a) with
    | some (_, n') => if n' ≠ n then some { name := "index-mismatch", detail := s!"address {a} is indexed to s{n} but held by s{n'}", sess := some n, addr := some a : V } else none
    | none => none
  -- a new session is refused for a MAC that no LIVE session has: an ended session still occupies the MAC index
  let v5 := match op with
    | .create _ m =>
      if word == "exists" && !(sess.any fun n => AMap.lookup mn.macs n == some m) then
        [{ name := "residue", detail := s!"a new session for m{m} is refused although no live session has that MAC (an ended session still occupies the MAC index)" : V }]
      else []
    | _ => []
  -- an address the allocator still counts as handed to a session that is not (any more) in the session table: nobody
  -- holds it and nobody will ever release it (the session that knew it is gone)
  let v6 := held.filterMap fun (a, n) =>
    if !(sess.contains n) then
      some { name := "stranded", detail := s!"address {a} is still allocated to s{n}, which is not a live session", sess := some n, addr := some a : V }
    else none
  ({ allocs := allocs, prevHeld := held, macs := macs }, v1 ++ v2 ++ v3 ++ v4 ++ v5 ++ v6)

structure St where
  model : Option M := none
  mon : Mon := {}
  /-- sessions that were given a second address while live (KF-submgr-reassign-leak), with the address stranded -/
  reassigned : List (Nat × Nat) := []     -- (session, address stranded by a re-assignment)
  /-- (session, address) for which a release call of the manager FAILED (KF-submgr-release-failed) -/
  failedRel : List (Nat × Nat) := []
  v6 : Bool := false

def step (st : St) (toks : List String) (impl : String) : St × LineResult :=
  match toks with
  | ["new"] => ({ model := some SubMgr.init, mon := {} }, { modelObs := "ok" })
  -- the IPv6 halves of AssignAddress / TerminateSession: the same model (one address per session); the one difference
  -- is that a failed IPv6 allocation is not fatal to AssignAddress
  | ["new", "v6"] => ({ model := some SubMgr.init, mon := {}, v6 := true }, { modelObs := "ok" })
  | ["fault", fam, on] =>
    (match st.model, (if on == "on" then some true else if on == "off" then some false else none) with
      | some m, some b =>
        if fam == "rel4" || fam == "rel6" then
          -- the run makes only the calls of ITS family: the other family's switch changes nothing
          let mine := (fam == "rel6") == st.v6
          let m' := if mine then (SubMgr.step m (.fault b)).1 else m
          ({ st with model := some m' }, { modelObs := s!"ok {showSnap m'}" })
        else (st, { modelObs := "badop" })
      | _, _ => (st, { modelObs := "badop" }))
  | _ =>
    match st.model, parseOp toks with
    | some m, some op =>
      -- the harness refuses to create a name twice
      match op with
      | .assign n | .term n | .touch n =>
        if known m n then go st m op impl else (st, { modelObs := "nosuch" })
      | .tbegin _ n | .abegin _ n =>
        if known m n then go st m op impl else (st, { modelObs := "badop" })
      | _ => go st m op impl
    | _, _ => (st, { modelObs := "badop" })
where
  known (m : M) (n : Nat) : Bool := (AMap.lookup m.sessions n).isSome || (AMap.lookup m.ended n).isSome
  go (st : St) (m : M) (op : Op) (impl : String) : St × LineResult :=
    let (m', r) := SubMgr.step m op
    let (mon', vs) := monitor st.mon op impl
    -- exclusion clause of the recorded finding KF-submgr-reassign-leak: AssignAddress hands a second address to a LIVE
    -- session that holds one → the address held BEFORE is never released.  The pair (session, address) is recorded when
    -- that happens (at the moment the allocator call returns: `assign`, `aresume`) and only a `residue` verdict about
    -- exactly that pair is attributed; a pair is dropped as soon as the implementation no longer shows the address as
    -- handed to that session.  (Assignments racing a termination are no finding any more: fixed, see known_findings.)
    let own := fun (mm : M) (n : Nat) => (List.filter (fun (p : Nat × Nat) => p.2 == n) mm.owner).map (fun (p : Nat × Nat) => p.1)
    let target : Option Nat := match op with
      | .assign n => some n
      | .aresume tag => AMap.lookup m.acalls tag
      | _ => none
    let st1 := match target with
      | some n =>
        if SubMgr.reassigns m n && r == Res.ok then { st with reassigned := (own m n).map (fun a => (n, a)) ++ st.reassigned } else st
      | none => st
    let heldNow := parsePairsNS (field impl "held")     -- (address, session) as the implementation shows them
    let still := fun (p : Nat × Nat) => heldNow.contains (p.2, p.1)
    let st1 := if !(impl.contains "held=") then st1 else   -- (an answer without a snapshot says nothing)
      { st1 with reassigned := st1.reassigned.filter still }
    -- exclusion clause of the recorded finding KF-submgr-release-failed: a release call the manager made to the allocator
    -- for (session, address) FAILED (model: `relCalled` while `relFails`): the pair is recorded at that moment — for a
    -- termination the session's address, for the hand-back of AssignAddress the address the allocator had just handed
    -- out — and only a residue / stranded verdict about exactly that pair is attributed; dropped like the above.
    let failedNow : List (Nat × Nat) :=
      if !(SubMgr.relCalled m op && m.relFails) then [] else
      match op with
      | .term n => (match AMap.lookup m.sessions n with
          | some x => (match x.ip with | some a => [(n, a)] | none => [])
          | none => [])
      | .tresume tag => (match AMap.lookup m.calls tag with | some (n, a) => [(n, a)] | none => [])
      | .assign n => (match SubMgr.firstFree m.owner with | some a => [(n, a)] | none => [])
      | .aresume tag => (match AMap.lookup m.acalls tag, SubMgr.firstFree m.owner with
          | some n, some a => [(n, a)]
          | _, _ => [])
      | _ => []
    let st1 := { st1 with failedRel := failedNow ++ st1.failedRel }
    let st1 := if !(impl.contains "held=") then st1 else { st1 with failedRel := st1.failedRel.filter still }
    let clause := fun (v : V) =>
      if v.name != "residue" && v.name != "stranded" then "none" else
      match v.sess, v.addr with
      | some n, some a =>
        if st1.reassigned.contains (n, a) then "KF-submgr-reassign-leak"
        else if st1.failedRel.contains (n, a) then "KF-submgr-release-failed" else "none"
      | _, _ => "none"
    ({ st1 with model := some m', mon := mon' },
     { modelObs := showRes op (if st.v6 && r == .exhausted then .ok else r) m', viols := vs.map fun v => (v.name, clause v, v.detail) })

def component : Component := { σ := St, init := {}, step := step }

end Bng.Drv.SubMgrDrv
