import Bng.Drv.Common
import Bng.Model.XdpDhcp
import Bng.Model.CacheEnc
import Bng.Model.XdpDhcpSpec
/-
  bngdrv component `xdpdhcp`: replays traces of the natively compiled bpf/dhcp_fastpath.c on the
  byte-level model `Bng.XdpDhcp.run`, traces of the real slow path + Loader (kernel map bytes) on
  `Bng.CacheEnc`, and evaluates the C07 / C03 monitors on the IMPLEMENTATION's observations.

  raw sequences (any map bytes; C07 monitors and the model/native differential):
    new raw                                => ok
    put sub|vlan|cid|pools|cfg <key> <val> => ok
    del sub|vlan|cid|pools <key>           => ok
    run <hexframe> clk=<ns>                => <verdict> same | <verdict> <hexframe-after> | FAULT …

  srv sequences (see harness/cmd/xdpdhcp/main.go): new srv, setcfg, addpool, slow, cleanup, tick, vlanadd, vlandel, run.
  For `slow` the library's parse of the request (`q=`) and the server's reply (`r=`: its decision) are inputs;
  the lease table (`L=`, `C=`) and the kernel-map delta (`d=`) are predicted by `Bng.CacheEnc`.

  C07 monitor verdicts (on the native program's answer): `fault`, `undefined-verdict`, `pass-modified`.
  C03 monitor verdicts: `malformed-reply` (a transmitted frame is not the well-formed reply to its request),
  `reply-differs` (yiaddr / options 54, 51, 1, 3, 6 / message type differ from the slow path's reply to the same
  request), `answers-after-end` (transmission from a cache entry whose lease userspace has ended or that has expired).
  Clauses: `D10` — the only differences are addresses whose four bytes are reversed; `D11` — the lease has expired on
  the slow path's clock while the kernel clock handed to the program is a different time scale (seconds since boot).
-/
namespace Bng.Drv.XdpDhcpDrv
open Bng Bng.Drv Bng.C Bng.XdpDhcp Bng.CacheEnc Bng.XdpDhcpSpec

inductive Mode where
  | none | raw | srv
  deriving DecidableEq

structure St where
  mode : Mode := .none
  maps : Maps := {}                       -- raw mode
  srv : Srv := {}                         -- srv mode (its maps are the cache)
  /-- the IMPLEMENTATION's state as observed: `maps` = the kernel maps (the reported deltas applied), `leases` = the
      lease table the real server reported, `now` = the virtual clock.  The C03 monitors judge this state, not the
      model's, so a cache entry the real code leaves behind is seen even where the model would have removed it. -/
  impl : Srv := {}
  /-- the last transmitted reply: request payload (BOOTP bytes), reply BOOTP bytes, the cached address it was
      answered from (Go's integer), whether server_config.server_ip was 0, whether the answer came from a
      circuit-id entry none of whose leases belongs to the requesting MAC, whether the program's fixed-offset scan
      read another message type than a DHCP parser does -/
  lastTx : Option (List UInt8 × List UInt8 × Option UInt32 × Bool × Bool × Bool) := none

def St.cur (st : St) : Maps := if st.mode == .srv then st.srv.maps else st.maps

def showRun (f : Frame) : Except Fault (Nat × Frame) → String
  | .error (.oob off n size) => s!"FAULT model off={off} n={n} size={size}"
  | .ok (v, f') => if f' == f then s!"{v} same" else s!"{v} {bytesToHex f'}"

def kvOf (tok key : String) : Option String :=
  if tok.startsWith (key ++ "=") then some (tok.drop (key.length + 1)).toString else none

def hexOrDash (bs : List UInt8) : String := if bs.isEmpty then "-" else bytesToHex bs

/-- monitors of C07 on the implementation's `run` observation -/
def c07Monitors (impl : String) : List (String × String × String) :=
  match splitTokens impl with
  | "FAULT" :: rest => [("fault", "none", "_".intercalate rest)]
  | [v, after] =>
    match v.toNat? with
    | some n =>
      -- `dhcp_defined_verdict`: the program returns XDP_PASS or XDP_TX, nothing else (no DROP / ABORTED / REDIRECT)
      (if n != XDP_PASS && n != XDP_TX then [("undefined-verdict", "none", v)] else []) ++
      (if n == XDP_PASS && after != "same" then [("pass-modified", "none", "frame_changed_under_XDP_PASS")] else [])
    | none => [("undefined-verdict", "none", v)]
  | _ => [("undefined-verdict", "none", "unparseable")]

def putMap (m : Maps) (name : String) (k v : List UInt8) : Option Maps :=
  match name with
  | "sub" => some { m with sub := AMap.insert m.sub k v }
  | "vlan" => some { m with vlan := AMap.insert m.vlan k v }
  | "cid" => some { m with cid := AMap.insert m.cid k v }
  | "pools" => some { m with pools := AMap.insert m.pools k v }
  | "cfg" => some { m with cfg := some v }
  | _ => none

def delMap (m : Maps) (name : String) (k : List UInt8) : Option Maps :=
  match name with
  | "sub" => some { m with sub := AMap.erase m.sub k }
  | "vlan" => some { m with vlan := AMap.erase m.vlan k }
  | "cid" => some { m with cid := AMap.erase m.cid k }
  | "pools" => some { m with pools := AMap.erase m.pools k }
  | _ => none

/-! ### kernel-map delta, lease table printing -/

def sortStrings (xs : List String) : List String := (xs.toArray.qsort (· < ·)).toList

def dedup (xs : List String) : List String :=
  xs.foldl (fun acc x => if acc.contains x then acc else acc ++ [x]) []

/-- `+name:key:val` / `-name:key` for one map, keys sorted -/
def deltaOne (name : String) (old new : BMap) : List String :=
  let keys := sortStrings (dedup ((AMap.keys old ++ AMap.keys new).map bytesToHex))
  keys.filterMap fun kh =>
    match parseHexBytes kh with
    | none => none
    | some k =>
      match AMap.lookup old k, AMap.lookup new k with
      | some ov, some nv => if ov == nv then none else some s!"+{name}:{kh}:{bytesToHex nv}"
      | none, some nv => some s!"+{name}:{kh}:{bytesToHex nv}"
      | some _, none => some s!"-{name}:{kh}"
      | none, none => none

def cfgMap (c : Option Bytes) : BMap := match c with | some v => [([0, 0, 0, 0], v)] | none => []

def delta (old new : Maps) : String :=
  let toks := deltaOne "cfg" (cfgMap old.cfg) (cfgMap new.cfg) ++ deltaOne "cid" old.cid new.cid ++
    deltaOne "pools" old.pools new.pools ++ deltaOne "sub" old.sub new.sub ++ deltaOne "vlan" old.vlan new.vlan
  if toks.isEmpty then "-" else ",".intercalate toks

def ip8 (ip : UInt32) : String := toHexW ip.toNat 8

def showLeases (s : Srv) : String :=
  let ls := sortStrings ((AMap.vals s.leases).map fun l =>
    s!"{bytesToHex l.mac}:{ip8 l.ip}:{l.exp}:{hexOrDash l.cidBytes}:{l.expMs}")
  let cs := sortStrings (s.byCid.map fun (k, l) => s!"{bytesToHex k}:{bytesToHex l.mac}:{ip8 l.ip}:{l.exp}")
  let j (x : List String) := if x.isEmpty then "-" else ",".intercalate x
  s!"L={j ls} C={j cs}"

/-! ### C03 monitors -/

/-- the BOOTP message of a request frame, by the model's own parse -/
def payloadOf (f : Frame) : Option (Pkt × List UInt8) :=
  match parseHeaders f with
  | .ok (some p) => some (p, f.drop p.dhcpOff)
  | _ => none

/-- which cache entry the program answers from: (map, key) -/
def hitKey (f : Frame) (m : Maps) (p : Pkt) : Option (String × Bytes) :=
  if p.tagged && (AMap.lookup m.vlan (vlanKey p)).isSome then some ("vlan", vlanKey p) else
  match extractCid f p.dhcpOff with
  | .ok (some k) => if (AMap.lookup m.cid k).isSome then some ("cid", k) else
      match macKey f p.dhcpOff with
      | .ok mk => if (AMap.lookup m.sub mk).isSome then some ("sub", mk) else none
      | _ => none
  | _ =>
    match macKey f p.dhcpOff with
    | .ok mk => if (AMap.lookup m.sub mk).isSome then some ("sub", mk) else none
    | _ => none

/-- the leases that own a cache key -/
def owners (s : Srv) (mapName : String) (key : Bytes) : List Lease :=
  (AMap.vals s.leases).filter fun l =>
    (mapName == "sub" && macKeyOf l.mac == key) || (mapName == "cid" && !l.cidBytes.isEmpty && cidKeyOf l.cidBytes == key)

/-- monitors on a transmitted reply in a srv sequence -/
def c03RunMonitors (st : St) (f : Frame) (clkNs : Nat) (impl : String) : List (String × String × String) :=
  match splitTokens impl with
  | [v, after] =>
    if v != "3" then [] else
    match parseHexBytes after, payloadOf f with
    | some g, some (p, reqBootp) =>
      let reqOpts := reqBootp.drop 240
      -- (1) well-formed reply to THIS request
      let wf : List (String × String × String) :=
        -- the server MAC and address of the cache the IMPLEMENTATION answered from
        let im := st.impl.maps
        let cfgB := im.cfg.getD []
        let poolB := ((hitKey f im p).bind fun (mapName, key) =>
            (AMap.lookup (if mapName == "vlan" then im.vlan else if mapName == "cid" then im.cid else im.sub) key).bind
              fun a => AMap.lookup im.pools (rdBytes a 0 4)).getD []
        match replyDefect f g p (rdBytes cfgB 0 6) (leBytes 4 (serverIpOf cfgB poolB).toNat) with
        | some d => [("malformed-reply", "none", d)]
        | none =>
          let got := opt 53 (g.drop (p.dhcpOff + 240))
          let want := wantedReply (trueMsgType reqOpts)
          if got == want then [] else
            -- the program's fixed-offset scan read another type than a DHCP parser does
            let detected := match getMsgType f p.dhcpOff with | .ok t => some t | _ => none
            let clause := if detected != trueMsgType reqOpts then "KF-opt53-fixed" else "none"
            let show1 (x : Option (List UInt8)) : String := match x with | some v => bytesToHex v | none => "none"
            let show2 (x : Option UInt8) : String := match x with | some v => toString v.toNat | none => "none"
            [("malformed-reply", clause, s!"reply-type-{show1 got}-for-request-type-{show2 (trueMsgType reqOpts)}")]
      -- (3) answers only from entries whose lease is alive
      let aae : List (String × String × String) :=
        match hitKey f st.impl.maps p with
        | some (mapName, key) =>
          if mapName == "vlan" then [] else
          let os := owners st.impl mapName key
          if os.isEmpty then [("answers-after-end", "none", s!"entry-without-lease:{mapName}:{bytesToHex key}")]
          else if os.all (fun l => st.impl.after l) then
            -- userspace regards every owning lease as expired (`now.After(ExpiresAt)`, millisecond resolution).
            -- D11 only if the program's own test could not see the expiry: its clock (another time scale than
            -- the slow path's) has not passed the entry's lease_expiry; KF-expiry-subsecond only if the clocks agree
            -- and the lease expired within the current second (the cache holds whole seconds, the test is `>`);
            -- a transmission although `now > lease_expiry` on the program's clock is a different defect
            let m := st.impl.maps
            let entryExp := (AMap.lookup (if mapName == "cid" then m.cid else m.sub) key).map fun v => (rd64 v 13).toNat
            let clkS := clkNs / 1000000000
            let clause :=
              if clkS != st.impl.now && entryExp.any (fun e => decide (clkS ≤ e)) then "D11"
              else if clkS == st.impl.now && entryExp == some st.impl.now then "KF-expiry-subsecond"
              else "none"
            [("answers-after-end", clause, s!"lease-expired:{mapName}:{bytesToHex key}")]
          else []
        | none => []
      wf ++ aae
    | _, _ => []
  | _ => []

/-- the address a REQUEST asks for, as `handleRequest` reads it: option 50, else ciaddr -/
def requestedAddr (reqBootp : List UInt8) : List UInt8 :=
  match opt 50 (reqBootp.drop 240) with
  | some v => if v.length == 4 && v != [0, 0, 0, 0] then v else bytesAt reqBootp 12 4
  | none => bytesAt reqBootp 12 4

/-- `reply-differs`: the slow path's reply to the same request vs. the transmitted fast-path reply, field by field
    (message type, yiaddr, options 54, 51, 1, 3, 6).  The attribution is COMPOSITIONAL: every differing field must be
    explained by a recorded finding whose mechanism is confirmed on this very run; each finding explains only its own
    fields; one verdict is emitted per finding involved; a single unexplained field makes the whole verdict `none`.
    * `D10` explains an ADDRESS field (yiaddr, 54, 3, 6) whose fast-path bytes are the slow path's with every four
      bytes reversed;
    * `KF-opt53-fixed` (the fixed-offset scan read another message type than a DHCP parser reads from the same
      options) explains the message type;
    * `KF-fastpath-reqaddr` (userspace NAKs a REQUEST whose requested address — option 50, else ciaddr — is not the
      cached address, the fast path ACKs) explains the message type;
    * `KF-cid-foreign-mac` (the answer came from a circuit_id_subscribers entry that no lease of the requesting MAC
      with that key and address owns) explains yiaddr, and the message type when userspace NAKs;
    * `KF-dns-more-than-two` (userspace lists more than two servers, the fast path exactly the first two of them,
      after the D10 reversal) explains option 6;
    * `KF-srvcfg-unset` (server_config.server_ip is 0 in the cache the program ran on and the fast path's option 54
      equals its own option 3, the gateway) explains option 54.
    A DHCPNAK carries only the message type and the server identifier: the other fields are then not compared (they
    follow from the message type).  Lease time, subnet mask and router are explained by nothing but D10 (router). -/
def compareReplies (reqBootp fb : List UInt8) (cachedIp : Option UInt32) (cfgZero foreignCid misread : Bool)
    (slow : Option (List UInt8)) : List (String × String × String) :=
  let trueType := trueMsgType (reqBootp.drop 240)
  match slow with
  | some sb =>
    let fv := viewOf fb
    let sv := viewOf sb
    let svr := sv.rev
    let nak := sv.msgType == some [6]
    let reqaddr := nak && fv.msgType == some [5] &&
      cachedIp.map (fun ip => CacheEnc.ipWire ip) != some (requestedAddr reqBootp)
    let cfgHit := cfgZero && fv.serverId == fv.router
    let dnsHit := sv.dns.length > 8 && fv.dns == svr.dns.take 8
    -- per field: does it differ, and which findings explain the difference
    let field (name : String) (differs d10 : Bool) (expl : List (Bool × String)) : Option (String × List String) :=
      if !differs then none
      else if d10 then some (name, ["D10"])
      else some (name, (expl.filter (·.1)).map (·.2))
    let fields : List (Option (String × List String)) :=
      [ field "message-type" (fv.msgType != sv.msgType) false
          [(misread, "KF-opt53-fixed"), (reqaddr, "KF-fastpath-reqaddr"), (foreignCid && nak, "KF-cid-foreign-mac")],
        field "server-id" (fv.serverId != sv.serverId) (fv.serverId == svr.serverId) [(cfgHit, "KF-srvcfg-unset")] ] ++
      (if nak then [] else
      [ field "yiaddr" (fv.yiaddr != sv.yiaddr) (fv.yiaddr == svr.yiaddr) [(foreignCid, "KF-cid-foreign-mac")],
        field "lease-time" (fv.leaseTime != sv.leaseTime) false [],
        field "subnet-mask" (fv.mask != sv.mask) false [],
        field "router" (fv.router != sv.router) (fv.router == svr.router) [],
        field "dns" (fv.dns != sv.dns) (fv.dns == svr.dns) [(dnsHit, "KF-dns-more-than-two")] ])
    let diffs := fields.filterMap id
    if diffs.isEmpty then []
    else
      match diffs.find? (fun d => d.2.isEmpty) with
      | some (name, _) => [("reply-differs", "none", name)]
      | none =>
        -- every differing field is explained: one verdict per finding involved (the first explanation of each field)
        let clauses := dedup (diffs.filterMap fun d => d.2.head?)
        clauses.map fun c =>
          ("reply-differs", c, "+".intercalate ((diffs.filter fun d => d.2.head? == some c).map (·.1)))
  | none =>
    -- userspace sends nothing: explained by KF-opt53-fixed only when the message really is no DISCOVER / REQUEST
    if misread && trueType != some 1 && trueType != some 3 then
      [("reply-differs", "KF-opt53-fixed", "userspace-does-not-answer-this-message-type")]
    else [("reply-differs", "none", "slow-path-sends-nothing")]

/-! ### the implementation's state, as observed -/

def applyDelta (m : Maps) (d : String) : Maps :=
  if d == "-" then m else
  (d.splitOn ",").foldl (fun m tok =>
    let add := tok.startsWith "+"
    match ((tok.drop 1).toString.splitOn ":") with
    | [name, k, v] =>
      if add then
        match parseHexBytes k, parseHexBytes v with
        | some k, some v => (putMap m name k v).getD m
        | _, _ => m
      else m
    | [name, k] =>
      if add then m else
      match parseHexBytes k with
      | some k => (delMap m name k).getD m
      | none => m
    | _ => m) m

def parseLeases (l : String) : AMap Bytes Lease :=
  if l == "-" then [] else
  (l.splitOn ",").filterMap fun tok =>
    match tok.splitOn ":" with
    | [mac, ip, exp, cid, ms] =>
      match parseHexBytes mac, parseHex ip, exp.toNat?, ms.toNat? with
      | some mac, some ip, some exp, some ms =>
        let c : Option Bytes := if cid == "-" then none else parseHexBytes cid
        some (mac, { mac := mac, ip := UInt32.ofNat ip, poolId := 0, exp := exp, expMs := ms, cid := c })
      | _, _, _, _ => none
    | _ => none

/-- fold one trace line's observation into the observed state -/
def observe (o : Srv) (toks : List String) (impl : String) : Srv :=
  let it := splitTokens impl
  let o := match it.findSome? (kvOf · "d") with
    | some d => { o with maps := applyDelta o.maps d }
    | none => o
  let o := match it.findSome? (kvOf · "L") with
    | some l => { o with leases := parseLeases l }
    | none => o
  match toks with
  | ["tick", n] => { o with now := o.now + n.toNat?.getD 0 }
  | ["tickms", n] => o.step (.tickMs (n.toNat?.getD 0))
  | _ => o

/-! ### srv ops -/

def parseIp (s : String) : Option UInt32 := (parseHex s).map UInt32.ofNat

def parseDns (s : String) : Option (List UInt32) :=
  if s == "-" then some [] else (s.splitOn ",").mapM parseIp

def parsePool (id net gw dns lease vlan cls : String) : Option PoolCfg :=
  match net.splitOn "/" with
  | [n, pl] => do
    let id ← id.toNat?
    let n ← parseIp n
    let pl ← pl.toNat?
    let gw ← parseIp gw
    let dns ← parseDns dns
    -- `<n>` seconds or `<n>ms`
    let leaseMs ← (if lease.endsWith "ms" then (lease.dropRight 2).toNat? else lease.toNat?.map (· * 1000))
    let vlan ← vlan.toNat?
    let cls ← cls.toNat?
    -- the network address as net.ParseCIDR masks it
    let mask : UInt32 := if pl == 0 then 0 else if pl ≥ 32 then 0xFFFFFFFF else (0xFFFFFFFF : UInt32) <<< UInt32.ofNat (32 - pl)
    pure { id := UInt32.ofNat id, network := n &&& mask, prefixLen := UInt8.ofNat pl, gateway := gw, dns := dns,
           leaseSecs := UInt32.ofNat (leaseMs / 1000), leaseSubMs := leaseMs % 1000, vlanId := UInt32.ofNat vlan, clientClass := UInt8.ofNat cls }
  | _ => none

/-- resolve `clk=<spec>` (see the harness) -/
def resolveClk (st : St) (spec : String) : Option Nat :=
  if spec.startsWith "unix" then
    let rest := (spec.drop 4).toString
    if rest.isEmpty then some (st.srv.now * 1000000000)
    else if rest.startsWith "+" then (rest.drop 1).toString.toNat?.map fun d => (st.srv.now + d) * 1000000000
    else if rest.startsWith "-" then (rest.drop 1).toString.toNat?.map fun d => (st.srv.now - d) * 1000000000
    else none
  else if spec.startsWith "up" then (spec.drop 2).toString.toNat?.map (· * 1000000000)
  else spec.toNat?

structure Q where
  kind : String
  mac : Bytes
  relayed : Bool
  cid : Option Bytes
  opt50 : Option UInt32

def parseQ (q : String) : Option Q :=
  match q.splitOn ":" with
  | [kind, mac, gi, cid, o50] => do
    let mac ← parseHexBytes mac
    let cid ← (if cid == "none" then some none else (parseHexBytes cid).map some)
    let o50 ← (if o50 == "-" then some none else (parseIp o50).map some)
    pure { kind := kind, mac := mac, relayed := gi != "00000000", cid := cid, opt50 := o50 }
  | _ => none

def stepSrv (st : St) (toks : List String) (impl : String) : St × LineResult :=
  let old := st.srv.maps
  let fin (srv : Srv) (pre : String) : St × LineResult :=
    ({ st with srv := srv }, { modelObs := pre ++ "d=" ++ delta old srv.maps })
  match toks with
  | ["setcfg", mac, ip, idx] =>
    match parseHexBytes mac, parseIp ip, idx.toNat? with
    | some mac, some ip, some idx =>
      -- `Server.Start` passes the server's own address (`Op.setCfg`); any other address is a bare Loader call
      if ip == st.srv.serverIp then fin (st.srv.step (.setCfg mac (UInt32.ofNat idx))) ""
      else fin { st.srv with maps := setServerConfig st.srv.maps mac ip (UInt32.ofNat idx) } ""
    | _, _, _ => (st, { modelObs := "badop" })
  | ["addpool", id, net, gw, dns, lease, vlan, cls] =>
    match parsePool id net gw dns lease vlan cls with
    | some p =>
      if (AMap.lookup st.srv.pools p.id).isSome then (st, { modelObs := "err addpool d=-" })
      else fin (st.srv.step (.addPool p)) "ok "
    | none => (st, { modelObs := "badop" })
  | ["slow", payload] =>
    let it := splitTokens impl
    let q := it.findSome? (kvOf · "q")
    let r := it.findSome? (kvOf · "r")
    match q, r, parseHexBytes payload with
    | some q, some r, some pl =>
      if q == "unparsed" then (st, { modelObs := s!"q=unparsed r=none sv=- {showLeases st.srv} d=-" }) else
      match parseQ q with
      | none => (st, { modelObs := "badop" })
      | some pq =>
        let replyBytes := if r == "none" then none else parseHexBytes r
        let replyType := replyBytes.bind fun b => opt 53 (b.drop 240)
        let srv' :=
          if pq.kind == "req" && replyType == some [5] then
            match replyBytes with
            | some b => st.srv.step (.ack pq.mac (UInt32.ofNat ((bytesAt b 16 4).foldl (fun acc x => acc * 256 + x.toNat) 0)) pq.relayed pq.cid)
            | none => st.srv
          else if pq.kind == "rel" then st.srv.step (.release pq.mac)
          else if pq.kind == "dec" then st.srv.step (.decline pq.mac pq.opt50)
          else st.srv
        let viols :=
          match st.lastTx with
          | some (reqPl, fastReply, cachedIp, cfgZero, foreignCid, misread) =>
            -- an answer from vlan_subscriber_pools has no userspace counterpart: no code path of pkg/dhcp writes that
            -- map (Lease.STag/CTag are never set); its entries come from the Loader API alone (cachedIp = none)
            if reqPl == pl && cachedIp.isSome then compareReplies reqPl fastReply cachedIp cfgZero foreignCid misread replyBytes else []
          | none => []
        -- the fields userspace sends, from the model's state (yiaddr and the decision come from the reply)
        let showF (x : Option (List UInt8)) : String := match x with | some v => hexOrDash v | none => "-"
        let sv : String :=
          match replyBytes, replyType with
          | some b, some [ty] =>
            if ty == 2 || ty == 5 then
              let yi := UInt32.ofNat ((bytesAt b 16 4).foldl (fun acc x => acc * 256 + x.toNat) 0)
              let pool? : Option PoolCfg :=
                if ty == 5 then ((AMap.lookup srv'.leases pq.mac).map (·.poolId)).bind (AMap.lookup st.srv.pools)
                else match st.srv.existing pq.mac pq.relayed pq.cid with
                  -- `time.Now().Before(existingLease.ExpiresAt)`
                  | some l => if !(st.srv.after l) && !(st.srv.now == l.exp && st.srv.subMs == l.expMs)
                              then AMap.lookup st.srv.pools l.poolId else st.srv.classify
                  | none => st.srv.classify
              match pool? with
              | some P => ":".intercalate ((slowView ty yi st.srv.serverIp P).fields.map showF)
              | none => "nopool"
            else "-"
          | _, _ => "-"
        ({ st with srv := srv', lastTx := none },
         { modelObs := s!"q={q} r={r} sv={sv} {showLeases srv'} d={delta old srv'.maps}", viols := viols })
    | _, _, _ => (st, { modelObs := "badop" })
  | ["rmpool", id] =>
    match id.toNat? with
    | some id =>
      if (AMap.lookup st.srv.pools (UInt32.ofNat id)).isNone then (st, { modelObs := "err d=-" })
      else fin (st.srv.step (.removePool (UInt32.ofNat id))) "ok "
    | none => (st, { modelObs := "badop" })
  | ["setdefault", id] =>
    match id.toNat? with
    | some id =>
      if (AMap.lookup st.srv.pools (UInt32.ofNat id)).isNone then (st, { modelObs := "err" })
      else ({ st with srv := st.srv.step (.setDefault (UInt32.ofNat id)) }, { modelObs := "ok" })
    | none => (st, { modelObs := "badop" })
  | ["tickms", n] =>
    match n.toNat? with
    | some n => ({ st with srv := st.srv.step (.tickMs n) }, { modelObs := "ok" })
    | none => (st, { modelObs := "badop" })
  | ["cleanup"] =>
    let srv' := st.srv.step .cleanup
    ({ st with srv := srv' }, { modelObs := s!"{showLeases srv'} d={delta old srv'.maps}" })
  | ["tick", n] =>
    match n.toNat? with
    | some n => ({ st with srv := st.srv.step (.tick n) }, { modelObs := "ok" })
    | none => (st, { modelObs := "badop" })
  | ["vlanadd", s, c, pid, ip, exp] =>
    match s.toNat?, c.toNat?, pid.toNat?, parseIp ip, exp.toNat? with
    | some s, some c, some pid, some ip, some exp =>
      let a : Assignment := { poolId := UInt32.ofNat pid, ip := ip, leaseExpiry := UInt64.ofNat exp }
      fin { st.srv with maps := addVlanSubscriber st.srv.maps (UInt16.ofNat s) (UInt16.ofNat c) a } ""
    | _, _, _, _, _ => (st, { modelObs := "badop" })
  | ["vlandel", s, c] =>
    match s.toNat?, c.toNat? with
    | some s, some c => fin { st.srv with maps := removeVlanSubscriber st.srv.maps (UInt16.ofNat s) (UInt16.ofNat c) } ""
    | _, _ => (st, { modelObs := "badop" })
  | ["run", fr, clk] =>
    match parseHexBytes fr, (kvOf clk "clk").bind (resolveClk st) with
    | some f, some c =>
      let r := XdpDhcp.run f st.srv.maps (UInt64.ofNat c)
      let lastTx :=
        match splitTokens impl, payloadOf f with
        | ["3", after], some (p, pl) => (parseHexBytes after).map fun g =>
            let m := st.impl.maps
            let cached := (hitKey f m p).bind fun (mapName, key) =>
              if mapName == "vlan" then none else
              (AMap.lookup (if mapName == "cid" then m.cid else m.sub) key).map fun v => rd32 v 4
            let cfgZero := match m.cfg with | some c => rd32 c 8 == 0 | none => true
            let foreignCid := match hitKey f m p with
              | some ("cid", key) =>
                -- the entry under a circuit-id holds what the LAST lease acknowledged with that circuit-id wrote
                !(owners st.impl "cid" key).any (fun l => l.mac == bytesAt f (p.dhcpOff + 28) 6 && some l.ip == cached)
              | _ => false
            let detected := match getMsgType f p.dhcpOff with | .ok t => some t | _ => none
            (pl, g.drop p.dhcpOff, cached, cfgZero, foreignCid, detected != trueMsgType (pl.drop 240))
        | _, _ => none
      ({ st with lastTx := lastTx },
       { modelObs := showRun f r, viols := c07Monitors impl ++ c03RunMonitors st f c impl })
    | _, _ => (st, { modelObs := "badop" })
  | _ => (st, { modelObs := "badop" })

def stepRaw (st : St) (toks : List String) (impl : String) : St × LineResult :=
  match toks with
  | ["put", name, k, v] =>
    match parseHexBytes k, parseHexBytes v with
    | some k, some v =>
      match putMap st.maps name k v with
      | some m => ({ st with maps := m }, { modelObs := "ok" })
      | none => (st, { modelObs := "badop" })
    | _, _ => (st, { modelObs := "badop" })
  | ["del", name, k] =>
    match parseHexBytes k with
    | some k =>
      match delMap st.maps name k with
      | some m => ({ st with maps := m }, { modelObs := "ok" })
      | none => (st, { modelObs := "badop" })
    | none => (st, { modelObs := "badop" })
  | ["run", fr, clk] =>
    match parseHexBytes fr, (kvOf clk "clk").bind String.toNat? with
    | some f, some c =>
      let r := XdpDhcp.run f st.maps (UInt64.ofNat c)
      (st, { modelObs := showRun f r, viols := c07Monitors impl })
    | _, _ => (st, { modelObs := "badop" })
  | _ => (st, { modelObs := "badop" })

def step (st : St) (toks : List String) (impl : String) : St × LineResult :=
  match toks with
  | ["new", "raw"] => ({ mode := .raw }, { modelObs := "ok" })
  | ["new", "srv", ip] =>
    -- the virtual clock's start is an input (the harness reports it)
    match (splitTokens impl).findSome? (kvOf · "t") |>.bind String.toNat?, parseIp ip with
    | some t, some ip =>
      let srv : Srv := { now := t, serverIp := ip }
      ({ mode := .srv, srv := srv, impl := observe { now := t, maps := { cfg := none } } toks impl },
       { modelObs := s!"ok t={t} d={delta { cfg := none } srv.maps}" })
    | _, _ => (st, { modelObs := "badop" })
  | _ =>
    match st.mode with
    | .raw => stepRaw st toks impl
    | .srv =>
      let (st', res) := stepSrv st toks impl
      ({ st' with impl := observe st.impl toks impl }, res)
    | .none => (st, { modelObs := "badop" })

def component : Component := { σ := St, init := {}, step := step }

end Bng.Drv.XdpDhcpDrv
