import Bng.Drv.Common
import Bng.Drv.Bitmap
import Bng.Drv.Epoch
import Bng.Model.Dist
import Bng.Model.DistSpec
import Bng.Model.LeaseSpec
/-
  bngdrv component `dist`: replays traces of the real allocator.DistributedAllocator (over the harness
  store) on the model and runs the C12 monitor on the implementation's observations.  Sequences that
  start with `newrt` run an allocator and its serialise/restore copy side by side (see
  harness/cmd/dist/main.go for the line protocol).
-/
namespace Bng.Drv.DistDrv
open Bng Bng.Drv Bng.Dist

inductive Model where
  | none
  | session (s : Session.State)
  | lease (s : Lease.State)
  | rtBitmap (a : Bitmap.State) (b : Option Bitmap.State)
  | rtEpoch (a : Epoch.State) (b : Option Epoch.State)

structure St where
  model : Model := .none
  nsubs : Nat := 0
  mon : DistSpec.Mon := {}
  /-- lease mode, per subscriber: the event after which its record and its lease are known to name
      different addresses (finding id D38 / D39), until its record is rewritten -/
  drift : AMap Nat String := []
  /-- lease mode, per subscriber: the record's epoch stamp is not the lease's last refresh (a write that failed,
      or a remote record stamped by another node's clock) -/
  staleRec : List Nat := []
  /-- lease mode, per subscriber: the epoch moved (tick) or the clock was reset (restart) since the record
      was last written -/
  tickSince : List Nat := []
  /-- the implementation's current epoch as its answers reveal it (2 after construction/restart) -/
  implEpoch : Nat := 2
  /-- lease mode, per subscriber: a stale delete notification released the lease it had just re-acquired
      (finding KF-stale-delete-echo), until its record is rewritten -/
  staleEcho : List Nat := []
  /-- Start refused (its load Query failed): the node is not serving -/
  down : Bool := false
  /-- the pool monitor over TIME (C01: who was told which address, leases with their grace period), fed with the
      node's Allocate/Renew/Release/Get answers and epoch ticks -/
  lmon : LeaseSpec.Mon := {}
  lgeo : PoolSpec.Geo := { lo := 0, step := 1, units := 0, totalReported := 0 }
  lease : Bool := false
  /-- round trip of the bitmap allocator: a SetAllocation moved a subscriber -/
  moved : Bool := false
  /-- … and the two copies have since handed DIFFERENT units to a new subscriber (finding D40): from here
      on their tables differ as a consequence -/
  diverged : Bool := false

/-! ### enumeration order of Store.Query: sorted keys permuted by the Lehmer code of the seed -/

def insertNat (x : Nat) : List Nat → List Nat
  | [] => [x]
  | y :: r => if x ≤ y then x :: y :: r else y :: insertNat x r

def sortedKeys (st : Store) : List Nat := (AMap.keys st).foldl (fun acc k => insertNat k acc) []

def lehmer : Nat → Nat → List Nat → List Nat
  | 0, _, _ => []
  | f + 1, n, keys =>
    if keys.isEmpty then []
    else
      let i := n % keys.length
      keys[i]! :: lehmer f (n / keys.length) (keys.eraseIdx i)

def orderOf (st : Store) (seed : Nat) : List Nat :=
  let ks := sortedKeys st
  lehmer ks.length seed ks

/-! ### printing -/

def showPfx (a l : Nat) : String := s!"{toHex a}/{l}"

def showObs : Obs → String
  | .okAddr a l => s!"ok {showPfx a l}"
  | .ok => "ok"
  | .exhausted => "exhausted"
  | .notfound => "notfound"
  | .error => "error"
  | .none => "none"
  | .sub k => s!"s{k}"
  | .stats a t => s!"{a} {t}"
  | .num n => s!"{n}"

def showGet : Obs → String
  | .okAddr a l => showPfx a l
  | _ => "-"

def bit (s : String) (i : Nat) : Option Bool :=
  match s.toList[i]? with
  | some '0' => some false
  | some '1' => some true
  | _ => none

/-- ParseCIDR masks the announced address to its prefix length -/
def maskTo (fam addr plen : Nat) : Nat := addr - addr % 2 ^ (fam - plen)

def auditLine (nsubs : Nat) (store : Store) (get : Nat → Obs) (units : List (Nat × Nat)) (owner : Nat → Nat → Obs) :
    String :=
  ",".intercalate ((List.range nsubs).map fun i =>
    let k := i + 1
    let sv := match AMap.lookup store k with
      | some r => s!"{showPfx r.addr r.plen}@{r.epoch}"
      | none => "-"
    s!"s{k}={sv}|{showGet (get k)}") ++ ";" ++
  ",".intercalate (units.map fun (a, l) =>
    let o := match owner a l with
      | .sub k => s!"s{k}"
      | _ => "-"
    s!"{showPfx a l}={o}")

/-- the subscriber (lowest id) whose STORE record names the prefix -/
def storeOwner (nsubs : Nat) (store : Store) (a l : Nat) : String :=
  match (List.range nsubs).find? (fun i => match AMap.lookup store (i + 1) with
      | some r => r.addr == a && r.plen == l
      | none => false) with
  | some i => s!"s{i + 1}"
  | none => "none"

/-! ### parsing the implementation's audit line for the monitor -/

def parsePfx (s : String) : Option (Nat × Nat) := if s == "-" then none else parseAddrLen s

def parseRow (item : String) : Option DistSpec.Row :=
  match item.splitOn "=" with
  | [k, rest] =>
    match rest.splitOn "|" with
    | [sv, gv] => do
      let k ← parseTagged 's' k
      let st : Option (Nat × Nat × Nat) ←
        if sv == "-" then pure none
        else match sv.splitOn "@" with
          | [p, e] => do let (a, l) ← parseAddrLen p; let e ← e.toNat?; pure (some (a, l, e))
          | _ => none
      let g : Option (Nat × Nat) ← if gv == "-" then pure none else (parseAddrLen gv).map some
      pure (k, st, g)
    | _ => none
  | _ => none

def parseRev (item : String) : Option DistSpec.RevRow :=
  match item.splitOn "=" with
  | [p, o] => do
    let (a, l) ← parseAddrLen p
    let o : Option Nat ← if o == "-" then pure none else (parseTagged 's' o).map some
    pure (a, l, o)
  | _ => none

def parseAudit (impl : String) : Option (List DistSpec.Row × List DistSpec.RevRow) :=
  match impl.splitOn ";" with
  | [fw, rv] => do
    let rows ← (fw.splitOn ",").mapM parseRow
    let rev ← if rv.isEmpty then pure [] else (rv.splitOn ",").mapM parseRev
    pure (rows, rev)
  | _ => none

def auditEv (impl : String) : DistSpec.Ev :=
  match parseAudit impl with
  | some (rows, rev) => .audit rows rev
  | none => .nop

/-! ### steps -/

abbrev Clause := String → String → Bool → String

/-- does another subscriber's record (in the model's store after the step) name the same prefix as k's? -/
def recordCollides (model : Model) (k : Nat) : Bool :=
  let store : Store := match model with
    | .session s => s.store
    | .lease s => s.store
    | _ => []
  match AMap.lookup store k with
  | some r => store.any fun p => p.1 != k && p.2.addr == r.addr && p.2.plen == r.plen
  | none => false

def result (st : St) (model : Model) (obs : String) (ev : DistSpec.Ev) (clause : Clause) : St × LineResult :=
  let (mon0, vs) := DistSpec.check st.mon ev
  -- the collision mark of a subscriber ends when its record is deleted by a remote delete, or rewritten by a
  -- local operation that answered ok and the (re)written record collides with nobody's
  let mon' := match ev with
    | .remoteDel k => { mon0 with conflicted := mon0.conflicted.filter (· != k) }
    | .mutated k _ =>
      if recordCollides model k then mon0 else { mon0 with conflicted := mon0.conflicted.filter (· != k) }
    | _ => mon0
  ({ st with model := model, mon := mon' },
   { modelObs := obs, viols := vs.map fun (n, d, coll) => (n, clause n d coll, d) })

/-- session mode: the only recorded finding is the collision of a remote announcement with another holder -/
def sessionClause : Clause := fun _ _ coll => if coll then "KF-dist-remote-collision" else "none"

/-- allocate/renew/release: the record was written only if the implementation answered ok; an `error`
    leaves the record's epoch stamp behind the lease -/
def changed (k : Nat) (impl : String) (epoch : Option Nat) : DistSpec.Ev :=
  match splitTokens impl with
  | "ok" :: _ => .mutated k epoch
  | "error" :: _ => .mutated k none
  | _ => .attempt

def sessionInRange (c : Bitmap.Cfg) (addr plen : Nat) : Bool :=
  match Bitmap.indexOf c addr plen with
  | some i => Bitmap.prefixOf c i == addr
  | none => false

def stepSession (st : St) (s : Session.State) (toks : List String) (impl : String) : St × LineResult :=
  let c := s.a.cfg
  let allocOp := fun (k f : String) => match parseTagged 's' k, bit f 0 with
    | some k, some f =>
      let (s', o) := Session.alloc s k f
      result st (.session s') (showObs o) (changed k impl (some 0)) sessionClause
    | _, _ => (st, { modelObs := "badop" })
  match toks with
  | ["alloc", k, f] => allocOp k f
  | ["allocmac", k, f] => allocOp k f
  | ["release", k, f] => match parseTagged 's' k, bit f 0 with
    | some k, some f =>
      let (s', o) := Session.release s k f
      result st (.session s') (showObs o) (changed k impl none) sessionClause
    | _, _ => (st, { modelObs := "badop" })
  | ["renew", k, _] => match parseTagged 's' k with
    | some _ => (st, { modelObs := "ok" })
    | none => (st, { modelObs := "badop" })
  | ["get", k] => match parseTagged 's' k with
    | some k => (st, { modelObs := match Session.get s k with
        | .okAddr a l => showPfx a l
        | _ => "none" })
    | none => (st, { modelObs := "badop" })
  | ["owner", a] => match parseAddrLen a with
    | some (x, l) => (st, { modelObs := showObs (Session.owner s x l) })
    | none => (st, { modelObs := "badop" })
  | ["stats"] => (st, { modelObs := showObs (Session.stats s) })
  | ["util"] =>
    -- IPAllocator.Stats reports a PERCENTAGE, EpochBitmapAllocator.Stats a fraction (finding KF-util-units)
    let obs := match Session.stats s with
      | .stats a t => s!"{if a = 0 ∨ t = 0 then "zero" else "percent"} {a} {t}"
      | _ => "badop"
    let ev : DistSpec.Ev := match splitTokens impl with
      | kind :: _ => .util kind
      | [] => .nop
    result st (.session s) obs ev (fun v _ _ => if v == "utilisation" && impl.startsWith "percent " then "KF-util-units" else "none")
  | ["restart", seed] => match seed.toNat? with
    | some seed =>
      let s' := Session.restart s (orderOf s.store seed)
      result st (.session s') "ok" .restarted sessionClause
    | none => (st, { modelObs := "badop" })
  | ["remoteput", k, a, e] => match parseTagged 's' k, parseAddrLen a, e.toNat? with
    | some k, some (x, l), some e =>
      let xm := maskTo c.famBits x l
      let before := Session.owner s x l
      let s' := Session.remotePut s k { addr := xm, plen := l, epoch := e }
      let obs := s!"ok {showGet (Session.get s' k)} {showObs before} {storeOwner st.nsubs s.store xm l} 0"
      -- what the IMPLEMENTATION answered.  The announcement can be honoured when the prefix is in the pool
      -- and free, or already the subscriber's.  "Free" is what the STORE says; only in a sequence in which an
      -- earlier unapplicable announcement has made the store itself inconsistent does the allocator's own
      -- reverse lookup excuse a refusal.
      let clean := st.mon.conflicted.isEmpty && st.mon.badPfx.isEmpty
      let mine := fun (o : String) => o == "none" || o == s!"s{k}"
      let ev : DistSpec.Ev := match splitTokens impl with
        | ["ok", g, b, sb, _] =>
          let applicable := sessionInRange c xm l && mine sb && (mine b || clean)
          .remotePut k xm l (parsePfx g) applicable (if mine b then parseTagged 's' sb else parseTagged 's' b)
        | _ => .nop
      result st (.session s') obs ev sessionClause
    | _, _, _ => (st, { modelObs := "badop" })
  | ["remotedel", k] => match parseTagged 's' k with
    | some k => result st (.session (Session.remoteDel s k)) "ok" (.remoteDel k) sessionClause
    | none => (st, { modelObs := "badop" })
  | ["audit"] =>
    let units := (List.range c.totalBig).map fun i => (Bitmap.prefixOf c i, c.plen)
    result st (.session s) (auditLine st.nsubs s.store (Session.get s) units (Session.owner s)) (auditEv impl)
      sessionClause
  | _ => (st, { modelObs := "badop" })

def leaseInRange (c : Epoch.Cfg) (addr plen : Nat) : Bool :=
  plen == 32 && decide (c.base + 1 ≤ addr) && decide (addr + 1 < c.base + c.total)

/-- `s12: …` → 12 -/
def verdictSub (detail : String) : Option Nat :=
  match detail.splitOn ":" with
  | hd :: _ => parseTagged 's' hd
  | [] => none

/-- The exclusion clauses of the lease-mode findings for an audit verdict about subscriber k, decided on
    the SHAPE of k's row in the implementation's audit and on k's own history:
    * record and lease name two different in-pool addresses: D38 right after a restart (the reload re-allocated),
      otherwise the finding that made k drift (D38/D39), if any;
    * a record without a lease: KF-lease-store-epoch, when the epoch moved since the record was written and the
      model of the two expiry clocks shows the same (the lease lapsed, the record is not yet due);
    * a lease without a record: KF-lease-store-epoch, when the record's stamp was stale (failed write / foreign
      stamp), the epoch moved, and the model shows the same;
    anything else is a new violation. -/
def leaseAuditClause (st : St) (s : Lease.State) (rows : List DistSpec.Row) : Clause := fun v d coll =>
  let c := s.a.cfg
  if coll then "KF-dist-remote-collision"
  else if v != "restart" && v != "store-agree" then "none"
  else match verdictSub d with
    | none => "none"
    | some k =>
      match rows.find? (fun r => r.1 == k) with
      | some (_, some (a, l, _), some (a', l')) =>
        if (a, l) != (a', l') && leaseInRange c a' l' then
          if v == "restart" then "D38" else (AMap.lookup st.drift k).getD "none"
        else "none"
      | some (_, some (_, _, e), none) =>
        let modelSame := match AMap.lookup s.store k, Lease.get s k with
          | some r, .none => r.epoch == e
          | _, _ => false
        if st.staleEcho.contains k && modelSame then "KF-stale-delete-echo"
        else if v == "store-agree" && st.tickSince.contains k && modelSame then "KF-lease-store-epoch" else "none"
      | some (_, none, some _) =>
        let modelSame := match AMap.lookup s.store k, Lease.get s k with
          | none, .okAddr _ _ => true
          | _, _ => false
        if v == "store-agree" && st.staleRec.contains k && st.tickSince.contains k && modelSame
        then "KF-lease-store-epoch" else "none"
      | _ => "none"

def stepLease (st : St) (s : Lease.State) (toks : List String) (impl : String) : St × LineResult :=
  let c := s.a.cfg
  let plain : Clause := fun _ _ coll => if coll then "KF-dist-remote-collision" else "none"
  let implOk := match splitTokens impl with
    | "ok" :: _ => true
    | _ => false
  let implErr := match splitTokens impl with
    | "error" :: _ => true
    | _ => false
  -- bookkeeping of k's record after an allocate/renew answer
  let wrote := fun (st : St) (k : Nat) =>
    if implOk then { st with drift := AMap.erase st.drift k, staleRec := st.staleRec.filter (· ≠ k),
                             tickSince := st.tickSince.filter (· ≠ k), staleEcho := st.staleEcho.filter (· ≠ k) }
    else if implErr then { st with staleRec := k :: st.staleRec }
    else st
  let allocOp := fun (k f : String) => match parseTagged 's' k, bit f 0 with
    | some k, some f =>
      let (s', o) := Lease.alloc s k f
      result (wrote st k) (.lease s') (showObs o) (changed k impl (some st.implEpoch)) plain
    | _, _ => (st, { modelObs := "badop" })
  match toks with
  | ["alloc", k, f] => allocOp k f
  | ["allocmac", k, f] => allocOp k f
  | ["release", k, f] => match parseTagged 's' k, bit f 0 with
    | some k, some f =>
      let (s', o) := Lease.release s k f
      let st1 := if implOk then { st with drift := AMap.erase st.drift k, staleRec := st.staleRec.filter (· ≠ k) } else st
      result st1 (.lease s') (showObs o) (changed k impl none) plain
    | _, _ => (st, { modelObs := "badop" })
  | ["renew", k, f] => match parseTagged 's' k, bit f 0, bit f 1 with
    | some k, some g, some p =>
      let (s', o) := Lease.renew s k g p
      -- a successful Renew re-stamps the record (the address is not rewritten: drift stays)
      let st1 := if implOk then { st with staleRec := st.staleRec.filter (· ≠ k), tickSince := st.tickSince.filter (· ≠ k) }
                 else if implErr then { st with staleRec := k :: st.staleRec } else st
      result st1 (.lease s') (showObs o) (changed k impl (some st.implEpoch)) plain
    | _, _, _ => (st, { modelObs := "badop" })
  | ["get", k] => match parseTagged 's' k with
    | some k => (st, { modelObs := match Lease.get s k with
        | .okAddr a l => showPfx a l
        | _ => "none" })
    | none => (st, { modelObs := "badop" })
  | ["owner", a] => match parseAddrLen a with
    | some (x, _) => (st, { modelObs := showObs (Lease.owner s x) })
    | none => (st, { modelObs := "badop" })
  | ["stats"] => (st, { modelObs := showObs (Lease.stats s) })
  | ["util"] =>
    let ev : DistSpec.Ev := match splitTokens impl with
      | kind :: _ => .util kind
      | [] => .nop
    result st (.lease s) s!"{Epoch.utilKind s.a} {s.a.subs.length} {s.a.cfg.usable}" ev plain
  | ["restart", seed] => match seed.toNat? with
    | some seed =>
      let s' := Lease.restart s (orderOf s.store seed)
      -- D38 drift, per subscriber: the reload (as modelled) gave k another address than its record names
      let all := (List.range st.nsubs).map (· + 1)
      let drift := all.foldl (fun (d : AMap Nat String) k =>
        match AMap.lookup s'.store k, Lease.get s' k with
        | some r, .okAddr a _ => if r.addr != a then AMap.insert d k "D38" else AMap.erase d k
        | _, _ => AMap.erase d k) st.drift
      result { st with drift := drift, tickSince := all, implEpoch := 2 } (.lease s') "ok" .restarted plain
    | none => (st, { modelObs := "badop" })
  | ["tick", seed, f] => match seed.toNat?, bit f 0 with
    | some seed, some f =>
      let (s', o) := Lease.tick s (orderOf s.store seed) f
      let e := (impl.toNat?).getD (st.implEpoch + 1)
      result { st with tickSince := (List.range st.nsubs).map (· + 1), implEpoch := e } (.lease s') (showObs o) .attempt plain
    | _, _ => (st, { modelObs := "badop" })
  | ["tickrace", seed, k] => match seed.toNat?, parseTagged 's' k with
    | some seed, some k =>
      -- epochLoop holds da.mu for the whole iteration, so the racing Allocate runs after the tick — and before
      -- the store's (asynchronous) delete notifications of that tick are delivered
      let (s2, o1, o2) := Lease.tickThenAllocThenEcho s (orderOf s.store seed) k
      let deleted := (Lease.tickCore s (orderOf s.store seed) false).2
      let e := match splitTokens impl with
        | e :: _ => (e.toNat?).getD (st.implEpoch + 1)
        | [] => st.implEpoch + 1
      let all := (List.range st.nsubs).map (· + 1)
      let allocOk := match splitTokens impl with
        | [_, "ok", _] => true
        | _ => false
      let st1 := { st with tickSince := all, implEpoch := e }
      let st2 := if allocOk then { st1 with drift := AMap.erase st1.drift k, staleRec := st1.staleRec.filter (· ≠ k),
                                            tickSince := st1.tickSince.filter (· ≠ k),
                                            staleEcho := if deleted.contains k then k :: st1.staleEcho else st1.staleEcho.filter (· ≠ k) }
                 else st1
      result st2 (.lease s2) s!"{showObs o1} {showObs o2}" (if allocOk then .mutated k (some e) else .attempt) plain
    | _, _ => (st, { modelObs := "badop" })
  | ["remoteput", k, a, e] => match parseTagged 's' k, parseAddrLen a, e.toNat? with
    | some k, some (x, l), some e =>
      let xm := maskTo 32 x l
      let before := Lease.owner s x
      let s' := Lease.remotePut s k { addr := xm, plen := l, epoch := e }
      let obs := s!"ok {showGet (Lease.get s' k)} {showObs before} {storeOwner st.nsubs s.store xm l} {s'.a.epoch}"
      let clean := st.mon.conflicted.isEmpty && st.mon.badPfx.isEmpty
      let mine := fun (o : String) => o == "none" || o == s!"s{k}"
      let toks' := splitTokens impl
      let ev : DistSpec.Ev := match toks' with
        | ["ok", g, b, sb, cur] =>
          let stale := match cur.toNat? with
            | some cur => Lease.stale cur e
            | none => false
          let applicable := leaseInRange c xm l && mine sb && (mine b || clean) && !stale
          .remotePut k xm l (parsePfx g) applicable (if mine b then parseTagged 's' sb else parseTagged 's' b)
        | _ => .nop
      -- D39 applies to a `remote` verdict only when Get answers some OTHER in-pool address
      let clause : Clause := fun v _ coll =>
        if coll then "KF-dist-remote-collision"
        else if v == "remote" then
          match toks' with
          | ["ok", g, _, _, _] => match parsePfx g with
            | some (a', l') => if (a', l') != (xm, l) && leaseInRange c a' l' then "D39" else "none"
            | none => "none"
          | _ => "none"
        else "none"
      -- per-subscriber drift (as modelled): the lease names another address than the announced record
      let drifted := match Lease.get s' k with
        | .okAddr a' _ => a' != xm
        | _ => false
      let st1 := { st with drift := if drifted then AMap.insert st.drift k "D39" else AMap.erase st.drift k,
                           staleRec := if e != s'.a.epoch then k :: st.staleRec else st.staleRec.filter (· ≠ k),
                           tickSince := st.tickSince.filter (· ≠ k) }
      result st1 (.lease s') obs ev clause
    | _, _, _ => (st, { modelObs := "badop" })
  | ["remotedel", k] => match parseTagged 's' k with
    | some k =>
      result { st with drift := AMap.erase st.drift k, staleRec := st.staleRec.filter (· ≠ k) }
        (.lease (Lease.remoteDel s k)) "ok" (.remoteDel k) plain
    | none => (st, { modelObs := "badop" })
  | ["audit"] =>
    let units := (List.range c.total).map fun i => (c.base + i, 32)
    let rows := match parseAudit impl with
      | some (rows, _) => rows
      | none => []
    result st (.lease s) (auditLine st.nsubs s.store (Lease.get s) units (fun a _ => Lease.owner s a)) (auditEv impl)
      (leaseAuditClause st s rows)
  | _ => (st, { modelObs := "badop" })

/-- the implementation's `x | y` answer after a fork -/
def forkEv (impl : String) : DistSpec.Ev :=
  match impl.splitOn " | " with
  | [a, b] => .forked a b
  | _ => .nop

def probeBitmap (m : Bitmap.State) (n : Nat) : String :=
  let c := m.cfg
  ",".intercalate ((List.range n).map fun i =>
    s!"s{i + 1}={BitmapDrv.showLookup c (Bitmap.lookup m (i + 1))}") ++ ";" ++
  ",".intercalate ((List.range (min c.totalBig 64)).map fun i =>
    s!"{BitmapDrv.showAddr c (Bitmap.prefixOf c i)}={BitmapDrv.showObs c (Bitmap.lookupByPrefix m (Bitmap.prefixOf c i) c.plen)}") ++ ";" ++
  (BitmapDrv.showObs c (Bitmap.stats m)).replace " " "/"

/-- both copies answered an allocation with a unit, and not the same one -/
def divergentAlloc (impl : String) : Bool :=
  match impl.splitOn " | " with
  | [a, b] => a != b && a.startsWith "ok " && b.startsWith "ok "
  | _ => false

def stepRtBitmap (st : St) (a : Bitmap.State) (b : Option Bitmap.State) (toks : List String) (impl : String) :
    St × LineResult :=
  match toks with
  | ["fork"] => ({ st with model := .rtBitmap a (some (Bitmap.roundtrip a)) }, { modelObs := "ok" })
  | ["probe", n] => match n.toNat? with
    | some n =>
      match b with
      | none => (st, { modelObs := probeBitmap a n })
      | some b =>
        -- D40 is about the allocation hint only: a read-only difference is attributed to it solely as the
        -- consequence of an earlier divergent allocation
        -- … AND only when the model (which has the hint behaviour of D40 and nothing else) gives exactly this pair
        let obs := s!"{probeBitmap a n} | {probeBitmap b n}"
        let clause := fun (v : String) => if v == "roundtrip" && st.diverged && obs == impl then "D40" else "none"
        let (mon', vs) := DistSpec.check st.mon (forkEv impl)
        ({ st with mon := mon' },
         { modelObs := obs, viols := vs.map fun (v, d, _) => (v, clause v, d) })
    | none => (st, { modelObs := "badop" })
  | _ =>
    match BitmapDrv.parseOp toks with
    | some op =>
      let shown := fun (m : Bitmap.State) (o : Bitmap.Obs) => match op with
        | .lookup _ => BitmapDrv.showLookup m.cfg o
        | _ => BitmapDrv.showObs m.cfg o
      let (a', oa) := Bitmap.step a op
      let moved := match op with
        | .setAllocation k x l => match Bitmap.indexOf a.cfg x l, AMap.lookup a.allocated k with
          | some i, some old => st.moved || (old != i && oa == .ok)
          | _, _ => st.moved
        | _ => st.moved
      match b with
      | none => ({ st with model := .rtBitmap a' none, moved := moved }, { modelObs := shown a oa })
      | some b =>
        let (b', ob) := Bitmap.step b op
        let isAlloc := match op with
          | .alloc _ => true
          | _ => false
        -- the exclusion clause of D40: after a SetAllocation move, the two copies hand a new subscriber
        -- different units (hint not serialised); later differences are its consequence
        -- … and only on a line where the model (hint behaviour of D40 and nothing else) gives exactly this pair
        let obs := s!"{shown a oa} | {shown b ob}"
        let d40 := st.moved && ((isAlloc && divergentAlloc impl) || st.diverged) && obs == impl
        let clause := fun (v : String) => if v == "roundtrip" && d40 then "D40" else "none"
        let (mon', vs) := DistSpec.check st.mon (forkEv impl)
        ({ st with model := .rtBitmap a' (some b'), mon := mon', moved := moved,
                   diverged := st.diverged || (st.moved && isAlloc && divergentAlloc impl) },
         { modelObs := s!"{shown a oa} | {shown b ob}", viols := vs.map fun (n, d, _) => (n, clause n, d) })
    | none => (st, { modelObs := "badop" })

def probeEpoch (m : Epoch.State) (n : Nat) : String :=
  let c := m.cfg
  ",".intercalate ((List.range n).map fun i =>
    s!"s{i + 1}={EpochDrv.showObs (Epoch.lookup m (i + 1))}") ++ ";" ++
  ",".intercalate ((List.range (min c.total 64)).map fun i =>
    s!"{toHex (c.base + i)}={EpochDrv.showObs (Epoch.lookupByIP m (c.base + i))}") ++ ";" ++
  (EpochDrv.showObs (Epoch.stats m)).replace " " "/"

def stepRtEpoch (st : St) (a : Epoch.State) (b : Option Epoch.State) (toks : List String) (impl : String) :
    St × LineResult :=
  match toks with
  | ["fork"] => ({ st with model := .rtEpoch a (some (Epoch.roundtrip a)) }, { modelObs := "ok" })
  | ["probe", n] => match n.toNat? with
    | some n =>
      match b with
      | none => (st, { modelObs := probeEpoch a n })
      | some b =>
        let (mon', vs) := DistSpec.check st.mon (forkEv impl)
        ({ st with mon := mon' },
         { modelObs := s!"{probeEpoch a n} | {probeEpoch b n}", viols := vs.map fun (v, d, _) => (v, "none", d) })
    | none => (st, { modelObs := "badop" })
  | _ =>
    match EpochDrv.parseOp toks with
    | some op =>
      let (a', oa) := Epoch.step a op
      match b with
      | none => ({ st with model := .rtEpoch a' none }, { modelObs := EpochDrv.showObs oa })
      | some b =>
        let (b', ob) := Epoch.step b op
        let (mon', vs) := DistSpec.check st.mon (forkEv impl)
        ({ st with model := .rtEpoch a' (some b'), mon := mon' },
         { modelObs := s!"{EpochDrv.showObs oa} | {EpochDrv.showObs ob}",
           viols := vs.map fun (n, d, _) => (n, "none", d) })
    | none => (st, { modelObs := "badop" })

/-! ### the pool monitor over time (uniqueness across epochs, restarts and replication) -/

def lmonForget (m : LeaseSpec.Mon) (k : Nat) : LeaseSpec.Mon :=
  { m with mon := AMap.erase m.mon k, renewed := AMap.erase m.renewed k, ghost := AMap.erase m.ghost k }

/-- Which of the monitor's verdicts belong to this component's reading, and under which finding's clause:
    * KF-lease-store-epoch only for a subscriber whose record's epoch stamp is NOT the code's own last write
      (a write that failed, or a record stamped by another node) AND for whom the epoch has moved since that
      record was written — a lease the code itself refreshed in the store is never excused;
    * KF-dist-remote-collision only for subscribers / prefixes the C12 monitor has marked as collided. -/
def lmonClause (st : St) (ev : LeaseSpec.Ev) (v : String) : String :=
  let collided := fun (k : Nat) => st.mon.conflicted.contains k
  -- the record's stamp is stale AND the epoch has moved since it was written: only then can the two expiry
  -- clocks have parted
  let clocksApart := fun (k : Nat) => st.staleRec.contains k && st.tickSince.contains k
  let plen := match st.model with
    | .session s => s.a.cfg.plen
    | _ => 32
  match v, ev with
  | "unique", .got k a =>
    match PoolSpec.holderOf (AMap.erase st.lmon.mon k) a with
    | some k' =>
      if st.staleEcho.contains k' then "KF-stale-delete-echo"
      else if clocksApart k' then "KF-lease-store-epoch"
      else if collided k' || collided k || st.mon.badPfx.contains (a, plen) then "KF-dist-remote-collision"
      else "none"
    | none => "none"
  | "idempotent", .got k _ =>
    if st.staleEcho.contains k then "KF-stale-delete-echo"
    else if clocksApart k then "KF-lease-store-epoch"
    else if collided k then "KF-dist-remote-collision" else "none"
  | "reclaimed", .looked k _ =>
    if st.staleEcho.contains k then "KF-stale-delete-echo"
    else if clocksApart k then "KF-lease-store-epoch"
    else if collided k then "KF-dist-remote-collision" else "none"
  | "reclaimed", .renewRefused k =>
    if st.staleEcho.contains k then "KF-stale-delete-echo"
    else if clocksApart k then "KF-lease-store-epoch"
    else if collided k then "KF-dist-remote-collision" else "none"
  | _, _ => "none"

def lmonStep (st : St) (toks : List String) (impl : String) : St × List (String × String × String) :=
  let itoks := splitTokens impl
  let feed := fun (ev : LeaseSpec.Ev) =>
    let (m', vs) := LeaseSpec.check st.lgeo st.lmon ev
    let keep := vs.filter fun (n, _) => n == "unique" || n == "idempotent" || n == "range" || n == "reclaimed"
    ({ st with lmon := m' }, keep.map fun (n, d) => (n, lmonClause st ev n, d))
  let held := fun (k : Nat) => (AMap.lookup st.lmon.mon k).isSome
  match toks with
  | [op, k, _] =>
    if op == "alloc" || op == "allocmac" then
      match parseTagged 's' k, itoks with
      | some k, ["ok", a] => match parseAddrLen a with
        | some (x, _) => feed (.got k x)
        | none => (st, [])
      -- a store error after the in-memory step: the lease was refreshed all the same
      | some k, ["error"] => if held k then feed (.renewed k) else (st, [])
      | _, _ => (st, [])
    else if op == "release" then
      match parseTagged 's' k, itoks with
      | some k, ["ok"] => feed (.released k)
      | _, _ => (st, [])
    else if op == "renew" && st.lease then
      match parseTagged 's' k, itoks with
      | some k, ["ok"] => if held k then feed (.renewed k) else (st, [])
      | some k, ["error"] => if held k then feed (.renewed k) else (st, [])
      | some k, ["notfound"] => feed (.renewRefused k)
      | _, _ => (st, [])
    else if op == "tick" then feed .advanced
    else if op == "tickrace" then
      -- tickrace <seed> sK => <epoch> <answer of Allocate>
      let (st1, v1) := feed .advanced
      match parseTagged 's' (toks.getD 2 ""), itoks with
      | some k, [_, "ok", a] => match parseAddrLen a with
        | some (x, _) =>
          let (m', vs) := LeaseSpec.check st1.lgeo st1.lmon (.got k x)
          let keep := vs.filter fun (n, _) => n == "unique" || n == "idempotent" || n == "range"
          ({ st1 with lmon := m' }, v1 ++ keep.map fun (n, d) => (n, lmonClause st1 (.got k x) n, d))
        | none => (st1, v1)
      | _, _ => (st1, v1)
    else if op == "restart" then
      -- a restart whose load Query fails: the node must refuse; whatever it answers afterwards is judged
      -- against what its subscribers held before
      (st, [])
    else (st, [])
  | ["get", k] =>
    match parseTagged 's' k with
    | some k =>
      if impl == "none" then feed (.looked k none)
      else match parseAddrLen impl with
        -- a holding the monitor has no record of (after a restart or a replicated change): adopted, and checked
        -- for uniqueness and range like a fresh grant
        | some (x, _) =>
          if held k then feed (.looked k (some x))
          else
            -- when the adopted lease was last refreshed is unknown: it is taken to be in its LAST epoch of grace
            let (st1, vs) := feed (.got k x)
            ({ st1 with lmon := { st1.lmon with
                renewed := AMap.insert st1.lmon.renewed k (st1.lmon.epoch - st1.lmon.grace) } }, vs)
        | none => (st, [])
    | none => (st, [])
  | ["restart", _] =>
    -- lease mode re-allocates on reload (D38): what subscribers hold afterwards is learnt anew.
    -- session mode restores the table, so the monitor keeps it — unless the store holds colliding records,
    -- whose winner depends on the enumeration order (KF-dist-remote-collision).
    if st.lease || !st.mon.conflicted.isEmpty || !st.mon.badPfx.isEmpty then
      ({ st with lmon := { grace := st.lmon.grace } }, [])
    else (st, [])
  | ["remoteput", k, _, _] => match parseTagged 's' k with
    | some k => ({ st with lmon := lmonForget st.lmon k }, [])
    | none => (st, [])
  | ["remotedel", k] => match parseTagged 's' k with
    | some k => ({ st with lmon := lmonForget st.lmon k }, [])
    | none => (st, [])
  | _ => (st, [])

def stepBase (st : St) (toks : List String) (impl : String) : St × LineResult :=
  match toks with
  | ["new", mode, fam, base, ones, pl, grace, ns] =>
    match fam.toNat?, parseHex base, ones.toNat?, pl.toNat?, grace.toNat?, ns.toNat? with
    | some fam, some base, some ones, some pl, some grace, some ns =>
      if mode == "session" then
        let c : Bitmap.Cfg := { famBits := fam, poolPrefix := ones, plen := pl, base := base }
        if c.valid then ({ model := .session (Session.init c), nsubs := ns, lgeo := Bitmap.geoOf c }, { modelObs := "ok" })
        else ({}, { modelObs := "invalid" })
      else if mode == "lease" then
        let c : Epoch.Cfg := { base := base, ones := ones, plen := pl, grace := if grace = 0 then 1 else grace }
        if fam = 32 ∧ c.valid then
          ({ model := .lease (Lease.init c), nsubs := ns, lease := true, lmon := { grace := c.grace },
             lgeo := { lo := base + 1, step := 1, units := c.total - 2, totalReported := c.total - 2 } }, { modelObs := "ok" })
        else ({}, { modelObs := "invalid" })
      else (st, { modelObs := "badop" })
    | _, _, _, _, _, _ => (st, { modelObs := "badop" })
  | ["newrt", "bitmap", fam, base, ones, pl] =>
    match fam.toNat?, parseHex base, ones.toNat?, pl.toNat? with
    | some fam, some base, some ones, some pl =>
      let c : Bitmap.Cfg := { famBits := fam, poolPrefix := ones, plen := pl, base := base }
      if c.valid then ({ model := .rtBitmap (Bitmap.init c) none }, { modelObs := "ok" })
      else ({}, { modelObs := "invalid" })
    | _, _, _, _ => (st, { modelObs := "badop" })
  | ["newrt", "epoch", base, ones, pl, grace] =>
    match parseHex base, ones.toNat?, pl.toNat?, grace.toNat? with
    | some base, some ones, some pl, some grace =>
      let c : Epoch.Cfg := { base := base, ones := ones, plen := pl, grace := if grace = 0 then 1 else grace }
      if c.valid then ({ model := .rtEpoch (Epoch.init c) none }, { modelObs := "ok" })
      else ({}, { modelObs := "invalid" })
    | _, _, _, _ => (st, { modelObs := "badop" })
  | ["stress", _] =>
    -- concurrent callers on a fresh allocator + store, audited by the harness: the clause it names is the verdict
    let vs := match splitTokens impl with
      | "viol" :: mon :: rest => [(mon, "none", " ".intercalate rest)]
      | _ => []
    (st, { modelObs := "ok", viols := vs })
  | _ =>
    match st.model with
    | .none => (st, { modelObs := "badop" })
    | .rtBitmap a b => stepRtBitmap st a b toks impl
    | .rtEpoch a b => stepRtEpoch st a b toks impl
    | m =>
      -- restart <seed> 1: the Query of the load step fails, Start must refuse; the node is down until the next restart
      let failedStart := match toks with
        | ["restart", _, "1"] => true
        | _ => false
      let toks' := match toks with
        | ["restart", seed, _] => ["restart", seed]
        | t => t
      let (st1, lv) := if failedStart then (st, []) else lmonStep st toks' impl
      if failedStart then
        let has := match m with
          | .session s => !s.store.isEmpty
          | .lease s => !s.store.isEmpty
          | _ => false
        let (mon', vs) := DistSpec.check st.mon (.startOutcome true has (impl == "ok"))
        ({ st with down := true, mon := mon' },
         { modelObs := "error", viols := vs.map fun (n, d, _) => (n, "none", d) })
      else if st.down && toks'.head? != some "restart" then
        -- a node that refused to start serves nothing; if the implementation answers all the same, its answers are
        -- still judged by the pool monitor
        (st1, { modelObs := "down", viols := lv })
      else
        let (st2, r) := match m with
          | .session s => stepSession { st1 with down := false } s toks' impl
          | .lease s => stepLease { st1 with down := false } s toks' impl
          | _ => (st1, { modelObs := "badop" })
        (st2, { r with viols := r.viols ++ lv })

/-- `restartgap <seed> put sK <pfx> <epoch>` / `restartgap <seed> del sK`: crash + restart during which another node
    changes the store right after the Query of Start's load step.  The harness runs a plain restart with the same seed
    first (to observe the node right after the load), then the restart with the change in the window.  On the model
    this is `Session.startGap` / `Lease.startGap`, i.e. (theorems session_start_gap_replayed / lease_start_gap_replayed)
    the restart followed by the remote change: the lines are replayed as exactly that, and the monitors see a restart
    followed by a remote put / delete. -/
def step (st : St) (toks : List String) (impl : String) : St × LineResult :=
  match toks with
  | "restartgap" :: seed :: rest =>
    let inner : Option (List String × String) := match rest with
      | ["put", k, a, e] => some (["remoteput", k, a, e], impl)
      | ["del", k] => some (["remotedel", k], impl)
      | _ => none
    match inner, st.model with
    | some (op, impl'), .session _ | some (op, impl'), .lease _ =>
      if impl == "error" || impl == "down" || impl == "invalid" then
        -- Start refused although nothing was made to fail
        (st, { modelObs := if rest.head? == some "del" then "ok" else "ok -" })
      else
        let (st1, r1) := stepBase st ["restart", seed] "ok"
        let (st2, r2) := stepBase st1 ["restart", seed] "ok"
        let (st3, r3) := stepBase st2 op impl'
        (st3, { modelObs := r3.modelObs, viols := r1.viols ++ r2.viols ++ r3.viols })
    | _, _ => (st, { modelObs := "badop" })
  | _ => stepBase st toks impl

def component : Component := { σ := St, init := {}, step := step }

end Bng.Drv.DistDrv
