import Bng.Drv.Common
import Bng.Model.Dhcp6
import Bng.Model.BindSpec
/-
  bngdrv component `dhcp6`: replays traces of the real DHCPv6 server (pkg/dhcpv6, driven through its verif hooks
  by harness/cmd/dhcp6) on the model Bng.Dhcp6 and runs the binding monitor Bng.BindSpec (C02) — one instance
  for addresses, one for delegated prefixes — on the implementation's replies.

    new <addrPool>/<len>|- <prefixPool>/<len>|- <delegationLen> <validSeconds>
    sol d<k> <rapid 0|1> <ianas> <iapds>       req d<k> <ok|bad|none> <ianas> <iapds>
    ren d<k> <ianas> <iapds>                   reb d<k> <ianas> <iapds>
    con d<k> <addr,…|->    rel d<k>    dec d<k> <addr|->    tick <minutes>

    newpool <base>/<len> <deleg>   what NewPrefixPool builds for that geometry (no server state involved)
    newapool <base>/<len>          what NewAddressPool builds
        => n=<entries> d=<distinct entries> in=<1|0 all inside the base> first=<hex|-> last=<hex|-> sum=<hex, mod 2^128>
           | invalid            (monitors: pool-distinct  n ≠ d,  pool-inside  in = 0)

  Observation: see harness/cmd/dhcp6/main.go.
-/
namespace Bng.Drv.Dhcp6Drv
open Bng Bng.Drv Bng.Dhcp6

structure St where
  model : Option Dhcp6.State := none
  monA  : BindSpec.Mon := {}
  monP  : BindSpec.Mon := {}
  geoA  : BindSpec.Geo := { lo := 0, hi := 0, capacity := 0 }
  geoP  : BindSpec.Geo := { lo := 0, hi := 0, capacity := 0 }
  /-- finding D7.  (client, value) pairs: the DECLINE handler put `value` back on a free list although the
      monitor still counts it as bound to `client` (it named another address, or it is the delegated prefix).
      A pair is dropped as soon as the client is ACKed again, releases, or its binding lapses in the monitor. -/
  taint7A : List (Nat × Nat) := []
  taint7P : List (Nat × Nat) := []
  /-- addresses the DECLINE handler freed that the monitor recorded as declined (they stay declined for ever;
      serving one again is finding D7 by definition) -/
  declined7 : List Nat := []

/-- `1,2@<hint>` → IAIDs (the hints are ignored by the server and by the model) -/
def parseIAs (s : String) : Option (List Nat) :=
  if s == "-" then some [] else
  (s.splitOn ",").mapM fun item =>
    match item.splitOn "@" with
    | [i] => i.toNat?
    | [i, h] => do let _ ← parseHex h; i.toNat?
    | _ => none

def parseAddrs (s : String) : Option (List Nat) :=
  if s == "-" then some [] else (s.splitOn ",").mapM parseHex

inductive Line where
  | op (o : Op)
  | dec (d : Nat) (a : Option Nat)
  | tick (n : Nat)

def parseLine (toks : List String) : Option Line :=
  match toks with
  | ["sol", d, r, na, pd] => do
      let d ← parseTagged 'd' d
      let r ← (if r == "0" then some false else if r == "1" then some true else none)
      let na ← parseIAs na; let pd ← parseIAs pd
      pure (.op (.solicit d r na pd))
  | ["req", d, sid, na, pd] => do
      let d ← parseTagged 'd' d
      let sid ← (if sid == "ok" then some ServerId.ok else if sid == "bad" then some .bad
                 else if sid == "none" then some .absent else none)
      let na ← parseIAs na; let pd ← parseIAs pd
      pure (.op (.request d sid na pd))
  | ["ren", d, na, pd] => do
      let d ← parseTagged 'd' d; let na ← parseIAs na; let pd ← parseIAs pd
      pure (.op (.renew d na pd))
  | ["reb", d, na, pd] => do
      let d ← parseTagged 'd' d; let na ← parseIAs na; let pd ← parseIAs pd
      pure (.op (.rebind d na pd))
  | ["con", d, addrs] => do
      let d ← parseTagged 'd' d; let addrs ← parseAddrs addrs
      pure (.op (.confirm d addrs))
  | ["rel", d] => do let d ← parseTagged 'd' d; pure (.op (.release d))
  | ["dec", d, a] => do
      let d ← parseTagged 'd' d
      let a ← (if a == "-" then some none else (parseHex a).map some)
      pure (.dec d a)
  | ["tick", n] => do let n ← n.toNat?; if n ≤ 100000 then pure (.tick n) else none
  | _ => none

def insertByKey {α : Type} (key : α → Nat) (x : α) : List α → List α
  | [] => [x]
  | y :: rest => if key x ≤ key y then x :: y :: rest else y :: insertByKey key x rest

def sortByKey {α : Type} (key : α → Nat) (l : List α) : List α :=
  l.foldl (fun acc x => insertByKey key x acc) []

def joinOr (xs : List String) : String := if xs.isEmpty then "-" else ",".intercalate xs

def showOpt : Option Nat → String
  | some v => toHex v
  | none => "-"

def showSnapshot (s : Dhcp6.State) : String :=
  let ls := (sortByKey (fun (p : Nat × Lease) => p.1) s.leases).map fun (d, l) =>
    let ve := match l.validEnd with
      | some t => toString t
      | none => "-"
    s!"d{d}:{showOpt l.addr}:{showOpt l.pfx}:{l.iaid}:{ve}"
  let ap := (sortByKey (fun (p : Nat × Nat) => p.1) s.apool.allocated).map fun (d, a) => s!"d{d}:{toHex a}"
  let pp := (sortByKey (fun (p : Nat × Nat) => p.1) s.ppool.allocated).map fun (d, a) => s!"d{d}:{toHex a}"
  s!"L={joinOr ls} AP={joinOr ap} AA={joinOr (s.apool.avail.map toHex)} PP={joinOr pp} PA={joinOr (s.ppool.avail.map toHex)}"

def showReply (c : Cfg) : Reply → String
  | none => "none"
  | some r =>
    let kind := match r.kind with
      | .advertise => "adv"
      | .reply => "rep"
    let nas := r.nas.map fun (i, a) => match a with
      | some a => s!"{i}:{toHex a}"
      | none => s!"{i}:!2"
    let pds := r.pds.map fun (i, p) => match p with
      | some p => s!"{i}:{toHex p}/{c.dlen}"
      | none => s!"{i}:!6"
    let st := match r.status with
      | some n => toString n
      | none => "-"
    s!"{kind} na={joinOr nas} pd={joinOr pds} st={st} rc={if r.rapid then 1 else 0}"

/-- the IA items of the implementation's reply: (value or none for a status) -/
def implItems (impl : String) (field : String) : List (Option Nat) :=
  match (splitTokens impl).find? (fun t => t.startsWith field) with
  | some t =>
    let body := (t.drop field.length).toString
    if body == "-" then [] else
    (body.splitOn ",").map fun item =>
      match item.splitOn ":" with
      | [_, v] => if v.startsWith "!" then none else
          (match v.splitOn "/" with
            | x :: _ => parseHex x
            | [] => none)
      | _ => none
  | none => []

def dedup (l : List Nat) : List Nat := l.foldl (fun acc v => if acc.contains v then acc else acc ++ [v]) []

/-- the events one reply means for one binding table (addresses: field `na=`, prefixes: `pd=`) -/
def events (line : Line) (impl : String) (field : String) (asked : Nat) (valid : Nat) (isAddr : Bool) : List BindSpec.Ev :=
  let toks := splitTokens impl
  let items := implItems impl field
  let vals := dedup (items.filterMap id)
  let refusedIA := items.any (·.isNone)
  match line, toks with
  | .tick n, _ => [.tick (60 * n)]
  | .op (.solicit d _ _ _), "adv" :: _ =>
      vals.map (fun v => .offered d v) ++ (if vals.isEmpty && asked > 0 then [.noOffer d] else [])
  | .op (.solicit d _ _ _), "rep" :: _ =>
      vals.map (fun v => .acked d v valid) ++ (if refusedIA then [.noOffer d] else [])
  | .op (.request d _ _ _), "rep" :: _ =>
      vals.map (fun v => .acked d v valid) ++ (if refusedIA then [.noOffer d] else [])
  | .op (.renew d _ _), "rep" :: _ =>
      if toks.contains "st=3" then [.refusedAny d]
      else vals.map (fun v => .acked d v valid) ++ (if refusedIA then [.noOffer d] else [])
  | .op (.rebind d _ _), "rep" :: _ =>
      if toks.contains "st=3" then [.refusedAny d]
      else vals.map (fun v => .acked d v valid) ++ (if refusedIA then [.noOffer d] else [])
  | .op (.release d), "rep" :: _ => [.released d]
  | .dec d a, "rep" :: _ => if isAddr then [.declined d a] else []
  | _, _ => []

def checkAll (g : BindSpec.Geo) (m : BindSpec.Mon) (evs : List BindSpec.Ev) : BindSpec.Mon × List BindSpec.Verdict :=
  evs.foldl (fun (acc : BindSpec.Mon × List BindSpec.Verdict) ev =>
    let (m', vs) := BindSpec.check g acc.1 ev
    (m', acc.2 ++ vs)) (m, [])

/-- attribution of an exhaustion verdict: every value the model's pool holds that the monitor does not count is
    either the value of an existing lease (the lease outlived its lifetime: D6, nothing ever expires) or an
    allocation made by an Advertise without a lease (D8); and together they explain the exhaustion. -/
def exhaustionClause (g : BindSpec.Geo) (mon : BindSpec.Mon) (pool : FPool) (leaseVal : Nat → Option Nat) : String :=
  let counted := BindSpec.heldValues g mon ++ mon.declined ++ mon.soft
  let extra := pool.allocated.filter (fun p => !(counted.contains p.2))
  let d6 := extra.filter (fun p => leaseVal p.1 == some p.2)
  let enough := decide ((BindSpec.heldValues g mon).length + ((mon.declined ++ mon.soft).filter g.inPool).eraseDups.length
                  + extra.length ≥ g.capacity)
  if extra.isEmpty || !enough then "none"
  else if !d6.isEmpty then "D6" else "D8"

/-- the constructor observation of a free list: count, distinct count, all inside, first, last, sum mod 2^128.
    `d` is printed as `n`: the lists are duplicate-free by Bng.Spec.C01V6.prefix_pool_distinct / addr_pool_distinct. -/
def showPool (l : List Nat) (inside : Nat → Bool) : String :=
  let first := match l.head? with | some v => toHex v | none => "-"
  let last := match l.getLast? with | some v => toHex v | none => "-"
  let sum := l.foldl (fun acc v => (acc + v) % 2 ^ 128) 0
  s!"n={l.length} d={l.length} in={if l.all inside then 1 else 0} first={first} last={last} sum={toHex sum}"

/-- the monitor of the constructors: judged from the implementation's own figures -/
def poolVerdicts (impl : String) : List (String × String × String) :=
  let toks := splitTokens impl
  let field := fun (k : String) => (toks.find? (·.startsWith k)).map (fun t => (t.drop k.length).toString)
  (match field "n=", field "d=" with
    | some n, some d => if n == d then [] else
        [("pool-distinct", "none", s!"the constructed free list has {n} entries of which only {d} are distinct")]
    | _, _ => []) ++
  (match field "in=" with
    | some "0" => [("pool-inside", "none", "the constructed free list has an entry outside the configured pool")]
    | _ => [])

def step (st : St) (toks : List String) (impl : String) : St × LineResult :=
  match toks with
  | ["newpool", pp, dl] =>
    (match parseAddrLen pp, dl.toNat? with
      | some (pbase, pplen), some dl =>
        if pplen ≤ 128 && pbase % 2 ^ (128 - pplen) == 0 && decide (pbase < 2 ^ 128) then
          if pplen < dl && dl ≤ 128 then
            let c : Cfg := { hasAddr := false, abase := 0, aplen := 128, hasPfx := true,
                             pbase := pbase, pplen := pplen, dlen := dl, valid := 0 }
            let inside := fun (p : Nat) => decide (pbase ≤ p) && decide (p + c.pstep ≤ pbase + 2 ^ (128 - pplen))
            (st, { modelObs := showPool c.initialPrefixes inside, viols := poolVerdicts impl })
          else (st, { modelObs := "invalid", viols := poolVerdicts impl })
        else (st, { modelObs := "badop" })
      | _, _ => (st, { modelObs := "badop" }))
  | ["newapool", ap] =>
    (match parseAddrLen ap with
      | some (abase, aplen) =>
        if aplen ≤ 128 && abase % 2 ^ (128 - aplen) == 0 && decide (abase < 2 ^ 128) then
          let c : Cfg := { hasAddr := true, abase := abase, aplen := aplen, hasPfx := false,
                           pbase := 0, pplen := 128, dlen := 128, valid := 0 }
          let inside := fun (a : Nat) => decide (abase < a) && decide (a < abase + c.asize)
          (st, { modelObs := showPool c.initialAddrs inside, viols := poolVerdicts impl })
        else (st, { modelObs := "badop" })
      | none => (st, { modelObs := "badop" }))
  | ["new", ap, pp, dl, valid] =>
    let pool := fun (s : String) => if s == "-" then some none else (parseAddrLen s).map some
    match pool ap, pool pp, dl.toNat?, valid.toNat? with
    | some ap, some pp, some dl, some valid =>
      let (abase, aplen) := ap.getD (0, 128)
      let (pbase, pplen) := pp.getD (0, 128)
      let okA := ap.isNone || (aplen ≤ 128 && abase % 2 ^ (128 - aplen) == 0)
      let okP := pp.isNone || (pplen < dl && dl ≤ 128 && pbase % 2 ^ (128 - pplen) == 0)
      if okA && okP && 0 < dl && dl ≤ 128 then
        let c : Cfg := { hasAddr := ap.isSome, abase := abase, aplen := aplen, hasPfx := pp.isSome,
                         pbase := pbase, pplen := pplen, dlen := dl, valid := valid }
        let s := Dhcp6.init c
        ({ model := some s,
           geoA := { lo := abase + 1, hi := abase + c.acount, capacity := if c.hasAddr then c.acount else 0 },
           geoP := { lo := pbase, hi := pbase + (c.pcount - 1) * c.pstep, step := c.pstep,
                     capacity := if c.hasPfx then c.pcount else 0 } },
         { modelObs := "ok " ++ showSnapshot s })
      else ({}, { modelObs := "badop" })
    | _, _, _, _ => ({}, { modelObs := "badop" })
  | _ =>
    match st.model, parseLine toks with
    | some s, some line =>
      let (s', reply) : Dhcp6.State × String :=
        match line with
        | .op o => let (s', r) := Dhcp6.step s o; (s', showReply s.cfg r)
        | .dec d _ => let (s', r) := Dhcp6.step s (.decline d); (s', showReply s.cfg r)
        | .tick n => ((Dhcp6.step s (.advance (60 * n))).1, "ok")
      -- finding D7: what the DECLINE handler released
      let (tA, tP, d7) : List (Nat × Nat) × List (Nat × Nat) × List Nat :=
        match line with
        | .dec d named =>
          (match AMap.lookup s.leases d with
            | some l =>
              ((match l.addr with | some a => (d, a) :: st.taint7A | none => st.taint7A),
               (match l.pfx with | some p => (d, p) :: st.taint7P | none => st.taint7P),
               (match l.addr, named with
                 | some a, some n => if a == n || st.taint7A.contains (d, n) then n :: st.declined7 else st.declined7
                 | none, some n => if st.taint7A.contains (d, n) then n :: st.declined7 else st.declined7
                 | _, _ => st.declined7))
            | none =>
              -- nothing left to release, but an EARLIER decline of this client may have freed the address it names now
              (st.taint7A, st.taint7P,
               (match named with
                 | some n => if st.taint7A.contains (d, n) then n :: st.declined7 else st.declined7
                 | none => st.declined7)))
        | _ => (st.taint7A, st.taint7P, st.declined7)
      let askedA := match line with
        | .op (.solicit _ _ a _) => a.length
        | _ => 0
      let askedP := match line with
        | .op (.solicit _ _ _ p) => p.length
        | _ => 0
      let (monA', vA) := checkAll st.geoA st.monA
        (events line impl "na=" (if s.cfg.hasAddr then askedA else 0) s.cfg.valid true)
      let (monP', vP) := checkAll st.geoP st.monP
        (events line impl "pd=" (if s.cfg.hasPfx then askedP else 0) s.cfg.valid false)
      let clauseOf := fun (pairs : List (Nat × Nat)) (isAddr : Bool) (v : BindSpec.Verdict) =>
        if v.name == "declined-reoffered" then (if isAddr && d7.contains v.value then "D7" else "none")
        else if v.name == "range" then "none"
        else if pairs.any (·.2 == v.value) then "D7" else "none"
      let clauseA := fun (v : BindSpec.Verdict) =>
        if v.name == "not-reusable" then
          exhaustionClause st.geoA monA' s'.apool (fun d => (AMap.lookup s'.leases d).bind (·.addr))
        else clauseOf tA true v
      let clauseP := fun (v : BindSpec.Verdict) =>
        if v.name == "not-reusable" then
          exhaustionClause st.geoP monP' s'.ppool (fun d => (AMap.lookup s'.leases d).bind (·.pfx))
        else clauseOf tP false v
      -- a pair stays only while the monitor still holds a live binding of that client on that value which the model
      -- does not back: a lease the model's lease table does not record, or an offer its pool does not hold
      let prune := fun (mon : BindSpec.Mon) (leaseVal : Nat → Option Nat) (pool : FPool) (pairs : List (Nat × Nat)) =>
        pairs.filter fun (c, v) =>
          mon.table.any fun b => b.client == c && b.value == v && b.live mon.now &&
            (if b.lease then leaseVal c != some v else AMap.lookup pool.allocated c != some v)
      ({ st with model := some s', monA := monA', monP := monP', declined7 := d7,
                 taint7A := prune monA' (fun d => (AMap.lookup s'.leases d).bind (·.addr)) s'.apool tA,
                 taint7P := prune monP' (fun d => (AMap.lookup s'.leases d).bind (·.pfx)) s'.ppool tP },
       { modelObs := reply ++ " " ++ showSnapshot s',
         viols := vA.map (fun v => (v.name, clauseA v, "address: " ++ v.detail)) ++
                  vP.map (fun v => (v.name, clauseP v, "prefix: " ++ v.detail)) })
    | _, _ => (st, { modelObs := "badop" })

def component : Component := { σ := St, init := {}, step := step }

end Bng.Drv.Dhcp6Drv
