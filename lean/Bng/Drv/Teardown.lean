import Bng.Drv.Common
import Bng.Model.Teardown
/-
  bngdrv component `teardown`: replays traces of the real pppoe.SessionTeardown and runs the C16 monitor
  (PPPoE teardown paths) on the implementation's observations.

    new radius|noradius                    => ok
    mk s1 m1 auth|unauth ip|noip           => ok id=<id> <snapshot>
    padt s1 m2 | term s1 | termid <id> | termmac m1 | termuser u1 | termall   => <snapshot>
    tpark A s1 => parked|done <snapshot>      tresume A => done <snapshot>   (a TerminateSession call held inside its PADT)
    snapshot: stops=<s1:n,…|-> ebpf=<…> padt=<…> held=<s1,…|-> sess=<id:s1,…|->
-/
namespace Bng.Drv.TeardownDrv
open Bng Bng.Drv Bng.Teardown

def insSorted (k : Nat) : List Nat → List Nat
  | [] => [k]
  | x :: r => if k ≤ x then k :: x :: r else x :: insSorted k r

def sortNat (l : List Nat) : List Nat := l.foldl (fun acc k => insSorted k acc) []

def showCounts (m : AMap Nat Nat) : String :=
  let ks := sortNat ((m.filter (fun p => p.2 > 0)).map (·.1))
  if ks.isEmpty then "-" else ",".intercalate (ks.map fun k => s!"s{k}:{count m k}")

def showSnap (s : TD) : String :=
  let held := sortNat s.held
  let h := if held.isEmpty then "-" else ",".intercalate (held.map fun n => s!"s{n}")
  let ids := sortNat (s.live.map (·.1))
  let ss := if ids.isEmpty then "-" else
    ",".intercalate (ids.map fun id => s!"{id}:s{(AMap.lookup s.live id).getD 0}")
  s!"stops={showCounts s.stops} ebpf={showCounts s.ebpf} padt={showCounts s.padt} held={h} sess={ss}"

def tagOf (t : String) : Option Nat :=
  match t with | "A" => some 0 | "B" => some 1 | _ => none

def parseOp (toks : List String) : Option Op :=
  match toks with
  | ["mk", n, m, a, i] => do
      let n ← parseTagged 's' n; let m ← parseTagged 'm' m
      pure (.mk n m (a == "auth") (i == "ip"))
  | ["padt", n, m] => do let n ← parseTagged 's' n; let m ← parseTagged 'm' m; pure (.padt n m)
  | ["term", n] => (parseTagged 's' n).map .term
  | ["termid", id] => id.toNat?.map .termId
  | ["termmac", m] => (parseTagged 'm' m).map .termMac
  | ["termuser", u] => (parseTagged 'u' u).map .termUser
  | ["termall"] => some .termAll
  | ["authfail", n] => (parseTagged 's' n).map .authFail
  | ["tpark", t, n] => do let t ← tagOf t; let n ← parseTagged 's' n; pure (.tpark t n)
  | ["tresume", t] => (tagOf t).map .tresume
  | _ => none

/-! ### monitor: implementation observations only -/
structure Known where
  name : Nat
  mac : Nat
  authed : Bool
  hasIp : Bool
  torn : Bool := false      -- its eBPF entry was seen removed: the session has been torn down

structure Mon where
  radius : Bool := false
  objs : List Known := []
  /-- sessions a held TerminateSession call is at work on (tag, name): from the `parked` answers -/
  busy : List (Nat × Nat) := []

def field (impl key : String) : String :=
  match (splitTokens impl).find? (fun t => t.startsWith (key ++ "=")) with
  | some t => (t.drop (key.length + 1)).toString
  | none => ""

def parseCounts (s : String) : List (Nat × Nat) :=
  if s == "-" || s.isEmpty then [] else
  (s.splitOn ",").filterMap fun item => match item.splitOn ":" with
    | [n, c] => do let n ← parseTagged 's' n; let c ← c.toNat?; pure (n, c)
    | _ => none

def parseNames (s : String) : List Nat :=
  if s == "-" || s.isEmpty then [] else (s.splitOn ",").filterMap (parseTagged 's')

def parseSess (s : String) : List Nat :=
  if s == "-" || s.isEmpty then [] else
  (s.splitOn ",").filterMap fun item => match item.splitOn ":" with
    | [_, n] => parseTagged 's' n
    | _ => none

def monitor (mn : Mon) (op : Op) (impl : String) : Mon × List (String × String × String) :=
  let mn := match op with
    | .mk n m a i => { mn with objs := { name := n, mac := m, authed := a, hasIp := i } :: mn.objs }
    | .authFail n =>
      -- a failed re-authentication of a live session; on a torn-down session the flag is never read again
      { mn with objs := mn.objs.map fun (o : Known) => if o.name == n && !o.torn then { o with authed := false } else o }
    | _ => mn
  let stops := parseCounts (field impl "stops")
  let ebpf := parseCounts (field impl "ebpf")
  let padt := parseCounts (field impl "padt")
  let held := parseNames (field impl "held")
  let live := parseSess (field impl "sess")
  let get := fun (l : List (Nat × Nat)) (n : Nat) => ((l.find? (·.1 == n)).map (·.2)).getD 0
  let vs := mn.objs.foldl (fun acc o =>
    let st := get stops o.name
    let eb := get ebpf o.name
    acc ++
    (if st > 1 then [("double-stop", "none", s!"{st} Accounting-Stops were issued for s{o.name}")] else []) ++
    (if eb > 1 then [("double-cleanup", "none", s!"the eBPF entry of s{o.name} was removed {eb} times")] else []) ++
    (if get padt o.name > 1 then [("double-padt", "none", s!"{get padt o.name} PADTs were sent for s{o.name}")] else []) ++
    -- recorded finding: nothing in pkg/pppoe ever issues the Accounting-Start this Stop belongs to
    (if st ≥ 1 && !o.torn then [("stop-without-start", "KF-pppoe-no-acct-start", s!"an Accounting-Stop was issued for s{o.name} although no Accounting-Start is ever sent for PPPoE sessions")] else []) ++
    -- a session that has been torn down (its eBPF entry was removed) holds nothing any more
    (if eb ≥ 1 then
      (if held.contains o.name then [("residue", "none", s!"s{o.name} was terminated but its address is still allocated")] else []) ++
      (if live.contains o.name then [("residue", "none", s!"s{o.name} was terminated but is still in the session table")] else []) ++
      (if mn.radius && o.authed && st == 0 then [("missing-stop", "none", s!"s{o.name} was terminated without an Accounting-Stop")] else []) ++
      (if !(mn.radius && o.authed) && st > 0 then [("stop-unstarted", "none", s!"an Accounting-Stop was issued for s{o.name} which was never authenticated")] else [])
     else
      (if st > 0 then [("stop-before-end", "none", s!"an Accounting-Stop was issued for s{o.name} which is not torn down")] else []))) []
  -- a termination request for a session leaves it terminated, whatever state it was in
  let gone := fun (n : Nat) => !(held.contains n) && !(live.contains n)
  let vt := match op with
    | .term n =>
      -- a call that finds another TerminateSession at work on the session returns at once; that one finishes the job
      if mn.objs.any (·.name == n) && !gone n && !(mn.busy.any (·.2 == n)) then
        [("not-terminated", "none", s!"TerminateSession(s{n}) returned but s{n} still holds its address or table entry")] else []
    | .padt n m =>
      if mn.objs.any (fun o => o.name == n && o.mac == m) && !gone n then
        [("not-terminated", "none", s!"client PADT from the owner did not terminate s{n}")] else []
    | .termAll =>
      -- sessions a held TerminateSession call is at work on are that call's to finish
      let mine := fun (n : Nat) => mn.busy.any (·.2 == n)
      if !(live.all mine) || !(held.all mine) then
        [("not-terminated", "none", "TerminateAll left sessions or addresses behind")] else []
    | _ => []
  -- a held call that goes on leaves its session terminated
  let vr := match op with
    | .tresume t =>
      match mn.busy.find? (·.1 == t) with
      | some (_, n) => if !gone n then [("not-terminated", "none", s!"the held TerminateSession(s{n}) finished but s{n} still holds its address or table entry")] else []
      | none => []
    | _ => []
  let busy := match op with
    | .tpark t n => if impl.startsWith "parked" then (t, n) :: mn.busy else mn.busy
    | .tresume t => mn.busy.filter (·.1 != t)
    | _ => mn.busy
  let mn := { mn with busy := busy, objs := mn.objs.map fun (o : Known) => if get ebpf o.name ≥ 1 then { o with torn := true } else o }
  (mn, vs ++ vt ++ vr)

structure St where
  model : Option TD := none
  mon : Mon := {}

def step (st : St) (toks : List String) (impl : String) : St × LineResult :=
  match toks with
  | ["new", r] => ({ model := some (init (r == "radius")), mon := { radius := r == "radius" } }, { modelObs := "ok" })
  | _ =>
    match st.model, parseOp toks with
    | some m, some op =>
      match op with
      | .mk n _ _ _ => if (AMap.lookup m.objs n).isSome then (st, { modelObs := "badop" }) else go st m op impl
      | .tpark t n =>
        if (AMap.lookup m.parked t).isSome || !(AMap.lookup m.objs n).isSome then (st, { modelObs := "badop" }) else go st m op impl
      | .tresume t => if (AMap.lookup m.parked t).isSome then go st m op impl else (st, { modelObs := "badop" })
      | _ => go st m op impl
    | _, _ => (st, { modelObs := "badop" })
where
  go (st : St) (m : TD) (op : Op) (impl : String) : St × LineResult :=
      let m' := Teardown.step m op
      let (mon', vs) := monitor st.mon op impl
      let shown := match op with
        | .mk n _ _ _ => s!"ok id={((AMap.lookup m'.objs n).map (·.id)).getD 0} {showSnap m'}"
        | .tpark t _ => (if (AMap.lookup m'.parked t).isSome && !(AMap.lookup m.parked t).isSome then "parked " else "done ") ++ showSnap m'
        | .tresume _ => "done " ++ showSnap m'
        | _ => showSnap m'
      ({ model := some m', mon := mon' }, { modelObs := shown, viols := vs })

def component : Component := { σ := St, init := {}, step := step }

end Bng.Drv.TeardownDrv
