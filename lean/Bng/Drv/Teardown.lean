import Bng.Drv.Common
import Bng.Model.Teardown
import Bng.Model.TeardownMonitor
/-
  bngdrv component `teardown`: replays traces of the real pppoe.SessionTeardown and runs the C16 monitor
  (PPPoE teardown paths) on the implementation's observations.

    new radius|noradius                    => ok
    mk s1 m1 auth|unauth ip|noip           => ok id=<id> <snapshot>
    padt s1 m2 | term s1 | termid <id> | termmac m1 | termuser u1 | termall   => <snapshot>
    tpark A s1 => parked|done <snapshot>      tresume A => done <snapshot>   (a TerminateSession call held inside its PADT)
    fault ebpf on|off|once                 => <snapshot>   (the eBPF-map callback returns an error: always / never / next call)
    snapshot: stops=<s1:n,…|-> ebpf=<…> padt=<…> held=<s1,…|-> sess=<id:s1,…|-> efail=<s1:n,…|-> fp=<s1,…|->
      ebpf = callback calls that removed the session's fast-path entry, efail = calls that returned an error,
      fp = sessions whose fast-path entry is present
-/
namespace Bng.Drv.TeardownDrv
open Bng Bng.Drv Bng.Teardown Bng.TeardownMon

def insSorted (k : Nat) : List Nat → List Nat
  | [] => [k]
  | x :: r => if k ≤ x then k :: x :: r else x :: insSorted k r

def sortNat (l : List Nat) : List Nat := l.foldl (fun acc k => insSorted k acc) []

def showCounts (m : AMap Nat Nat) : String :=
  let ks := sortNat ((m.filter (fun p => p.2 > 0)).map (·.1))
  if ks.isEmpty then "-" else ",".intercalate (ks.map fun k => s!"s{k}:{count m k}")

def showSnap (s : TD) : String :=
  let held := sortNat s.held
  let h := if held.isEmpty then "-" else ",".intercalate (held.map fun n => s!"s{n}")
  let ids := sortNat (s.live.map (·.1))
  let ss := if ids.isEmpty then "-" else
    ",".intercalate (ids.map fun id => s!"{id}:s{(AMap.lookup s.live id).getD 0}")
  let fps := sortNat s.fp
  let fp := if fps.isEmpty then "-" else ",".intercalate (fps.map fun n => s!"s{n}")
  s!"stops={showCounts s.stops} ebpf={showCounts s.ebpf} padt={showCounts s.padt} held={h} sess={ss} efail={showCounts s.efail} fp={fp}"

def tagOf (t : String) : Option Nat :=
  match t with | "A" => some 0 | "B" => some 1 | _ => none

def parseOp (toks : List String) : Option Op :=
  match toks with
  | ["mk", n, m, a, i] => do
      let n ← parseTagged 's' n; let m ← parseTagged 'm' m
      pure (.mk n m (a == "auth") (i == "ip"))
  | ["padt", n, m] => do let n ← parseTagged 's' n; let m ← parseTagged 'm' m; pure (.padt n m)
  | ["term", n] => (parseTagged 's' n).map .term
  | ["termid", id] => id.toNat?.map .termId
  | ["termmac", m] => (parseTagged 'm' m).map .termMac
  | ["termuser", u] => (parseTagged 'u' u).map .termUser
  | ["termall"] => some .termAll
  | ["authfail", n] => (parseTagged 's' n).map .authFail
  | ["tpark", t, n] => do let t ← tagOf t; let n ← parseTagged 's' n; pure (.tpark t n)
  | ["tresume", t] => (tagOf t).map .tresume
  | ["fault", "ebpf", "on"] => some (.fault .on)
  | ["fault", "ebpf", "off"] => some (.fault .off)
  | ["fault", "ebpf", "once"] => some (.fault .once)
  | _ => none

/-! ### the string layer of the monitor: the observation line → `TeardownMon.Obs`
   (the monitor itself is `TeardownMon.monitorCore`; its per-session clauses are proved silent on every model history) -/

def field (impl key : String) : String :=
  match (splitTokens impl).find? (fun t => t.startsWith (key ++ "=")) with
  | some t => (t.drop (key.length + 1)).toString
  | none => ""

def parseCounts (s : String) : List (Nat × Nat) :=
  if s == "-" || s.isEmpty then [] else
  (s.splitOn ",").filterMap fun item => match item.splitOn ":" with
    | [n, c] => do let n ← parseTagged 's' n; let c ← c.toNat?; pure (n, c)
    | _ => none

def parseNames (s : String) : List Nat :=
  if s == "-" || s.isEmpty then [] else (s.splitOn ",").filterMap (parseTagged 's')

def parseSess (s : String) : List Nat :=
  if s == "-" || s.isEmpty then [] else
  (s.splitOn ",").filterMap fun item => match item.splitOn ":" with
    | [_, n] => parseTagged 's' n
    | _ => none

def parseObs (impl : String) : Obs :=
  { stops := parseCounts (field impl "stops"), ebpf := parseCounts (field impl "ebpf"), padt := parseCounts (field impl "padt"),
    efail := parseCounts (field impl "efail"), fp := parseNames (field impl "fp"),
    held := parseNames (field impl "held"), live := parseSess (field impl "sess"), parked := impl.startsWith "parked" }

def monitor (mn : Mon) (op : Op) (impl : String) : Mon × List (String × String × String) :=
  monitorCore mn op (parseObs impl)

/-- order-insensitive comparison of two observations (the line shows everything sorted) -/
def sameObs (a b : Obs) : Bool :=
  let sp := fun (l : List (Nat × Nat)) => sortNat (l.map fun p => p.1 * 1000003 + p.2)
  sp a.stops == sp b.stops && sp a.ebpf == sp b.ebpf && sp a.padt == sp b.padt &&
  sp a.efail == sp b.efail && sortNat a.fp == sortNat b.fp &&
  sortNat a.held == sortNat b.held && sortNat a.live == sortNat b.live && a.parked == b.parked

structure St where
  model : Option TD := none
  mon : Mon := {}

def step (st : St) (toks : List String) (impl : String) : St × LineResult :=
  match toks with
  | ["new", r] => ({ model := some (init (r == "radius")), mon := { radius := r == "radius" } }, { modelObs := "ok" })
  | _ =>
    match st.model, parseOp toks with
    | some m, some op =>
      match op with
      | .mk n _ _ _ => if (AMap.lookup m.objs n).isSome then (st, { modelObs := "badop" }) else go st m op impl
      | .tpark t n =>
        if (AMap.lookup m.parked t).isSome || !(AMap.lookup m.objs n).isSome then (st, { modelObs := "badop" }) else go st m op impl
      | .tresume t => if (AMap.lookup m.parked t).isSome then go st m op impl else (st, { modelObs := "badop" })
      | _ => go st m op impl
    | _, _ => (st, { modelObs := "badop" })
where
  go (st : St) (m : TD) (op : Op) (impl : String) : St × LineResult :=
      let m' := Teardown.step m op
      let (mon', vs) := monitor st.mon op impl
      let shown := match op with
        | .mk n _ _ _ => s!"ok id={((AMap.lookup m'.objs n).map (·.id)).getD 0} {showSnap m'}"
        | .tpark t _ => (if (AMap.lookup m'.parked t).isSome && !(AMap.lookup m.parked t).isSome then "parked " else "done ") ++ showSnap m'
        | .tresume _ => "done " ++ showSnap m'
        | _ => showSnap m'
      -- the string layer is outside the refinement theorem: cross-check it on the model's own line
      let rt := if sameObs (parseObs shown) (obsOf m' (parkedBy m m' op)) then [] else
        [("obs-roundtrip", "none", s!"parseObs (showSnap ·) ≠ obsOf · on the model's own observation {shown}")]
      ({ model := some m', mon := mon' }, { modelObs := shown, viols := vs ++ rt })

def component : Component := { σ := St, init := {}, step := step }

end Bng.Drv.TeardownDrv
