import Bng.Drv.Common
import Bng.Model.Acct
import Bng.Model.AcctSpec
import Bng.Model.AcctNames
/-
  bngdrv component `acct`: replays traces of the real radius.AccountingManager (driven by
  harness/cmd/acct against a real UDP RADIUS server) on the small-step model `Bng.Acct` and runs the
  C08 monitor `Bng.AcctSpec` on the implementation's observations.

    new <maxRetries> <queueCap> [ms] [ids=<hex>,<hex>,..] => ok
        ids= : the concrete Acct-Session-Id byte strings the tags s1, s2, .. stand for (default: the tag itself);
        two tags standing for one id = badop (the model's ids are the tags).  The driver needs the concrete ids for
        one thing only: the NAME of each session file (`AcctNames.fileName`, printed in hex in every `dur=`), which the
        harness reads from the real directory.
    start s1 i3 <ans> [!k]         => ok|exists acc=<records>
    ctr s1 <inhex> <outhex>        => ok
    interim s1 <ans> [!k]          => ok|skip acc=..
    stop s1 <cause> <ans> [!k]     => ok|notfound acc=..
    deq <ans> [!k]                 => empty | done acc=.. ord=<rN|-> ab=<sN,..|->
    retry <ans> [!k]               => done acc=.. ord=<rN,..|-> ab=..
    shutdown <ans> [!k]            => ok acc=.. ord=<sN,..|-> dur=<files>|<pfile>
    crash                          => ok dur=..
    restart <ans> [!k]             => ok acc=.. q=<rN,..|-> | alive
    final                          => sess=.. pend=.. queue=.. dur=..
        dur=<files>|<pfile>, files = sN:<stopPending>:<cause>:<in>:<out>:<hex file name>; the implementation lists
        anything else it finds under the scratch directory as x:<hex path> (the model never has such an entry)
    an op whose armed crash point fired => crashed@<marker> acc=.. ord=.. ab=.. dur=..
    an op on a dead instance       => dead
    <ans> letters: u = answered, d = not received, l/L = accepted by the server but the client sees a failure
    (reply refused / no reply); an accepted record the client got no acknowledgement for is printed with `~`.
    `@<marker>:deq|retry:<ans>` after start/interim/stop/shutdown = a step of the background processor executed
    while the call is parked in front of that marker (reported as inj=<marker>:<res>|<ord>|<ab>).
    `@17:stop:<sid>:<cause>:<ans>` after interim = a complete StopSession call executed while the interim update
    (its own goroutine in production) is parked in front of its send (reported as inj=17:ok|-|- / notfound|-|-).
    `@<1|2>:stop:<sid>:..` after `start <sid>` and `@<3..6>:stop:<sid>:..` after `stop <sid>` = a StopSession of the
    SAME session overlapping that call: the model has one API program counter (a call attempted while another is
    in progress has no effect), the code refuses it (`refused`; `notfound` once the session is deleted).
    `!k~` = crash in the middle of the file write of the k-th step (crashed@<marker>~).

  The iteration orders of Go maps and of the drain goroutines (`ord=`, `q=`) are taken from the
  implementation's observation and handed to the model as the operation's `order` parameter.
-/
namespace Bng.Drv.AcctDrv
open Bng Bng.Drv Bng.Acct

structure St where
  model : Option Acct.State := none
  mon : AcctSpec.Mon := {}
  /-- concrete ids of the tags s1.. (in order) given on the `new` line -/
  ids : List (List UInt8) := []

/-- the concrete id a tag stands for: the given one, else the tag's own text `s<k>` -/
def idOfTag (ids : List (List UInt8)) (k : Nat) : List UInt8 :=
  match (if k = 0 then none else ids[k - 1]?) with
  | some b => b
  | none => s!"s{k}".toUTF8.toList

/-- byte-wise lexicographic `<` (the order of Go string comparison, hence of os.ReadDir) -/
def bytesLt : List UInt8 → List UInt8 → Bool
  | [], [] => false
  | [], _ :: _ => true
  | _ :: _, [] => false
  | a :: as, b :: bs => a < b || (a == b && bytesLt as bs)

/-- The translation between the trace's tags and the model's session ids.  The model's ids are opaque numbers with
    ONE piece of structure: the recovery procedure walks the session files in the order of `os.ReadDir`, i.e. sorted
    by file name, which the model renders as "sorted by id".  So the model id of tag s<k> is the RANK of its file name
    (`AcctNames.fileName` of its concrete id) among the nine tags' file names; with the default ids `s1`..`s9` the rank
    of s<k> is k. -/
structure Names where
  ids : List (List UInt8) := []

def Names.file (n : Names) (k : Nat) : List UInt8 := AcctNames.fileName (idOfTag n.ids k)

/-- tag number → model id -/
def Names.toM (n : Names) (k : Nat) : Nat :=
  if 1 ≤ k ∧ k ≤ 9 then
    1 + ((List.range 9).filter fun j => bytesLt (n.file (j + 1)) (n.file k)).length
  else k + 100

/-- model id → tag number -/
def Names.toT (n : Names) (m : Nat) : Nat :=
  match (List.range 9).find? (fun j => n.toM (j + 1) == m) with
  | some j => j + 1
  | none => m - 100

/-- hex of the file name of tag `k`'s recovery file -/
def Names.hexFile (n : Names) (k : Nat) : String := bytesToHex (n.file k)

/-- `ids=<hex>,..`: 1 to 9 ids of 1 to 64 bytes, and the ids of s1..s9 pairwise different -/
def parseIds (t : String) : Option (List (List UInt8)) :=
  let parts := t.splitOn ","
  if parts.length < 1 ∨ parts.length > 9 then none else
  match parts.mapM (fun h => if h == "-" then none else parseHexBytes h) with
  | none => none
  | some ids =>
    if ids.any (fun b => b.length < 1 || b.length > 64) then none else
    let all := (List.range 9).map fun i => idOfTag ids (i + 1)
    if all.eraseDups.length = all.length then some ids else none

/-! ### printing -/

def showOct (x : UInt64) : String :=
  let o := AcctWire.encode x
  match o.giga with
  | some g => s!"{toHex o.low.toNat}+{toHex g.toNat}"
  | none => toHex o.low.toNat

def showRec (nm : Names) (r : Rec) : String :=
  match r.kind with
  | .start => s!"start/s{nm.toT r.sid}/i{r.ident}"
  | .interim => s!"interim/s{nm.toT r.sid}/i{r.ident}/{showOct r.inOct}/{showOct r.outOct}"
  | .stop => s!"stop/s{nm.toT r.sid}/i{r.ident}/{r.cause}/{showOct r.inOct}/{showOct r.outOct}"

def joinOr (xs : List String) : String := if xs.isEmpty then "-" else ",".intercalate xs

/-- the records accepted since the log had `n` entries; `~` marks those the client got no acknowledgement for -/
def showAcc (nm : Names) (σ : Acct.State) (n : Nat) : String :=
  joinOr (((σ.log.drop n).zip (σ.logAck.drop n)).map fun (r, b) => showRec nm r ++ (if b then "" else "~"))

def kindName : Kind → String
  | .start => "start" | .interim => "interim" | .stop => "stop"

def showP (nm : Names) (p : PRec) : String := s!"r{p.id}/{kindName p.req.kind}/s{nm.toT p.req.sid}/{p.retries}"

def sortBy {α : Type} (key : α → Nat) (xs : List α) : List α :=
  let ins := fun (x : α) (acc : List α) =>
    let rec go : List α → List α
      | [] => [x]
      | y :: ys => if key x ≤ key y then x :: y :: ys else y :: go ys
    go acc
  xs.foldr ins []

def showDur (nm : Names) (d : Dur) : String :=
  let files := (sortBy (·.1) (d.files.map fun (k, x) => (nm.toT k, x))).map fun (k, x) =>
    s!"s{k}:{if x.stopPending then 1 else 0}:{x.stopCause}:{toHex x.lastIn.toNat}:{toHex x.lastOut.toNat}:{nm.hexFile k}"
  let pf := match d.pfile with
    | none => "-"
    | some ps => "[" ++ ",".intercalate ((sortBy (·.id) ps).map (showP nm)) ++ "]"
  joinOr files ++ "|" ++ pf

def showVol (nm : Names) (σ : Acct.State) : String :=
  let ss := (sortBy (·.1) (σ.vol.sessions.map fun (k, x) => (nm.toT k, x))).map fun (k, x) =>
    s!"s{k}{if x.stopPending then "*" else ""}"
  let ps := (sortBy (·.id) σ.vol.pending).map (showP nm)
  let qs := σ.vol.queue.map fun i => s!"r{i}"
  s!"sess={joinOr ss} pend={joinOr ps} queue={joinOr qs}"

/-! ### parsing -/

def dropS (s : String) (n : Nat) : String := String.ofList (s.toList.drop n)

def parseAns (s : String) : Option (List Ans) :=
  if s == "-" then some [] else
  s.toList.mapM fun c =>
    if c = 'u' then some Ans.up else if c = 'd' then some Ans.down
    else if c = 'l' || c = 'L' then some Ans.lost else none

/-- strip a trailing `!k` (crash in front of the k-th marker) or `!k~` (crash inside the k-th step's write) -/
def splitCrash (toks : List String) : Option (List String × Nat × Bool) :=
  match toks.reverse with
  | last :: rest =>
    if last.startsWith "!" then
      let body := dropS last 1
      let torn := body.endsWith "~"
      let num := if torn then String.ofList (body.toList.take (body.length - 1)) else body
      match num.toNat? with
      | some k => if k > 0 then some (rest.reverse, k, torn) else none
      | none => none
    else some (toks, 0, false)
  | [] => none

/-- a processor step executed while the API call is parked in front of marker `at` -/
structure Inj where
  mark : Nat
  retry : Bool
  ans : List Ans
  /-- `some (sid, cause)`: not a processor step but a whole StopSession call (only inside an interim update) -/
  stop : Option (Nat × Nat) := none
  order : List Nat := []
  done : Bool := false
  obs : String := "-"

/-- strip trailing `@<marker>:deq|retry:<ans>` and `@17:stop:<sid>:<cause>:<ans>` tokens -/
def splitInject (toks : List String) : Option (List String × List Inj) :=
  let rec go (rev : List String) (acc : List Inj) : Option (List String × List Inj) :=
    match rev with
    | t :: rest =>
      if t.startsWith "@" then
        match (dropS t 1).splitOn ":" with
        | [m, k, a] =>
          match m.toNat?, parseAns a with
          | some m, some a =>
            if (k == "deq" || k == "retry") && [1, 2, 3, 4, 5, 6, 17, 9, 19].contains m
            then go rest ({ mark := m, retry := k == "retry", ans := a } :: acc) else none
          | _, _ => none
        | [m, "stop", sid, c, a] =>
          match m.toNat?, parseTagged 's' sid, c.toNat?, parseAns a with
          | some m, some sid, some c, some a =>
            if m = 17 ∨ (1 ≤ m ∧ m ≤ 6) then
              go rest ({ mark := m, retry := false, ans := a, stop := some (sid, c) } :: acc)
            else none
          | _, _, _, _ => none
        | _ => none
      else some (rev.reverse, acc)
    | [] => some ([], acc)
  go toks.reverse []

def field (impl : String) (name : String) : Option String :=
  (splitTokens impl).findSome? fun t =>
    if t.startsWith (name ++ "=") then some (dropS t (name.length + 1)) else none

def parseList (tag : Char) (s : String) : List Nat :=
  if s == "-" then [] else (s.splitOn ",").filterMap (parseTagged tag)

def parseOct (s : String) : Option AcctWire.Octets :=
  match s.splitOn "+" with
  | [l] => (parseHex l).map fun l => { low := UInt64.ofNat l, giga := none }
  | [l, g] => do
      let l ← parseHex l; let g ← parseHex g
      pure { low := UInt64.ofNat l, giga := some (UInt64.ofNat g) }
  | _ => none

def zeroOct : AcctWire.Octets := { low := 0, giga := none }

def parseWRec (s0 : String) : Option AcctSpec.WRec :=
  let unacked := s0.endsWith "~"
  let s := if unacked then String.ofList (s0.toList.take (s0.length - 1)) else s0
  (fun (r : AcctSpec.WRec) => { r with acked := !unacked }) <$>
  match s.splitOn "/" with
  | k :: sid :: ident :: rest => do
    let sid ← parseTagged 's' sid
    let ident := parseTagged 'i' ident
    match k, rest with
    | "start", [] => pure { kind := .start, sid, ident, cause := 0, inO := zeroOct, outO := zeroOct }
    | "interim", [i, o] => do
        let i ← parseOct i; let o ← parseOct o
        pure { kind := .interim, sid, ident, cause := 0, inO := i, outO := o }
    | "stop", [c, i, o] => do
        let c ← c.toNat?; let i ← parseOct i; let o ← parseOct o
        pure { kind := .stop, sid, ident, cause := c, inO := i, outO := o }
    | _, _ => pure { kind := .other, sid, ident, cause := 0, inO := zeroOct, outO := zeroOct }
  | _ => none

/-- `dur=<files>|<pfile>` → (session files, sessions with a Stop record in pending.json) -/
def parseDur (s : String) : List Nat × List Nat :=
  match s.splitOn "|" with
  | [f, p] =>
    let files := if f == "-" then [] else (f.splitOn ",").filterMap fun e =>
      match e.splitOn ":" with
      | sid :: _ => parseTagged 's' sid
      | [] => none
    let body := String.ofList (((p.toList.dropWhile (· == '[')).reverse.dropWhile (· == ']')).reverse)
    let pst := if p == "-" || body.isEmpty then [] else (body.splitOn ",").filterMap fun e =>
      match e.splitOn "/" with
      | [_, "stop", sid, _] => parseTagged 's' sid
      | _ => none
    (files, pst)
  | _ => ([], [])

/-! ### monitor -/

def clauseOf (σ : Acct.State) (name : String) (sid : Nat) : String :=  -- sid: a MODEL id
  if name == "stop-before-start" && σ.startQueued.contains sid then "D24"
  else if name == "lost-stop" && σ.recVol.contains sid then "KF-acct-recovery-volatile"
  else if name == "lost-stop" && !σ.started.contains sid && σ.log.any (isStartOf sid) then "KF-acct-start-window"
  else "none"

def feed (mon : AcctSpec.Mon) (evs : List AcctSpec.Ev) : AcctSpec.Mon × List AcctSpec.Verdict :=
  evs.foldl (fun (m, vs) e => let (m', v) := AcctSpec.check m e; (m', vs ++ v)) (mon, [])

/-- events every operation's observation yields: accepted records, abandoned Stops, crash, directory -/
def commonEvents (impl : String) : List AcctSpec.Ev :=
  let acc := match field impl "acc" with
    | some a => if a == "-" then [] else (a.splitOn ",").filterMap parseWRec
    | none => []
  let ab := match field impl "ab" with | some a => parseList 's' a | none => []
  -- Stops abandoned by processor steps that ran inside this call: inj=<marker>:<res>|<ord>|<ab>
  let abInj := (splitTokens impl).flatMap fun t =>
    if t.startsWith "inj=" then
      match t.splitOn "|" with
      | [_, _, a] => parseList 's' a
      | _ => []
    else []
  let crashed := impl.startsWith "crashed@"
  let dur := match field impl "dur" with
    | some d => let (f, p) := parseDur d; [AcctSpec.Ev.durable f p]
    | none => []
  acc.map .accepted ++ (ab ++ abInj).map .abandoned ++ (if crashed then [.crash] else []) ++ dur

/-! ### the model's observation of one call -/

inductive CallKind | plain | drain | restart
  deriving DecidableEq

def showOrd (nm : Names) (k : CallKind) (σ : Acct.State) : String :=
  match k with
  | .drain => joinOr (σ.ord.map fun i => s!"s{nm.toT i}")
  | _ => "-"

def resName : Res → String
  | .ok => "ok" | .exists_ => "exists" | .notfound => "notfound" | .skip => "skip" | .empty => "empty"
  | .done => "done" | .alive => "alive" | .dead => "dead" | .busy => "dead" | .none => "none"

def nextAns (f : Frame) (answers : List Ans) : Ans × List Ans :=
  if f.sends then (match answers with | a :: t => (a, t) | [] => (Ans.up, [])) else (Ans.up, answers)

/-- run the processor step in progress to completion; `crashAt = k` crashes in front of its k-th marker -/
partial def pfinish (σ : Acct.State) (answers : List Ans) (crashAt : Nat) : Acct.State × Option Nat :=
  match σ.vol.ppc with
  | none => (σ, none)
  | some f =>
    if crashAt = 1 then (Acct.step σ .crash, some (markerOf f))
    else
      let (a, rest) := nextAns f answers
      pfinish (Acct.step σ (.ptick a)) rest (crashAt - 1)

def abSince (nm : Names) (σ0 σ : Acct.State) : String :=
  joinOr ((σ.abandoned.take (σ.abandoned.length - σ0.abandoned.length)).reverse.map fun s => s!"s{nm.toT s}")

/-- run the API call in progress to completion, no crash, nothing injected -/
partial def afinish (σ : Acct.State) (answers : List Ans) : Acct.State :=
  match σ.vol.pc with
  | none => σ
  | some f =>
    let (a, rest) := nextAns f answers
    afinish (Acct.step σ (.tick a)) rest

/-- one injected processor step (or StopSession call), run to completion -/
def runInj (nm : Names) (σ : Acct.State) (inj : Inj) : Acct.State × Inj :=
  match inj.stop with
  | some (sid, c) =>
    let σ1 := Acct.step σ (.stop sid c)
    if σ1.res == .dead then (σ1, { inj with done := true, obs := "dead|-|-" })
    else if σ1.res == .busy then
      -- an API call (of the same session: see okStopInj) is in progress: the model's `busy` = the call has no
      -- effect; the code refuses it while the session is registered, and does not find it once it is deleted
      let obs := if (AMap.lookup σ.vol.sessions sid).isSome then "refused|-|-" else "notfound|-|-"
      (σ, { inj with done := true, obs := obs })
    else
      let σ2 := afinish σ1 inj.ans
      (σ2, { inj with done := true, obs := s!"{resName σ2.res}|-|-" })
  | none =>
  let σ1 := Acct.step σ (if inj.retry then .retry inj.order else .deq)
  if σ1.pres == .dead || σ1.pres == .busy then (σ1, { inj with done := true, obs := "dead|-|-" })
  else if σ1.pres == .empty then (σ1, { inj with done := true, obs := "empty|-|-" })
  else
    let (σ2, _) := pfinish σ1 inj.ans 0
    let ord := joinOr (σ2.pord.map fun i => s!"r{i}")
    (σ2, { inj with done := true, obs := s!"done|{ord}|{abSince nm σ σ2}" })

def tornApplies (f : Frame) (σ : Acct.State) : Bool :=
  match f with
  | .startPersist _ | .stopPersist _ => true
  | .persistPending => !σ.vol.pending.isEmpty
  | _ => false

/-- run the API call in progress to completion: answers are consumed by the transmitting steps in order
    (missing = up); `crashAt = k`: crash in front of the k-th marker, or (torn) inside the k-th step's file
    write if it has one; injected processor steps run when their marker is reached for the first time -/
partial def finish (nm : Names) (σ : Acct.State) (answers : List Ans) (crashAt : Nat) (torn : Bool) (injs : List Inj) :
    Acct.State × Option (Nat × Bool) × List Inj :=
  match σ.vol.pc with
  | none => (σ, none, injs)
  | some f =>
    if crashAt = 1 && !torn then (Acct.step σ .crash, some (markerOf f, false), injs)
    else
      let rec pick (pre : List Inj) : List Inj → Acct.State × List Inj
        | [] => (σ, pre.reverse)
        | i :: rest =>
          if i.mark = markerOf f && !i.done then
            let (σ', i') := runInj nm σ i
            (σ', pre.reverse ++ i' :: rest)
          else pick (i :: pre) rest
      let (σ, injs) := pick [] injs
      if crashAt = 1 && torn && tornApplies f σ then (Acct.step σ .crashTorn, some (markerOf f, true), injs)
      else
        let (a, rest) := nextAns f answers
        finish nm (Acct.step σ (.tick a)) rest (crashAt - 1) torn injs

/-- a StopSession may be nested in a StartSession (markers 1, 2) or StopSession (markers 3-6) of the SAME session
    only (overlapping API calls on different sessions are not modelled); in an interim update (17) freely -/
def okStopInj (op : String) (s : Nat) (injs : List Inj) : Bool :=
  injs.all fun i =>
    match i.stop with
    | none => true
    | some (sid, _) =>
      i.mark = 17 || (sid = s && ((op == "start" && i.mark ≤ 2) || (op == "stop" && i.mark ≥ 3)))

def showInj (injs : List Inj) : String :=
  String.join (injs.map fun i => s!" inj={i.mark}:{if i.done then i.obs else "-"}")

def runCall (nm : Names) (σ0 : Acct.State) (op : Op) (k : CallKind) (answers : List Ans) (crashAt : Nat)
    (torn : Bool) (injs : List Inj) : Acct.State × String :=
  let σ1 := Acct.step σ0 op
  if σ1.res == .dead || σ1.res == .busy then (σ1, "dead")
  else if σ1.res == .alive then (σ1, "alive")
  else
    let (σ2, crashed, injs) := finish nm σ1 answers crashAt torn injs
    let acc := showAcc nm σ2 σ0.log.length
    match crashed with
    | some (m, t) =>
      (σ2, s!"crashed@{m}{if t then "~" else ""} acc={acc} ord={showOrd nm k σ2} ab=- dur={showDur nm σ2.dur}{showInj injs}")
    | none =>
      match k with
      | .plain => (σ2, s!"{resName σ2.res} acc={acc}{showInj injs}")
      | .drain => (σ2, s!"ok acc={acc} ord={showOrd nm k σ2} dur={showDur nm σ2.dur}{showInj injs}")
      | .restart => (σ2, s!"ok acc={acc} q={joinOr (σ2.vol.queue.map fun i => s!"r{i}")}")

/-- an `interim` operation of the trace: the interim update is put in flight, the step injected at its marker
    (a processor step, or a complete StopSession) runs, then the update is sent and answered -/
def runInterim (nm : Names) (σ0 : Acct.State) (s : Nat) (answers : List Ans) (crashAt : Nat) (torn : Bool)
    (injs : List Inj) : Acct.State × String :=
  let σ1 := Acct.step σ0 (.interim s)
  if σ1.ires == .dead || σ1.ires == .busy then (σ1, "dead")
  else
    match σ1.vol.ipc with
    | none => (σ1, s!"{resName σ1.ires} acc=-{showInj injs}")
    | some f =>
      if crashAt = 1 && !torn then
        let σ2 := Acct.step σ1 .crash
        (σ2, s!"crashed@{markerOf f} acc=- ord=- ab=- dur={showDur nm σ2.dur}{showInj injs}")
      else
        let rec pick (pre : List Inj) : List Inj → Acct.State × List Inj
          | [] => (σ1, pre.reverse)
          | i :: rest =>
            if i.mark = markerOf f && !i.done then
              let (σ', i') := runInj nm σ1 i
              (σ', pre.reverse ++ i' :: rest)
            else pick (i :: pre) rest
        let (σ2, injs) := pick [] injs
        let (a, _) := nextAns f answers
        let σ3 := Acct.step σ2 (.itick a)
        (σ3, s!"{resName σ1.ires} acc={showAcc nm σ3 σ0.log.length}{showInj injs}")

/-- a `deq` / `retry` operation of the trace: the processor step alone -/
def runProc (nm : Names) (σ0 : Acct.State) (op : Op) (answers : List Ans) (crashAt : Nat) :
    Acct.State × String :=
  let σ1 := Acct.step σ0 op
  if σ1.pres == .dead || σ1.pres == .busy then (σ1, "dead")
  else if σ1.pres == .empty then (σ1, "empty")
  else
    let (σ2, crashed) := pfinish σ1 answers crashAt
    let acc := showAcc nm σ2 σ0.log.length
    let ord := joinOr (σ2.pord.map fun i => s!"r{i}")
    match crashed with
    | some m => (σ2, s!"crashed@{m} acc={acc} ord={ord} ab={abSince nm σ0 σ2} dur={showDur nm σ2.dur}")
    | none => (σ2, s!"done acc={acc} ord={ord} ab={abSince nm σ0 σ2}")

/-- the retry orders the implementation reported for the injected steps: `inj=<marker>:done|r2,r1|-` -/
def injOrders (impl : String) (injs : List Inj) : List Inj :=
  injs.map fun i =>
    let pre := s!"inj={i.mark}:"
    match (splitTokens impl).find? (fun t => t.startsWith pre) with
    | some t =>
      match (dropS t pre.length).splitOn "|" with
      | [_, ord, _] => { i with order := parseList 'r' ord }
      | _ => i
    | none => i

def step (st : St) (toks0 : List String) (impl : String) : St × LineResult :=
  match splitCrash toks0 with
  | none => (st, { modelObs := "badop" })
  | some (toks1, crashAt, torn) =>
  match splitInject toks1 with
  | none => (st, { modelObs := "badop" })
  | some (toks, injs0) =>
  let injs := injOrders impl injs0
  match toks with
  | "new" :: mr :: qc :: rest0 =>
    -- a trailing `ids=..` token names the concrete session ids
    let (rest, ids?) : List String × Option (List (List UInt8)) :=
      match rest0.reverse with
      | t :: r => if t.startsWith "ids=" then (r.reverse, parseIds (dropS t 4)) else (rest0, some [])
      | [] => (rest0, some [])
    match st.model, mr.toNat?, qc.toNat?, ids? with
    | none, some mr, some qc, some ids =>
      let okRest : Bool := match rest with | [] => true | [t] => decide ((t.toNat?.getD 0) ≥ 1) | _ => false
      if mr ≥ 1 ∧ qc ≥ 1 ∧ crashAt = 0 ∧ injs.isEmpty ∧ okRest = true then
        ({ model := some (Acct.init { maxRetries := mr, queueCap := qc }), mon := {}, ids := ids }, { modelObs := "ok" })
      else (st, { modelObs := "badop" })
    | _, _, _, _ => (st, { modelObs := "badop" })
  | _ =>
    match st.model with
    | none => (st, { modelObs := "badop" })
    | some σ =>
      let nm : Names := { ids := st.ids }
      -- the session of a nested StopSession: tag → model id
      let injs := injs.map fun i => { i with stop := i.stop.map fun (t, c) => (nm.toM t, c) }
      let finishLine := fun (σ' : Acct.State) (obs : String) (pre post : List AcctSpec.Ev) =>
        let (mon', vs) := feed st.mon (pre ++ commonEvents impl ++ post)
        (({ st with model := some σ', mon := mon' } : St),
         ({ modelObs := obs, viols := vs.map fun (n, sid, d) => (n, clauseOf σ' n (nm.toM sid), d) } : LineResult))
      let bad : St × LineResult := (st, { modelObs := "badop" })
      let apiOnly := injs.isEmpty
      match toks with
      | ["ctr", s, i, o] =>
        match parseTagged 's' s, parseHex i, parseHex o with
        | some s, some i, some o =>
          if crashAt ≠ 0 ∨ !apiOnly ∨ i ≥ 2 ^ 64 ∨ o ≥ 2 ^ 64 then bad else
          finishLine (Acct.step σ (.ctr (nm.toM s) (UInt64.ofNat i) (UInt64.ofNat o))) "ok"
            [.ctr s (UInt64.ofNat i) (UInt64.ofNat o)] []
        | _, _, _ => bad
      | ["crash"] =>
        if crashAt ≠ 0 ∨ !apiOnly then bad else
        let σ' := Acct.step σ .crash
        finishLine σ' s!"ok dur={showDur nm σ'.dur}" [.crash] []
      | ["final"] =>
        if crashAt ≠ 0 ∨ !apiOnly then bad else
        -- the directory is judged at the end only when nothing volatile is left to deliver
        let quiet := (field impl "pend" == some "-") && (field impl "queue" == some "-")
        let obs := s!"{showVol nm σ} dur={showDur nm σ.dur}"
        if quiet then finishLine σ obs [] []
        else (st, { modelObs := obs })
      | ["restart", a] =>
        match parseAns a with
        | some ans =>
          if !apiOnly then bad else
          let order := match field impl "q" with | some q => parseList 'r' q | none => []
          let (σ', obs) := runCall nm σ (.restart order) .restart ans crashAt torn []
          finishLine σ' obs [] []
        | none => bad
      | ["start", s, i, a] =>
        match parseTagged 's' s, parseTagged 'i' i, parseAns a with
        | some s, some i, some ans =>
          if !okStopInj "start" (nm.toM s) injs then bad else
          let (σ', obs) := runCall nm σ (.start (nm.toM s) i) .plain ans crashAt torn injs
          let called := !(impl.startsWith "exists") && !(impl.startsWith "dead")
          finishLine σ' obs (if called then [.startCalled s i] else [])
            (if impl.startsWith "ok" then [.startReturned s] else [])
        | _, _, _ => bad
      | ["interim", s, a] =>
        match parseTagged 's' s, parseAns a with
        | some s, some ans =>
          if !okStopInj "interim" (nm.toM s) injs then bad else
          let (σ', obs) := runInterim nm σ (nm.toM s) ans crashAt torn injs
          finishLine σ' obs [] []
        | _, _ => bad
      | ["stop", s, c, a] =>
        match parseTagged 's' s, c.toNat?, parseAns a with
        | some s, some c, some ans =>
          if !okStopInj "stop" (nm.toM s) injs then bad else
          let (σ', obs) := runCall nm σ (.stop (nm.toM s) c) .plain ans crashAt torn injs
          finishLine σ' obs [] []
        | _, _, _ => bad
      | ["deq", a] =>
        match parseAns a with
        | some ans =>
          if !apiOnly ∨ torn then bad else
          let (σ', obs) := runProc nm σ .deq ans crashAt
          finishLine σ' obs [] []
        | none => bad
      | ["retry", a] =>
        match parseAns a with
        | some ans =>
          if !apiOnly ∨ torn then bad else
          let order := match field impl "ord" with | some q => parseList 'r' q | none => []
          let (σ', obs) := runProc nm σ (.retry order) ans crashAt
          finishLine σ' obs [] []
        | none => bad
      | ["shutdown", a] =>
        match parseAns a with
        | some ans =>
          let order := match field impl "ord" with | some q => (parseList 's' q).map nm.toM | none => []
          if !okStopInj "shutdown" 0 injs then bad else
          let (σ', obs) := runCall nm σ (.shutdown order) .drain ans crashAt torn injs
          finishLine σ' obs [] []
        | none => bad
      | _ => bad

def component : Component := { σ := St, init := {}, step := step }

end Bng.Drv.AcctDrv
