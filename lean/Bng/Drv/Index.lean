import Bng.Drv.Common
import Bng.Model.Index
/-
  bngdrv component `index`: replays traces of the real subscriber.Manager, state.Store and
  allocator.MemoryAllocationStore on the generic "primary map + secondary indexes" model and runs the index monitor
  (C20) on the implementation's observations.

    new submgr | new statestore lease|session|sub|nat | new memstore     => ok
    create <pN|-> <mK|-> <aK|->     => ok pN | conflict | error      (`-` id: the code generates the id)
    update pN <mK|-> <aK|->         => ok | notfound                 (state.Store only)
    assign pN aK                    => ok | notfound                 (subscriber.Manager only)
    delete pN                       => ok | notfound | busy          (busy: "already terminating", subscriber.Manager)
    tpark pN                        => parked | ok | notfound | busy (subscriber.Manager: TerminateSession started and
                                        held inside allocator.ReleaseIPv4, i.e. between its two critical sections;
                                        `ok`: no address to release, the call ran through)
    tresume pN                      => ok | noref                    (let the parked call finish)
    get pN                          => pN <mK|-> <aK|-> | none
    bymac mK                        => pN <mK|-> <aK|-> | none | dangling
    byip aK                         => pN <mK|-> <aK|-> | none | dangling
    list                            => pN,pN,… | -
    load pN:aK,pN:aK,… | -          => ok | error                    (memstore: UnmarshalJSON of these records, in this order)
    stress <seed> <goroutines> <ops> => live <pN=mK:aK,…|-> look <mK=…,aK=…|-> anomalies <k> dupids <j>
                                        (last op of a dedicated sequence; the outcome depends on the schedule, so the
                                        model does not predict it: the model observation IS the implementation's, and
                                        the monitor audits the final table)

  An operation the selected Go type does not offer, or an unparseable one, is `badop`.
-/
namespace Bng.Drv.IndexDrv
open Bng Bng.Drv Bng.Index

structure St where
  cfg : Option Cfg := none
  /-- a stress op was replayed: the model no longer knows the state, every further op is `badop` -/
  dead : Bool := false
  model : Index.State := {}
  mon : Index.Mon := {}

def showKey (tag : Char) : Option Nat → String
  | some v => s!"{tag}{v}"
  | none => "-"

def showRec (id : Nat) (r : Rec) : String := s!"p{id} {showKey 'm' r.k0} {showKey 'a' r.k1}"

def showObs : Obs → String
  | .ok => "ok"
  | .okId id => s!"ok p{id}"
  | .conflict => "conflict"
  | .notfound => "notfound"
  | .none => "none"
  | .dangling => "dangling"
  | .parked => "parked"
  | .busy => "busy"
  | .noref => "noref"
  | .found id r => showRec id r
  | .ids l => if l.isEmpty then "-" else ",".intercalate (l.map fun id => s!"p{id}")
  | .badop => "badop"

/-- `-` → none, `m3` → some 3 -/
def parseOptKey (tag : Char) (s : String) : Option (Option Nat) :=
  if s == "-" then some none else (parseTagged tag s).map some

/-- `p1:a1,p2:a1` (or `p1:m1:a1`, `-` for an absent key); `-` is the empty list -/
def parseLoad (s : String) : Option (List (Nat × Rec)) :=
  if s == "-" then some [] else
  (s.splitOn ",").mapM fun item =>
    match item.splitOn ":" with
    | [id, a] => do
        let id ← parseTagged 'p' id
        let a ← parseOptKey 'a' a
        pure (id, { k0 := none, k1 := a })
    | [id, m, a] => do
        let id ← parseTagged 'p' id
        let m ← parseOptKey 'm' m
        let a ← parseOptKey 'a' a
        pure (id, { k0 := m, k1 := a })
    | _ => none

def parseOp (toks : List String) : Option Op :=
  match toks with
  | ["create", id, k0, k1] => do
      let id ← parseOptKey 'p' id
      let k0 ← parseOptKey 'm' k0
      let k1 ← parseOptKey 'a' k1
      pure (.create id k0 k1)
  | ["update", id, k0, k1] => do
      let id ← parseTagged 'p' id
      let k0 ← parseOptKey 'm' k0
      let k1 ← parseOptKey 'a' k1
      pure (.update id k0 k1)
  | ["assign", id, a] => do
      let id ← parseTagged 'p' id
      let a ← parseTagged 'a' a
      pure (.setKey id true a)
  | ["delete", id] => (parseTagged 'p' id).map .delete
  | ["tpark", id] => (parseTagged 'p' id).map .tpark
  | ["tresume", id] => (parseTagged 'p' id).map .tresume
  | ["get", id] => (parseTagged 'p' id).map .get
  | ["bymac", m] => (parseTagged 'm' m).map (.byKey false)
  | ["byip", a] => (parseTagged 'a' a).map (.byKey true)
  | ["list"] => some .list
  | ["load", l] => (parseLoad l).map .load
  | _ => none

def parseRec (toks : List String) : Option (Nat × Rec) :=
  match toks with
  | [id, k0, k1] => do
      let id ← parseTagged 'p' id
      let k0 ← parseOptKey 'm' k0
      let k1 ← parseOptKey 'a' k1
      pure (id, { k0 := k0, k1 := k1 })
  | _ => none

def parseIds (s : String) : Option (List Nat) :=
  if s == "-" then some [] else (s.splitOn ",").mapM (parseTagged 'p')

/-- a record that is certainly not what was stored (the implementation's answer could not be read) -/
def garbage : Nat × Rec := (1000000, { k0 := some 1000000, k1 := some 1000000 })

/-- what the implementation's answer means for the monitor -/
def event (op : Op) (impl : String) : Ev :=
  let toks := splitTokens impl
  match op, toks with
  | .create _ k0 k1, ["ok", id] => match parseTagged 'p' id with
      | some id => .put id { k0 := k0, k1 := k1 }
      | none => .nop
  | .create id k0 k1, ["conflict"] => .refused id { k0 := k0, k1 := k1 }
  | .update id k0 k1, ["ok"] => .put id { k0 := k0, k1 := k1 }
  | .update id _ _, ["notfound"] => .missing id
  | .setKey id slot v, ["ok"] => .setKey id slot v
  | .setKey id _ _, ["notfound"] => .missing id
  | .delete id, ["ok"] => .deleted id
  | .delete id, ["notfound"] => .missing id
  -- a parked TerminateSession leaves the session in every map: it stays live for the monitor until the second phase
  -- (or the whole call, when there was nothing to release) answered ok
  | .tpark id, ["ok"] => .deleted id
  | .tpark id, ["notfound"] => .missing id
  | .tresume id, ["ok"] => .deleted id
  | .get id, ["none"] => .got id none
  | .get id, _ => .got id (some ((parseRec toks).getD garbage))
  | .byKey slot v, ["none"] => .byKey slot v .none
  | .byKey slot v, ["dangling"] => .byKey slot v .dangling
  | .byKey slot v, _ => match parseRec toks with
      | some (id, r) => .byKey slot v (.found id r)
      | none => .byKey slot v (.found garbage.1 garbage.2)
  | .list, [l] => match parseIds l with
      | some ids => .listed ids
      | none => .listed [1000000]
  | .load l, ["ok"] => .loaded l
  | _, _ => .nop

/-- `p1=m1:a1,…` -/
def parseAuditLive (s : String) : Option (List (Nat × Rec)) :=
  if s == "-" then some [] else
  (s.splitOn ",").mapM fun item =>
    match item.splitOn "=" with
    | [id, ks] => match ks.splitOn ":" with
      | [m, a] => do
          let id ← parseTagged 'p' id
          let m ← parseOptKey 'm' m
          let a ← parseOptKey 'a' a
          pure (id, { k0 := m, k1 := a })
      | _ => none
    | _ => none

/-- `m1=p1:m1:a1,m2=none,a1=dangling,…` -/
def parseAuditLooks (s : String) : Option (List (Bool × Nat × Look)) :=
  if s == "-" then some [] else
  (s.splitOn ",").mapM fun item =>
    match item.splitOn "=" with
    | [k, r] =>
      let key : Option (Bool × Nat) := match parseTagged 'm' k, parseTagged 'a' k with
        | some v, _ => some (false, v)
        | none, some v => some (true, v)
        | none, none => none
      let res : Option Look :=
        if r == "none" then some .none else if r == "dangling" then some .dangling else
        (parseRec (r.splitOn ":")).map fun (id, rr) => .found id rr
      match key, res with
      | some (s, v), some l => some (s, v, l)
      | _, _ => none
    | _ => none

/-- the audit printed by `stress`; an unreadable audit counts as a failed workload -/
def auditEvent (impl : String) : Ev :=
  match splitTokens impl with
  | ["live", l, "look", k, "anomalies", a, "dupids", d] =>
    (match parseAuditLive l, parseAuditLooks k, a.toNat?, d.toNat? with
     | some l, some k, some a, some d => .audit l k a d
     | _, _, _, _ => .audit [] [] 1000000 0)
  | _ => .audit [] [] 1000000 0

def parseNew (toks : List String) : Option Cfg :=
  match toks with
  | ["new", "submgr"] => some submgr
  | ["new", "statestore", "lease"] => some stLease
  | ["new", "statestore", "session"] => some stLease
  | ["new", "statestore", "sub"] => some stSub
  | ["new", "statestore", "nat"] => some stNat
  | ["new", "memstore"] => some memstore
  | _ => none

def step (st : St) (toks : List String) (impl : String) : St × LineResult :=
  match toks with
  | "new" :: _ =>
    (match parseNew toks with
     | some c => ({ cfg := some c }, { modelObs := "ok" })
     | none => (st, { modelObs := "badop" }))
  | _ =>
    match st.cfg with
    | none => (st, { modelObs := "badop" })
    | some c =>
      if st.dead then (st, { modelObs := "badop" }) else
      match toks with
      | ["stress", seed, g, n] =>
        if seed.toNat?.isNone || g.toNat?.isNone || n.toNat?.isNone then (st, { modelObs := "badop" }) else
        -- schedule-dependent outcome: the model observation is the implementation's, verbatim; the workload is clean by
        -- construction, so NO finding may excuse a verdict on its final table (clause "none" throughout)
        let (_, vs) := Index.check st.mon (auditEvent impl)
        ({ st with dead := true },
         { modelObs := impl, viols := vs.map fun v => (v.name, "none", v.detail) })
      | _ =>
      match parseOp toks with
      | none => (st, { modelObs := "badop" })
      | some op =>
        let (m', o) := Index.step c st.model op
        if o == .badop then (st, { modelObs := "badop" }) else
        let ev := event op impl
        let (mon', vs) := Index.check st.mon ev
        -- a verdict is attributed to a recorded finding only when that finding's narrow clause holds on the
        -- monitor's bookkeeping as it was BEFORE this line
        ({ st with model := m', mon := mon' },
         { modelObs := showObs o,
           viols := vs.map fun v => (v.name, clauseOf c st.mon op ev v, v.detail) })

def component : Component := { σ := St, init := {}, step := step }

end Bng.Drv.IndexDrv
