import Bng.Drv.Common
import Bng.Model.Index
/-
  bngdrv component `index`: replays traces of the real subscriber.Manager, state.Store and
  allocator.MemoryAllocationStore on the generic "primary map + secondary indexes" model and runs the index monitor
  (C20) on the implementation's observations.

    new submgr | new statestore lease|session|sub|nat | new memstore     => ok
    create <pN|-> <mK|-> <aK|->     => ok pN | conflict | error      (`-` id: the code generates the id)
    update pN <mK|-> <aK|->         => ok | notfound                 (state.Store only)
    assign pN aK                    => ok | notfound | gone          (subscriber.Manager only; gone: the session is being
                                        terminated, the address was handed back)
    delete pN                       => ok | notfound | busy          (busy: "already terminating", subscriber.Manager)
    tpark pN                        => parked | ok | notfound | busy (subscriber.Manager: TerminateSession started and
                                        held inside allocator.ReleaseIPv4, i.e. between its two critical sections;
                                        `ok`: no address to release, the call ran through)
    tresume pN                      => ok | noref                    (let the parked call finish)
    mutown pN <mK|m-|aK|a->         => ok | noobj     (state.Store: the caller writes a field of the object it LAST handed
                                        to Create*/Update* for pN and calls nothing; the store follows exactly when it
                                        kept the caller's pointer — leases, sessions, NAT bindings; not subscribers)
    mutget pN <mK|m-|aK|a->         => ok | none      (the caller writes a field of the object Get* returned: that IS the
                                        stored record, for every kind)
    updsame pN                      => ok | notfound | noobj          (Update* with the SAME object the caller holds)
    get pN                          => pN <mK|-> <aK|-> | none
    bymac mK                        => pN <mK|-> <aK|-> | none | dangling
    byip aK                         => pN <mK|-> <aK|-> | none | dangling
    list                            => pN,pN,… | -
    load pN:aK,pN:aK,… | -          => ok | error                    (memstore: UnmarshalJSON of these records, in this order)
    stress <seed> <goroutines> <ops> => live <pN=mK:aK,…|-> look <mK=…,aK=…|-> anomalies <k> dupids <j>
                                        (last op of a dedicated sequence; the outcome depends on the schedule, so the
                                        model does not predict it: the model observation IS the implementation's, and
                                        the monitor audits the final table)

  An operation the selected Go type does not offer, or an unparseable one, is `badop`.
-/
namespace Bng.Drv.IndexDrv
open Bng Bng.Drv Bng.Index

structure St where
  cfg : Option Cfg := none
  /-- a stress op was replayed: the model no longer knows the state, every further op is `badop` -/
  dead : Bool := false
  model : Index.State := {}
  mon : Index.Mon := {}
  /-- the CALLER's objects (not store state): per primary id the record last handed to Create*/Update* -/
  own : AMap Nat Rec := []
  /-- primaries / keys that were written through an aliasing pointer (finding KF-store-alias) -/
  pokedIds : List Nat := []
  pokedKeys : List (Bool × Nat) := []

def showKey (tag : Char) : Option Nat → String
  | some v => s!"{tag}{v}"
  | none => "-"

def showRec (id : Nat) (r : Rec) : String := s!"p{id} {showKey 'm' r.k0} {showKey 'a' r.k1}"

def showObs : Obs → String
  | .ok => "ok"
  | .okId id => s!"ok p{id}"
  | .conflict => "conflict"
  | .notfound => "notfound"
  | .none => "none"
  | .dangling => "dangling"
  | .parked => "parked"
  | .busy => "busy"
  | .noref => "noref"
  | .gone => "gone"
  | .found id r => showRec id r
  | .ids l => if l.isEmpty then "-" else ",".intercalate (l.map fun id => s!"p{id}")
  | .badop => "badop"

/-- `-` → none, `m3` → some 3 -/
def parseOptKey (tag : Char) (s : String) : Option (Option Nat) :=
  if s == "-" then some none else (parseTagged tag s).map some

/-- `p1:a1,p2:a1` (or `p1:m1:a1`, `-` for an absent key); `-` is the empty list -/
def parseLoad (s : String) : Option (List (Nat × Rec)) :=
  if s == "-" then some [] else
  (s.splitOn ",").mapM fun item =>
    match item.splitOn ":" with
    | [id, a] => do
        let id ← parseTagged 'p' id
        let a ← parseOptKey 'a' a
        pure (id, { k0 := none, k1 := a })
    | [id, m, a] => do
        let id ← parseTagged 'p' id
        let m ← parseOptKey 'm' m
        let a ← parseOptKey 'a' a
        pure (id, { k0 := m, k1 := a })
    | _ => none

def parseOp (toks : List String) : Option Op :=
  match toks with
  | ["create", id, k0, k1] => do
      let id ← parseOptKey 'p' id
      let k0 ← parseOptKey 'm' k0
      let k1 ← parseOptKey 'a' k1
      pure (.create id k0 k1)
  | ["update", id, k0, k1] => do
      let id ← parseTagged 'p' id
      let k0 ← parseOptKey 'm' k0
      let k1 ← parseOptKey 'a' k1
      pure (.update id k0 k1)
  | ["assign", id, a] => do
      let id ← parseTagged 'p' id
      let a ← parseTagged 'a' a
      pure (.setKey id true a)
  | ["delete", id] => (parseTagged 'p' id).map .delete
  | ["tpark", id] => (parseTagged 'p' id).map .tpark
  | ["tresume", id] => (parseTagged 'p' id).map .tresume
  | ["get", id] => (parseTagged 'p' id).map .get
  | ["bymac", m] => (parseTagged 'm' m).map (.byKey false)
  | ["byip", a] => (parseTagged 'a' a).map (.byKey true)
  | ["list"] => some .list
  | ["load", l] => (parseLoad l).map .load
  | _ => none

/-- field token of the aliasing ops: `m3`, `m-`, `a2`, `a-` -/
def parseField (s : String) : Option (Bool × Option Nat) :=
  match s.toList with
  | 'm' :: rest => if rest == ['-'] then some (false, none) else (parseTagged 'm' s).map fun v => (false, some v)
  | 'a' :: rest => if rest == ['-'] then some (true, none) else (parseTagged 'a' s).map fun v => (true, some v)
  | _ => none

def parseRec (toks : List String) : Option (Nat × Rec) :=
  match toks with
  | [id, k0, k1] => do
      let id ← parseTagged 'p' id
      let k0 ← parseOptKey 'm' k0
      let k1 ← parseOptKey 'a' k1
      pure (id, { k0 := k0, k1 := k1 })
  | _ => none

def parseIds (s : String) : Option (List Nat) :=
  if s == "-" then some [] else (s.splitOn ",").mapM (parseTagged 'p')

/-- a record that is certainly not what was stored (the implementation's answer could not be read) -/
def garbage : Nat × Rec := (1000000, { k0 := some 1000000, k1 := some 1000000 })

/-- what the implementation's answer means for the monitor -/
def event (op : Op) (impl : String) : Ev :=
  let toks := splitTokens impl
  match op, toks with
  | .create _ k0 k1, ["ok", id] => match parseTagged 'p' id with
      | some id => .put id { k0 := k0, k1 := k1 }
      | none => .nop
  | .create id k0 k1, ["conflict"] => .refused id { k0 := k0, k1 := k1 }
  | .update id k0 k1, ["ok"] => .put id { k0 := k0, k1 := k1 }
  | .update id _ _, ["notfound"] => .missing id
  | .setKey id slot v, ["ok"] => .setKey id slot v
  | .setKey id _ _, ["notfound"] => .missing id
  | .delete id, ["ok"] => .deleted id
  | .delete id, ["notfound"] => .missing id
  -- a parked TerminateSession leaves the session in every map: it stays live for the monitor until the second phase
  -- (or the whole call, when there was nothing to release) answered ok
  | .tpark id, ["ok"] => .deleted id
  | .tpark id, ["notfound"] => .missing id
  | .tresume id, ["ok"] => .deleted id
  | .get id, ["none"] => .got id none
  | .get id, _ => .got id (some ((parseRec toks).getD garbage))
  | .byKey slot v, ["none"] => .byKey slot v .none
  | .byKey slot v, ["dangling"] => .byKey slot v .dangling
  | .byKey slot v, _ => match parseRec toks with
      | some (id, r) => .byKey slot v (.found id r)
      | none => .byKey slot v (.found garbage.1 garbage.2)
  | .list, [l] => match parseIds l with
      | some ids => .listed ids
      | none => .listed [1000000]
  | .load l, ["ok"] => .loaded l
  | _, _ => .nop

/-- `p1=m1:a1,…` -/
def parseAuditLive (s : String) : Option (List (Nat × Rec)) :=
  if s == "-" then some [] else
  (s.splitOn ",").mapM fun item =>
    match item.splitOn "=" with
    | [id, ks] => match ks.splitOn ":" with
      | [m, a] => do
          let id ← parseTagged 'p' id
          let m ← parseOptKey 'm' m
          let a ← parseOptKey 'a' a
          pure (id, { k0 := m, k1 := a })
      | _ => none
    | _ => none

/-- `m1=p1:m1:a1,m2=none,a1=dangling,…` -/
def parseAuditLooks (s : String) : Option (List (Bool × Nat × Look)) :=
  if s == "-" then some [] else
  (s.splitOn ",").mapM fun item =>
    match item.splitOn "=" with
    | [k, r] =>
      let key : Option (Bool × Nat) := match parseTagged 'm' k, parseTagged 'a' k with
        | some v, _ => some (false, v)
        | none, some v => some (true, v)
        | none, none => none
      let res : Option Look :=
        if r == "none" then some .none else if r == "dangling" then some .dangling else
        (parseRec (r.splitOn ":")).map fun (id, rr) => .found id rr
      match key, res with
      | some (s, v), some l => some (s, v, l)
      | _, _ => none
    | _ => none

/-- the audit printed by `stress`; an unreadable audit counts as a failed workload -/
def auditEvent (impl : String) : Ev :=
  match splitTokens impl with
  | ["live", l, "look", k, "anomalies", a, "dupids", d] =>
    (match parseAuditLive l, parseAuditLooks k, a.toNat?, d.toNat? with
     | some l, some k, some a, some d => .audit l k a d
     | _, _, _, _ => .audit [] [] 1000000 0)
  | _ => .audit [] [] 1000000 0

def parseNew (toks : List String) : Option Cfg :=
  match toks with
  | ["new", "submgr"] => some submgr
  | ["new", "statestore", "lease"] => some stLease
  | ["new", "statestore", "session"] => some stLease
  | ["new", "statestore", "sub"] => some stSub
  | ["new", "statestore", "nat"] => some stNat
  | ["new", "memstore"] => some memstore
  | _ => none

def step (st : St) (toks : List String) (impl : String) : St × LineResult :=
  match toks with
  | "new" :: _ =>
    (match parseNew toks with
     | some c => ({ cfg := some c }, { modelObs := "ok" })
     | none => (st, { modelObs := "badop" }))
  | _ =>
    match st.cfg with
    | none => (st, { modelObs := "badop" })
    | some c =>
      if st.dead then (st, { modelObs := "badop" }) else
      match toks with
      | ["stress", seed, g, n] =>
        if seed.toNat?.isNone || g.toNat?.isNone || n.toNat?.isNone then (st, { modelObs := "badop" }) else
        -- schedule-dependent outcome: the model observation is the implementation's, verbatim; the workload is clean by
        -- construction, so NO finding may excuse a verdict on its final table (clause "none" throughout)
        let (_, vs) := Index.check st.mon (auditEvent impl)
        ({ st with dead := true },
         { modelObs := impl, viols := vs.map fun v => (v.name, "none", v.detail) })
      | _ =>
      -- the caller-side operations of state.Store: translated into model operations with the caller's kept object
      let aliasOp : Option (Option Op × String × AMap Nat Rec) :=
        if !c.accepts (.poke 0 false none) then none else
        match toks with
        | ["mutown", id, f] =>
          (match parseTagged 'p' id, parseField f with
           | some id, some (slot, w) =>
             (match AMap.lookup st.own id with
              | none => some (none, "noobj", st.own)
              | some r =>
                some (if c.aliasOwn then some (.poke id slot w) else none, "ok", AMap.insert st.own id (r.set slot w)))
           | _, _ => none)
        | ["mutget", id, f] =>
          (match parseTagged 'p' id, parseField f with
           | some id, some (slot, w) =>
             let own' := match c.aliasOwn, AMap.lookup st.own id, AMap.lookup st.model.prim id with
               | true, some r, some _ => AMap.insert st.own id (r.set slot w)
               | _, _, _ => st.own
             some (some (.poke id slot w), "", own')
           | _, _ => none)
        | ["updsame", id] =>
          (match parseTagged 'p' id with
           | some id =>
             (match AMap.lookup st.own id with
              | none => some (none, "noobj", st.own)
              | some r => some (some (.update id r.k0 r.k1), "", st.own))
           | none => none)
        | _ => none
      -- NAT bindings always carry both endpoints: clearing one through a pointer is not driven
      let natClear := c.accepts (.list) == false && (match toks with
        | [k, _, f] => (k == "mutown" || k == "mutget") && (f == "m-" || f == "a-")
        | _ => false)
      if natClear then (st, { modelObs := "badop" }) else
      let parsed : Option (Option Op × String × AMap Nat Rec) := match aliasOp with
        | some x => some x
        | none => (parseOp toks).map fun op => (some op, "", st.own)
      match parsed with
      | none => (st, { modelObs := "badop" })
      | some (none, fixedObs, own') =>
        -- nothing reaches the store (the caller has no such object, or its object is not aliased by the store)
        ({ st with own := own' }, { modelObs := fixedObs })
      | some (some op, fixedObs, own') =>
        let (m', o) := Index.step c st.model op
        if o == .badop then (st, { modelObs := "badop" }) else
        let shown := if fixedObs.isEmpty then showObs o else fixedObs
        -- the monitor sees what the API accepted: a pointer write is no API call (`nop`); `updsame` is an update
        let isPoke := match op with | .poke _ _ _ => true | _ => false
        let ev := if isPoke then Ev.nop else event op impl
        let (mon', vs) := Index.check st.mon ev
        -- the caller's object of a created / freshly updated primary is the record it handed over
        let own'' := match op, o, toks with
          | .create _ k0 k1, .okId nid, _ => AMap.insert own' nid { k0 := k0, k1 := k1 }
          | .update id k0 k1, .ok, "update" :: _ => AMap.insert own' id { k0 := k0, k1 := k1 }
          | _, _, _ => own'
        -- bookkeeping of finding KF-store-alias: which primaries / keys were written through an aliasing pointer
        let (pIds, pKeys) := match op, o with
          | .poke id slot w, .ok =>
            (id :: st.pokedIds,
             (match w with | some v => [(slot, v)] | none => []) ++
             (match AMap.lookup st.mon.live id with
              | some r => (match r.key slot with | some v => [(slot, v)] | none => [])
              | none => []) ++
             (match AMap.lookup st.model.prim id with
              | some r => (match r.key slot with | some v => [(slot, v)] | none => [])
              | none => []) ++ st.pokedKeys)
          | _, _ => (st.pokedIds, st.pokedKeys)
        let aliasExcuse := fun (v : Index.V) => match ev with
          | .got id _ => st.pokedIds.contains id
          | .byKey slot key r =>
            st.pokedKeys.contains (slot, key) ||
            (match r with | .found id _ => st.pokedIds.contains id | _ => false)
          | .put id _ => st.pokedIds.contains id || (match v.key with | some k => st.pokedKeys.contains k | none => false)
          | .listed _ => false
          | _ => false
        -- a verdict is attributed to a recorded finding only when (1) that finding's narrow clause holds on the
        -- bookkeeping as it was BEFORE this line and (2) the MODEL reproduces the implementation's answer on this
        -- line — an answer the model of the unchanged code does not predict is a regression, never the finding
        let clause := fun (v : Index.V) =>
          if shown != impl then "none" else
          let base := clauseOf c st.mon op ev v
          if base != "none" then base else if aliasExcuse v then "KF-store-alias" else "none"
        ({ st with model := m', mon := mon', own := own'', pokedIds := pIds, pokedKeys := pKeys },
         { modelObs := shown, viols := vs.map fun v => (v.name, clause v, v.detail) })

def component : Component := { σ := St, init := {}, step := step }

end Bng.Drv.IndexDrv
