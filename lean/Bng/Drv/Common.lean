/-
  Line-protocol plumbing shared by every component driver of `bngdrv`.

  A trace is a sequence of lines  `<op tokens> => <observation of the implementation>`.
  Blank lines separate operation sequences; lines starting with `#` are comments.
  For every line the component computes the MODEL's observation, compares it with the
  implementation's, and feeds the implementation's observation to the property MONITOR.

  Output (only anomalies and a final summary):
    DIFF seq=<n> line=<k> op=<op> impl=<obs> model=<obs>
    VIOL seq=<n> line=<k> monitor=<name> clause=<Dnn|none> detail=<text> op=<op>
    STATS seqs=<n> lines=<m> diffs=<d> viols=<v>
  Core Lean only.
-/
namespace Bng.Drv

/-- the result of replaying one trace line -/
structure LineResult where
  modelObs : String
  /-- monitor verdicts: (monitor name, clause, detail) -/
  viols : List (String × String × String) := []

/-- A component: a state (model state + monitor state) and a step over trace lines. -/
structure Component where
  σ : Type
  init : σ
  /-- `step st opTokens implObs` -/
  step : σ → List String → String → σ × LineResult

def hexDigit (c : Char) : Option Nat :=
  if '0' ≤ c ∧ c ≤ '9' then some (c.toNat - '0'.toNat)
  else if 'a' ≤ c ∧ c ≤ 'f' then some (c.toNat - 'a'.toNat + 10)
  else if 'A' ≤ c ∧ c ≤ 'F' then some (c.toNat - 'A'.toNat + 10)
  else none

def parseHex (s : String) : Option Nat :=
  if s.isEmpty then none
  else s.foldl (fun acc c => match acc, hexDigit c with
    | some a, some d => some (a * 16 + d)
    | _, _ => none) (some 0)

def hexChar (d : Nat) : Char :=
  if d < 10 then Char.ofNat ('0'.toNat + d) else Char.ofNat ('a'.toNat + d - 10)

partial def toHexAux (n : Nat) (acc : List Char) : List Char :=
  if n < 16 then hexChar n :: acc else toHexAux (n / 16) (hexChar (n % 16) :: acc)

def toHex (n : Nat) : String := String.ofList (toHexAux n [])

/-- fixed-width lower-case hex (left padded with zeros) -/
def toHexW (n width : Nat) : String :=
  let s := toHex n
  String.ofList (List.replicate (width - s.length) '0') ++ s

/-- bytes as lower-case hex, two digits each -/
def bytesToHex (bs : List UInt8) : String :=
  String.join (bs.map fun b => toHexW b.toNat 2)

def parseHexBytes (s : String) : Option (List UInt8) :=
  if s == "-" then some [] else
  let cs := s.toList
  if cs.length % 2 ≠ 0 then none else
  let rec go : List Char → List UInt8 → Option (List UInt8)
    | a :: b :: rest, acc => match hexDigit a, hexDigit b with
      | some x, some y => go rest (UInt8.ofNat (x * 16 + y) :: acc)
      | _, _ => none
    | [], acc => some acc.reverse
    | _, _ => none
  go cs []

/-- `s17` → 17 (subscriber / entity tokens carry a one-letter tag) -/
def parseTagged (tag : Char) (s : String) : Option Nat :=
  match s.toList with
  | c :: rest => if c = tag then (String.ofList rest).toNat? else none
  | [] => none

/-- `0a000001/32` → (0x0a000001, 32) -/
def parseAddrLen (s : String) : Option (Nat × Nat) :=
  match s.splitOn "/" with
  | [a, l] => match parseHex a, l.toNat? with
    | some x, some y => some (x, y)
    | _, _ => none
  | _ => none

def splitTokens (s : String) : List String :=
  (s.splitOn " ").filter (fun t => !t.isEmpty)

/-- split a trace line at the first " => " -/
def splitLine (line : String) : String × String :=
  match line.splitOn " => " with
  | [op] => (op, "")
  | op :: rest => (op, " => ".intercalate rest)
  | [] => ("", "")

structure Totals where
  seqs : Nat := 0
  lines : Nat := 0
  diffs : Nat := 0
  viols : Nat := 0

partial def loop (c : Component) (h : IO.FS.Stream) (st : c.σ) (seq line : Nat) (diverged : Bool)
    (inSeq : Bool) (t : Totals) : IO Totals := do
  let raw ← h.getLine
  if raw.isEmpty then
    return { t with seqs := if inSeq then t.seqs + 1 else t.seqs }
  let l := String.ofList (raw.toList.reverse.dropWhile (fun ch => ch = '\n' || ch = '\r')).reverse
  if l.isEmpty then
    -- sequence separator
    if inSeq then loop c h c.init (seq + 1) 0 false false { t with seqs := t.seqs + 1 }
    else loop c h c.init seq 0 false false t
  else if l.startsWith "#" then
    loop c h st seq line diverged inSeq t
  else
    let (op, impl) := splitLine l
    let (st', r) := c.step st (splitTokens op) impl
    let mut t := { t with lines := t.lines + 1 }
    let mut div := diverged
    if r.modelObs != impl then
      IO.println s!"DIFF seq={seq} line={line} op={op} impl={impl} model={r.modelObs}"
      t := { t with diffs := t.diffs + 1 }
      div := true
    for (m, cl, d) in r.viols do
      IO.println s!"VIOL seq={seq} line={line} monitor={m} clause={cl} detail={d} op={op}"
      t := { t with viols := t.viols + 1 }
    loop c h st' seq (line + 1) div true t

def runComponent (c : Component) : IO UInt32 := do
  let stdin ← IO.getStdin
  let t ← loop c stdin c.init 0 0 false false {}
  IO.println s!"STATS seqs={t.seqs} lines={t.lines} diffs={t.diffs} viols={t.viols}"
  return 0

end Bng.Drv
