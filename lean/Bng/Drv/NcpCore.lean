import Bng.Drv.Common
import Bng.Model.Ncp
/-
  Generic part of the bngdrv-ncp components `lcp`, `ipcp`, `ipv6cp` (the tables are supplied by Drv/Ncp.lean —
  regenerated — or Drv/NcpRef.lean — committed reference): replay traces of the real LCPStateMachine / IPCPStateMachine /
  IPV6CPStateMachine on the automaton model (which interprets the REGENERATED tables Bng.Gen.Fsm*) and run the
  C11 monitor on the implementation's observations.

    new <maxConf> [pfc=0|1 acfc=0|1 auth=<hex>] [local=<hex|-> peer=<hex|-> dns1=<hex|-> dns2=<hex|->]   => ok
    up | down | open | close | timeout | stale | sendecho | sendprotorej
    rcr <id> <opts>      rcrbad <id>                       (opts: `-` or `tt:hex,tt:o,tt:-`;  o = our own magic / interface id)
    rca <idspec>         rcn <idspec> <opts>   rcnbad <idspec>   rcj <idspec> <opts>   rcjbad <idspec>
                                                           (idspec: m = lastIdentifier, s = lastIdentifier-1, or a number)
    rtr <id> | rta <id> | coderej <id> <code|-> | protorej <id> <hex|-> | echoreq <id> <hex|-> | other <code> <id>
    rcr <id> <opts>+trail      the option bytes followed by one stray byte (a malformed request)
    echoshort <id>             Echo-Request with fewer than 4 data bytes
    setpeer <hex|->            IPCP SetPeerIP            pool <hex|->   what IPPool.Allocate answers from now on
    isopened                   => <true|false> <State>   (IsOpened() and GetState())

  observation:   <State> t=<0|1> e=<0|1> b=<0|1> p=<pool calls> cb=<callbacks> <pkts>
     t  a restart-timer instance is armed        e  ReceivePacket returned an error
     b  every Configure-Ack sent carries exactly the option BYTES of the request
     p  calls to the IPPool: A<hex> (Allocate answered), A- (answered nil), R (Release); `-` if none
     cb invocations of the SetOnStateChange callback: Old>New,…
     pkts: `-` or `;`-joined  CR/<id>/<opts>  (CA CN CJ TR TA XJ PJ EQ ER)
-/
namespace Bng.Drv.NcpDrv
open Bng Bng.Drv Bng.Ncp

def stName : St → String
  | .Initial => "Initial" | .Starting => "Starting" | .Closed => "Closed" | .Stopped => "Stopped"
  | .Closing => "Closing" | .Stopping => "Stopping" | .ReqSent => "Req-Sent" | .AckRcvd => "Ack-Rcvd"
  | .AckSent => "Ack-Sent" | .Opened => "Opened"

def codeName (k : Nat) : String :=
  match k with
  | 1 => "CR" | 2 => "CA" | 3 => "CN" | 4 => "CJ" | 5 => "TR" | 6 => "TA" | 7 => "XJ" | 8 => "PJ" | 9 => "EQ" | 10 => "ER"
  | n => s!"C{n}"

def codeOfName (s : String) : Option Nat :=
  match s with
  | "CR" => some 1 | "CA" => some 2 | "CN" => some 3 | "CJ" => some 4 | "TR" => some 5 | "TA" => some 6
  | "XJ" => some 7 | "PJ" => some 8 | "EQ" => some 9 | "ER" => some 10
  | _ => none

def hexBytes (l : List Nat) : String :=
  if l.isEmpty then "-" else String.join (l.map fun b => toHexW b 2)

def showOpt (o : Opt) : String :=
  toHexW o.ty 2 ++ ":" ++ (match o.sym with | .ours => "o" | .rnd => "*" | .conc => hexBytes o.data)

def showOpts (l : List Opt) : String :=
  if l.isEmpty then "-" else ",".intercalate (l.map showOpt)

def showPkt (p : Pkt) : String :=
  let body :=
    if p.code == cER then (match p.opts with | [o] => hexBytes o.data | _ => "-")
    else if p.code == cCR || p.code == cCA || p.code == cCN || p.code == cCJ then showOpts p.opts
    else "-"
  s!"{codeName p.code}/{p.id.toNat}/{body}"

def showPool (l : List (Option (List Nat))) : String :=
  if l.isEmpty then "-" else ",".intercalate (l.map fun
    | some [] => "A-"
    | some a => "A" ++ hexBytes a
    | none => "R")

def showTrans (l : List (St × St)) : String :=
  if l.isEmpty then "-" else ",".intercalate (l.map fun (a, b) => stName a ++ ">" ++ stName b)

def showObs (s : State) (o : Obs) : String :=
  let pk := if o.out.isEmpty then "-" else ";".intercalate (o.out.map showPkt)
  s!"{stName s.st} t={if s.armed then 1 else 0} e={if o.err then 1 else 0} b=1 p={showPool o.pool} cb={showTrans o.trans} {pk}"

def parseBytes (s : String) : Option (List Nat) :=
  (parseHexBytes s).map fun l => l.map (·.toNat)

def parseOpt (s : String) : Option Opt :=
  match s.splitOn ":" with
  | [t, d] => do
    let ty ← parseHex t
    if d == "o" then pure { ty := ty, sym := .ours }
    else if d == "*" then pure { ty := ty, sym := .rnd }
    else let b ← parseBytes d; pure { ty := ty, data := b }
  | _ => none

def parseOpts (s : String) : Option (List Opt) :=
  if s == "-" then some [] else (s.splitOn ",").mapM parseOpt

def parsePkt (s : String) : Option Pkt :=
  match s.splitOn "/" with
  | [c, i, body] => do
    let code ← codeOfName c
    let id ← i.toNat?
    if code == cER then
      let b ← parseBytes body
      pure { code := code, id := UInt8.ofNat id, opts := [{ ty := 0, data := b }] }
    else
      let os ← parseOpts body
      pure { code := code, id := UInt8.ofNat id, opts := os }
  | _ => none

def parsePool (s : String) : List (Option (List Nat)) :=
  if s == "p=-" then [] else
  ((s.drop 2).toString.splitOn ",").filterMap fun it =>
    if it == "R" then some none
    else if it == "A-" then some (some [])
    else if it.startsWith "A" then (parseBytes (it.drop 1).toString).map some
    else none

/-- implementation observation → what the monitor looks at -/
def parseObs (s : String) : Option MObs :=
  match splitTokens s with
  | [st, t, _, b, p, _, pk] =>
    let mk := fun (l : List Pkt) => ({ st := st, armed := t == "t=1", ackBytesOk := b != "b=0", pool := parsePool p, out := l } : MObs)
    if pk == "-" then some (mk []) else ((pk.splitOn ";").mapM parsePkt).map mk
  | _ => none

structure DSt where
  cfg : Option Cfg := none
  model : State := {}
  mon : Mon := {}

def kv (toks : List String) (k : String) : Option String :=
  toks.findSome? fun t => if t.startsWith (k ++ "=") then some ((t.drop (k.length + 1)).toString) else none

def optBytes (toks : List String) (k : String) : Option (List Nat) :=
  match kv toks k with
  | some "-" => none
  | some v => parseBytes v
  | none => none

def parseCfg (proto : Proto) (toks : List String) : Option Cfg :=
  match toks with
  | mc :: rest => do
    let mc ← mc.toInt?
    pure { proto := proto, maxConf := mc,
           auth := (optBytes rest "auth").getD [0xc0, 0x23],
           pfc := kv rest "pfc" == some "1", acfc := kv rest "acfc" == some "1",
           localIP := optBytes rest "local", peerIP := optBytes rest "peer",
           dns1 := optBytes rest "dns1", dns2 := optBytes rest "dns2", pool := kv rest "pool" == some "1" }
  | [] => none

/-- resolve an identifier token against "the identifier of our last Configure-Request" -/
def resolveId (tok : String) (last : UInt8) : Option UInt8 :=
  if tok == "m" then some last
  else if tok == "s" then some (last - 1)
  else tok.toNat?.map UInt8.ofNat

def parseEv (toks : List String) (last : UInt8) : Option Ev :=
  match toks with
  | ["up"] => some .up | ["down"] => some .down | ["open"] => some .open | ["close"] => some .close
  | ["timeout"] => some .timeout | ["stale"] => some .stale
  | ["sendecho"] => some .sendEcho | ["sendprotorej"] => some .sendProtoRej
  | ["rcr", i, o] => do
    let i ← resolveId i last
    -- a stray trailing byte makes the option bytes malformed
    if o.endsWith "+trail" then let o ← parseOpts (o.dropEnd 6).toString; pure (.rcr i o true)
    else let o ← parseOpts o; pure (.rcr i o false)
  | ["rcrbad", i] => do let i ← resolveId i last; pure (.rcr i [] true)
  | ["rca", i] => do let i ← resolveId i last; pure (.rca i)
  | ["rcn", i, o] => do let i ← resolveId i last; let o ← parseOpts o; pure (.rcn i o false)
  | ["rcnbad", i] => do let i ← resolveId i last; pure (.rcn i [] true)
  | ["rcj", i, o] => do let i ← resolveId i last; let o ← parseOpts o; pure (.rcj i o false)
  | ["rcjbad", i] => do let i ← resolveId i last; pure (.rcj i [] true)
  | ["rtr", i] => do let i ← resolveId i last; pure (.rtr i)
  | ["rta", i] => do let i ← resolveId i last; pure (.rta i)
  | ["coderej", i, c] => do
    let i ← resolveId i last
    if c == "-" then pure (.codeRej i none) else let c ← c.toNat?; pure (.codeRej i (some c))
  | ["protorej", i, p] => do
    let i ← resolveId i last
    if p == "-" then pure (.protoRej i none) else let p ← parseHex p; pure (.protoRej i (some p))
  | ["echoreq", i, d] => do let i ← resolveId i last; let d ← parseBytes d; pure (.echoReq i d)
  | ["other", c, i] => do let c ← c.toNat?; let i ← resolveId i last; pure (.other c i)
  | ["echoshort", i] => do let i ← resolveId i last; pure (.other 9 i)
  | ["setpeer", a] => if a == "-" then some (.setPeer none) else (parseBytes a).map fun b => .setPeer (some b)
  | ["pool", a] => if a == "-" then some (.poolNext none) else (parseBytes a).map fun b => .poolNext (some b)
  | _ => none

/-- the same operation as the monitor sees it: identifiers are resolved against the last Configure-Request the
    IMPLEMENTATION was seen to send -/
def monEv (T : Tables) (proto : Proto) (toks : List String) (lastCR : Option UInt8) : MEv :=
  let cid := fun (tok : String) => (resolveId tok (lastCR.getD 0)).getD 0
  let lax := fun (h : Handler) => !(T.pre h).contains .parseAbort
  match toks with
  | ["up"] => .up
  | ["open"] => .open
  | ["down"] => .down
  | ["close"] => .close
  | ["timeout"] => .timeout
  | ["stale"] => .stale
  | ["rcr", i, o] =>
    if o.endsWith "+trail" then .rcr (cid i) [] true else .rcr (cid i) ((parseOpts o).getD []) false
  | ["rcrbad", i] => .rcr (cid i) [] true
  | ["rca", i] => .rca (cid i)
  | ["rcn", i, _] => .rcnj (cid i) true
  | ["rcj", i, _] => .rcnj (cid i) true
  | ["rcnbad", i] => .rcnj (cid i) (lax .rcn)
  | ["rcjbad", i] => .rcnj (cid i) (lax .rcj)
  | ["rtr", i] => .rtr (cid i)
  | ["rta", _] => .rta
  | ["coderej", _, c] =>
    if proto == .lcp then (match c.toNat? with | some k => if 1 ≤ k ∧ k ≤ 4 then .critRej else .peerPkt | none => .peerPkt) else .peerPkt
  | ["protorej", _, p] => if proto == .lcp && parseHex p == some 0xc021 then .critRej else .peerPkt
  | ["echoreq", i, _] => .echo (cid i)
  | ["echoshort", _] => .peerPkt
  | ["other", _, _] => .peerPkt
  | ["setpeer", a] => if a == "-" then .setPeer none else .setPeer (parseBytes a)
  | _ => .local

def stepFor (T : Tables) (proto : Proto) (st : DSt) (toks : List String) (impl : String) : DSt × LineResult :=
  match toks with
  | "new" :: rest =>
    match parseCfg proto rest with
    | some c => ({ cfg := some c, model := Ncp.init c, mon := { assigned := c.peerIP } }, { modelObs := "ok" })
    | none => (st, { modelObs := "badop" })
  | _ =>
    match st.cfg with
    | none => (st, { modelObs := "badop" })
    | some c =>
      if toks == ["isopened"] then
        -- observer: IsOpened() and GetState(); judged like a state report
        let shown := s!"{decide (st.model.st = .Opened)} {stName st.model.st}"
        let seen := match splitTokens impl with
          | [b, nm] => if b == "true" then "Opened" else (if nm == "Opened" then "Opened?" else nm)
          | _ => "?"
        let (mon', vs) := Mon.check c st.mon .local { st := seen, armed := false, ackBytesOk := true, pool := [], out := [], timerKnown := false }
        ({ st with mon := { mon' with prev := st.mon.prev } },
         { modelObs := shown, viols := vs ++
             (if seen == "Opened?" then [("opened-without-agreement", "none", "IsOpened() is false in state Opened")] else []) })
      else
      match parseEv toks st.model.lastId with
      | none => (st, { modelObs := "badop" })
      | some ev =>
        let (s', o) := Ncp.step T c st.model ev
        let (mon', vs) := match parseObs impl with
          | some o =>
            -- the mechanism of finding KF-ncp-timer-stopped-early: exactly the five handlers the finding names
            -- (Configure-Ack/-Nak/-Reject, Terminate-Request, Terminate-Ack), and only while the generated table
            -- still says that they stop the timer before their switch.  (That NO OTHER handler does is the pinned
            -- table fact `*_stoptimer_only_in_named_handlers` of Bng.Spec.C11.)
            let stops := match ev with
              | .rca _ => (T.pre .rca).contains .stopTimer
              | .rcn _ _ _ => (T.pre .rcn).contains .stopTimer
              | .rcj _ _ _ => (T.pre .rcj).contains .stopTimer
              | .rtr _ => (T.pre .rtr).contains .stopTimer
              | .rta _ => (T.pre .rta).contains .stopTimer
              | _ => false
            Mon.check c st.mon (monEv T proto toks st.mon.lastCR) { o with handlerStops := stops }
          | none => (st.mon, [])
        ({ st with model := s', mon := mon' },
         { modelObs := showObs s' o, viols := vs })

end Bng.Drv.NcpDrv
