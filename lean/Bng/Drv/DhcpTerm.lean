import Bng.Drv.Common
import Bng.Model.DhcpTermMonitor
/-
  bngdrv component `dhcpterm` (property C16, DHCPv4 paths): replays traces of the real dhcp.Server running with the
  real nat.Manager, qos.Manager, ebpf.Loader (real kernel maps) and a loopback RADIUS accounting server
  (harness/cmd/dhcpterm) on the model Bng.DhcpTerm and runs the residue monitor on the implementation's snapshots.

    new radius|noradius <leaseSecs> [h1|h5]
    disc m<k> c<j>|-          req m<k> a<n> c<j>|-          rel m<k>          dec m<k> a<n>
    tick <secs>               cleanup                       gap <rel|dec|cleanup …>
    fault qe|qi|nat|sub|cidmap|cid|vlan on|off
                              the QoS egress / QoS ingress / subscriber_nat / subscriber_pools / circuit_id_map /
                              circuit_id_subscribers / vlan_subscriber_pools kernel map is full (a Put of a new key fails)
    wfault sub|cidmap|cid on|off
                              the Loader's handle of that cache map is write-protected: every Put and every Delete fails
    split <rel|dec …> / <rel|dec|cleanup …>                 shutdown
    estgap m<k> a<n> c<j>|- / <rel|dec|cleanup …>           a REQUEST with a termination inside its unlock window

  Observation: <reply> t= L= C= P= F= U= Q= Qi= Qn= N= Nk= Nn= Km= Kv= Kc= Kh= A=   (see the harness).
  The order in which a cleanup pass visits expired leases (Go map iteration) is read off the implementation's free
  list `F=` and handed to the model as the `order` parameter.
-/
namespace Bng.Drv.DhcpTermDrv
open Bng Bng.Drv Bng.DhcpTerm

def joinOr (xs : List String) : String := if xs.isEmpty then "-" else ",".intercalate xs

def showCid : Option Nat → String
  | some c => s!"c{c}"
  | none => "-"

def showCidKey (k : Nat × Nat) : String := s!"m{k.1}.c{k.2}"

def showSnapshot (s : State) : String :=
  let ls := (sortBy (fun (a b : Nat × Lease) => a.1 ≤ b.1) s.leases).map fun (k, l) => s!"m{k}:a{l.ip}:{l.exp}:{showCid l.cid}"
  let ps := (sortBy (fun (a b : Nat × Nat) => a.1 ≤ b.1) s.pool.allocated).map fun (k, a) => s!"m{k}:a{a}"
  let addrs := fun (l : List Nat) => joinOr ((sortNat l).map fun a => s!"a{a}")
  let cids := fun (l : List (Nat × Nat)) => joinOr ((sortPair l).map showCidKey)
  let acs := (sortBy (fun (a b : Nat × Sess) => a.1 ≤ b.1) s.acct).map fun (k, r) => s!"{k}:m{r.mac}:{r.starts}:{r.stops}{if s.early.contains k then ":x" else ""}"
  let idx : List ((Nat × Nat) × Lease) :=
    (s.leases.filterMap fun (k, l) => l.cid.map fun c => ((k, c), l)) ++ s.stale
  let cs := (sortBy (fun (a b : (Nat × Nat) × Lease) => a.1.1 < b.1.1 || (a.1.1 == b.1.1 && a.1.2 ≤ b.1.2)) idx).map
    fun (k, l) => s!"{showCidKey k}:a{l.ip}:{l.exp}"
  s!"t={s.now} L={joinOr ls} C={joinOr cs} P={joinOr ps} F={joinOr (s.pool.avail.map fun a => s!"a{a}")} U={addrs s.pool.unavailable} " ++
  s!"Q={addrs s.qos} Qi={addrs (s.qos.filter fun a => !(s.qosHalf.contains a))} Qn={(s.qos.filter fun a => !(s.qosHalf.contains a)).length} N={addrs s.nat} Nk={addrs s.nat} Nn={s.nat.length} " ++
  s!"Km={joinOr ((sortNat s.kMac).map fun m => s!"m{m}")} Kv={joinOr (s.kVlan.map fun v => s!"v{v.1}.{v.2}")} Kc={cids s.kCid} Kh={cids s.kHash} " ++
  s!"A={joinOr acs}"

/-! ### parsing operations -/

def parseMac (t : String) : Option Nat := do
  let k ← parseTagged 'm' t
  if k ≤ 99 && t.length ≥ 2 then pure k else none

def parseAddr (t : String) : Option Nat := do
  let n ← parseTagged 'a' t
  if n ≤ 99 && t.length ≥ 2 then pure n else none

def parseCid (t : String) : Option (Option Nat) :=
  if t == "-" then some none else do
    let j ← parseTagged 'c' t
    if 1 ≤ j && j ≤ 3 then pure (some j) else none

/-- rel m<k> | dec m<k> a<n> | cleanup  (the cleanup order is filled in later) -/
def parseTerm (toks : List String) (allowCleanup : Bool) : Option Term :=
  match toks with
  | ["rel", m] => (parseMac m).map .rel
  | ["dec", m, a] => do let m ← parseMac m; let a ← parseAddr a; pure (.dec m a)
  | ["cleanup"] => if allowCleanup then some (.cleanup []) else none
  | _ => none

def splitAt (toks : List String) : Option (List String × List String) :=
  -- the LAST "/" separates (as in the harness)
  let idx := (toks.zipIdx.filter (fun p => p.1 == "/")).map (·.2)
  match idx.getLast? with
  | some i => if i ≥ 1 && i + 1 < toks.length then some (toks.take i, toks.drop (i + 1)) else none
  | none => none

/-- estgap m<k> a<n> c<j>|- / <termination> -/
def parseEstGap (toks : List String) : Option (Nat × Nat × Option Nat × Term) :=
  match toks with
  | "estgap" :: m :: a :: c :: "/" :: rest => do
      let m ← parseMac m; let a ← parseAddr a; let c ← parseCid c
      let t ← (match rest with
        | ["rel", m2] => (parseMac m2).map Term.rel
        | ["dec", m2, a2] => do let m2 ← parseMac m2; let a2 ← parseAddr a2; pure (Term.dec m2 a2)
        | ["cleanup"] => some (Term.cleanup [])
        | _ => none)
      if 1 ≤ m && m ≤ 9 && a ≤ 15 then pure (m, a, c, t) else none
  | _ => none

/-- wfault sub|cidmap|cid on|off -/
def parseWfault (toks : List String) : Option (Nat × Bool) :=
  match toks with
  | ["wfault", w, on] =>
    if on == "on" || on == "off" then
      (if w == "sub" then some 3 else if w == "cidmap" then some 4 else if w == "cid" then some 5 else none).map
        fun n => (n, on == "on")
    else none
  | _ => none

def parseOp (toks : List String) : Option Op :=
  match toks with
  | ["disc", m, c] => do
      let m ← parseMac m; let _ ← parseCid c
      if 1 ≤ m && m ≤ 9 then pure (.disc m) else none
  | ["req", m, a, c] => do
      let m ← parseMac m; let a ← parseAddr a; let c ← parseCid c
      if 1 ≤ m && m ≤ 9 && a ≤ 15 then pure (.req m a c) else none
  | ["tick", n] => do let n ← n.toNat?; if n ≤ 1000000 then pure (.tick n) else none
  | ["shutdown"] => some .shutdown
  | ["fault", w, on] =>
    if on == "on" || on == "off" then
      (if w == "qe" then some 0 else if w == "qi" then some 1 else if w == "nat" then some 2
       else if w == "sub" then some 3 else if w == "cidmap" then some 4 else if w == "cid" then some 5
       else if w == "vlan" then some 6 else none).map
        fun n => .fault n (on == "on")
    else none
  | "gap" :: rest => (parseTerm rest true).map (.gap [])
  | "split" :: rest => do
      let (a, b) ← splitAt rest
      let a ← parseTerm a false; let b ← parseTerm b true
      pure (.split a b)
  | _ => (parseTerm toks true).map .term

/-! ### parsing observations -/

def field (impl key : String) : String :=
  match (splitTokens impl).find? (fun t => t.startsWith (key ++ "=")) with
  | some t => String.ofList (t.toList.drop (key.length + 1))
  | none => ""

def items (s : String) : List String := if s == "-" || s.isEmpty then [] else s.splitOn ","

def parseCidKey (t : String) : Option (Nat × Nat) :=
  match t.splitOn "." with
  | [m, c] => do let m ← parseTagged 'm' m; let c ← parseTagged 'c' c; pure (m, c)
  | _ => none

def union (a b : List Nat) : List Nat := a ++ b.filter (fun x => !(a.contains x))

def parseSnap (impl : String) : Snap :=
  let addrs := fun (k : String) => (items (field impl k)).filterMap (parseTagged 'a')
  let raw := fun (k : String) => items (field impl k)
  let q := addrs "Q"; let qi := addrs "Qi"; let n := addrs "N"; let nk := addrs "Nk"
  let kc := raw "Kc"; let kh := raw "Kh"; let km := raw "Km"
  let leases := (raw "L").filterMap fun it => match it.splitOn ":" with
    | [m, a, e, c] => do
        let m ← parseTagged 'm' m; let a ← parseTagged 'a' a; let e ← e.toNat?
        pure (m, a, e, if c == "-" then none else parseTagged 'c' c)
    | _ => none
  let skew :=
    -- (an install that stops half-way - ingress map full - legitimately leaves an egress key without an ingress key)
    (if qi.any (fun a => !(q.contains a)) then ["the QoS ingress map holds a key the egress map does not"] else []) ++
    (if (field impl "Qn").toNat? != some (raw "Qi").length then ["qos.Manager's table and the ingress map disagree"] else []) ++
    (if field impl "N" != field impl "Nk" then ["nat.Manager's table and subscriber_nat hold different keys"] else []) ++
    (if (field impl "Nn").toNat? != some (raw "N").length then ["nat.Manager's allocation count and its table disagree"] else []) ++
    (if (raw "L").length != leases.length then ["unparsable lease"] else []) ++
    (if (kc.filterMap parseCidKey).length != kc.length || (kh.filterMap parseCidKey).length != kh.length
        || (km.filterMap (parseTagged 'm')).length != km.length then ["a cache map holds a key the harness did not write"] else [])
  { now := ((field impl "t").toNat?).getD 0,
    leases := leases,
    bound := (raw "P").filterMap fun it => match it.splitOn ":" with
      | [m, a] => do let m ← parseTagged 'm' m; let a ← parseTagged 'a' a; pure (m, a)
      | _ => none,
    free := addrs "F", unavail := addrs "U",
    qos := union q qi, nat := union n nk,
    kMac := km.filterMap (parseTagged 'm'),
    kVlan := raw "Kv",
    kCid := kc.filterMap parseCidKey, kHash := kh.filterMap parseCidKey,
    acct := (raw "A").filterMap fun it => match it.splitOn ":" with
      | o :: m :: st :: sp :: _ => do
          let o ← o.toNat?; let m ← parseTagged 'm' m; let st ← st.toNat?; let sp ← sp.toNat?
          pure (o, m, st, sp)
      | _ => none,
    idx := (raw "C").filterMap fun it => match it.splitOn ":" with
      | [k, a, _] => do let k ← parseCidKey k; let a ← parseTagged 'a' a; pure (k, a)
      | _ => none,
    early := (raw "A").filterMap fun it => match it.splitOn ":" with
      | [o, _, _, _, "x"] => o.toNat?
      | _ => none,
    skew := skew }

/-! ### one trace line -/

structure St where
  model : Option State := none
  mon   : Mon := {}

def showReply : Reply → String
  | .offer ip => s!"offer:a{ip}"
  | .ack ip => s!"ack:a{ip}"
  | .nak => "nak"
  | .none => "none"

/-- MACs in the order the implementation's free list says their addresses were returned -/
def orderFrom (m : State) (impl : String) : List Nat :=
  ((items (field impl "F")).filterMap (parseTagged 'a')).filterMap fun a =>
    (m.leases.find? (fun p => p.2.ip == a)).map (·.1)

def withOrder (o : List Nat) : Term → Term
  | .cleanup _ => .cleanup o
  | t => t

def termMac : Term → Option Nat
  | .rel m => some m
  | .dec m _ => some m
  | .cleanup _ => none

def termReply : Term → String
  | .cleanup _ => "ok"
  | _ => "none"

/-- the harness refuses a `split` whose second termination would need the NAT pool lock it holds: one that would end a
    session that is still live once the first termination has taken its lease -/
def splitRefused (m : State) (a b : Term) : Bool :=
  let m1 := match a with
    | .rel k => (takeRelease m k).1
    | .dec k ip => (takeDecline m k ip).1
    | .cleanup _ => m
  match b with
  | .cleanup _ => m1.leases.any fun p => decide (m1.now > p.2.exp)
  | _ => match termMac b with
    | some k2 => (AMap.lookup m1.leases k2).isSome
    | none => false

def step (st : St) (toks : List String) (impl : String) : St × LineResult :=
  let newRun := fun (r secs : String) =>
    match secs.toNat? with
    | some lt =>
      if (r == "radius" || r == "noradius") && 1 ≤ lt && lt ≤ 100000 then
        let m := init (r == "radius") lt
        (({ model := some m, mon := { prev := parseSnap impl } } : St), ({ modelObs := "ok " ++ showSnapshot m } : LineResult))
      else (st, { modelObs := "badop" })
    | none => (st, { modelObs := "badop" })
  match toks with
  | ["new", r, secs] => newRun r secs
  -- h1 / h5: the hardware-address length of m5 in this run (m6: 7 bytes, m7: 16 bytes); a MAC is a MAC to the model
  | ["new", r, secs, h] => if h == "h1" || h == "h5" then newRun r secs else (st, { modelObs := "badop" })
  | _ =>
    match st.model with
    | none => (st, { modelObs := "badop" })
    | some m =>
      let order := orderFrom m impl
      let implHead := (splitTokens impl).headD ""
      -- the circuit-id of a DISCOVER matters only when the index holds a stale entry (after a raced establishment)
      let discCid : Option Nat := match toks with
        | ["disc", _, c] => (parseCid c).getD none
        | _ => none
      -- fill in the map-iteration order; decide reply prefix, model state, and the operation as the monitor sees it
      let res : Option (State × String × OpX) :=
        match parseEstGap toks with
        | some (k, a, c, inner) =>
          let inner := withOrder order inner
          let (m', r, ran) := estGap m k a c inner
          some (m', s!"estgap {showReply r} {if ran then termReply inner else "notrun"}", .estGap k a c inner)
        | none =>
        match parseWfault toks with
        | some (w, on) => some ((stepX m (.wfault w on)).1, "ok", .wfault w on)
        | none =>
        match parseOp toks with
        | none => none
        | some op =>
        match op with
        | .disc k => let (m', r) := stepX m (.disc k discCid); some (m', showReply r, .disc k discCid)
        | .req k a c => let (m', r) := stepX m (.op (.req k a c)); some (m', showReply r, .op (.req k a c))
        | .tick n => some ((DhcpTerm.step m (.tick n)).1, "ok", .op (.tick n))
        | .fault w on => some ((DhcpTerm.step m (.fault w on)).1, "ok", .op (.fault w on))
        | .term t =>
          let t := withOrder order t
          some (t.run m, termReply t, .op (.term t))
        | .gap _ inner =>
          let inner := withOrder order inner
          let (m', ran) := gap m order inner
          some (m', if ran then "gap " ++ termReply inner else "gap notrun", .op (.gap order inner))
        | .split a b =>
          if splitRefused m a b then none else
          let b := withOrder order b
          let stalled := match a with
            | .rel k => (takeRelease m k).2.isSome
            | .dec k ip => (takeDecline m k ip).2.isSome
            | .cleanup _ => false
          some (split m a b, s!"split {if stalled then "stalled" else "ran"} {termReply a} {termReply b}", .op (.split a b))
        | .shutdown =>
          -- `nobind`: the harness could not open the server socket, the shutdown branch was not reached
          some (m, if implHead == "nobind" then "nobind" else "down", .op .shutdown)
      match res with
      | none => (st, { modelObs := "badop" })
      | some (m', reply, mop) =>
        let m' := fixStale m'
        -- the judgment: Bng.DhcpTerm.monitorCore on the IMPLEMENTATION's observation.  `ran` is read off the
        -- implementation's reply (gap notrun / estgap … notrun / nobind)
        let implRan := !(((splitTokens impl).take 3).contains "notrun") && implHead != "nobind"
        let (mon', vs) := monitorCore st.mon mop { snap := parseSnap impl, ran := implRan }
        -- the string layer is outside the refinement theorem (Spec.C16DhcpMon): cross-check it on the model's own line
        let shown := showSnapshot m'
        let rt := if parseSnap shown == obsOf m' then [] else
          [("obs-roundtrip", "none", s!"parseSnap (showSnapshot ·) ≠ obsOf · on the model's own observation {shown}")]
        ({ model := some m', mon := mon' }, { modelObs := reply ++ " " ++ shown, viols := vs ++ rt })

def component : Component := { σ := St, init := {}, step := step }

end Bng.Drv.DhcpTermDrv
