import Bng.Drv.Common
import Bng.Model.PppAuth
/-
  bngdrv component `pppauth`: replays traces of the real pppoe.Authenticator (pkg/pppoe/auth.go) and runs
  the C04 authentication monitor on the implementation's observations.

    new pap|chap|other radius|noradius                                  => ok
    start | reauth | age <seconds> | setid <n>
    pap  <id> u<k> good|bad|empty       accept|reject|down|challenge|verify
    chap <id> u<k> match|nomatch|short  accept|reject|down|challenge|verify
         => ret=ok|err sent=<packets|-> state=<None|Pending|Success|Failure> user=<u<k>|-> cb=<PAP+|PAP-|CHAP+|CHAP-|-> rad=<requests|->
-/
namespace Bng.Drv.PppAuthDrv
open Bng Bng.Drv Bng.PppAuth

def stateName : AState → String
  | .none_ => "None" | .pending => "Pending" | .success => "Success" | .failure => "Failure"

def parseState : String → Option AState
  | "None" => some .none_ | "Pending" => some .pending | "Success" => some .success | "Failure" => some .failure
  | _ => none

def msgName : Msg → String
  | .ok => "ok" | .rl => "rl" | .err => "err" | .rej => "rej" | .emptypw => "emptypw"

def parseMsg : String → Option Msg
  | "ok" => some .ok | "rl" => some .rl | "err" => some .err | "rej" => some .rej | "emptypw" => some .emptypw
  | _ => none

def showPkt : Pkt → String
  | .ack i m => s!"ACK:{i}:{msgName m}"
  | .nak i m => s!"NAK:{i}:{msgName m}"
  | .chal i => s!"CHAL:{i}:16:fresh"
  | .succ i m => s!"SUCC:{i}:{msgName m}"
  | .fail i m => s!"FAIL:{i}:{msgName m}"

def showReq (q : Req) : String :=
  match q.cred with
  | .pap _ => s!"u{q.user}/pap:p"
  | .chap id _ => s!"u{q.user}/chap:{id}:r:c"

def showCb : Option (Method × Bool) → String
  | none => "-"
  | some (.pap, b) => if b then "PAP+" else "PAP-"
  | some (.chap, b) => if b then "CHAP+" else "CHAP-"

def showObs (a : Auth) (o : Obs) : String :=
  let j := fun (l : List String) => if l.isEmpty then "-" else ",".intercalate l
  let user := match a.user with | some u => s!"u{u}" | none => "-"
  let rad := match o.rad with | some q => showReq q | none => "-"
  s!"ret={if o.err then "err" else "ok"} sent={j (o.sent.map showPkt)} state={stateName a.state} user={user} cb={showCb o.cb} rad={rad}"

def parseRadius : String → Option Radius
  | "accept" => some .accept | "reject" => some .reject | "down" => some .down | "verify" => some .verify
  | "challenge" => some .challenge
  | _ => none

def parseOp (toks : List String) : Option Op :=
  match toks with
  | ["start"] => some .start
  | ["reauth"] => some .reauth
  | ["age", n] => n.toNat?.map .age
  | ["setid", n] => do let n ← n.toNat?; if n < 256 then pure (.setid n) else none
  | ["pap", id, u, pw, r] => do
      let id ← id.toNat?; let u ← parseTagged 'u' u; let r ← parseRadius r
      let pw ← match pw with | "good" => some Pw.good | "bad" => some .bad | "empty" => some .empty | _ => none
      if id < 256 then pure (.pap id u pw r) else none
  | ["chap", id, u, rs, r] => do
      let id ← id.toNat?; let u ← parseTagged 'u' u; let r ← parseRadius r
      let rs ← match rs with | "match" => some Resp.matching | "nomatch" => some .nomatch | "short" => some .short | _ => none
      if id < 256 then pure (.chap id u rs r) else none
  | _ => none

/-! ### reading the implementation's observation (for the monitor) -/

def field (impl key : String) : String :=
  match (splitTokens impl).find? (fun t => t.startsWith (key ++ "=")) with
  | some t => (t.drop (key.length + 1)).toString
  | none => ""

def items (s : String) : List String :=
  if s == "-" || s.isEmpty then [] else s.splitOn ","

def parsePkt (s : String) : Option Pkt :=
  match s.splitOn ":" with
  | ["ACK", i, m] => do pure (.ack (← i.toNat?) ((parseMsg m).getD .ok))
  | ["NAK", i, m] => do pure (.nak (← i.toNat?) ((parseMsg m).getD .rej))
  | "CHAL" :: i :: _ => do pure (.chal (← i.toNat?))
  | ["SUCC", i, m] => do pure (.succ (← i.toNat?) ((parseMsg m).getD .ok))
  | ["FAIL", i, m] => do pure (.fail (← i.toNat?) ((parseMsg m).getD .rej))
  | _ => none

/-- `u1/pap:p` → (1, 1, 0); `u1/chap:3:r:c` → (1, 3, 3); `u1/none` → (1, 0, 0); anything else → kind 2/4/5 -/
def parseRad (s : String) : Nat × Nat × Nat :=
  match s.splitOn "/" with
  | [u, c] =>
    let user := (parseTagged 'u' u).getD 0
    match c.splitOn ":" with
    | ["none"] => (user, 0, 0)
    | ["pap", "p"] => (user, 1, 0)
    | ["pap", _] => (user, 2, 0)
    | ["chap", id, "r", "c"] => match id.toNat? with | some i => (user, 3, i) | none => (user, 4, 0)
    | "chap" :: _ => (user, 4, 0)
    | _ => (user, 5, 0)
  | _ => (0, 5, 0)

def parseCb (s : String) : Option (Method × Bool) :=
  match (items s).getLast? with
  | some "PAP+" => some (.pap, true) | some "PAP-" => some (.pap, false)
  | some "CHAP+" => some (.chap, true) | some "CHAP-" => some (.chap, false)
  | _ => none

def parseSeen (impl : String) (dflt : AState) : Seen :=
  { sent := (items (field impl "sent")).filterMap parsePkt,
    state := (parseState (field impl "state")).getD dflt,
    -- ANY success callback counts
    cb := if (items (field impl "cb")).any (fun c => c.endsWith "+") then
            (match parseCb (field impl "cb") with | some (m, _) => some (m, true) | none => some (.pap, true))
          else parseCb (field impl "cb"),
    rad := (items (field impl "rad")).map parseRad }

structure St where
  model : Option Auth := none
  mon : Option Mon := none
  prev : AState := .none_

def step (st : St) (toks : List String) (impl : String) : St × LineResult :=
  match toks with
  | ["new", p, r] =>
    let proto := match p with | "pap" => some Proto.pap | "chap" => some .chap | "other" => some .other | _ => none
    let rad := match r with | "radius" => some true | "noradius" => some false | _ => none
    match st.model, proto, rad with
    | none, some p, some r =>
      ({ model := some (init p r), mon := some { proto := p, radius := r }, prev := .none_ }, { modelObs := "ok" })
    | _, _, _ => (st, { modelObs := "badop" })
  | _ =>
    match st.model, st.mon, parseOp toks with
    | some a, some mn, some o =>
      let (a', obs) := PppAuth.step a o
      let seen := parseSeen impl st.prev
      let (mn', vs) := monitorStep mn st.prev o seen
      ({ model := some a', mon := some mn', prev := seen.state },
       { modelObs := showObs a' obs, viols := vs.map fun (m, d) => (m, "none", d) })
    | _, _, _ => (st, { modelObs := "badop" })

def component : Component := { σ := St, init := {}, step := step }

end Bng.Drv.PppAuthDrv
