import Bng.Drv.Common
import Bng.Drv.Dist
import Bng.Model.PoolSpec
/-
  bngdrv component `poolalloc`: replays traces of the real allocator.PoolAllocator over the fault-injecting
  MemoryAllocationStore (harness/cmd/poolalloc) on the model Bng.Dist.Pool; the pool monitor (C01/C05) judges
  the allocation answers, the C12 monitor the store/memory audit.
-/
namespace Bng.Drv.PoolAllocDrv
open Bng Bng.Drv Bng.Dist

structure St where
  model : Option Pool.State := none
  nsubs : Nat := 0
  pmon : PoolSpec.Mon := []
  dmon : DistSpec.Mon := {}

def okOf (impl : String) : Bool := match splitTokens impl with
  | "ok" :: _ => true
  | _ => false

def step (st : St) (toks : List String) (impl : String) : St × LineResult :=
  match toks with
  | ["new", fam, base, ones, pl, ns] =>
    match fam.toNat?, parseHex base, ones.toNat?, pl.toNat?, ns.toNat? with
    | some fam, some base, some ones, some pl, some ns =>
      let c : Bitmap.Cfg := { famBits := fam, poolPrefix := ones, plen := pl, base := base }
      if c.valid then ({ model := some (Pool.init c), nsubs := ns }, { modelObs := "ok" })
      else ({}, { modelObs := "invalid" })
    | _, _, _, _, _ => (st, { modelObs := "badop" })
  | _ =>
    match st.model with
    | none => (st, { modelObs := "badop" })
    | some m =>
      let c := m.s.a.cfg
      let g := Bitmap.geoOf c
      let pool := fun (m' : Pool.State) (obs : String) (ev : PoolSpec.Ev) (dev : DistSpec.Ev) =>
        let (pm, pv) := PoolSpec.check g st.pmon ev
        let (dm, dv) := DistSpec.check st.dmon dev
        ({ st with model := some m', pmon := pm, dmon := dm },
         ({ modelObs := obs,
            viols := pv.map (fun (n, d) => (n, "none", d)) ++ dv.map (fun (n, d, _) => (n, "none", d)) } : LineResult))
      match toks with
      | ["alloc", k, f] => match parseTagged 's' k, DistDrv.bit f 0 with
        | some k, some f =>
          let (m', o) := Pool.alloc m k f
          let ev : PoolSpec.Ev := match splitTokens impl with
            | ["ok", a] => match parseAddrLen a with
              | some (x, _) => .got k x
              | none => .nop
            | ["exhausted"] => .exhausted
            | _ => .nop
          pool m' (DistDrv.showObs o) ev (DistDrv.changed k impl (some 0))
        | _, _ => (st, { modelObs := "badop" })
      | ["release", k, f] => match parseTagged 's' k, DistDrv.bit f 0 with
        | some k, some f =>
          let (m', o) := Pool.release m k f
          let ev : PoolSpec.Ev := match splitTokens impl with
            | ["ok"] => .released k
            | ["notfound"] => .notHeld k
            | _ => .nop
          pool m' (DistDrv.showObs o) ev (DistDrv.changed k impl none)
        | _, _ => (st, { modelObs := "badop" })
      | ["lookup", k] => match parseTagged 's' k with
        | some k =>
          let obs := match Session.get m.s k with
            | .okAddr a l => DistDrv.showPfx a l
            | _ => "none"
          let ev : PoolSpec.Ev := if impl == "none" then .looked k none else
            match parseAddrLen impl with
            | some (x, _) => .looked k (some x)
            | none => .nop
          pool m obs ev .nop
        | none => (st, { modelObs := "badop" })
      | ["stats"] =>
        let ev : PoolSpec.Ev := match splitTokens impl with
          | [a, t] => match a.toNat?, t.toNat? with
            | some a, some t => .stats a t
            | _, _ => .nop
          | _ => .nop
        pool m (DistDrv.showObs (Session.stats m.s)) ev .nop
      | ["util"] =>
        let obs := match Session.stats m.s with
          | .stats a t => s!"{if a = 0 ∨ t = 0 then "zero" else "percent"} {a} {t}"
          | _ => "badop"
        (st, { modelObs := obs })
      | ["foreign", a] => match parseAddrLen a with
        | some (x, _) => let (m', o) := Pool.foreign m x; pool m' (DistDrv.showObs o) .nop .nop
        | none => (st, { modelObs := "badop" })
      | ["unforeign", a] => match parseAddrLen a with
        | some (x, _) => pool (Pool.unforeign m x) "ok" .nop .nop
        | none => (st, { modelObs := "badop" })
      | ["rtstore"] => pool m "ok" .nop .nop
      | ["stress", _] =>
        -- concurrent callers on a fresh PoolAllocator, audited by the harness: the clause it names is the verdict
        let vs := match splitTokens impl with
          | "viol" :: mon :: rest => [(mon, "none", " ".intercalate rest)]
          | _ => []
        (st, { modelObs := "ok", viols := vs })
      | ["audit"] =>
        let units := (List.range (min c.totalBig 64)).map fun i => (Bitmap.prefixOf c i, c.plen)
        -- the reverse rows are the STORE's by-IP index (records of this pool only)
        let owner := fun (a l : Nat) => match m.s.store.find? (fun p => p.2.addr == a && p.2.plen == l) with
          | some p => Dist.Obs.sub p.1
          | none => Dist.Obs.none
        let line := DistDrv.auditLine st.nsubs m.s.store (Session.get m.s) units owner ++ s!";{m.s.store.length}"
        -- the implementation's line: forward rows ; reverse rows ; GetPoolUtilization's allocated
        let (dev, cnt) : DistSpec.Ev × List (String × String × String) := match impl.splitOn ";" with
          | [fw, rv, n] =>
            match DistDrv.parseAudit (fw ++ ";" ++ rv), n.toNat? with
            | some (rows, rev), some n =>
              let have_ := (rows.filter fun r => r.2.1.isSome).length
              -- the by-IP index is judged against the STORE rows (it is a store index)
              let rowsS : List DistSpec.Row := rows.map fun r => (r.1, r.2.1, r.2.1.map fun (a, l, _) => (a, l))
              (.audit rows [], (DistSpec.reverseCheck rowsS rev).map (fun (v, d, _) => (v, "none", d)) ++
                (if n = have_ then [] else [("count", "none", s!"GetPoolUtilization reports {n} allocations, the pool has {have_} records")]))
            | _, _ => (.nop, [])
          | _ => (.nop, [])
        let (dm, dv) := DistSpec.check st.dmon dev
        ({ st with dmon := dm },
         { modelObs := line, viols := dv.map (fun (n, d, _) => (n, "none", d)) ++ cnt })
      | _ => (st, { modelObs := "badop" })

def component : Component := { σ := St, init := {}, step := step }

end Bng.Drv.PoolAllocDrv
