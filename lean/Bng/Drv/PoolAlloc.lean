import Bng.Drv.Common
import Bng.Drv.Dist
import Bng.Model.PoolSpec
/-
  bngdrv component `poolalloc`: replays traces of the real allocator.PoolAllocator over the fault-injecting
  MemoryAllocationStore (harness/cmd/poolalloc) on the model Bng.Dist.Pool; the pool monitor (C01/C05) judges
  the allocation answers, the C12 monitor the store/memory audit.  A second PoolAllocator `q` of the same
  geometry shares the store (ops qalloc / qrelease / qlookup / qaudit, judged by monitors of its own); `xaudit`
  is the by-IP index against the holders of BOTH pools; `scribble` (the harness writes through every pointer it
  holds) is no operation of the model.
-/
namespace Bng.Drv.PoolAllocDrv
open Bng Bng.Drv Bng.Dist

structure St where
  model : Option Pool.State := none
  nsubs : Nat := 0
  pmon : PoolSpec.Mon := []
  dmon : DistSpec.Mon := {}
  pmonQ : PoolSpec.Mon := []
  dmonQ : DistSpec.Mon := {}

def okOf (impl : String) : Bool := match splitTokens impl with
  | "ok" :: _ => true
  | _ => false


/-- subscribers 1..n of a pool that hold (a, l) -/
def holdersOf (n : Nat) (s : Session.State) (a l : Nat) : List Nat :=
  ((List.range n).map (· + 1)).filter fun k => match Session.get s k with
    | .okAddr a' l' => a' == a && l' == l
    | _ => false

def showHolders (hs : List Nat) : String :=
  if hs.isEmpty then "-" else "+".intercalate (hs.map fun k => s!"s{k}")

/-- the model's xaudit line: per unit, holders in p | holders in q | who the by-IP index names -/
def xauditLine (n : Nat) (m : Pool.State) (units : List (Nat × Nat)) : String :=
  ",".intercalate (units.map fun (a, l) =>
    let o := match Pool.byIP m a with
      | some (0, k) => s!"p/s{k}"
      | some (1, k) => s!"q/s{k}"
      | some (_, x) => s!"o/{DistDrv.showPfx x l}"
      | none => "-"
    s!"{DistDrv.showPfx a l}={showHolders (holdersOf n m.s a l)}|{showHolders (holdersOf n m.q a l)}|{o}")

/-- the xaudit clauses, on the implementation's line: one address has at most one holder over both pools
    (`unique`), and the by-IP index names exactly that holder — nobody when nobody of p or q holds it, except the
    third pool (`reverse`) -/
def xauditCheck (impl : String) : List (String × String × String) :=
  (impl.splitOn ",").flatMap fun item =>
    match item.splitOn "=" with
    | [pfx, rest] =>
      match rest.splitOn "|" with
      | [hp, hq, o] =>
        let multi := fun (h : String) => (h.splitOn "+").length > 1
        let uniq : List (String × String × String) :=
          (if multi hp then [("unique", "none", s!"{pfx} is held by {hp} in pool p")] else []) ++
          (if multi hq then [("unique", "none", s!"{pfx} is held by {hq} in pool q")] else []) ++
          (if hp != "-" && hq != "-" then
            [("unique", "none", s!"{pfx} is held by {hp} in pool p and by {hq} in pool q over one store")] else [])
        let want : Option String :=
          if hp != "-" && hq == "-" && !multi hp then some s!"p/{hp}"
          else if hq != "-" && hp == "-" && !multi hq then some s!"q/{hq}"
          else none
        let rev : List (String × String × String) := match want with
          | some w => if o == w then [] else
              [("reverse", "none", s!"{pfx} is held by {w} but the store's by-IP index names {o}")]
          | none =>
            if hp == "-" && hq == "-" && (o.startsWith "p/" || o.startsWith "q/" || o.startsWith "?/") then
              [("reverse", "none", s!"nobody holds {pfx} but the store's by-IP index still names {o}")]
            else []
        uniq ++ rev
      | _ => [("reverse", "none", s!"unreadable xaudit row {item}")]
    | _ => [("reverse", "none", s!"unreadable xaudit row {item}")]

def step (st : St) (toks : List String) (impl : String) : St × LineResult :=
  match toks with
  | ["new", fam, base, ones, pl, ns] =>
    match fam.toNat?, parseHex base, ones.toNat?, pl.toNat?, ns.toNat? with
    | some fam, some base, some ones, some pl, some ns =>
      let c : Bitmap.Cfg := { famBits := fam, poolPrefix := ones, plen := pl, base := base }
      if c.valid then ({ model := some (Pool.init c), nsubs := ns }, { modelObs := "ok" })
      else ({}, { modelObs := "invalid" })
    | _, _, _, _, _ => (st, { modelObs := "badop" })
  | _ =>
    match st.model with
    | none => (st, { modelObs := "badop" })
    | some m =>
      let c := m.s.a.cfg
      let g := Bitmap.geoOf c
      let pool := fun (m' : Pool.State) (obs : String) (ev : PoolSpec.Ev) (dev : DistSpec.Ev) =>
        let (pm, pv) := PoolSpec.check g st.pmon ev
        let (dm, dv) := DistSpec.check st.dmon dev
        ({ st with model := some m', pmon := pm, dmon := dm },
         ({ modelObs := obs,
            viols := pv.map (fun (n, d) => (n, "none", d)) ++ dv.map (fun (n, d, _) => (n, "none", d)) } : LineResult))
      let poolQ := fun (m' : Pool.State) (obs : String) (ev : PoolSpec.Ev) (dev : DistSpec.Ev) =>
        let (pm, pv) := PoolSpec.check g st.pmonQ ev
        let (dm, dv) := DistSpec.check st.dmonQ dev
        ({ st with model := some m', pmonQ := pm, dmonQ := dm },
         ({ modelObs := obs,
            viols := pv.map (fun (n, d) => (n, "none", d)) ++ dv.map (fun (n, d, _) => (n, "none", d)) } : LineResult))
      -- the audit of one pool: forward rows ; reverse rows (the STORE's by-IP index, records of this pool only) ;
      -- GetPoolUtilization's allocated
      let audit := fun (ps : Session.State) (dmon : DistSpec.Mon) =>
        let units := (List.range (min c.totalBig 64)).map fun i => (Bitmap.prefixOf c i, c.plen)
        let owner := fun (a l : Nat) => match ps.store.find? (fun p => p.2.addr == a && p.2.plen == l) with
          | some p => Dist.Obs.sub p.1
          | none => Dist.Obs.none
        let line := DistDrv.auditLine st.nsubs ps.store (Session.get ps) units owner ++ s!";{ps.store.length}"
        let (dev, cnt) : DistSpec.Ev × List (String × String × String) := match impl.splitOn ";" with
          | [fw, rv, n] =>
            match DistDrv.parseAudit (fw ++ ";" ++ rv), n.toNat? with
            | some (rows, rev), some n =>
              let have_ := (rows.filter fun r => r.2.1.isSome).length
              -- the by-IP index is judged against the STORE rows (it is a store index)
              let rowsS : List DistSpec.Row := rows.map fun r => (r.1, r.2.1, r.2.1.map fun (a, l, _) => (a, l))
              (.audit rows [], (DistSpec.reverseCheck rowsS rev).map (fun (v, d, _) => (v, "none", d)) ++
                (if n = have_ then [] else [("count", "none", s!"GetPoolUtilization reports {n} allocations, the pool has {have_} records")]))
            | _, _ => (.nop, [])
          | _ => (.nop, [])
        let (dm, dv) := DistSpec.check dmon dev
        (line, dm, dv.map (fun (n, d, _) => (n, "none", d)) ++ cnt)
      match toks with
      | ["alloc", k, f] => match parseTagged 's' k, DistDrv.bit f 0 with
        | some k, some f =>
          let (m', o) := Pool.alloc m k f
          let ev : PoolSpec.Ev := match splitTokens impl with
            | ["ok", a] => match parseAddrLen a with
              | some (x, _) => .got k x
              | none => .nop
            | ["exhausted"] => .exhausted
            | _ => .nop
          pool m' (DistDrv.showObs o) ev (DistDrv.changed k impl (some 0))
        | _, _ => (st, { modelObs := "badop" })
      | ["release", k, f] => match parseTagged 's' k, DistDrv.bit f 0 with
        | some k, some f =>
          let (m', o) := Pool.release m k f
          let ev : PoolSpec.Ev := match splitTokens impl with
            | ["ok"] => .released k
            | ["notfound"] => .notHeld k
            | _ => .nop
          pool m' (DistDrv.showObs o) ev (DistDrv.changed k impl none)
        | _, _ => (st, { modelObs := "badop" })
      | ["lookup", k] => match parseTagged 's' k with
        | some k =>
          let obs := match Session.get m.s k with
            | .okAddr a l => DistDrv.showPfx a l
            | _ => "none"
          let ev : PoolSpec.Ev := if impl == "none" then .looked k none else
            match parseAddrLen impl with
            | some (x, _) => .looked k (some x)
            | none => .nop
          pool m obs ev .nop
        | none => (st, { modelObs := "badop" })
      | ["stats"] =>
        let ev : PoolSpec.Ev := match splitTokens impl with
          | [a, t] => match a.toNat?, t.toNat? with
            | some a, some t => .stats a t
            | _, _ => .nop
          | _ => .nop
        pool m (DistDrv.showObs (Session.stats m.s)) ev .nop
      | ["util"] =>
        let obs := match Session.stats m.s with
          | .stats a t => s!"{if a = 0 ∨ t = 0 then "zero" else "percent"} {a} {t}"
          | _ => "badop"
        (st, { modelObs := obs })
      | ["foreign", a] => match parseAddrLen a with
        | some (x, _) => let (m', o) := Pool.foreign m x; pool m' (DistDrv.showObs o) .nop .nop
        | none => (st, { modelObs := "badop" })
      | ["unforeign", a] => match parseAddrLen a with
        | some (x, _) => pool (Pool.unforeign m x) "ok" .nop .nop
        | none => (st, { modelObs := "badop" })
      | ["rtstore"] => pool m "ok" .nop .nop
      | ["stress", _] =>
        -- concurrent callers on a fresh PoolAllocator, audited by the harness: the clause it names is the verdict
        let vs := match splitTokens impl with
          | "viol" :: mon :: rest => [(mon, "none", " ".intercalate rest)]
          | _ => []
        (st, { modelObs := "ok", viols := vs })
      | ["qalloc", k, f] => match parseTagged 's' k, DistDrv.bit f 0 with
        | some k, some f =>
          let (m', o) := Pool.qalloc m k f
          let ev : PoolSpec.Ev := match splitTokens impl with
            | ["ok", a] => match parseAddrLen a with
              | some (x, _) => .got k x
              | none => .nop
            | ["exhausted"] => .exhausted
            | _ => .nop
          poolQ m' (DistDrv.showObs o) ev (DistDrv.changed k impl (some 0))
        | _, _ => (st, { modelObs := "badop" })
      | ["qrelease", k, f] => match parseTagged 's' k, DistDrv.bit f 0 with
        | some k, some f =>
          let (m', o) := Pool.qrelease m k f
          let ev : PoolSpec.Ev := match splitTokens impl with
            | ["ok"] => .released k
            | ["notfound"] => .notHeld k
            | _ => .nop
          poolQ m' (DistDrv.showObs o) ev (DistDrv.changed k impl none)
        | _, _ => (st, { modelObs := "badop" })
      | ["qlookup", k] => match parseTagged 's' k with
        | some k =>
          let obs := match Session.get m.q k with
            | .okAddr a l => DistDrv.showPfx a l
            | _ => "none"
          let ev : PoolSpec.Ev := if impl == "none" then .looked k none else
            match parseAddrLen impl with
            | some (x, _) => .looked k (some x)
            | none => .nop
          poolQ m obs ev .nop
        | none => (st, { modelObs := "badop" })
      | ["scribble"] => (st, { modelObs := "ok" })
      | ["xaudit"] =>
        let units := (List.range (min c.totalBig 64)).map fun i => (Bitmap.prefixOf c i, c.plen)
        (st, { modelObs := xauditLine st.nsubs m units, viols := xauditCheck impl })
      | ["audit"] =>
        let (line, dm, vs) := audit m.s st.dmon
        ({ st with dmon := dm }, { modelObs := line, viols := vs })
      | ["qaudit"] =>
        let (line, dm, vs) := audit m.q st.dmonQ
        ({ st with dmonQ := dm }, { modelObs := line, viols := vs })
      | _ => (st, { modelObs := "badop" })

def component : Component := { σ := St, init := {}, step := step }

end Bng.Drv.PoolAllocDrv
