import Bng.Drv.Common
import Bng.Drv.Dhcp6
import Bng.Model.Dhcp6Int
/-
  bngdrv component `dhcp6int`: replays traces of the real DHCPv6 server in integrated-allocator mode (real
  allocator.PoolAllocator objects over a fault-injecting store; harness/cmd/dhcp6, `gen -only int`) on the model
  Bng.Dhcp6Int and runs the monitor Bng.Dhcp6Int.Mon (leak, double-binding, foreign-ack, range) on the
  implementation's replies and snapshots.

    newint <addrPool>/<len>|- <prefixPool>/<len>|- <delegationLen> <validSeconds>
    fault rela|relp|save on|off
    sol / req / ren / reb / con / rel / dec / tick      as component dhcp6

  Observation: <reply> L=… AL=d1:<addr>,… PL=d1:<prefix>,… AS=<allocated>/<total>|- PS=… SR=<records v6a>/<records v6p>
-/
namespace Bng.Drv.Dhcp6IntDrv
open Bng Bng.Drv Bng.Dhcp6Int
open Bng.Drv.Dhcp6Drv (Line parseLine joinOr showOpt sortByKey implItems dedup)

/-- clients whose allocator entries the snapshot lists (harness: intClients) -/
def clients : List Nat := (List.range 12).map (· + 1)

structure St where
  model : Option State := none
  geo   : Mon.Geo := {}
  dlen  : Nat := 0

def showStats (has : Bool) (p : PA) : String :=
  if !has then "-" else
  match Dist.Session.stats p with
  | .stats a t => s!"{a}/{t}"
  | _ => "-"

def showSnapshot (s : State) : String :=
  let ls := (sortByKey (fun (p : Nat × Dhcp6.Lease) => p.1) s.leases).map fun (d, l) =>
    let ve := match l.validEnd with
      | some t => toString t
      | none => "-"
    s!"d{d}:{showOpt l.addr}:{showOpt l.pfx}:{l.iaid}:{ve}"
  let held := fun (has : Bool) (p : PA) => clients.filterMap fun d =>
    if has then (heldBy p d).map fun v => s!"d{d}:{toHex v}" else none
  s!"L={joinOr ls} AL={joinOr (held s.cfg.hasAddr s.aa)} PL={joinOr (held s.cfg.hasPfx s.pa)} " ++
  s!"AS={showStats s.cfg.hasAddr s.aa} PS={showStats s.cfg.hasPfx s.pa} SR={s.aa.store.length}/{s.pa.store.length}"

def field (impl key : String) : String :=
  match (splitTokens impl).find? (fun t => t.startsWith key) with
  | some t => (t.drop key.length).toString
  | none => "-"

/-- `d1:<hex>,d2:<hex>` -/
def parseHeld (s : String) : List (Nat × Nat) :=
  if s == "-" then [] else
  (s.splitOn ",").filterMap fun item => match item.splitOn ":" with
    | [d, v] => do let d ← parseTagged 'd' d; let v ← parseHex v; pure (d, v)
    | _ => none

/-- `d1:<addr|->:<prefix|->:<iaid>:<validEnd>` -/
def parseLeases (s : String) : List (Nat × Option Nat × Option Nat) :=
  if s == "-" then [] else
  (s.splitOn ",").filterMap fun item => match item.splitOn ":" with
    | [d, a, p, _, _] => do let d ← parseTagged 'd' d; pure (d, parseHex a, parseHex p)
    | _ => none

def snapOf (impl : String) : Mon.Snap :=
  { leases := parseLeases (field impl "L="), aheld := parseHeld (field impl "AL="), pheld := parseHeld (field impl "PL=") }

def statusOf (impl : String) : Option Nat := (field impl "st=").toNat?

def eventOf (line : Line) (impl : String) : Mon.Ev :=
  let toks := splitTokens impl
  let addrs := dedup ((implItems impl "na=").filterMap id)
  let pfxs := dedup ((implItems impl "pd=").filterMap id)
  match line, toks with
  | .op (.release d), "rep" :: _ => (match statusOf impl with | some st => .released d st | none => .other)
  | .dec d _, "rep" :: _ => (match statusOf impl with | some st => .released d st | none => .other)
  | .op (.solicit d _ _ _), "adv" :: _ => .served d false addrs pfxs
  | .op (.solicit d _ _ _), "rep" :: _ => .served d true addrs pfxs
  | .op (.request d _ _ _), "rep" :: _ => .served d true addrs pfxs
  | .op (.renew d _ _), "rep" :: _ => .served d true addrs pfxs
  | .op (.rebind d _ _), "rep" :: _ => .served d true addrs pfxs
  | _, _ => .other

def parseFault (f on : String) : Option Op := do
  let f ← (if f == "rela" then some Fault.relA else if f == "relp" then some .relP else if f == "save" then some .save else none)
  let on ← (if on == "on" then some true else if on == "off" then some false else none)
  pure (.fault f on)

def step (st : St) (toks : List String) (impl : String) : St × LineResult :=
  match toks with
  | ["newint", ap, pp, dl, valid] =>
    let pool := fun (s : String) => if s == "-" then some none else (parseAddrLen s).map some
    match pool ap, pool pp, dl.toNat?, valid.toNat? with
    | some ap, some pp, some dl, some valid =>
      let (abase, aplen) := ap.getD (0, 128)
      let (pbase, pplen) := pp.getD (0, 128)
      let acfg : Bitmap.Cfg := { famBits := 128, poolPrefix := aplen, plen := 128, base := abase }
      let pcfg : Bitmap.Cfg := { famBits := 128, poolPrefix := pplen, plen := if pp.isSome then dl else 128, base := pbase }
      let okA := ap.isNone || (acfg.valid && abase % 2 ^ (128 - aplen) == 0)
      let okP := pp.isNone || (pcfg.valid && pbase % 2 ^ (128 - pplen) == 0)
      if okA && okP && 0 < dl && dl ≤ 128 && 0 < valid then
        let c : Cfg := { hasAddr := ap.isSome, acfg := acfg, hasPfx := pp.isSome, pcfg := pcfg, valid := valid }
        let s := Dhcp6Int.init c
        ({ model := some s, dlen := dl,
           geo := { alo := abase, acount := if ap.isSome then acfg.totalBig else 0,
                    plo := pbase, pstep := pcfg.step, pcount := if pp.isSome then pcfg.totalBig else 0 } },
         { modelObs := "ok " ++ showSnapshot s })
      else ({}, { modelObs := "invalid" })
    | _, _, _, _ => ({}, { modelObs := "badop" })
  | ["fault", f, on] =>
    (match st.model, parseFault f on with
      | some s, some op =>
        let s' := (Dhcp6Int.step s op).1
        ({ st with model := some s' }, { modelObs := "ok " ++ showSnapshot s' })
      | _, _ => (st, { modelObs := "badop" }))
  | _ =>
    match st.model, parseLine toks with
    | some s, some line =>
      let dummy : Dhcp6.Cfg := { hasAddr := false, abase := 0, aplen := 128, hasPfx := false, pbase := 0, pplen := 0,
                                 dlen := st.dlen, valid := 0 }
      let (s', reply) : State × String :=
        match line with
        | .op o => let (s', r) := Dhcp6Int.step s (.msg o); (s', Dhcp6Drv.showReply dummy r)
        | .dec d _ => let (s', r) := Dhcp6Int.step s (.msg (.decline d)); (s', Dhcp6Drv.showReply dummy r)
        | .tick n => ((Dhcp6Int.step s (.msg (.advance (60 * n)))).1, "ok")
      let vs := Mon.check st.geo (eventOf line impl) (snapOf impl)
      -- a `leak` verdict belongs to the recorded finding D8 (an Advertise allocates without creating a lease, RELEASE
      -- only releases what a lease records) exactly when the release handler had nothing recorded to release: BEFORE
      -- the message the model's lease of that client did not record the value.  A value the lease DID record and that
      -- is still allocated after a Success answer is a new violation (finding G7 before its fix).
      let clause := fun (v : Mon.Verdict) =>
        if v.name != "leak" then "none" else
        let recorded := match AMap.lookup s.leases v.client with
          | some l => if v.isAddr then l.addr == some v.value else l.pfx == some v.value
          | none => false
        if recorded then "none" else "D8"
      ({ st with model := some s' },
       { modelObs := reply ++ " " ++ showSnapshot s', viols := vs.map fun v => (v.name, clause v, v.detail) })
    | _, _ => (st, { modelObs := "badop" })

def component : Component := { σ := St, init := {}, step := step }

end Bng.Drv.Dhcp6IntDrv
