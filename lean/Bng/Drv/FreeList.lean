import Bng.Drv.Common
import Bng.Model.FreeList
/-
  bngdrv components `dhcppool`, `v6addr`, `v6prefix`, `pppoepool`, `localpool`: replay traces of the real
  free-list pools on the generic model `Bng.FreeList` and run the pool monitor (C01/C05) on the
  implementation's observations.

    dhcppool   new <nethex> <ones> <gwhex> <rs> <re>   => ok
               alloc m3            => ok <hex> | exhausted
               release <hex>       => ok                       (Release is by VALUE and returns nothing)
               mark <hex>          => ok                       (MarkUnavailable)
               reserve m3 <hex>    => true | false             (Reserve a specific address)
               stats               => <allocated> <available> <total> <unavailable>
               list                => m1=<hex>,m2=<hex>,… | -   (every holding, via the snapshot hook)
               contains <hex>      => true | false             (Pool.Contains; a function of the configuration)
               scribble <hex>      => ok                       (alias probe: the harness overwrites every slice the pool handed
                                                                out or was handed; no pool operation — dhcp.Pool returns copies and
                                                                keeps its own slices since fix 7ce824d)
    v6addr     new <basehex> <ones>                    => ok
               alloc d3 | release d3
               scribble d3         => as alloc; afterwards the harness overwrites the bytes it was handed (alias probe)
    v6prefix   new <basehex> <ones> <dl>               => ok | invalid
               alloc d3            => ok <hex>/<dl> | exhausted
               release d3
    pppoepool  new <nethex> <ones> <gwhex>             => ok
               alloc s3 | release s3
    localpool  new <nethex> <ones> <gwhex>             => ok
               alloc s3 | release s3
               get s3              => <hex> | none
               owner <hex>         => s3 | none                (reverse index, via verif hook)
               stats               => <allocated> <available> <total>
               burst s3 <k>        => ok <hex> | exhausted | mixed <answer>,<answer>,…
                                      (k concurrent Allocate calls of one subscriber; model: ONE allocate,
                                       see Bng.Spec.C01FreeList.burst_equals_single_allocate)
               audit               => ok | bad lost=<n> stale=<n> norev=<n> dup=<n>
                                      (allocations, free list and reverse index compared with each other)
-/
namespace Bng.Drv.FreeListDrv
open Bng Bng.Drv Bng.FreeList

inductive Kind where
  | dhcp | v6addr | v6prefix | pppoe | localp
  deriving DecidableEq, Repr

def Kind.tag : Kind → Char
  | .dhcp => 'm'
  | .v6addr => 'd'
  | .v6prefix => 'd'
  | .pppoe => 's'
  | .localp => 's'

structure St where
  model : Option FreeList.State := none
  mst : Spec.MSt := {}
  mgeo : Spec.MGeo := { g := { lo := 0, step := 1, units := 0, totalReported := 0 } }
  dl : Nat := 0
  /-- the configured network [netLo, netLo + netSpan) (IPv4 pools) -/
  netLo : Nat := 0
  netSpan : Nat := 0

def showAddr (kind : Kind) (dl a : Nat) : String :=
  match kind with
  | .v6prefix => s!"{toHex a}/{dl}"
  | _ => toHex a

def showObs (kind : Kind) (dl : Nat) : Obs → String
  | .okAddr a => s!"ok {showAddr kind dl a}"
  | .ok => "ok"
  | .exhausted => "exhausted"
  | .none => "none"
  | .sub k => s!"s{k}"
  | .bool b => if b then "true" else "false"
  | .list l => if l.isEmpty then "-" else
      ",".intercalate (l.map fun (k, a) => s!"{kind.tag}{k}={showAddr kind dl a}")
  | .stats al av tot un =>
    match kind with
    | .dhcp => s!"{al} {av} {tot} {un}"
    | _ => s!"{al} {av} {tot}"

def parseVal (kind : Kind) (s : String) : Option Nat :=
  match kind with
  | .v6prefix => (parseAddrLen s).map (·.1)
  | _ => parseHex s

def parseOp (kind : Kind) (toks : List String) : Option Op :=
  match kind, toks with
  | _, ["alloc", k] => (parseTagged kind.tag k).map .alloc
  -- alias probe of the DHCPv6 pools: an Allocate whose result the caller then overwrites; a caller owns what it is
  -- handed (the pools return copies), so for the pool this IS an Allocate
  | .v6addr, ["scribble", k] => (parseTagged 'd' k).map .alloc
  | .v6prefix, ["scribble", k] => (parseTagged 'd' k).map .alloc
  | .dhcp, ["release", a] => (parseHex a).map .releaseVal
  | .dhcp, ["mark", a] => (parseHex a).map .mark
  | .dhcp, ["stats"] => some .stats
  | .dhcp, ["list"] => some .list
  | .dhcp, ["reserve", k, a] => do let k ← parseTagged 'm' k; let a ← parseHex a; pure (.reserve k a)
  | .dhcp, _ => none
  | _, ["release", k] => (parseTagged kind.tag k).map .release
  | .localp, ["get", k] => (parseTagged 's' k).map .get
  | .localp, ["owner", a] => (parseHex a).map .owner
  | .localp, ["stats"] => some .stats
  | _, _ => none

def parseListing (kind : Kind) (s : String) : Option (List (Nat × Nat)) :=
  if s == "-" then some [] else
  (s.splitOn ",").mapM fun item =>
    match item.splitOn "=" with
    | [k, a] => do let k ← parseTagged kind.tag k; let a ← parseVal kind a; pure (k, a)
    | _ => none

/-- what the implementation's answer means for the abstract pool -/
def event (kind : Kind) (op : Op) (impl : String) : Spec.MEv :=
  match op, splitTokens impl with
  | .alloc k, ["ok", a] => match parseVal kind a with
      | some x => .pool (.got k x)
      | none => .pool .nop
  | .alloc _, ["exhausted"] => .pool .exhausted
  | .release k, ["ok"] => .pool (.released k)
  | .releaseVal a, ["ok"] => .pool (.releasedVal a)
  | .mark a, ["ok"] => .marked a
  -- a successful Reserve MOVES the key to the named address (its old one is given back): a forced
  -- assignment, judged for uniqueness and range but not for "same value as before"; a refusal claims nothing
  | .reserve k a, ["true"] => .pool (.forced k a)
  | .stats, [al, av, tot] => match al.toNat?, av.toNat?, tot.toNat? with
      | some al, some av, some tot => .statsFL al av tot none
      | _, _, _ => .pool .nop
  | .stats, [al, av, tot, un] => match al.toNat?, av.toNat?, tot.toNat?, un.toNat? with
      | some al, some av, some tot, some un => .statsFL al av tot (some un)
      | _, _, _, _ => .pool .nop
  | .list, [l] => match parseListing kind l with
      | some l => .pool (.listing l)
      | none => .pool .nop
  | .get k, ["none"] => .pool (.looked k none)
  | .get k, [a] => match parseHex a with
      | some x => .pool (.looked k (some x))
      | none => .pool .nop
  | .owner a, ["none"] => .pool (.owner a none)
  | .owner a, [k] => match parseTagged 's' k with
      | some k => .pool (.owner a (some k))
      | none => .pool .nop
  | _, _ => .pool .nop

def v4geo (_c : V4Cfg) (lo units : Nat) (holes : List Nat) : Spec.MGeo :=
  { g := { lo := lo, step := 1, units := units, totalReported := 0 }, holes := holes }

def construct (kind : Kind) (toks : List String) : Option (St × String) :=
  match kind, toks with
  | .dhcp, ["new", n, o, g, rs, re] => do
    let n ← parseHex n; let o ← o.toNat?; let g ← parseHex g; let rs ← rs.toNat?; let re ← re.toNat?
    let c : V4Cfg := { net := n, ones := o, gw := g, rs := rs, re := re }
    pure ({ model := some (init (dhcpCfg c)), netLo := n, netSpan := 2 ^ c.hostBits,
            mgeo := v4geo c (n + 1 + rs) (c.numHosts - rs - re) [g] }, "ok")
  | .localp, ["new", n, o, g] => do
    let n ← parseHex n; let o ← o.toNat?; let g ← parseHex g
    let c : V4Cfg := { net := n, ones := o, gw := g }
    pure ({ model := some (init (localCfg c)), mgeo := v4geo c (n + 1) c.numHosts [g] }, "ok")
  | .pppoe, ["new", n, o, g] => do
    let n ← parseHex n; let o ← o.toNat?; let g ← parseHex g
    let c : V4Cfg := { net := n, ones := o, gw := g }
    pure ({ model := some (init (pppoeCfg c)),
            mgeo := v4geo c (n + 1) (2 ^ c.hostBits - 1)
                      ([g, 4294967295] ++ (if c.hostBits ≥ 2 then [n + 2 ^ c.hostBits - 1] else [])) }, "ok")
  | .v6addr, ["new", b, o] => do
    let b ← parseHex b; let o ← o.toNat?
    let c : V6Cfg := { base := b, ones := o }
    let span := 2 ^ (128 - o) - 1
    pure ({ model := some (init (v6AddrCfg c)),
            mgeo := { g := { lo := b + 1, step := 1, units := if span > 1000 then 1000 else span,
                             totalReported := 0 } } }, "ok")
  | .v6prefix, ["new", b, o, d] => do
    let b ← parseHex b; let o ← o.toNat?; let d ← d.toNat?
    let c : V6Cfg := { base := b, ones := o, dl := d }
    if !c.validPD then pure ({}, "invalid")
    else
      let n := 2 ^ c.indexBits
      pure ({ model := some (init (v6PrefixCfg c)), dl := d,
              mgeo := { g := { lo := b, step := 2 ^ (128 - d), units := if n > 1000 then 1000 else n,
                               totalReported := 0 } } }, "ok")
  | _, _ => none

def step (kind : Kind) (st : St) (toks : List String) (impl : String) : St × LineResult :=
  match toks with
  | "new" :: _ =>
    match construct kind toks with
    | some (st', o) => (st', { modelObs := o })
    | none => (st, { modelObs := "badop" })
  | ["burst", k, n] =>
    match kind, st.model, parseTagged 's' k, n.toNat? with
    | .localp, some m, some k, some (_ + 1) =>
      -- a burst is linearised as one allocate (every further call of the burst is idempotent)
      let (m', o) := FreeList.alloc m k
      -- the implementation's answers, one by one, are what the pool told the subscriber
      let answers : List String := match splitTokens impl with
        | ["mixed", l] => (l.splitOn ",").map fun a => a.replace ":" " "
        | _ => [impl]
      let (mst', vs) := answers.foldl (fun (acc : Spec.MSt × List PoolSpec.Verdict) a =>
        let (ms, vs) := Spec.mcheck st.mgeo acc.1 (event kind (.alloc k) a)
        (ms, acc.2 ++ vs)) (st.mst, [])
      ({ st with model := some m', mst := mst' },
       { modelObs := showObs kind st.dl o, viols := vs.map fun (n, d) => (n, "none", d) })
    | _, _, _, _ => (st, { modelObs := "badop" })
  | ["audit"] =>
    match kind, st.model with
    | .localp, some _ =>
      -- the model's three structures are consistent in every reachable state (Inv.perm, Inv.revOK)
      let num := fun (key : String) => ((splitTokens impl).filterMap fun t =>
        if t.startsWith key then (t.drop key.length).toString.toNat? else none).head?.getD 0
      let vs : List (String × String × String) :=
        if impl == "ok" then [] else
          (if num "lost=" > 0 then [("total", "none", s!"{num "lost="} addresses are neither held nor free")] else []) ++
          (if num "stale=" + num "norev=" > 0 then
            [("agree", "none", s!"reverse index disagrees with the allocations ({impl})")] else []) ++
          (if num "dup=" > 0 then [("unique", "none", s!"{num "dup="} addresses occur twice in allocations + free list")] else [])
      (st, { modelObs := "ok", viols := vs })
    | _, _ => (st, { modelObs := "badop" })
  | ["contains", a] =>
    -- Pool.Contains is a function of the configuration alone
    match kind, st.model, parseHex a with
    | .dhcp, some _, some a =>
      let b := IPArith.containsNet st.netLo (Nat.log2 st.netSpan) a
      let (_, vs) := Spec.mcheck st.mgeo st.mst (.contains a st.netLo st.netSpan (impl == "true"))
      (st, { modelObs := if b then "true" else "false", viols := vs.map fun (n, d) => (n, "none", d) })
    | _, _, _ => (st, { modelObs := "badop" })
  | _ =>
    match kind, toks, st.model with
    -- dhcppool's alias probe `scribble <hex>`: the caller's slices are not pool state — nothing happens on the model,
    -- and the monitor hears of no API call
    | .dhcp, ["scribble", a], some _ =>
      (st, { modelObs := if (parseHex a).isSome then "ok" else "badop" })
    | _, _, _ =>
    match st.model, parseOp kind toks with
    | some m, some op =>
      let (m', o) := FreeList.step m op
      let (mst', vs) := Spec.mcheck st.mgeo st.mst (event kind op impl)
      -- no recorded finding covers a free-list pool: every verdict is a new violation
      let clause := fun (_ : String) => "none"
      -- lookups print the bare value
      let shown := match op, o with
        | .get _, .okAddr a => showAddr kind st.dl a
        | _, _ => showObs kind st.dl o
      ({ st with model := some m', mst := mst' },
       { modelObs := shown, viols := vs.map fun (n, d) => (n, clause n, d) })
    | _, _ => (st, { modelObs := "badop" })

def component (kind : Kind) : Component := { σ := St, init := {}, step := step kind }

end Bng.Drv.FreeListDrv
