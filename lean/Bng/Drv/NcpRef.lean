import Bng.Drv.NcpCore
import Bng.GenRef.FsmLcp
import Bng.GenRef.FsmIpcp
import Bng.GenRef.FsmIpv6cp
/-
  bngdrv-ncp-ref: the C11 driver components over the committed REFERENCE tables Bng/GenRef/Fsm*.lean (the tables of
  the last source the translator accepted; refreshed with tools/refresh-genref.sh).  Used by checks/c11.py for the
  SEARCH ONLY, when the translator refuses the current source and therefore no regenerated tables exist: the
  correspondence run and the monitors then still look for a concrete failing input.  No theorem refers to these.
-/
namespace Bng.Drv.NcpRefDrv
open Bng Bng.Drv Bng.Ncp Bng.Drv.NcpDrv

def lcp : Component :=
  { σ := DSt, init := {}, step := stepFor Bng.GenRef.FsmLcp.tables .lcp }
def ipcp : Component :=
  { σ := DSt, init := {}, step := stepFor Bng.GenRef.FsmIpcp.tables .ipcp }
def ipv6cp : Component :=
  { σ := DSt, init := {}, step := stepFor Bng.GenRef.FsmIpv6cp.tables .ipv6cp }

end Bng.Drv.NcpRefDrv
