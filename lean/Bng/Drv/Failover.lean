import Bng.Drv.Common
import Bng.Model.Failover
/-
  bngdrv component `failover` (C14): replays traces of the real FailoverController (driven inside
  testing/synctest) on the model and runs the C14 monitor on the implementation's observations.

    new <standby|active> <delay> <fbdelay> <grace> <failback 0|1>
    down | up                   the health monitor's flag changes (event delivered on a transition only)
    adv <ms>                    the virtual clock advances; everything that becomes due runs, in time order
    cb ok|fail                  what the role-change callback answers from now on
    cbslow <ms> <down|up|none>  from now on the callback takes <ms>, and the partner's health changes when it starts
    setpartner                  HealthMonitor.SetPartner: health reset to healthy (announced as partner_up)
    force-failover | force-failback      => ok … | err …
    raceup                      the failover timer fires and loses the race for the mutex against a partner_up
    stale                       that callback finally gets the mutex
    racedown                    the failback timer fires (on a control-loop tick instant) and loses the race against a
                                partner_down and the tick's cancellation
    stale-fb                    that callback finally gets the mutex
  observation:  t=<ms> <role> <state> h=<0|1> i=<n> c=<n> x=<n> f=<n> ev=<name@ms,…|->

  One trace operation is a sequence of small model steps (Bng.Failover.step): the clock moves to the next due
  thing (timer deadline, end of a grace sleep, 1 s control-loop tick), that thing runs, and so on — the schedule
  synctest produces.  The theorems of Bng.Spec.C14 are about ALL small-step sequences, of which these are some.
-/
namespace Bng.Drv.FailoverDrv
open Bng Bng.Drv Bng.Failover

structure St where
  model : Option Failover.State := none
  mon   : Mon := {}
  cbOk  : Bool := true
  raced : List Nat := []       -- failover timer instances that fired and have not run yet (delivered by `stale`)
  racedFb : List Nat := []     -- failback timer instances likewise (delivered by `stale-fb`)
  drift : Bool := false
  nextTick : Nat := 1000
  cbDur : Nat := 0
  cbAct : String := "none"
  acts  : List (Nat × String) := []     -- health changes scripted from inside running callbacks: (when, down|up)
  evs   : List (String × Nat) := []

def showRole : Role → String
  | .standby => "standby" | .active => "active"

def showState : FState → String
  | .normal => "normal" | .pending => "pending" | .inProgress => "in_progress"
  | .complete => "complete" | .failbackPending => "failback_pending"

def showEmit : Emit → String
  | .initiated => "initiated"
  | .completed f => if f then "completed:forced" else "completed:auto"
  | .canceled => "canceled"
  | .failbackInitiated => "failback_initiated"
  | .failbackCompleted => "failback_completed"
  | .roleChanged o n => s!"role:{showRole o}>{showRole n}"
  | .callback r ok => s!"cb:{showRole r}:{if ok then "ok" else "fail"}"
  | .callbackFailed r => s!"cbfailed:{showRole r}"

def showObs (st : St) (m : Failover.State) : String :=
  let ev := if st.evs.isEmpty then "-" else ",".intercalate (st.evs.map fun (e, t) => s!"{e}@{t}")
  s!"t={m.now} {showRole m.role} {showState m.state} h={if m.healthy then 1 else 0} i={m.initiated} c={m.completed} x={m.canceled} f={m.failbacks} ev={ev}"

/-- run one small step, stamping what it emits -/
def small (st : St) (m : Failover.State) (op : Op) : St × Failover.State :=
  let (m', es) := Failover.step m op
  ({ st with evs := st.evs ++ es.map fun e => (showEmit e, m'.now) }, m')

/-- the role-change callback has just been invoked: what the script makes happen while it runs -/
def inCallback (st : St) (m : Failover.State) (act : String) : St × Failover.State :=
  if act == "down" then
    if m.healthy then small { st with evs := st.evs ++ [("health:down", m.now)] } m .down else (st, m)
  else if act == "up" then
    if m.healthy then (st, m) else small { st with evs := st.evs ++ [("health:up", m.now)] } m .up
  else (st, m)

def minOpt (a : Option Nat) (b : Nat) : Option Nat :=
  match a with
  | none => some b
  | some x => some (min x b)

/-- index and deadline of the earliest timer that will run by itself -/
def nextTimer (st : St) (m : Failover.State) : Option (Nat × Nat) :=
  (m.timers.zipIdx).foldl (fun acc (t, i) =>
    if t.delivered || t.stopped || st.raced.contains i || st.racedFb.contains i then acc else
    match acc with
    | some (_, d) => if t.deadline < d then some (i, t.deadline) else acc
    | none => some (i, t.deadline)) none

def nextExec (m : Failover.State) : Option (Nat × Nat) :=
  (m.execs.zipIdx).foldl (fun acc (e, j) =>
    match acc with
    | some (_, w) => if e.due < w then some (j, e.due) else acc
    | none => some (j, e.due)) none

/-- run everything that is due up to `target`, in time order; at equal times: timer callbacks, then sleepers,
    then the control-loop tick.  `strict`: the real clock stands 1 ns before `target` (see `raceup`), so timers,
    ticks and sleeps that end exactly at `target` have not happened yet — except a zero-length grace sleep begun
    at this very instant. -/
def runTo (fuel : Nat) (st : St) (m : Failover.State) (target : Nat) (strict : Bool) : St × Failover.State :=
  match fuel with
  | 0 => (st, m)
  | fuel + 1 =>
    let dueT := fun (t : Nat) => if strict then decide (t < target) else decide (t ≤ target)
    let cT := (nextTimer st m).filter fun (_, d) => dueT d
    let cE := (nextExec m).filter fun (j, w) =>
      dueT w || (decide (w = target) && (match m.execs[j]? with
        | some e => if e.stage = .sleeping then decide (e.firedAt = target) else decide (st.cbDur = 0)
        | none => false))
    let cK := if dueT st.nextTick then some st.nextTick else none
    let cA := (st.acts.foldl (fun acc (t, _) => match acc with
      | some a => some (min a t)
      | none => some t) (none : Option Nat)).filter dueT
    let te := [cT.map (·.2), cE.map (·.2), cK, cA].foldl (fun acc c => match acc, c with
      | some a, some b => some (min a b)
      | none, c => c
      | a, none => a) none
    match te with
    | none => small st m (.advance (target - m.now))
    | some te =>
      let (st, m) := small st m (.advance (te - m.now))
      if cA = some te then
        match st.acts.find? (fun (t, _) => t = te) with
        | some (_, act) =>
          let st := { st with acts := st.acts.filter fun (t, _) => t ≠ te }
          let (st, m) := inCallback st m act
          runTo fuel st m target strict
        | none => runTo fuel st m target strict
      else
      match cT, cE with
      | some (i, d), _ =>
        if d = te then let (st, m) := small st m (.fire i); runTo fuel st m target strict
        else stepExecOrTick fuel st m target strict te cE
      | none, _ => stepExecOrTick fuel st m target strict te cE
where
  stepExecOrTick (fuel : Nat) (st : St) (m : Failover.State) (target : Nat) (strict : Bool) (te : Nat)
      (cE : Option (Nat × Nat)) : St × Failover.State :=
    match cE with
    | some (j, w) =>
      if w = te then
        match m.execs[j]? with
        | some e =>
          if e.stage = .sleeping then
            let (st, m') := small st m (.check j st.cbOk (if st.cbAct != "none" then max st.cbDur 1 else st.cbDur))
            -- was the callback invoked (the execution is still there, now in its calling stage)?
            let invoked := m'.execs.length = m.execs.length
            -- the script's health change happens 1 ms into the callback (never on a tick instant)
            let st := if invoked && st.cbAct != "none" then { st with acts := st.acts ++ [(m'.now + 1, st.cbAct)] } else st
            runTo fuel st m' target strict
          else
            let (st, m) := small st m (.commit j); runTo fuel st m target strict
        | none => runTo fuel st m target strict
      else tickNow fuel st m target strict
    | none => tickNow fuel st m target strict
  tickNow (fuel : Nat) (st : St) (m : Failover.State) (target : Nat) (strict : Bool) : St × Failover.State :=
    let (st, m) := small st m .tick
    runTo fuel { st with nextTick := st.nextTick + 1000 } m target strict

def parseEv (s : String) : Option ObsEv :=
  match s.splitOn "@" with
  | [name, t] =>
    match t.toNat? with
    | none => none
    | some t =>
      let k : EvKind :=
        if name == "canceled" then .canceled
        else if name == "completed:auto" then .completedAuto
        else if name == "completed:forced" then .completedForced
        else match name.splitOn ":" with
          | ["cb", r, "ok"] => .cbOk r
          | ["cb", r, "fail"] => .cbFail r
          | ["cbfailed", _] => .cbFailed
          | ["health", "down"] => .health false
          | ["health", "up"] => .health true
          | ["role", ch] => (match ch.splitOn ">" with
              | [o, n] => .roleChange o n
              | _ => .other)
          | _ => .other
      some { kind := k, t := t }
  | _ => none

def parseSnap (toks : List String) : Option Snap :=
  match toks with
  | [t, role, state, _h, _i, c, _x, _f, ev] =>
    match (t.splitOn "=").getLast?.bind String.toNat?, (c.splitOn "=").getLast?.bind String.toNat? with
    | some t, some c =>
      let evs := match ev.splitOn "=" with
        | [_, l] => if l == "-" then some [] else (l.splitOn ",").mapM parseEv
        | _ => none
      evs.map fun evs => { t := t, role := role, state := state, completed := c, evs := evs }
    | _, _ => none
  | _ => none

def finish (st : St) (m : Failover.State) (pre : String) (mop : MOp) (impl : String) : St × LineResult :=
  let shown := pre ++ showObs st m
  let itoks := splitTokens impl
  let itoks := match itoks with
    | "ok" :: r => r
    | "err" :: r => r
    | r => r
  let (mon', vs) := match parseSnap itoks with
    | some snap => check st.mon mop snap
    | none => (st.mon, [])
  ({ st with model := some m, mon := mon', evs := [] },
   { modelObs := shown, viols := vs.map fun (n, d) => (n, "none", d) })

def parseRole : String → Option Role
  | "standby" => some .standby
  | "active" => some .active
  | _ => none

def currentTimer (k : TKind) (m : Failover.State) : Option (Nat × Nat) :=
  (m.timers.zipIdx).foldl (fun acc (t, i) =>
    if t.kind = k ∧ t.gen = m.gen ∧ !t.delivered ∧ !t.stopped then some (i, t.deadline) else acc) none

def step (st : St) (toks : List String) (impl : String) : St × LineResult :=
  match toks with
  | ["new", role, d, fb, g, e] =>
    match parseRole role, d.toNat?, fb.toNat?, g.toNat? with
    | some role, some d, some fb, some g =>
      let cfg : Cfg := { delay := d, fbDelay := fb, grace := g, failbackEnabled := e == "1", original := role }
      let st : St := { mon := { delay := d, fbDelay := fb, grace := g, failbackEnabled := e == "1" } }
      finish st (Failover.init cfg) "" .new impl
    | _, _, _, _ => (st, { modelObs := "badop" })
  | _ =>
    match st.model with
    | none => (st, { modelObs := "badop" })
    | some m =>
      let F := 100000
      match toks with
      | ["down"] =>
        let (st, m) := small st m .down
        let (st, m) := runTo F st m m.now st.drift
        finish st m "" .down impl
      | ["up"] =>
        let (st, m) := small st m .up
        let (st, m) := runTo F st m m.now st.drift
        finish st m "" .up impl
      | ["adv", n] =>
        match n.toNat? with
        | some n =>
          let (st, m) := runTo F st m (m.now + n) false
          finish { st with drift := false } m "" .advance impl
        | none => (st, { modelObs := "badop" })
      | ["cb", r] => finish { st with cbOk := r == "ok" } m "" .other impl
      | ["cbslow", n, act] =>
        match n.toNat? with
        | some n => finish { st with cbDur := n, cbAct := act, mon := { st.mon with slack := max st.mon.slack n } } m "" .other impl
        | none => (st, { modelObs := "badop" })
      | ["setpartner"] =>
        let (st, m) := small st m .up
        let (st, m) := runTo F st m m.now st.drift
        finish st m "" .up impl
      | ["force-failover"] =>
        let ok := (Failover.forceFailover m).2.1
        let (st, m) := small st m .forceFailover
        let (st, m) := runTo F st m m.now st.drift
        finish st m (if ok then "ok " else "err ") (.forceFailover (impl.startsWith "ok")) impl
      | ["force-failback"] =>
        let ok := (Failover.forceFailback m).2.1
        let (st, m) := small st m .forceFailback
        finish st m (if ok then "ok " else "err ") .forceFailback impl
      | ["raceup"] =>
        if m.state ≠ .pending ∨ st.drift then (st, { modelObs := "none" }) else
        match currentTimer .failover m with
        | some (i, d) =>
          if d ≤ m.now then (st, { modelObs := "none" }) else
          let (st, m) := runTo F st m d true
          let st := { st with raced := st.raced ++ [i], drift := true }
          let (st, m) := small st m .up
          let (st, m) := runTo F st m m.now true
          finish st m "" .up impl
        | none => (st, { modelObs := "none" })
      | ["racedown"] =>
        if m.state ≠ .failbackPending ∨ st.drift then (st, { modelObs := "none" }) else
        match currentTimer .failback m with
        | some (i, d) =>
          if d ≤ m.now ∨ d % 1000 ≠ 0 then (st, { modelObs := "none" }) else
          let (st, m) := runTo F st m d true
          let st := { st with racedFb := st.racedFb ++ [i], drift := true }
          let (st, m) := small st m .down
          let (st, m) := small st m .tick
          let (st, m) := runTo F st m m.now true
          finish st m "" .down impl
        | none => (st, { modelObs := "none" })
      | ["stale-fb"] =>
        match st.racedFb with
        | [] => (st, { modelObs := "none" })
        | i :: rest =>
          let (st, m) := small { st with racedFb := rest } m (.fire i)
          let (st, m) := runTo F st m m.now (st.drift)
          finish st m "" .other impl
      | ["stale"] =>
        match st.raced with
        | [] => (st, { modelObs := "none" })
        | i :: rest =>
          let (st, m) := small { st with raced := rest } m (.fire i)
          let (st, m) := runTo F st m m.now (st.drift)
          finish st m "" .other impl
      | _ => (st, { modelObs := "badop" })

def component : Component := { σ := St, init := {}, step := step }

end Bng.Drv.FailoverDrv
