import Bng.Drv.Common
import Bng.Model.Nat
import Bng.Model.NatKMap
import Bng.Model.NatLog
/-
  bngdrv component `nat`: replays traces of the real nat.Manager (+ nat.Logger) on the model and runs
  the C10 monitor on the implementation's observations.

    new <pps> <rangeStart> <rangeEnd> bulk|trad|off|bulkf|tradf [kern]   => ok | invalid
                           (Go ints; `invalid` = NewManager rejected them; `kern`: a real kernel subscriber_nat map is
                            attached; bulkf / tradf: the logger writes a real file with size-based rotation)
    addip p3               => ok | dup
    alloc k1               => ok p3 <start> <end> i<poolIndex> id<subscriberId> k1 | exhausted | kernerr
    dealloc k1             => ok | kernerr
    get k1                 => p3 <start> <end> i<poolIndex> id<subscriberId> k1 | none
    count                  => <n>
    pools                  => p3:<subs>/<max>,… | -
    hold                   => ok             (the harness takes poolMu: callers now queue at the pool lock)
    spawn alloc k1         => blocked | ok p3 …     (a goroutine calls AllocateNAT; `blocked` = it passed the precheck)
    spawn dealloc k1       => blocked
    unhold                 => <result> ; <result> ; …  | -      (poolMu released, queued callers run in FIFO order)
    fault on|off           => ok             (kern: the manager's handle of the kernel map is a closed one: every Put and
                                              every Delete fails)
    kmap                   => k1:p3:<start>:<end>:id<sub>,… | -     (kern: the kernel map read back)
    poke ret k1 idx|idx0|pub|priv|ports|sub | poke arg k1 | poke addip p3 | poke pool   => ok
                                             (the caller writes through the Allocation it was handed last for k1, over the
                                              address slice it passed to AllocateNAT / AddPublicIP, over what GetPoolStats returned)
    wfail <n>|off          => ok             (the log writer accepts n more Writes and then fails / works again)
    flush                  => ok             (Flush + FlushPortBlocks)
    buffer                 => ok             (from now on the harness does not flush the logger after each call)
    flushhold              => held | idle    (Logger.Flush + FlushPortBlocks start in a goroutine; the writer parks inside the
                                              first Write; `idle` = nothing was buffered)
    flushpark              => parked         (the harness holds the logger's write lock; a flush starts in a goroutine and
                                              queues at it)
    flushrelease           => ok | <rec>,…   (a parked flush completes — for `flushpark`: the lock is released and an inline
                                              flush gets it BEFORE the parked one —, a final flush follows; every record since `buffer`)
    rotfail on|off         => ok             (file mode: the log directory is renamed away / back: a rotation that comes due
                                              cannot open the new file; at most 4 calls in between)
    sync                   => ok             (file mode: flush, then every record that reached the files since the last `sync`)
    stress <subs> <g> <n> <seed> => table=k1:p3:<start>:<end>,… | -   (g goroutines, n random calls each, in parallel;
                                     not replayed on the model: the monitor judges the final table and the log; ends the sequence)

  Every observation is followed by ` | <rec>,<rec>,…` when the call wrote log records:
    A:<sub>:k1:p3:<start>:<end>:<size>   R:k1:p3:<start>      (bulk)
    a:<sub>:k1:p3:<port>                 d:k1:p3:<port>       (traditional)
  When they are written is predicted by `Bng.NatLog` (buffer, flush in flight, writer state).
-/
namespace Bng.Drv.NatDrv
open Bng Bng.Drv Bng.Cgnat

inductive Pending where
  | commit (k : Nat)
  | dealloc (k : Nat)

structure St where
  model : Option Cgnat.KState := none
  mon : Spec.Mon × Spec.Ledger := ({}, {})
  held : Bool := false
  /-- the logger: buffer, flush in flight, what has reached the output, state of the writer -/
  lg : NatLog.St LogEntry := {}
  /-- records of `lg.file` already shown in an observation -/
  printed : Nat := 0
  /-- `buffer` … `flushrelease`: the harness does not flush the logger after every call; records are
      printed (by model and implementation) only at `flushrelease` -/
  buffering : Bool := false
  flushHeld : Bool := false
  flushParked : Bool := false
  bufCalls : Nat := 0
  pending : List Pending := []
  /-- after `stress` the model no longer knows the state: later lines are echoed, not compared -/
  free : Bool := false
  /-- a kernel subscriber_nat map is attached / its handle is the closed one -/
  kern : Bool := false
  fault : Bool := false
  /-- file mode: records are shown by `sync` only -/
  fileMode : Bool := false
  rotOff : Bool := false
  rotCalls : Nat := 0

/-- `k1:p3:1024:2047` -/
def parseTableEntry (s : String) : Option (Nat × Spec.Blk) :=
  match s.splitOn ":" with
  | [k, p, lo, hi] => do
      pure (← parseTagged 'k' k, { pub := ← parseTagged 'p' p, lo := ← lo.toNat?, hi := ← hi.toNat? })
  | _ => none

def showAlloc (a : Alloc) : String :=
  s!"p{a.pub} {a.portStart.toNat} {a.portEnd.toNat} i{a.poolIndex} id{a.subId} k{a.priv}"

def showObs : Obs → String
  | .ok => "ok"
  | .dup => "dup"
  | .miss => "blocked"
  | .alloc a => s!"ok {showAlloc a}"
  | .exhausted => "exhausted"
  | .none => "none"
  | .count n => s!"{n}"
  | .pools l => if l.isEmpty then "-" else ",".intercalate (l.map fun (ip, s, m) => s!"p{ip}:{s}/{m}")
  | .kernErr => "kernerr"

def showGet : Obs → String
  | .alloc a => showAlloc a
  | o => showObs o

def showEntry : LogEntry → String
  | .assign sub priv pub ps pe sz => s!"A:{sub}:k{priv}:p{pub}:{ps.toNat}:{pe.toNat}:{sz.toNat}"
  | .release priv pub ps => s!"R:k{priv}:p{pub}:{ps.toNat}"
  | .allocate sub priv pub p => s!"a:{sub}:k{priv}:p{pub}:{p.toNat}"
  | .deallocate priv pub p => s!"d:k{priv}:p{pub}:{p.toNat}"

def withLog (obs : String) (es : List LogEntry) : String :=
  if es.isEmpty then obs else obs ++ " | " ++ ",".intercalate (es.map showEntry)

def parseU16 (s : String) : Option UInt16 := s.toNat?.map UInt16.ofNat

def parseEntry (s : String) : Option LogEntry :=
  match s.splitOn ":" with
  | ["A", sub, k, p, ps, pe, sz] => do
      pure (.assign (← sub.toNat?) (← parseTagged 'k' k) (← parseTagged 'p' p) (← parseU16 ps) (← parseU16 pe) (← parseU16 sz))
  | ["R", k, p, ps] => do pure (.release (← parseTagged 'k' k) (← parseTagged 'p' p) (← parseU16 ps))
  | ["a", sub, k, p, ps] => do
      pure (.allocate (← sub.toNat?) (← parseTagged 'k' k) (← parseTagged 'p' p) (← parseU16 ps))
  | ["d", k, p, ps] => do pure (.deallocate (← parseTagged 'k' k) (← parseTagged 'p' p) (← parseU16 ps))
  | _ => none

/-- split an implementation observation into the API part and the log records -/
def splitImpl (impl : String) : String × List LogEntry :=
  match impl.splitOn " | " with
  | [a, l] => (a, (l.splitOn ",").filterMap parseEntry)
  | a :: _ => (a, [])
  | [] => ("", [])

/-- `ok p3 1024 2047 i0 id1 k1` / `p3 1024 2047 i0 id1 k1` → block -/
def parseBlk (toks : List String) : Option Spec.Blk :=
  match toks with
  | [p, lo, hi, _, _, _] => do pure { pub := ← parseTagged 'p' p, lo := ← lo.toNat?, hi := ← hi.toNat? }
  | _ => none

/-- both halves of the monitor: the block/attribution clauses and the record ledger -/
def feed (c : Cfg) (m : Spec.Mon × Spec.Ledger) (evs : List Spec.Ev) : (Spec.Mon × Spec.Ledger) × List Spec.Verdict :=
  let r1 := Spec.feed c m.1 evs
  let r2 := Spec.feedL c m.2 evs
  ((r1.1, r2.1), r1.2 ++ r2.2)

/-- at most this many calls between `buffer` and `flushrelease` (the logger flushes by itself at 50 buffered records) -/
def maxBufCalls : Nat := 40
/-- at most this many calls between `rotfail on` and `rotfail off` (the backlog must not span two rotations) -/
def maxRotCalls : Nat := 4

/-- the API event of one call's answer -/
def apiEvent (isAlloc : Bool) (k : Nat) (ans : String) : List Spec.Ev :=
  let toks := splitTokens ans
  if isAlloc then
    match toks with
    | "ok" :: rest => match parseBlk rest with
      | some b => [.got k b]
      | none => []
    | _ => []
  else
    match toks with
    | ["ok"] => [.released k]
    | _ => []

def mkViols (vs : List Spec.Verdict) : List (String × String × String) :=
  vs.map fun (n, d) => (n, "none", d)

/-- (logger attached, bulk format, real file) -/
def parseMode (s : String) : Option (Bool × Bool × Bool) :=
  if s == "bulk" then some (true, true, false) else if s == "trad" then some (true, false, false)
  else if s == "off" then some (false, false, false)
  else if s == "bulkf" then some (true, true, true) else if s == "tradf" then some (true, false, true) else none

/-- the manager's records of one step go into the logger's buffer -/
def logNew (lg : NatLog.St LogEntry) (before after : Cgnat.State) : NatLog.St LogEntry :=
  (NatLog.recordsOf before after).foldl NatLog.add lg

def runPending (fault : Bool) (x : Cgnat.KState) : List Pending → Cgnat.KState × List String
  | [] => (x, [])
  | .commit k :: rest =>
    let (x', o) := kstep x (if fault then .commitFail k else .allocCommit k)
    let (x'', os) := runPending fault x' rest
    (x'', showObs o :: os)
  | .dealloc k :: rest =>
    let (x', o) := kstep x (if fault then .deallocFail k else .dealloc k)
    let (x'', os) := runPending fault x' rest
    (x'', showObs o :: os)

def sortByKey (l : List (Nat × KBlk)) : List (Nat × KBlk) := (l.toArray.qsort (fun a b => a.1 < b.1)).toList

def showKmap (kern : AMap Nat KBlk) : String :=
  if kern.isEmpty then "-" else
  ",".intercalate ((sortByKey kern).map fun (k, b) => s!"k{k}:p{b.pub}:{b.lo.toNat}:{b.hi.toNat}:id{b.sub}")

/-- `k1:p3:1024:2047:id1[:next…]` -/
def parseKmapEntry (s : String) : Option (Nat × Spec.Blk) :=
  match s.splitOn ":" with
  | k :: p :: lo :: hi :: _ => do
      pure (← parseTagged 'k' k, { pub := ← parseTagged 'p' p, lo := ← lo.toNat?, hi := ← hi.toNat? })
  | _ => none

/-- two entries of the kernel map as read back that translate to overlapping ports of one public address -/
def kmapOverlap : List (Nat × Spec.Blk) → Option ((Nat × Spec.Blk) × (Nat × Spec.Blk))
  | [] => none
  | x :: rest => match rest.find? (fun y => Spec.overlaps x.2 y.2) with
    | some y => some (x, y)
    | none => kmapOverlap rest

def pokeFields : List String := ["idx", "idx0", "pub", "priv", "ports", "sub"]

def step (st : St) (toks : List String) (impl : String) : St × LineResult :=
  let newWith := fun (pps rs re mode : String) (kern : Bool) =>
    match pps.toInt?, rs.toInt?, re.toInt?, parseMode mode with
    | some pps, some rs, some re, some (logOn, bulk, file) =>
      match newManager pps rs re logOn bulk with
      | some c => (({ model := some (kinit c), kern := kern, fileMode := file } : St), ({ modelObs := "ok" } : LineResult))
      | none => (({} : St), { modelObs := "invalid" })
    | _, _, _, _ => (st, { modelObs := "badop" })
  match toks with
  | ["new", pps, rs, re, mode] => newWith pps rs re mode false
  | ["new", pps, rs, re, mode, "kern"] => newWith pps rs re mode true
  | _ =>
    match st.model with
    | none => (st, { modelObs := "badop" })
    | some x =>
      if st.free then (st, { modelObs := impl }) else
      let m := x.s
      let c := m.cfg
      let (api, implLog) := splitImpl impl
      let logEvs := implLog.map Spec.Ev.logged
      -- records are shown at the end of this line: flush the logger's model and print what reached the output
      let shown := fun (lg : NatLog.St LogEntry) => (lg.file.drop st.printed, lg.file.length)
      let settledEv := fun (lg : NatLog.St LogEntry) => if NatLog.settled lg then [Spec.Ev.settled] else []
      -- the harness does not show records now (no flush after the call, or a real file whose rotation decides when)
      let quiet := st.buffering || st.fileMode
      -- plain (sequential) calls
      let plain := fun (op : Op) (shownObs : Obs → String) (evs : List Spec.Ev) =>
        if st.held then (st, ({ modelObs := "badop" } : LineResult)) else
        let isCall := match op with
          | .alloc _ => true
          | .dealloc _ => true
          | _ => false
        if st.buffering && isCall && st.bufCalls ≥ maxBufCalls then (st, { modelObs := "badop" }) else
        if st.fileMode && st.rotOff && isCall && st.rotCalls ≥ maxRotCalls then (st, { modelObs := "badop" }) else
        let op := if st.fault then (match op with
          | .alloc k => .allocFail k
          | .dealloc k => .deallocFail k
          | o => o) else op
        let (x', o) := kstep x op
        let lg := logNew st.lg m x'.s
        let st := { st with bufCalls := if st.buffering && isCall then st.bufCalls + 1 else st.bufCalls,
                            rotCalls := if st.fileMode && st.rotOff && isCall then st.rotCalls + 1 else st.rotCalls }
        if quiet then
          -- the records stay in the logger: only the answer is observed now
          let (mon', vs) := feed c st.mon (evs ++ logEvs)
          ({ st with model := some x', mon := mon', lg := lg }, { modelObs := shownObs o, viols := mkViols vs })
        else if !isCall then
          -- AddPublicIP: the harness does not flush the logger after it
          let (mon', vs) := feed c st.mon (evs ++ logEvs ++ settledEv lg)
          ({ st with model := some x', mon := mon', lg := lg }, { modelObs := shownObs o, viols := mkViols vs })
        else
        let lg := NatLog.flush lg
        let (recs, n) := shown lg
        let (mon', vs) := feed c st.mon (evs ++ logEvs ++ settledEv lg)
        ({ st with model := some x', mon := mon', lg := lg, printed := n },
         { modelObs := withLog (shownObs o) recs, viols := mkViols vs })
      match toks with
      | ["addip", p] => match parseTagged 'p' p with
        | some ip => plain (.addIp ip) showObs []
        | none => (st, { modelObs := "badop" })
      | ["alloc", k] => match parseTagged 'k' k with
        | some k => plain (.alloc k) showObs (apiEvent true k api)
        | none => (st, { modelObs := "badop" })
      | ["dealloc", k] => match parseTagged 'k' k with
        | some k => plain (.dealloc k) showObs (apiEvent false k api)
        | none => (st, { modelObs := "badop" })
      | ["get", k] => match parseTagged 'k' k with
        | some k =>
          -- GetAllocation only needs allocationMu: allowed while the pool lock is held
          let o := getAllocation m k
          let evs := match splitTokens api with
            | ["none"] => [Spec.Ev.lookedNone k]
            | ts => match parseBlk ts with
              | some b => [.got k b]
              | none => []
          let (mon', vs) := feed c st.mon evs
          ({ st with mon := mon' }, { modelObs := showGet o, viols := mkViols vs })
        | none => (st, { modelObs := "badop" })
      | ["count"] => (st, { modelObs := showObs (Cgnat.step m .count).2 })
      | ["pools"] => if st.held then (st, { modelObs := "badop" }) else (st, { modelObs := showObs (Cgnat.step m .pools).2 })
      | "poke" :: rest =>
        -- the caller writes over its own memory: not a call, nothing of the manager changes
        let ok := match rest with
          | ["ret", k, f] => (parseTagged 'k' k).isSome && pokeFields.contains f
          | ["arg", k] => (parseTagged 'k' k).isSome
          | ["addip", p] => (parseTagged 'p' p).isSome
          | ["pool"] => !st.held
          | _ => false
        if ok then ({ st with model := some (kstep x .poke).1 }, { modelObs := showObs (kstep x .poke).2 })
        else (st, { modelObs := "badop" })
      | ["fault", f] =>
        if !st.kern || (f != "on" && f != "off") then (st, { modelObs := "badop" }) else
        ({ st with fault := f == "on" }, { modelObs := "ok" })
      | ["kmap"] =>
        if !st.kern then (st, { modelObs := "badop" }) else
        let ents := if api == "-" then [] else (api.splitOn ",").filterMap parseKmapEntry
        let viols := match kmapOverlap ents with
          | some ((k1, b1), (k2, b2)) =>
            [("overlap", "none", s!"kernel subscriber_nat translates k{k1} to p{b1.pub} ports {b1.lo}-{b1.hi} and k{k2} to ports {b2.lo}-{b2.hi}")]
          | none => []
        (st, { modelObs := showKmap x.kern, viols := viols })
      | ["wfail", n] =>
        if st.buffering || st.fileMode then (st, { modelObs := "badop" }) else
        if n == "off" then ({ st with lg := NatLog.ctl st.lg (.writer none) }, { modelObs := "ok" }) else
        match n.toNat? with
        | some n => if n > 1000 then (st, { modelObs := "badop" }) else
          ({ st with lg := NatLog.ctl st.lg (.writer (some n)) }, { modelObs := "ok" })
        | none => (st, { modelObs := "badop" })
      | ["flush"] =>
        if st.buffering || st.held || st.fileMode then (st, { modelObs := "badop" }) else
        let lg := NatLog.flush st.lg
        let (recs, n) := shown lg
        let (mon', vs) := feed c st.mon (logEvs ++ settledEv lg)
        ({ st with mon := mon', lg := lg, printed := n }, { modelObs := withLog "ok" recs, viols := mkViols vs })
      | ["stress", a, b, n, sd] =>
        match a.toNat?, b.toNat?, n.toNat?, sd.toNat? with
        | some _, some _, some _, some _ =>
          if st.held || st.buffering || st.fileMode then (st, { modelObs := "badop" }) else
          let tab := match api.splitOn "=" with
            | ["table", t] => if t == "-" then [] else (t.splitOn ",").filterMap parseTableEntry
            | _ => []
          let evs := [Spec.Ev.blind] ++ logEvs ++ [Spec.Ev.forget] ++ tab.map (fun (k, b) => Spec.Ev.got k b) ++ [.settled]
          let (mon', vs) := feed c st.mon evs
          ({ st with mon := mon', free := true }, { modelObs := impl, viols := mkViols vs })
        | _, _, _, _ => (st, { modelObs := "badop" })
      | ["hold"] => if st.held then (st, { modelObs := "badop" }) else ({ st with held := true }, { modelObs := "ok" })
      | ["spawn", "alloc", k] => match parseTagged 'k' k with
        | some k =>
          if !st.held then (st, { modelObs := "badop" }) else
          if st.buffering && st.bufCalls ≥ maxBufCalls then (st, { modelObs := "badop" }) else
          if st.fileMode && st.rotOff && st.rotCalls ≥ maxRotCalls then (st, { modelObs := "badop" }) else
          let (_, o) := allocPre m k
          let (mon', vs) := feed c st.mon (apiEvent true k api)
          let pend := match o with
            | .miss => st.pending ++ [.commit k]
            | _ => st.pending
          ({ st with mon := mon', pending := pend, bufCalls := if st.buffering then st.bufCalls + 1 else st.bufCalls,
                     rotCalls := if st.fileMode && st.rotOff then st.rotCalls + 1 else st.rotCalls },
           { modelObs := showObs o, viols := mkViols vs })
        | none => (st, { modelObs := "badop" })
      | ["spawn", "dealloc", k] => match parseTagged 'k' k with
        | some k =>
          if !st.held then (st, { modelObs := "badop" }) else
          if st.buffering && st.bufCalls ≥ maxBufCalls then (st, { modelObs := "badop" }) else
          if st.fileMode && st.rotOff && st.rotCalls ≥ maxRotCalls then (st, { modelObs := "badop" }) else
          ({ st with pending := st.pending ++ [.dealloc k], bufCalls := if st.buffering then st.bufCalls + 1 else st.bufCalls,
                     rotCalls := if st.fileMode && st.rotOff then st.rotCalls + 1 else st.rotCalls },
           { modelObs := "blocked" })
        | none => (st, { modelObs := "badop" })
      | ["unhold"] =>
        if !st.held then (st, { modelObs := "badop" }) else
        let (x', outs) := runPending st.fault x st.pending
        let shownOuts := if outs.isEmpty then "-" else " ; ".intercalate outs
        -- the implementation's answers, call by call
        let answers := api.splitOn " ; "
        let evs := (st.pending.zip answers).flatMap fun (p, ans) =>
          match p with
          | .commit k => apiEvent true k ans
          | .dealloc k => apiEvent false k ans
        let lg := logNew st.lg m x'.s
        if quiet then
          let (mon', vs) := feed c st.mon (evs ++ logEvs)
          ({ st with model := some x', mon := mon', lg := lg, held := false, pending := [] },
           { modelObs := shownOuts, viols := mkViols vs })
        else
        let lg := NatLog.flush lg
        let (recs, n) := shown lg
        let (mon', vs) := feed c st.mon (evs ++ logEvs ++ settledEv lg)
        ({ st with model := some x', mon := mon', lg := lg, printed := n, held := false, pending := [] },
         { modelObs := withLog shownOuts recs, viols := mkViols vs })
      | ["buffer"] =>
        if st.buffering || st.held || st.fileMode then (st, { modelObs := "badop" }) else
        -- not while the writer fails or records it refused are still waiting
        if st.lg.budget.isSome || !NatLog.settled st.lg then (st, { modelObs := "badop" }) else
        ({ st with buffering := true, bufCalls := 0 }, { modelObs := "ok" })
      | ["flushhold"] =>
        -- a flush is started and parked inside its first Write: `held` when there is something to write
        if !st.buffering || st.flushHeld || st.flushParked || st.held then (st, { modelObs := "badop" }) else
        if !st.lg.buf.isEmpty then ({ st with flushHeld := true, lg := NatLog.take st.lg }, { modelObs := "held" })
        else (st, { modelObs := "idle" })
      | ["flushpark"] =>
        -- a flush queues at the write lock, which the harness holds: it has not looked at the buffer yet
        if !st.buffering || st.flushHeld || st.flushParked || st.held then (st, { modelObs := "badop" }) else
        ({ st with flushParked := true }, { modelObs := "parked" })
      | ["flushrelease"] =>
        -- the flush in flight (if any) completes, everything is flushed: all records since `buffer`, in order
        if !st.buffering || st.held then (st, { modelObs := "badop" }) else
        let lg := NatLog.flush (NatLog.finish st.lg)
        let (recs, n) := shown lg
        let (mon', vs) := feed c st.mon (logEvs ++ settledEv lg)
        ({ st with mon := mon', lg := lg, printed := n, buffering := false, flushHeld := false, flushParked := false,
                   bufCalls := 0 },
         { modelObs := withLog "ok" recs, viols := mkViols vs })
      | ["rotfail", f] =>
        if !st.fileMode || st.held || (f != "on" && f != "off") || st.rotOff == (f == "on") then
          (st, { modelObs := "badop" })
        else ({ st with rotOff := f == "on", rotCalls := 0 }, { modelObs := "ok" })
      | ["sync"] =>
        if !st.fileMode || st.held || st.rotOff then (st, { modelObs := "badop" }) else
        let lg := NatLog.flush st.lg
        let (recs, n) := shown lg
        let (mon', vs) := feed c st.mon (logEvs ++ settledEv lg)
        ({ st with mon := mon', lg := lg, printed := n }, { modelObs := withLog "ok" recs, viols := mkViols vs })
      | _ => (st, { modelObs := "badop" })

def component : Component := { σ := St, init := {}, step := step }

end Bng.Drv.NatDrv
