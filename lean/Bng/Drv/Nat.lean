import Bng.Drv.Common
import Bng.Model.Nat
/-
  bngdrv component `nat`: replays traces of the real nat.Manager (+ nat.Logger) on the model and runs
  the C10 monitor on the implementation's observations.

    new <pps> <rangeStart> <rangeEnd> bulk|trad|off   => ok | invalid      (Go ints; `invalid` = NewManager rejected them)
    addip p3               => ok | dup
    alloc k1               => ok p3 <start> <end> i<poolIndex> id<subscriberId> | exhausted
    dealloc k1             => ok
    get k1                 => p3 <start> <end> i<poolIndex> id<subscriberId> | none
    count                  => <n>
    pools                  => p3:<subs>/<max>,… | -
    hold                   => ok             (the harness takes poolMu: callers now queue at the pool lock)
    spawn alloc k1         => blocked | ok p3 …     (a goroutine calls AllocateNAT; `blocked` = it passed the precheck)
    spawn dealloc k1       => blocked
    unhold                 => <result> ; <result> ; …  | -      (poolMu released, queued callers run in FIFO order)
    buffer                 => ok             (from now on the harness does not flush the logger after each call)
    flushhold              => held | idle    (Logger.Flush + FlushPortBlocks start in a goroutine; the writer parks inside the
                                              first Write; `idle` = nothing was buffered)
    flushrelease           => ok | <rec>,…   (the parked flush completes, a final flush follows; every record since `buffer`)
    stress <subs> <g> <n> <seed> => table=k1:p3:<start>:<end>,… | -   (g goroutines, n random calls each, in parallel;
                                     not replayed on the model: the monitor judges the final table and the log; ends the sequence)

  Every observation is followed by ` | <rec>,<rec>,…` when the call wrote log records:
    A:<sub>:k1:p3:<start>:<end>:<size>   R:k1:p3:<start>      (bulk)
    a:<sub>:k1:p3:<port>                 d:k1:p3:<port>       (traditional)
-/
namespace Bng.Drv.NatDrv
open Bng Bng.Drv Bng.Cgnat

inductive Pending where
  | commit (k : Nat)
  | dealloc (k : Nat)

structure St where
  model : Option Cgnat.State := none
  mon : Spec.Mon × Spec.Ledger := ({}, {})
  held : Bool := false
  /-- `buffer` … `flushrelease`: the harness does not flush the logger after every call; records are
      printed (by model and implementation) only at `flushrelease` -/
  buffering : Bool := false
  flushHeld : Bool := false
  mark : Nat := 0          -- length of the model log when records were last printed
  bufCalls : Nat := 0
  pending : List Pending := []
  /-- after `stress` the model no longer knows the state: later lines are echoed, not compared -/
  free : Bool := false

/-- `k1:p3:1024:2047` -/
def parseTableEntry (s : String) : Option (Nat × Spec.Blk) :=
  match s.splitOn ":" with
  | [k, p, lo, hi] => do
      pure (← parseTagged 'k' k, { pub := ← parseTagged 'p' p, lo := ← lo.toNat?, hi := ← hi.toNat? })
  | _ => none

def showAlloc (a : Alloc) : String :=
  s!"p{a.pub} {a.portStart.toNat} {a.portEnd.toNat} i{a.poolIndex} id{a.subId}"

def showObs : Obs → String
  | .ok => "ok"
  | .dup => "dup"
  | .miss => "blocked"
  | .alloc a => s!"ok {showAlloc a}"
  | .exhausted => "exhausted"
  | .none => "none"
  | .count n => s!"{n}"
  | .pools l => if l.isEmpty then "-" else ",".intercalate (l.map fun (ip, s, m) => s!"p{ip}:{s}/{m}")

def showGet : Obs → String
  | .alloc a => showAlloc a
  | o => showObs o

def showEntry : LogEntry → String
  | .assign sub priv pub ps pe sz => s!"A:{sub}:k{priv}:p{pub}:{ps.toNat}:{pe.toNat}:{sz.toNat}"
  | .release priv pub ps => s!"R:k{priv}:p{pub}:{ps.toNat}"
  | .allocate sub priv pub p => s!"a:{sub}:k{priv}:p{pub}:{p.toNat}"
  | .deallocate priv pub p => s!"d:k{priv}:p{pub}:{p.toNat}"

/-- records written between two states, oldest first -/
def newEntries (before after : Cgnat.State) : List LogEntry :=
  (after.log.take (after.log.length - before.log.length)).reverse

def withLog (obs : String) (es : List LogEntry) : String :=
  if es.isEmpty then obs else obs ++ " | " ++ ",".intercalate (es.map showEntry)

def parseU16 (s : String) : Option UInt16 := s.toNat?.map UInt16.ofNat

def parseEntry (s : String) : Option LogEntry :=
  match s.splitOn ":" with
  | ["A", sub, k, p, ps, pe, sz] => do
      pure (.assign (← sub.toNat?) (← parseTagged 'k' k) (← parseTagged 'p' p) (← parseU16 ps) (← parseU16 pe) (← parseU16 sz))
  | ["R", k, p, ps] => do pure (.release (← parseTagged 'k' k) (← parseTagged 'p' p) (← parseU16 ps))
  | ["a", sub, k, p, ps] => do
      pure (.allocate (← sub.toNat?) (← parseTagged 'k' k) (← parseTagged 'p' p) (← parseU16 ps))
  | ["d", k, p, ps] => do pure (.deallocate (← parseTagged 'k' k) (← parseTagged 'p' p) (← parseU16 ps))
  | _ => none

/-- split an implementation observation into the API part and the log records -/
def splitImpl (impl : String) : String × List LogEntry :=
  match impl.splitOn " | " with
  | [a, l] => (a, (l.splitOn ",").filterMap parseEntry)
  | a :: _ => (a, [])
  | [] => ("", [])

/-- `ok p3 1024 2047 i0 id1` / `p3 1024 2047 i0 id1` → block -/
def parseBlk (toks : List String) : Option Spec.Blk :=
  match toks with
  | [p, lo, hi, _, _] => do pure { pub := ← parseTagged 'p' p, lo := ← lo.toNat?, hi := ← hi.toNat? }
  | _ => none

/-- both halves of the monitor: the block/attribution clauses and the record ledger -/
def feed (c : Cfg) (m : Spec.Mon × Spec.Ledger) (evs : List Spec.Ev) : (Spec.Mon × Spec.Ledger) × List Spec.Verdict :=
  let r1 := Spec.feed c m.1 evs
  let r2 := Spec.feedL c m.2 evs
  ((r1.1, r2.1), r1.2 ++ r2.2)

/-- at most this many calls between `buffer` and `flushrelease` (the logger flushes by itself at 50 buffered records) -/
def maxBufCalls : Nat := 40

/-- the API event of one call's answer -/
def apiEvent (isAlloc : Bool) (k : Nat) (ans : String) : List Spec.Ev :=
  let toks := splitTokens ans
  if isAlloc then
    match toks with
    | "ok" :: rest => match parseBlk rest with
      | some b => [.got k b]
      | none => []
    | _ => []
  else
    match toks with
    | ["ok"] => [.released k]
    | _ => []

def mkViols (vs : List Spec.Verdict) : List (String × String × String) :=
  vs.map fun (n, d) => (n, "none", d)

def parseMode (s : String) : Option (Bool × Bool) :=
  if s == "bulk" then some (true, true) else if s == "trad" then some (true, false)
  else if s == "off" then some (false, false) else none

def runPending (s : Cgnat.State) : List Pending → Cgnat.State × List String
  | [] => (s, [])
  | .commit k :: rest =>
    let (s', o) := allocCommit s k
    let (s'', os) := runPending s' rest
    (s'', showObs o :: os)
  | .dealloc k :: rest =>
    let (s', o) := dealloc s k
    let (s'', os) := runPending s' rest
    (s'', showObs o :: os)

def step (st : St) (toks : List String) (impl : String) : St × LineResult :=
  match toks with
  | ["new", pps, rs, re, mode] =>
    match pps.toInt?, rs.toInt?, re.toInt?, parseMode mode with
    | some pps, some rs, some re, some (logOn, bulk) =>
      match newManager pps rs re logOn bulk with
      | some c => ({ model := some (init c) }, { modelObs := "ok" })
      | none => ({}, { modelObs := "invalid" })
    | _, _, _, _ => (st, { modelObs := "badop" })
  | _ =>
    match st.model with
    | none => (st, { modelObs := "badop" })
    | some m =>
      if st.free then (st, { modelObs := impl }) else
      let c := m.cfg
      let (api, implLog) := splitImpl impl
      let logEvs := implLog.map Spec.Ev.logged
      -- plain (sequential) calls
      let plain := fun (op : Op) (shown : Obs → String) (evs : List Spec.Ev) =>
        if st.held then (st, ({ modelObs := "badop" } : LineResult)) else
        let isCall := match op with
          | .alloc _ => true
          | .dealloc _ => true
          | _ => false
        if st.buffering && isCall && st.bufCalls ≥ maxBufCalls then (st, { modelObs := "badop" }) else
        let (m', o) := Cgnat.step m op
        if st.buffering then
          -- the records stay in the logger's buffer: only the answer is observed now
          let (mon', vs) := feed c st.mon (evs ++ logEvs)
          ({ st with model := some m', mon := mon', bufCalls := if isCall then st.bufCalls + 1 else st.bufCalls },
           { modelObs := shown o, viols := mkViols vs })
        else
        let (mon', vs) := feed c st.mon (evs ++ logEvs ++ [.settled])
        ({ st with model := some m', mon := mon' },
         { modelObs := withLog (shown o) (newEntries m m'), viols := mkViols vs })
      match toks with
      | ["addip", p] => match parseTagged 'p' p with
        | some ip => plain (.addIp ip) showObs []
        | none => (st, { modelObs := "badop" })
      | ["alloc", k] => match parseTagged 'k' k with
        | some k => plain (.alloc k) showObs (apiEvent true k api)
        | none => (st, { modelObs := "badop" })
      | ["dealloc", k] => match parseTagged 'k' k with
        | some k => plain (.dealloc k) showObs (apiEvent false k api)
        | none => (st, { modelObs := "badop" })
      | ["get", k] => match parseTagged 'k' k with
        | some k =>
          -- GetAllocation only needs allocationMu: allowed while the pool lock is held
          let o := getAllocation m k
          let evs := match splitTokens api with
            | ["none"] => [Spec.Ev.lookedNone k]
            | ts => match parseBlk ts with
              | some b => [.got k b]
              | none => []
          let (mon', vs) := feed c st.mon evs
          ({ st with mon := mon' }, { modelObs := showGet o, viols := mkViols vs })
        | none => (st, { modelObs := "badop" })
      | ["count"] => (st, { modelObs := showObs (Cgnat.step m .count).2 })
      | ["pools"] => if st.held then (st, { modelObs := "badop" }) else (st, { modelObs := showObs (Cgnat.step m .pools).2 })
      | ["stress", a, b, n, sd] =>
        match a.toNat?, b.toNat?, n.toNat?, sd.toNat? with
        | some _, some _, some _, some _ =>
          if st.held || st.buffering then (st, { modelObs := "badop" }) else
          let tab := match api.splitOn "=" with
            | ["table", t] => if t == "-" then [] else (t.splitOn ",").filterMap parseTableEntry
            | _ => []
          let evs := [Spec.Ev.blind] ++ logEvs ++ [Spec.Ev.forget] ++ tab.map (fun (k, b) => Spec.Ev.got k b) ++ [.settled]
          let (mon', vs) := feed c st.mon evs
          ({ st with mon := mon', free := true }, { modelObs := impl, viols := mkViols vs })
        | _, _, _, _ => (st, { modelObs := "badop" })
      | ["hold"] => if st.held then (st, { modelObs := "badop" }) else ({ st with held := true }, { modelObs := "ok" })
      | ["spawn", "alloc", k] => match parseTagged 'k' k with
        | some k =>
          if !st.held then (st, { modelObs := "badop" }) else
          if st.buffering && st.bufCalls ≥ maxBufCalls then (st, { modelObs := "badop" }) else
          let (_, o) := allocPre m k
          let (mon', vs) := feed c st.mon (apiEvent true k api)
          let pend := match o with
            | .miss => st.pending ++ [.commit k]
            | _ => st.pending
          ({ st with mon := mon', pending := pend, bufCalls := if st.buffering then st.bufCalls + 1 else st.bufCalls },
           { modelObs := showObs o, viols := mkViols vs })
        | none => (st, { modelObs := "badop" })
      | ["spawn", "dealloc", k] => match parseTagged 'k' k with
        | some k =>
          if !st.held then (st, { modelObs := "badop" }) else
          if st.buffering && st.bufCalls ≥ maxBufCalls then (st, { modelObs := "badop" }) else
          ({ st with pending := st.pending ++ [.dealloc k], bufCalls := if st.buffering then st.bufCalls + 1 else st.bufCalls },
           { modelObs := "blocked" })
        | none => (st, { modelObs := "badop" })
      | ["unhold"] =>
        if !st.held then (st, { modelObs := "badop" }) else
        let (m', outs) := runPending m st.pending
        let shown := if outs.isEmpty then "-" else " ; ".intercalate outs
        -- the implementation's answers, call by call
        let answers := api.splitOn " ; "
        let evs := (st.pending.zip answers).flatMap fun (p, ans) =>
          match p with
          | .commit k => apiEvent true k ans
          | .dealloc k => apiEvent false k ans
        if st.buffering then
          let (mon', vs) := feed c st.mon (evs ++ logEvs)
          ({ st with model := some m', mon := mon', held := false, pending := [] },
           { modelObs := shown, viols := mkViols vs })
        else
        let (mon', vs) := feed c st.mon (evs ++ logEvs ++ [.settled])
        ({ st with model := some m', mon := mon', held := false, pending := [] },
         { modelObs := withLog shown (newEntries m m'), viols := mkViols vs })
      | ["buffer"] =>
        if st.buffering || st.held then (st, { modelObs := "badop" }) else
        ({ st with buffering := true, mark := m.log.length, bufCalls := 0 }, { modelObs := "ok" })
      | ["flushhold"] =>
        -- a flush is started and parked inside its first Write: `held` when there is something to write
        if !st.buffering || st.flushHeld || st.held then (st, { modelObs := "badop" }) else
        if m.log.length > st.mark then ({ st with flushHeld := true }, { modelObs := "held" })
        else (st, { modelObs := "idle" })
      | ["flushrelease"] =>
        -- the parked flush (if any) completes, everything is flushed: all records since `buffer`, in order
        if !st.buffering || st.held then (st, { modelObs := "badop" }) else
        let recs := (m.log.take (m.log.length - st.mark)).reverse
        let (mon', vs) := feed c st.mon (logEvs ++ [.settled])
        ({ st with mon := mon', buffering := false, flushHeld := false, mark := m.log.length, bufCalls := 0 },
         { modelObs := withLog "ok" recs, viols := mkViols vs })
      | _ => (st, { modelObs := "badop" })

def component : Component := { σ := St, init := {}, step := step }

end Bng.Drv.NatDrv
