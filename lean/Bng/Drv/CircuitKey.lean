import Bng.Drv.Common
import Bng.Model.CircuitKey
/-
  bngdrv component `circuitkey`: ebpf.MakeCircuitIDKey / ebpf.HashCircuitID against the model, and the key monitor
  (C20: two different circuit-ids must not share a key).

    new            => ok
    key <hex|->    => <64 hex digits>
    hash <hex|->   => <16 hex digits>
    mac <hex|->    => <12 hex digits>        (ebpf.MACToUint64 of a hardware address of any length, hlen 0…16)
-/
namespace Bng.Drv.CircuitKeyDrv
open Bng Bng.Drv Bng.CircuitKey

structure St where
  started : Bool := false
  mon : CircuitKey.Mon := {}

def step (st : St) (toks : List String) (impl : String) : St × LineResult :=
  match toks with
  | ["new"] => ({ started := true }, { modelObs := "ok" })
  | ["stress", _, _, _] =>
    -- concurrency run (-race build): keys and hashes computed by 8 goroutines must equal the sequential ones
    if !st.started then (st, { modelObs := "badop" }) else
    match splitTokens impl with
    | ["anomalies", a] =>
      let vs : List (String × String × String) :=
        if a == "0" then [] else [("fwd-rev", "none", s!"{a} concurrent key/hash computations differ from the sequential ones")]
      ({ started := false }, { modelObs := "anomalies 0", viols := vs })
    | _ => ({ started := false }, { modelObs := "anomalies 0" })
  | [kind, h] =>
    if !st.started then (st, { modelObs := "badop" }) else
    match parseHexBytes h with
    | none => (st, { modelObs := "badop" })
    | some cid =>
      if kind == "key" then
        let ev := match parseHexBytes impl with
          | some k => Ev.key cid k
          | none => .nop
        let (mon', vs) := CircuitKey.check st.mon ev
        -- clause D57: the collision involves a circuit-id outside the injective domain (longer than 32 bytes or
        -- ending in a zero byte) — the mechanism of the finding; any other collision is a new violation
        -- … AND the model's own key function reproduces the collision on that pair (a collision the model does not
        -- predict — e.g. a key built from fewer bytes — is a regression, never the finding)
        let clause := fun (n : String) (other : List UInt8) =>
          if n == "dup-key" && (!keySafe cid || !keySafe other) && makeKey cid == makeKey other then "D57" else "none"
        ({ st with mon := mon' },
         { modelObs := bytesToHex (makeKey cid), viols := vs.map fun (n, d, o) => (n, clause n o, d) })
      else if kind == "hash" then
        let ev := match parseHex impl with
          | some x => Ev.hash cid x
          | none => .nop
        let (mon', vs) := CircuitKey.check st.mon ev
        -- clause D58: a 64-bit hash of an unbounded string cannot be injective; a hash collision is that finding only
        -- when the model's FNV-1a collides on the same pair (a collision of a weaker hash is a regression)
        ({ st with mon := mon' },
         { modelObs := toHexW (CircuitKey.hash cid).toNat 16,
           viols := vs.map fun (n, d, o) =>
             (n, if n == "dup-key" && CircuitKey.hash cid == CircuitKey.hash o then "D58" else "none", d) })
      else if kind == "mac" then
        let ev := match parseHex impl with
          | some x => Ev.mac cid x
          | none => .nop
        let (mon', vs) := CircuitKey.check st.mon ev
        -- clause KF-mackey-hlen: the collision involves a hardware address that is not 6 bytes long (shorter ones
        -- all get key 0, longer ones are cut to 6 bytes) AND the model's macKey collides on the pair; a collision between
        -- two 6-byte addresses, or one the model does not reproduce, is a new violation
        let clause := fun (n : String) (other : List UInt8) =>
          if n == "dup-key" && (cid.length != 6 || other.length != 6) && macKey cid == macKey other
          then "KF-mackey-hlen" else "none"
        ({ st with mon := mon' },
         { modelObs := toHexW (macKey cid) 12, viols := vs.map fun (n, d, o) => (n, clause n o, d) })
      else (st, { modelObs := "badop" })
  | _ => (st, { modelObs := "badop" })

def component : Component := { σ := St, init := {}, step := step }

end Bng.Drv.CircuitKeyDrv
