import Bng.Drv.Common
import Bng.Model.Vlan
import Bng.Model.KeySpec
/-
  bngdrv component `vlan`: replays traces of the real nexus.VLANAllocator on the model and runs the key monitor (C20)
  on the implementation's observations.

    new <sS> <sE> <cS> <cE>   => ok
    alloc n1                  => ok <s> <c> | exhausted
    allocws n1 <t>            => ok <s> <c> | exhausted | range
    release n1                => ok
    get n1                    => <s> <c> | none
    load n1:s:c,… | -         => ok|conflict fwd … rev … maps <k> cur <s>
    stats                     => <allocations> <stagsInUse>
    dump                      => fwd n1=s.c,…|- rev s.c=n1,…|- maps <k> cur <s>
    stress <seed> <g> <n>     => anomalies <k> fwd … rev … maps <k> cur <s>     (last op; schedule dependent, monitor only)
-/
namespace Bng.Drv.VlanDrv
open Bng Bng.Drv Bng.Vlan

structure St where
  model : Option Vlan.State := none
  mon : KeySpec.Mon := {}

def keyOf (p : Pair) : Nat := p.1 * 65536 + p.2

def joinOr (l : List String) : String := if l.isEmpty then "-" else ",".intercalate l

def showDump (fwd : List (Nat × Pair)) (rev : List (Pair × Nat)) (maps cur : Nat) : String :=
  "fwd " ++ joinOr (fwd.map fun (n, p) => s!"n{n}={p.1}.{p.2}") ++
  " rev " ++ joinOr (rev.map fun (p, n) => s!"{p.1}.{p.2}=n{n}") ++ s!" maps {maps} cur {cur}"

def showObs : Obs → String
  | .ok => "ok"
  | .okPair s c => s!"ok {s} {c}"
  | .pair s c => s!"{s} {c}"
  | .none => "none"
  | .exhausted => "exhausted"
  | .hang => "hang"
  | .range => "range"
  | .conflict => "conflict"
  | .stats a b => s!"{a} {b}"
  | .dump f r m c => showDump f r m c

def parsePairDot (s : String) : Option Pair :=
  match s.splitOn "." with
  | [a, b] => do let a ← a.toNat?; let b ← b.toNat?; pure (a, b)
  | _ => none

def parseLoad (s : String) : Option (List (Nat × Pair)) :=
  if s == "-" then some [] else
  (s.splitOn ",").mapM fun item =>
    match item.splitOn ":" with
    | [n, a, b] => do let n ← parseTagged 'n' n; let a ← a.toNat?; let b ← b.toNat?; pure (n, (a, b))
    | _ => none

def parseOp (toks : List String) : Option Op :=
  match toks with
  | ["alloc", n] => (parseTagged 'n' n).map .alloc
  | ["allocws", n, t] => do let n ← parseTagged 'n' n; let t ← t.toNat?; pure (.allocWS n t)
  | ["release", n] => (parseTagged 'n' n).map .release
  | ["get", n] => (parseTagged 'n' n).map .get
  | ["load", l] => (parseLoad l).map .load
  | ["stats"] => some .stats
  | ["dump"] => some .dump
  | _ => none

def parseFwd (s : String) : Option (List (Nat × Nat)) :=
  if s == "-" then some [] else
  (s.splitOn ",").mapM fun item =>
    match item.splitOn "=" with
    | [n, p] => do let n ← parseTagged 'n' n; let p ← parsePairDot p; pure (n, keyOf p)
    | _ => none

def parseRev (s : String) : Option (List (Nat × Nat)) :=
  if s == "-" then some [] else
  (s.splitOn ",").mapM fun item =>
    match item.splitOn "=" with
    | [p, n] => do let n ← parseTagged 'n' n; let p ← parsePairDot p; pure (keyOf p, n)
    | _ => none

def keyInRange (c : Cfg) (k : Nat) : Bool := inRange c (k / 65536, k % 65536)

/-- what the implementation's answer means for the abstract key table -/
def event (c : Cfg) (m : KeySpec.Mon) (op : Op) (impl : String) : KeySpec.Ev :=
  let toks := splitTokens impl
  let capC := c.cE + 1 - c.cS
  let capS := c.sE + 1 - c.sS
  match op, toks with
  | .alloc n, ["ok", s, ct] => match s.toNat?, ct.toNat? with
      | some s, some ct => .gave n (keyOf (s, ct)) (inRange c (s, ct)) true
      | _, _ => .nop
  | .alloc _, ["exhausted"] =>
      .exhausted (m.held.filter fun p => keyInRange c p.2).length (capS * capC)
  | .allocWS n t, ["ok", s, ct] => match s.toNat?, ct.toNat? with
      | some s, some ct =>
        .gave n (keyOf (s, ct)) (inRange c (s, ct) && s == t)
          (match AMap.lookup m.held n with | some k => k / 65536 == t | none => false)
      | _, _ => .nop
  | .allocWS n t, ["exhausted"] =>
      if t < c.sS ∨ c.sE < t then .failed
      else .exhausted (m.held.filter fun p => p.1 ≠ n && keyInRange c p.2 && p.2 / 65536 == t).length capC
  | .allocWS _ _, _ => .failed
  | .release n, ["ok"] => .released n
  | .get n, ["none"] => .fwd n none
  | .get n, [s, ct] => match s.toNat?, ct.toNat? with
      | some s, some ct => .fwd n (some (keyOf (s, ct)))
      | _, _ => .nop
  | .load l, [_, "fwd", f, "rev", r, "maps", _, "cur", _] => match parseFwd f, parseRev r with
      | some f, some r => .adopt (l.map fun e => (e.1, keyOf e.2)) f r (f.filter fun p => !keyInRange c p.2 && AMap.lookup m.held p.1 != some p.2)
      | _, _ => .nop
  | .dump, ["fwd", f, "rev", r, "maps", _, "cur", _] => match parseFwd f, parseRev r with
      | some f, some r => .dump f r
      | _, _ => .nop
  | _, _ => .nop

def step (st : St) (toks : List String) (impl : String) : St × LineResult :=
  match toks with
  | ["new", a, b, c, d] =>
    match a.toNat?, b.toNat?, c.toNat?, d.toNat? with
    | some a, some b, some c, some d =>
      ({ model := some (init { sS := a, sE := b, cS := c, cE := d }), mon := {} }, { modelObs := "ok" })
    | _, _, _, _ => (st, { modelObs := "badop" })
  | ["stress", _, _, _] =>
    -- concurrency run (-race build): the outcome depends on the schedule, so the model does not predict it — the
    -- model's observation is the implementation's, verbatim; the MONITOR judges the final tables with the usual
    -- clauses (no pair twice, reverse = inverse of forward, everything in range, no in-goroutine anomaly).
    -- No finding may excuse this workload (in-range tags only): clause none.  Afterwards the model is gone.
    match st.model, splitTokens impl with
    | some m, ["anomalies", a, "fwd", f, "rev", r, "maps", _, "cur", _] =>
      match parseFwd f, parseRev r with
      | some f, some r =>
        let (_, vs) := KeySpec.check st.mon (.adopt f f r (f.filter fun p => !keyInRange m.cfg p.2))
        let vs := if a == "0" then vs else ("range", s!"{a} answers outside the ranges during the concurrent run") :: vs
        ({ model := none, mon := {} }, { modelObs := impl, viols := vs.map fun (n, d) => (n, "none", d) })
      | _, _ => ({ model := none, mon := {} }, { modelObs := "badobs" })
    | _, _ => ({ model := none, mon := {} }, { modelObs := "badobs" })
  | _ =>
    match st.model, parseOp toks with
    | some m, some op =>
      let (m', o) := Vlan.step m op
      let shown := match op, o with
        | .load _, o => (showObs o) ++ " " ++ showObs (Vlan.dump m')
        | _, o => showObs o
      let ev := event m.cfg st.mon op impl
      let (mon', vs) := KeySpec.check st.mon ev
      -- the only clause under which a verdict is attributed to a recorded finding: a range verdict raised by a
      -- load whose out-of-range records were all named by that load (LoadFromStore does not range-check)
      -- … and: a range verdict on an Allocate / AllocateWithSTag answer whose tag lies BELOW the range start while
      -- that range ends at 65535 (the uint16 loop counter wrapped past the end of the range)
      let wrapped := fun (k : Nat) =>
        (m.cfg.sE ≥ 65535 && k / 65536 < m.cfg.sS) || (m.cfg.cE ≥ 65535 && k % 65536 < m.cfg.cS)
      let clause := fun (v : String) => match ev with
        | .adopt named _ _ bad => if v == "range" && bad.all (fun p => named.contains p) then "KF-vlan-load-range" else "none"
        | .gave _ k false _ => if v == "range" && wrapped k then "KF-vlan-u16-wrap" else "none"
        | _ => "none"
      ({ model := some m', mon := mon' },
       { modelObs := shown, viols := vs.map fun (n, d) => (n, clause n, d) })
    | _, _ => (st, { modelObs := "badop" })

def component : Component := { σ := St, init := {}, step := step }

end Bng.Drv.VlanDrv
