import Bng.Drv.Common
import Bng.Model.TokenBucket
import Bng.Model.QosRace
/-
  bngdrv component `qos` (C19): replays traces of the real qos.Manager (real kernel maps) + the natively
  compiled bpf/qos_ratelimit.c on the model, and runs the rate-limiter monitors on the IMPLEMENTATION's
  observations.

    new                                               => ok
    setqos a=<ip8hex> down=<bps> up=<bps> burst=<n> prio=<n>   => ok [e=<key>:<val>] [i=<key>:<val>]
    rmqos a=<ip8hex>                                  => ok [e-=<key>] [i-=<key>]
    defpolicy <name> <down> <up> <burst> <prio>       => ok             PolicyManager.AddPolicy (defines or REdefines)
    rmpolicy <name>                                   => ok             PolicyManager.RemovePolicy
    getpolicy <name>                                  => <down> <up> <burst> <prio> | none   PolicyManager.GetPolicy
    setpolicy a=<ip8hex> <name>                       => ok [e=…] [i=…] | err policy_not_found:_<name>
    count                                             => <n>            Manager.GetSubscriberCount
    raw <e|i> <keyhex> <valhex>                       => ok | err size
    clock <ns>                                        => ok
    pkt <e|i> <hexframe> <skblen>                     => <ret> [prio=N] [k=<keyhex>:<h|m>]
    poll <e|i> <hexframe> <skblen> <n> <gap_ns>       => [k=<keyhex>:<h|m>] <ret>x<n> …
    bucket <e|i> <keyhex>                             => <valhex> | none
    race <sched> <setqos …|rmqos …> / <setqos …|rmqos …>   two calls at once, interleaved write by write (word over A, B)
                                                      => <resA> / <resB> [blocked] n=<count> [e=…] [e-=…] [i=…] [i-=…]
    wfault e|i on|off                                 => ok             the manager's handle of that map is write-protected

  Monitors (all fed from the implementation's observations only):
    over-admit, starved, zero-rate   per map entry the program actually used (`k=…:h`), with the rate/burst
                                     found in the bytes the control plane (or `raw`) put there;
    policy                           the SPEC STATE is built from the control-plane operations alone: the policy table
                                     (defpolicy/rmpolicy) and, per address, the LAST policy applied (setqos values, or the
                                     definition the name had when setpolicy was called); after every control-plane call
                                     and at every packet to/from such an address the entry the program uses (bytes the
                                     implementation reported) must carry exactly that rate, burst and priority, in both
                                     directions; a removed policy must no longer be enforced.  Two calls at once
                                     (`race`) must end as one of them after the other: per address the entries (both or
                                     none) and the subscriber count of one of the two orders.  A call that fails under
                                     `wfault` must leave nothing behind; a removal must remove (findings
                                     KF-qos-half-install / KF-qos-delete-ignored: the clause is carried by the verdict
                                     about an entry of exactly the write-protected direction).
-/
namespace Bng.Drv.TokenBucketDrv
open Bng Bng.Drv Bng.TokenBucket Bng.QosRace

/-- a policy as the control plane states it: down, up, burst (0 = default), priority -/
structure Pol where
  down : Nat
  up : Nat
  burst : Nat
  prio : Nat
deriving DecidableEq, Repr

structure St where
  started : Bool := false
  maps : Maps := {}
  subs : AMap Bytes QoS := []
  pols : PolicyTable := []
  clock : UInt64 := 0
  /-- bucket monitors per (direction, key bytes) -/
  mons : AMap (Bool × Bytes) Mon := []
  -- policy monitor, spec side (from the control-plane operations only)
  sPols : AMap String Pol := []
  /-- last policy applied per wire address -/
  sApplied : AMap Bytes Pol := []
  -- policy monitor, implementation side (from the reported bytes only)
  /-- value bytes last reported per (direction, key) -/
  iEnt : AMap (Bool × Bytes) Bytes := []
  /-- who wrote the entry: `some ip` = the control plane for that address, `none` = a raw write -/
  iOrigin : AMap (Bool × Bytes) (Option Bytes) := []
  /-- the manager's handles that are write-protected (`wfault`) -/
  ro : Ro := {}
  /-- policy monitor, spec side: the addresses the manager tracks (a successful Set adds, a Remove removes) -/
  sTracked : List Bytes := []

def dirOf (s : String) : Option Dir :=
  if s == "e" then some .egress else if s == "i" then some .ingress else none

def dirTag : Dir → String
  | .egress => "e"
  | .ingress => "i"

def isE : Dir → Bool
  | .egress => true
  | .ingress => false

def kvTok (t : String) : Option (String × String) :=
  match t.splitOn "=" with
  | [k, v] => some (k, v)
  | _ => none

def argOf (toks : List String) (k : String) : Option String :=
  (toks.filterMap kvTok).lookup k

def hex (bs : Bytes) : String := bytesToHex bs

def dropStr (s : String) (n : Nat) : String := String.ofList (s.toList.drop n)

/-- run-length encode return codes -/
def rle (xs : List Nat) : List (Nat × Nat) :=
  xs.foldl (fun acc x => match acc with
    | (y, n) :: rest => if x = y then (y, n + 1) :: rest else (x, 1) :: (y, n) :: rest
    | [] => [(x, 1)]) [] |>.reverse

def showRle (xs : List Nat) : String :=
  " ".intercalate ((rle xs).map fun (r, n) => s!"{r}x{n}")

def parseRle (toks : List String) : Option (List Nat) :=
  toks.foldlM (fun acc t => match t.splitOn "x" with
    | [r, n] => match r.toNat?, n.toNat? with
      | some r, some n => some (acc ++ List.replicate n r)
      | _, _ => none
    | _ => none) []

def showRes (r : Res) : String :=
  let p := match r.prio with | some p => s!" prio={p.toNat}" | none => ""
  let k := match r.key with | some (k, h) => s!" k={hex k}:{if h then "h" else "m"}" | none => ""
  s!"{r.ret}{p}{k}"

/-- the subscriber's address in the frame, as on the wire (egress: destination, ingress: source) -/
def subscriberAddr (d : Dir) (frame : Bytes) : Option Bytes :=
  (lookupKey d frame).map List.reverse

/-- rate/burst found in value bytes -/
def monOfBytes (v : Bytes) : Option Mon :=
  (Bucket.decode v).map fun b =>
    { Mon.new b.rate.toNat b.burst.toNat with sTok := b.tokens.toNat, sLast := b.last.toNat }

/-- parse the implementation's `k=<hex>:<h|m>` token -/
def implKey (toks : List String) : Option (Bytes × Bool) :=
  toks.findSome? fun t =>
    if t.startsWith "k=" then
      match (dropStr t 2).splitOn ":" with
      | [k, h] => (parseHexBytes k).map fun kb => (kb, h == "h")
      | _ => none
    else none

/-- "1 second of traffic, minimum 64KB, capped at 10MB" -/
def defaultBurstSpec (bps : Nat) : Nat := min (max (bps / 8) 65536) (10 * 1024 * 1024)

/-- what the entry of direction `d` must carry under policy `p`: rate, burst (the policy's, or the default rule
    for that direction's rate when it is 0), priority -/
def expected (d : Dir) (p : Pol) : Nat × Nat × Nat :=
  match d with
  | .egress => (p.down, if p.burst ≠ 0 then p.burst else defaultBurstSpec p.down, p.prio)
  | .ingress => (p.up, if p.burst ≠ 0 then p.burst else defaultBurstSpec p.up, p.prio)

/-- Where the IP header really is: strip up to two VLAN tags (0x8100, 0x88a8, 0x9100, 0x9200) and a PPPoE session
    header.  Returns (encapsulated?, ethertype of the payload, offset of the payload). -/
def l3 (frame : Bytes) : Bool × Bytes × Nat :=
  let et := fun (off : Nat) => (frame.drop off).take 2
  let isTag := fun (e : Bytes) => e = [0x81, 0x00] ∨ e = [0x88, 0xa8] ∨ e = [0x91, 0x00] ∨ e = [0x92, 0x00]
  let (tagged, off) : Bool × Nat :=
    if isTag (et 12) then (if isTag (et 16) then (true, 20) else (true, 16)) else (false, 12)
  if et off = [0x88, 0x64] then
    let ppp := et (off + 8)
    let inner : Bytes := if ppp = [0x00, 0x21] then [0x08, 0x00] else if ppp = [0x00, 0x57] then [0x86, 0xdd] else ppp
    (true, inner, off + 10)
  else (tagged, et off, off + 2)

/-- `policy` verdicts for frames the program does not classify (finding KF-qos-unclassified): an encapsulated IPv4
    frame of a subscriber with a policy, or any IPv6 frame while policies are installed, passed without a lookup -/
def unclassified (st : St) (d : Dir) (frame : Bytes) (ik : Option (Bytes × Bool)) (ret : Nat) :
    List (String × String × String) :=
  if frame.length < 14 ∨ ik.isSome ∨ ret ≠ TC_ACT_OK then [] else
  let (enc, et, off) := l3 frame
  if et = [0x08, 0x00] ∧ enc ∧ frame.length ≥ off + 20 then
    let ip := match d with
      | .egress => (frame.drop (off + 16)).take 4
      | .ingress => (frame.drop (off + 12)).take 4
    if (AMap.lookup st.sApplied ip).isSome then
      [("policy", "KF-qos-unclassified", s!"encapsulated IPv4 frame of {hex ip} (policy applied) passed without any lookup")]
    else []
  else if et = [0x86, 0xdd] ∧ frame.length ≥ off + 40 ∧ !st.sApplied.isEmpty then
    [("policy", "KF-qos-unclassified", "IPv6 frame passed without any lookup although policies are installed (IPv6 is never rate limited)")]
  else []

/-- compare the configuration carried by reported entry `(d, k)` with the policy applied to `ip` -/
def checkEntry (st : St) (d : Dir) (ip k : Bytes) (p : Pol) (what : String) : List (String × String × String) :=
  match (AMap.lookup st.iEnt (isE d, k)).bind Bucket.decode with
  | none => [("policy", "none", s!"{what}: no {dirTag d} entry {hex k} for {hex ip}")]
  | some b =>
    let want := expected d p
    let got := (b.rate.toNat, b.burst.toNat, b.prio.toNat)
    if want = got then [] else
      [("policy", "none",
        s!"{what}: {dirTag d} entry {hex k} of {hex ip} carries rate={got.1} burst={got.2.1} prio={got.2.2}, last applied policy says rate={want.1} burst={want.2.1} prio={want.2.2}")]

/-- the key under which the control plane's entry for `ip` lives (as reported by the implementation) -/
def keyOfIp (st : St) (d : Dir) (ip : Bytes) : Option Bytes :=
  st.iOrigin.findSome? fun (dk, o) => if dk.1 = isE d ∧ o = some ip then some dk.2 else none

/-- apply the implementation's `e=k:v i=k:v e-=k i-=k` report of a control-plane call made for `ip` -/
def applyReport (st : St) (ip : Bytes) (itoks : List String) : St :=
  itoks.foldl (fun s t =>
    let dir? : Option Bool := if t.startsWith "e" then some true else if t.startsWith "i" then some false else none
    match dir? with
    | none => s
    | some e =>
      if (dropStr t 1).startsWith "-=" then
        match parseHexBytes (dropStr t 3) with
        | some k => { s with iEnt := AMap.erase s.iEnt (e, k), iOrigin := AMap.erase s.iOrigin (e, k),
                             mons := AMap.erase s.mons (e, k) }
        | none => s
      else if (dropStr t 1).startsWith "=" then
        match (dropStr t 2).splitOn ":" with
        | [kk, vv] => match parseHexBytes kk, parseHexBytes vv with
          | some kb, some vb =>
            { s with iEnt := AMap.insert s.iEnt (e, kb) vb, iOrigin := AMap.insert s.iOrigin (e, kb) (some ip),
                     mons := match monOfBytes vb with
                       | some mon => AMap.insert s.mons (e, kb) mon
                       | none => AMap.erase s.mons (e, kb) }
          | _, _ => s
        | _ => s
      else s) st

/-- `policy` verdicts right after a control-plane call that applied `p` to `ip` -/
def checkApplied (st : St) (ip : Bytes) (p : Pol) (what : String) : List (String × String × String) :=
  [Dir.egress, Dir.ingress].flatMap fun d =>
    match keyOfIp st d ip with
    | none => [("policy", "none", s!"{what}: no {dirTag d} entry was written for {hex ip}")]
    | some k => checkEntry st d ip k p what

/-- monitor updates for one observed packet -/
def observePkt (st : St) (d : Dir) (frame : Bytes) (len : Nat) (ik : Option (Bytes × Bool)) (ret : Nat) :
    St × List (String × String × String) :=
  -- policy: the entry the program uses must carry the last policy applied to this subscriber
  let polV : List (String × String × String) :=
    match subscriberAddr d frame with
    | none => []
    | some ip =>
      match AMap.lookup st.sApplied ip, ik with
      | some p, some (k, true) => checkEntry st d ip k p "packet"
      | some _, some (k, false) =>
          [("policy", "none", s!"packet of {hex ip}: the program looked up {hex k} and found nothing: the applied policy is not enforced")]
      | some _, none => [("policy", "none", s!"packet of {hex ip}: no lookup although a policy is applied")]
      | none, some (k, true) =>
        match AMap.lookup st.iOrigin (isE d, k) with
        | some (some owner) =>
          [("policy", "none", s!"packet of {hex ip} (no policy applied) is judged by the control-plane entry {hex k} written for {hex owner}")]
        | _ => []
      | none, _ => []
  let polV := polV ++ unclassified st d frame ik ret
  -- bucket monitors: the entry the program used
  match ik with
  | some (k, true) =>
    match AMap.lookup st.mons (isE d, k) with
    | some mon =>
      let (mon', vs) := mon.step st.clock.toNat len (ret == TC_ACT_OK)
      ({ st with mons := AMap.insert st.mons (isE d, k) mon' }, polV ++ vs)
    | none => (st, polV)
  | _ => (st, polV)

def ctlOf (st : St) : Ctl := { maps := st.maps, subs := st.subs, pols := st.pols }
def withCtl (st : St) (c : Ctl) : St := { st with maps := c.maps, subs := c.subs, pols := c.pols }

/-- observation of a call that rewrote the entries of `ip`: what changed, as the harness reports it -/
def diffToks (old new : Maps) (ip : Bytes) : String :=
  let k := keyBytes ip
  let diff := fun (tag : String) (o n : AMap Bytes Bytes) =>
    match AMap.lookup n k with
    | some v => if AMap.lookup o k = some v then "" else s!" {tag}={hex k}:{hex v}"
    | none => ""
  diff "e" old.egress new.egress ++ diff "i" old.ingress new.ingress

def diffObs (old new : Maps) (ip : Bytes) : String := "ok" ++ diffToks old new ip

/-- the report of an operation that may have written and removed entries of several keys: per direction the changed
    entries in the order of their key's hex text, then the removed ones (as the harness lists them) -/
def diffAll (old new : Maps) (keys : List Bytes) : String :=
  let ks := (keys.eraseDups).foldl (fun acc k =>
    let rec ins : List Bytes → List Bytes
      | [] => [k]
      | y :: rest => if hex k < hex y then k :: y :: rest else y :: ins rest
    ins acc) []
  let dir := fun (tag : String) (o n : AMap Bytes Bytes) =>
    String.join (ks.map fun k => match AMap.lookup n k with
      | some v => if AMap.lookup o k = some v then "" else s!" {tag}={hex k}:{hex v}"
      | none => "") ++
    String.join (ks.map fun k => if (AMap.lookup o k).isSome && (AMap.lookup n k).isNone then s!" {tag}-={hex k}" else "")
  dir "e" old.egress new.egress ++ dir "i" old.ingress new.ingress

/-- `setqos a=… down=… up=… burst=… prio=…` / `rmqos a=…` as a call of the race model and as the monitor's policy -/
def parseCall (toks : List String) : Option (Call × Option Pol) :=
  match toks with
  | "setqos" :: args =>
    match (argOf args "a").bind parseHexBytes, (argOf args "down").bind String.toNat?,
          (argOf args "up").bind String.toNat?, (argOf args "burst").bind String.toNat?,
          (argOf args "prio").bind String.toNat? with
    | some ip, some down, some up, some burst, some prio =>
      if ip.length ≠ 4 ∨ args.length ≠ 5 ∨ down ≥ 2 ^ 64 ∨ up ≥ 2 ^ 64 ∨ burst ≥ 2 ^ 32 ∨ prio ≥ 256 then none else
      some (.set { ip := ip, down := UInt64.ofNat down, up := UInt64.ofNat up, burst := UInt32.ofNat burst,
                   prio := UInt8.ofNat prio }, some { down := down, up := up, burst := burst, prio := prio })
    | _, _, _, _, _ => none
  | ["rmqos", a] =>
    match (kvTok a).bind fun (k, v) => if k == "a" then parseHexBytes v else none with
    | some ip => if ip.length ≠ 4 then none else some (.remove ip, none)
    | none => none
  | _ => none

def parseSched (w : String) : Option (List Bool) :=
  if w.length > 12 then none else
  w.toList.foldr (fun ch acc => match acc with
    | none => none
    | some l => if ch == 'A' then some (true :: l) else if ch == 'B' then some (false :: l) else none) (some [])

/-- common tail of setqos / setpolicy: spec state, report, verdicts -/
def afterApply (st : St) (ip : Bytes) (p : Pol) (itoks : List String) (what : String) :
    St × List (String × String × String) :=
  let ok := itoks.head? == some "ok"
  let st1 := applyReport st ip itoks
  if ok then
    let st2 := { st1 with sApplied := AMap.insert st1.sApplied ip p,
                          sTracked := if st1.sTracked.contains ip then st1.sTracked else ip :: st1.sTracked }
    (st2, checkApplied st2 ip p what)
  else if st.ro.e || st.ro.i then
    -- the call failed because a map handle is write-protected and said so: it must not have installed anything.
    -- KF-qos-half-install: the egress bucket it wrote before the INGRESS Put failed stays
    let wrote := itoks.filter fun t => t.startsWith "e=" || t.startsWith "i="
    let vs := wrote.map fun t =>
      ("policy", (if t.startsWith "e=" && st.ro.i && !st.ro.e then "KF-qos-half-install" else "none"),
       s!"{what} for {hex ip} failed and left the entry {t} behind")
    -- what it left behind has no control-plane meaning, and the statement about the address is void
    let st2 := if wrote.isEmpty then st1 else
      { st1 with sApplied := AMap.erase st1.sApplied ip,
                 iOrigin := st1.iOrigin.map fun (dk, o) => if o == some ip then (dk, none) else (dk, o) }
    (st2, vs)
  else (st1, [("policy", "none", s!"{what} for {hex ip} failed: {" ".intercalate itoks}")])

def step (st : St) (toks : List String) (impl : String) : St × LineResult :=
  let itoks := splitTokens impl
  match toks with
  | ["new"] => ({ started := true }, { modelObs := "ok" })
  | "setqos" :: args =>
    if !st.started then (st, { modelObs := "badop" }) else
    match (argOf args "a").bind parseHexBytes, (argOf args "down").bind String.toNat?,
          (argOf args "up").bind String.toNat?, (argOf args "burst").bind String.toNat?,
          (argOf args "prio").bind String.toNat? with
    | some ip, some down, some up, some burst, some prio =>
      if ip.length ≠ 4 ∨ args.length ≠ 5 ∨ down ≥ 2 ^ 64 ∨ up ≥ 2 ^ 64 ∨ burst ≥ 2 ^ 32 ∨ prio ≥ 256 then
        (st, { modelObs := "badop" }) else
      let q : QoS := { ip := ip, down := UInt64.ofNat down, up := UInt64.ofNat up,
                       burst := UInt32.ofNat burst, prio := UInt8.ofNat prio }
      let (c', okM) := setQoSF st.ro (ctlOf st) q
      let obs := if okM then diffObs st.maps c'.maps ip
        else (if st.ro.e then "err failed_to_set_egress_QoS" else "err failed_to_set_ingress_QoS") ++ diffToks st.maps c'.maps ip
      let (st1, vs) := afterApply (withCtl st c') ip { down := down, up := up, burst := burst, prio := prio } itoks "SetSubscriberQoS"
      (st1, { modelObs := obs, viols := vs })
    | _, _, _, _, _ => (st, { modelObs := "badop" })
  | ["defpolicy", name, down, up, burst, prio] =>
    if !st.started then (st, { modelObs := "badop" }) else
    match down.toNat?, up.toNat?, burst.toNat?, prio.toNat? with
    | some down, some up, some burst, some prio =>
      if down ≥ 2 ^ 64 ∨ up ≥ 2 ^ 64 ∨ burst ≥ 2 ^ 32 ∨ prio ≥ 256 then (st, { modelObs := "badop" }) else
      let p : Policy := { name := name, down := UInt64.ofNat down, up := UInt64.ofNat up,
                          burst := UInt32.ofNat burst, prio := UInt8.ofNat prio }
      let st1 := { st with pols := addPolicy st.pols p }
      let st2 := if impl == "ok" then
          { st1 with sPols := AMap.insert st1.sPols name { down := down, up := up, burst := burst, prio := prio } }
        else st1
      (st2, { modelObs := "ok",
              viols := if impl == "ok" then [] else [("policy", "none", s!"AddPolicy {name} failed: {impl}")] })
    | _, _, _, _ => (st, { modelObs := "badop" })
  | ["rmpolicy", name] =>
    if !st.started then (st, { modelObs := "badop" }) else
    ({ st with pols := removePolicy st.pols name,
               sPols := if impl == "ok" then AMap.erase st.sPols name else st.sPols }, { modelObs := "ok" })
  | ["getpolicy", name] =>
    if !st.started then (st, { modelObs := "badop" }) else
    let obs := match AMap.lookup st.pols name with
      | some p => s!"{p.down.toNat} {p.up.toNat} {p.burst.toNat} {p.prio.toNat}"
      | none => "none"
    -- policy monitor: GetPolicy must return the LAST definition set through the control plane, every field
    let want := match AMap.lookup st.sPols name with
      | some p => s!"{p.down} {p.up} {p.burst} {p.prio}"
      | none => "none"
    (st, { modelObs := obs,
           viols := if impl == want then [] else
             [("policy", "none", s!"GetPolicy({name}) returns [{impl}], the last definition set through the control plane is [{want}]")] })
  | ["setpolicy", a, name] =>
    if !st.started then (st, { modelObs := "badop" }) else
    match (kvTok a).bind fun (k, v) => if k == "a" then parseHexBytes v else none with
    | some ip =>
      if ip.length ≠ 4 then (st, { modelObs := "badop" }) else
      let (c', found) : Ctl × Bool := match AMap.lookup st.pols name with
        | none => (ctlOf st, false)
        | some p => ((setQoSF st.ro (ctlOf st) (p.qos ip)).1, true)
      let okM := match AMap.lookup st.pols name with
        | none => true
        | some p => (setQoSF st.ro (ctlOf st) (p.qos ip)).2
      let obs := if !found then s!"err policy_not_found:_{name}"
        else if okM then diffObs st.maps c'.maps ip
        else (if st.ro.e then "err failed_to_set_egress_QoS" else "err failed_to_set_ingress_QoS") ++ diffToks st.maps c'.maps ip
      let st0 := withCtl st c'
      -- the monitor's own view: the definition the name has NOW in the control-plane table
      match AMap.lookup st.sPols name with
      | some p =>
        let (st1, vs) := afterApply st0 ip p itoks s!"SetSubscriberPolicy({name})"
        (st1, { modelObs := obs, viols := vs })
      | none =>
        let st1 := applyReport st0 ip itoks
        (st1, { modelObs := obs,
                viols := if itoks.head? == some "ok" then
                  [("policy", "none", s!"SetSubscriberPolicy({name}) for {hex ip} succeeded although no such policy is defined")] else [] })
    | none => (st, { modelObs := "badop" })
  | ["rmqos", a] =>
    if !st.started then (st, { modelObs := "badop" }) else
    match (kvTok a).bind fun (k, v) => if k == "a" then parseHexBytes v else none with
    | some ip =>
      if ip.length ≠ 4 then (st, { modelObs := "badop" }) else
      let k := keyBytes ip
      let c' := removeF st.ro (ctlOf st) ip
      let gone := fun (tag : String) (old new : AMap Bytes Bytes) =>
        if (AMap.lookup old k).isSome && (AMap.lookup new k).isNone then s!" {tag}-={hex k}" else ""
      let obs := "ok" ++ gone "e" st.maps.egress c'.maps.egress ++ gone "i" st.maps.ingress c'.maps.ingress
      let st1 := applyReport (withCtl st c') ip itoks
      let st2 := { st1 with sApplied := AMap.erase st1.sApplied ip, sTracked := st1.sTracked.filter (· != ip) }
      -- a removed policy must leave no control-plane entry behind.  KF-qos-delete-ignored: the entry of a direction
      -- whose handle is write-protected stays (the Delete failed, its result is dropped)
      let left := [Dir.egress, Dir.ingress].filterMap fun d => (keyOfIp st2 d ip).map fun kk => (d, kk)
      let vs := if itoks.head? == some "ok" then left.map fun (d, kk) =>
          ("policy", (if (match d with | .egress => st.ro.e | .ingress => st.ro.i) then "KF-qos-delete-ignored" else "none"),
           s!"RemoveSubscriberQoS({hex ip}) left entries {dirTag d}:{hex kk}")
        else []
      -- what was left behind under a write-protected handle has no control-plane meaning any more
      let st3 := if st.ro.e || st.ro.i then
          { st2 with iOrigin := st2.iOrigin.map fun (dk, o) => if o == some ip then (dk, none) else (dk, o) }
        else st2
      (st3, { modelObs := obs, viols := vs })
    | none => (st, { modelObs := "badop" })
  | ["wfault", d, on] =>
    if !st.started then (st, { modelObs := "badop" }) else
    if (d != "e" && d != "i") || (on != "on" && on != "off") then (st, { modelObs := "badop" }) else
    let ro' : Ro := if d == "e" then { st.ro with e := on == "on" } else { st.ro with i := on == "on" }
    ({ st with ro := ro' }, { modelObs := "ok" })
  | "race" :: w :: rest =>
    if !st.started || st.ro.e || st.ro.i then (st, { modelObs := "badop" }) else
    let callsOf : Option (List String × List String) :=
      match (rest.zipIdx.filter (fun p => p.1 == "/")).map (·.2) |>.getLast? with
      | some i => some (rest.take i, rest.drop (i + 1))
      | none => none
    match parseSched w, callsOf.bind (fun p => parseCall p.1), callsOf.bind (fun p => parseCall p.2) with
    | some sched, some (a, pa), some (b, pb) =>
      let r := raceRun true (ctlOf st) a b sched
      let obs := "ok / ok" ++ (if r.blocked then " blocked" else "") ++ s!" n={r.ctl.count}" ++
        diffAll st.maps r.ctl.maps [keyBytes a.ip, keyBytes b.ip]
      let st0 := withCtl st r.ctl
      -- the judgment, from the implementation's line alone: both calls succeed, and per address the entries and the
      -- subscriber count are those of call A followed by call B, or of B followed by A
      let toksOf := fun (ip : Bytes) => itoks.filter fun t =>
        (t.startsWith "e" || t.startsWith "i") && (t.splitOn (hex (keyBytes ip))).length > 1
      let st1 := applyReport (applyReport st0 a.ip (toksOf a.ip)) b.ip (if b.ip == a.ip then [] else toksOf b.ip)
      let implN := (itoks.findSome? fun t => if t.startsWith "n=" then (dropStr t 2).toNat? else none)
      let okBoth := itoks.take 3 == ["ok", "/", "ok"]
      -- candidate outcomes: (policy of a.ip, policy of b.ip)
      let cands : List (Option Pol × Option Pol) :=
        if a.ip == b.ip then [(pb, pb), (pa, pa)] else [(pa, pb)]
      let fits := fun (ip : Bytes) (p : Option Pol) => match p with
        | some pol => (checkApplied st1 ip pol "race").isEmpty
        | none => (keyOfIp st1 .egress ip).isNone && (keyOfIp st1 .ingress ip).isNone
      let trackedAfter := fun (c : Option Pol × Option Pol) =>
        let t1 := (st1.sTracked.filter (· != a.ip)) ++ (if c.1.isSome then [a.ip] else [])
        (t1.filter (· != b.ip)) ++ (if c.2.isSome then [b.ip] else [])
      let good := cands.find? fun c => fits a.ip c.1 && fits b.ip c.2 && implN == some (trackedAfter c).length
      match good with
      | some c =>
        let ap := fun (m : AMap Bytes Pol) (ip : Bytes) (p : Option Pol) => match p with
          | some pol => AMap.insert m ip pol
          | none => AMap.erase m ip
        ({ st1 with sApplied := ap (ap st1.sApplied a.ip c.1) b.ip c.2, sTracked := trackedAfter c },
         { modelObs := obs, viols := if okBoth then [] else [("policy", "none", s!"race {w}: a call failed: {impl}")] })
      | none =>
        ({ st1 with sApplied := AMap.erase (AMap.erase st1.sApplied a.ip) b.ip,
                    sTracked := (st1.sTracked.filter (· != a.ip)).filter (· != b.ip),
                    iOrigin := st1.iOrigin.map fun (dk, o) => if o == some a.ip || o == some b.ip then (dk, none) else (dk, o) },
         { modelObs := obs,
           viols := [("policy", "none", s!"race {w}: the buckets and the subscriber count after two overlapping calls are those of neither order of the two calls: {impl}")] })
    | _, _, _ => (st, { modelObs := "badop" })
  | ["count"] =>
    if !st.started then (st, { modelObs := "badop" }) else
    (st, { modelObs := s!"{(ctlOf st).count}" })
  | ["raw", d, k, v] =>
    if !st.started then (st, { modelObs := "badop" }) else
    match dirOf d, parseHexBytes k, parseHexBytes v with
    | some d, some kb, some vb =>
      if kb.length ≠ 4 ∨ vb.length ≠ 32 then (st, { modelObs := "err size" }) else
      let m' := st.maps.set d (AMap.insert (st.maps.get d) kb vb)
      let st1 := { st with maps := m' }
      let st2 := if impl == "ok" then
          -- a raw write has no control-plane meaning: whatever policy statement held for the owner of this entry is void
          let owner := (AMap.lookup st1.iOrigin (isE d, kb)).bind id
          { st1 with
            mons := match monOfBytes vb with
              | some mon => AMap.insert st1.mons (isE d, kb) mon
              | none => st1.mons,
            iEnt := AMap.insert st1.iEnt (isE d, kb) vb,
            iOrigin := AMap.insert st1.iOrigin (isE d, kb) none,
            sApplied := match owner with | some ip => AMap.erase st1.sApplied ip | none => st1.sApplied }
        else st1
      (st2, { modelObs := "ok" })
    | _, _, _ => (st, { modelObs := "badop" })
  | ["clock", n] =>
    if !st.started then (st, { modelObs := "badop" }) else
    match n.toNat? with
    | some n => if n < 2 ^ 64 then ({ st with clock := UInt64.ofNat n }, { modelObs := "ok" })
                else (st, { modelObs := "badop" })
    | none => (st, { modelObs := "badop" })
  | ["pkt", d, f, l] =>
    if !st.started then (st, { modelObs := "badop" }) else
    match dirOf d, parseHexBytes f, l.toNat? with
    | some d, some frame, some len =>
      let (m', r) := runProg d st.maps st.clock frame (UInt32.ofNat len)
      let st1 := { st with maps := m' }
      -- monitors on the implementation's answer
      let (st2, vs) := match itoks.head?.bind String.toNat? with
        | some ret => observePkt st1 d frame (len % 2 ^ 32) (implKey itoks) ret
        | none => (st1, [])
      (st2, { modelObs := showRes r, viols := vs })
    | _, _, _ => (st, { modelObs := "badop" })
  | ["poll", d, f, l, n, g] =>
    if !st.started then (st, { modelObs := "badop" }) else
    match dirOf d, parseHexBytes f, l.toNat?, n.toNat?, g.toNat? with
    | some d, some frame, some len, some n, some gap =>
      if n = 0 ∨ gap ≥ 2 ^ 64 then (st, { modelObs := "badop" }) else
      -- the implementation's verdicts, one per run
      let ik := implKey itoks
      let irets := (parseRle (itoks.filter fun t => !t.startsWith "k=")).getD []
      let rec go (i : Nat) (s : St) (rets : List Nat) (key : Option (Bytes × Bool)) (irs : List Nat)
          (vs : List (String × String × String)) : St × List Nat × Option (Bytes × Bool) × List (String × String × String) :=
        match i with
        | 0 => (s, rets.reverse, key, vs)
        | i + 1 =>
          let clk := s.clock + UInt64.ofNat gap
          let (m', r) := runProg d s.maps clk frame (UInt32.ofNat len)
          let s1 := { s with maps := m', clock := clk }
          let (s2, v2, irs') := match irs with
            | ir :: rest => let (s2, v2) := observePkt s1 d frame (len % 2 ^ 32) ik ir; (s2, v2, rest)
            | [] => (s1, [], [])
          go i s2 (r.ret :: rets) (if key.isNone then r.key else key) irs' (vs ++ v2)
      let (s', rets, key, vs) := go n st [] none irets []
      let k := match key with | some (k, h) => s!"k={hex k}:{if h then "h" else "m"} " | none => ""
      (s', { modelObs := k ++ showRle rets, viols := vs })
    | _, _, _, _, _ => (st, { modelObs := "badop" })
  | ["bucket", d, k] =>
    if !st.started then (st, { modelObs := "badop" }) else
    match dirOf d, parseHexBytes k with
    | some d, some kb =>
      (st, { modelObs := match AMap.lookup (st.maps.get d) kb with | some v => hex v | none => "none" })
    | _, _ => (st, { modelObs := "badop" })
  | _ => (st, { modelObs := "badop" })

def component : Component := { σ := St, init := {}, step := step }

end Bng.Drv.TokenBucketDrv
