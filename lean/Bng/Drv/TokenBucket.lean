import Bng.Drv.Common
import Bng.Model.TokenBucket
/-
  bngdrv component `qos` (C19): replays traces of the real qos.Manager (real kernel maps) + the natively
  compiled bpf/qos_ratelimit.c on the model, and runs the rate-limiter monitors on the IMPLEMENTATION's
  observations.

    new                                               => ok
    setqos a=<ip8hex> down=<bps> up=<bps> burst=<n> prio=<n>   => ok [e=<key>:<val>] [i=<key>:<val>]
    rmqos a=<ip8hex>                                  => ok [e-=<key>] [i-=<key>]
    raw <e|i> <keyhex> <valhex>                       => ok | err size
    clock <ns>                                        => ok
    pkt <e|i> <hexframe> <skblen>                     => <ret> [prio=N] [k=<keyhex>:<h|m>]
    poll <e|i> <hexframe> <skblen> <n> <gap_ns>       => [k=<keyhex>:<h|m>] <ret>x<n> …
    bucket <e|i> <keyhex>                             => <valhex> | none

  Monitors (all fed from the implementation's observations only):
    over-admit, starved, zero-rate   per map entry the program actually used (`k=…:h`), with the rate/burst
                                     found in the bytes the control plane (or `raw`) put there;
    policy                           a packet to/from an address with a policy in force must hit exactly the entry
                                     SetSubscriberQoS wrote for it, and that entry must carry the requested rate.
-/
namespace Bng.Drv.TokenBucketDrv
open Bng Bng.Drv Bng.TokenBucket

structure St where
  started : Bool := false
  maps : Maps := {}
  clock : UInt64 := 0
  /-- monitors per (direction, key bytes) -/
  mons : AMap (Bool × Bytes) Mon := []
  /-- policies in force per (direction, wire address): the key SetSubscriberQoS wrote (none = nothing seen written) -/
  pol : AMap (Bool × Bytes) (Option Bytes) := []

def dirOf (s : String) : Option Dir :=
  if s == "e" then some .egress else if s == "i" then some .ingress else none

def dirTag : Dir → String
  | .egress => "e"
  | .ingress => "i"

def isE : Dir → Bool
  | .egress => true
  | .ingress => false

def kvTok (t : String) : Option (String × String) :=
  match t.splitOn "=" with
  | [k, v] => some (k, v)
  | _ => none

def argOf (toks : List String) (k : String) : Option String :=
  (toks.filterMap kvTok).lookup k

def hex (bs : Bytes) : String := bytesToHex bs

def dropStr (s : String) (n : Nat) : String := String.ofList (s.toList.drop n)

/-- run-length encode return codes -/
def rle (xs : List Nat) : List (Nat × Nat) :=
  xs.foldl (fun acc x => match acc with
    | (y, n) :: rest => if x = y then (y, n + 1) :: rest else (x, 1) :: (y, n) :: rest
    | [] => [(x, 1)]) [] |>.reverse

def showRle (xs : List Nat) : String :=
  " ".intercalate ((rle xs).map fun (r, n) => s!"{r}x{n}")

def parseRle (toks : List String) : Option (List Nat) :=
  toks.foldlM (fun acc t => match t.splitOn "x" with
    | [r, n] => match r.toNat?, n.toNat? with
      | some r, some n => some (acc ++ List.replicate n r)
      | _, _ => none
    | _ => none) []

def showRes (r : Res) : String :=
  let p := match r.prio with | some p => s!" prio={p.toNat}" | none => ""
  let k := match r.key with | some (k, h) => s!" k={hex k}:{if h then "h" else "m"}" | none => ""
  s!"{r.ret}{p}{k}"

/-- the subscriber's address in the frame, as on the wire (egress: destination, ingress: source) -/
def subscriberAddr (d : Dir) (frame : Bytes) : Option Bytes :=
  (lookupKey d frame).map List.reverse

/-- rate/burst found in value bytes -/
def monOfBytes (v : Bytes) : Option Mon :=
  (Bucket.decode v).map fun b => Mon.new b.rate.toNat b.burst.toNat

/-- parse the implementation's `k=<hex>:<h|m>` token -/
def implKey (toks : List String) : Option (Bytes × Bool) :=
  toks.findSome? fun t =>
    if t.startsWith "k=" then
      match (dropStr t 2).splitOn ":" with
      | [k, h] => (parseHexBytes k).map fun kb => (kb, h == "h")
      | _ => none
    else none

/-- monitor updates for one observed packet -/
def observePkt (st : St) (d : Dir) (frame : Bytes) (len : Nat) (ik : Option (Bytes × Bool)) (ret : Nat) :
    St × List (String × String × String) :=
  -- policy: the entry hit must be the one the control plane wrote for this subscriber
  let polV : List (String × String × String) :=
    match subscriberAddr d frame with
    | none => []
    | some ip =>
      match AMap.lookup st.pol (isE d, ip) with
      | none => []
      | some none => [("policy", "none", s!"SetSubscriberQoS({hex ip}) wrote no {dirTag d} entry")]
      | some (some wk) =>
        match ik with
        | some (k, true) => if k = wk then [] else
            [("policy", "none", s!"packet of {hex ip} judged by entry {hex k}, policy was written under {hex wk}")]
        | some (k, false) =>
            [("policy", "none", s!"packet of {hex ip}: program looked up {hex k} (miss), policy was written under {hex wk}: not enforced")]
        | none => [("policy", "none", s!"packet of {hex ip}: no lookup, policy written under {hex wk}")]
  -- bucket monitors: the entry the program used
  match ik with
  | some (k, true) =>
    match AMap.lookup st.mons (isE d, k) with
    | some mon =>
      let (mon', vs) := mon.step st.clock.toNat len (ret == TC_ACT_OK)
      ({ st with mons := AMap.insert st.mons (isE d, k) mon' }, polV ++ vs)
    | none => (st, polV)
  | _ => (st, polV)

def step (st : St) (toks : List String) (impl : String) : St × LineResult :=
  let itoks := splitTokens impl
  match toks with
  | ["new"] => ({ started := true }, { modelObs := "ok" })
  | "setqos" :: args =>
    if !st.started then (st, { modelObs := "badop" }) else
    match (argOf args "a").bind parseHexBytes, (argOf args "down").bind String.toNat?,
          (argOf args "up").bind String.toNat?, (argOf args "burst").bind String.toNat?,
          (argOf args "prio").bind String.toNat? with
    | some ip, some down, some up, some burst, some prio =>
      if ip.length ≠ 4 ∨ args.length ≠ 5 then (st, { modelObs := "badop" }) else
      let q : QoS := { ip := ip, down := UInt64.ofNat down, up := UInt64.ofNat up,
                       burst := UInt32.ofNat burst, prio := UInt8.ofNat prio }
      let m' := setSubscriberQoS st.maps q
      let k := keyBytes ip
      let diff := fun (tag : String) (old new : AMap Bytes Bytes) =>
        match AMap.lookup new k with
        | some v => if AMap.lookup old k = some v then "" else s!" {tag}={hex k}:{hex v}"
        | none => ""
      let obs := "ok" ++ diff "e" st.maps.egress m'.egress ++ diff "i" st.maps.ingress m'.ingress
      -- monitors from what the IMPLEMENTATION wrote
      let written := fun (tag : String) => itoks.findSome? fun t =>
        if t.startsWith (tag ++ "=") then
          match (dropStr t 2).splitOn ":" with
          | [kk, vv] => match parseHexBytes kk, parseHexBytes vv with
            | some kb, some vb => some (kb, vb)
            | _, _ => none
          | _ => none
        else none
      let upd := fun (acc : St × List (String × String × String)) (d : Dir) (want : Nat) =>
        let (s, vs) := acc
        match written (dirTag d) with
        | some (kb, vb) =>
          let mons := match monOfBytes vb with
            | some mon => AMap.insert s.mons (isE d, kb) mon
            | none => AMap.erase s.mons (isE d, kb)
          let bad := match Bucket.decode vb with
            | some b => if b.rate.toNat = want ∧ b.prio.toNat = prio % 256 then [] else
                [("policy", "none", s!"SetSubscriberQoS({hex ip}) asked {dirTag d} rate {want} prio {prio}, wrote rate {b.rate.toNat} prio {b.prio.toNat}")]
            | none => [("policy", "none", s!"SetSubscriberQoS({hex ip}) wrote a {vb.length}-byte {dirTag d} value")]
          ({ s with mons := mons, pol := AMap.insert s.pol (isE d, ip) (some kb) }, vs ++ bad)
        | none =>
          -- nothing changed in the kernel map: either identical bytes were rewritten (policy stays) or nothing was written
          let keep := match AMap.lookup s.pol (isE d, ip) with
            | some (some kb) => some kb
            | _ => none
          ({ s with pol := AMap.insert s.pol (isE d, ip) keep }, vs)
      let ok := itoks.head? == some "ok"
      let (s1, vs) := if ok then upd (upd ({ st with maps := m' }, []) .egress (down % 2 ^ 64)) .ingress (up % 2 ^ 64)
                      else ({ st with maps := m' }, [])
      (s1, { modelObs := obs, viols := vs })
    | _, _, _, _, _ => (st, { modelObs := "badop" })
  | ["rmqos", a] =>
    if !st.started then (st, { modelObs := "badop" }) else
    match (kvTok a).bind fun (k, v) => if k == "a" then parseHexBytes v else none with
    | some ip =>
      if ip.length ≠ 4 then (st, { modelObs := "badop" }) else
      let k := keyBytes ip
      let m' := removeSubscriberQoS st.maps ip
      let gone := fun (tag : String) (old : AMap Bytes Bytes) =>
        if (AMap.lookup old k).isSome then s!" {tag}-={hex k}" else ""
      let obs := "ok" ++ gone "e" st.maps.egress ++ gone "i" st.maps.ingress
      -- monitors: forget the entries the implementation reports as deleted, and the policy
      let dels := itoks.filterMap fun t =>
        if t.startsWith "e-=" then (parseHexBytes (dropStr t 3)).map fun kb => (true, kb)
        else if t.startsWith "i-=" then (parseHexBytes (dropStr t 3)).map fun kb => (false, kb)
        else none
      let mons := dels.foldl (fun acc dk => AMap.erase acc dk) st.mons
      let pol := AMap.erase (AMap.erase st.pol (true, ip)) (false, ip)
      ({ st with maps := m', mons := mons, pol := pol }, { modelObs := obs })
    | none => (st, { modelObs := "badop" })
  | ["raw", d, k, v] =>
    if !st.started then (st, { modelObs := "badop" }) else
    match dirOf d, parseHexBytes k, parseHexBytes v with
    | some d, some kb, some vb =>
      if kb.length ≠ 4 ∨ vb.length ≠ 32 then (st, { modelObs := "err size" }) else
      let m' := st.maps.set d (AMap.insert (st.maps.get d) kb vb)
      let mons := if impl == "ok" then
          match monOfBytes vb with
          | some mon => AMap.insert st.mons (isE d, kb) mon
          | none => st.mons
        else st.mons
      ({ st with maps := m', mons := mons }, { modelObs := "ok" })
    | _, _, _ => (st, { modelObs := "badop" })
  | ["clock", n] =>
    if !st.started then (st, { modelObs := "badop" }) else
    match n.toNat? with
    | some n => if n < 2 ^ 64 then ({ st with clock := UInt64.ofNat n }, { modelObs := "ok" })
                else (st, { modelObs := "badop" })
    | none => (st, { modelObs := "badop" })
  | ["pkt", d, f, l] =>
    if !st.started then (st, { modelObs := "badop" }) else
    match dirOf d, parseHexBytes f, l.toNat? with
    | some d, some frame, some len =>
      let (m', r) := runProg d st.maps st.clock frame (UInt32.ofNat len)
      let st1 := { st with maps := m' }
      -- monitors on the implementation's answer
      let (st2, vs) := match itoks.head?.bind String.toNat? with
        | some ret => observePkt st1 d frame (len % 2 ^ 32) (implKey itoks) ret
        | none => (st1, [])
      (st2, { modelObs := showRes r, viols := vs })
    | _, _, _ => (st, { modelObs := "badop" })
  | ["poll", d, f, l, n, g] =>
    if !st.started then (st, { modelObs := "badop" }) else
    match dirOf d, parseHexBytes f, l.toNat?, n.toNat?, g.toNat? with
    | some d, some frame, some len, some n, some gap =>
      if n = 0 ∨ gap ≥ 2 ^ 64 then (st, { modelObs := "badop" }) else
      -- the implementation's verdicts, one per run
      let ik := implKey itoks
      let irets := (parseRle (itoks.filter fun t => !t.startsWith "k=")).getD []
      let rec go (i : Nat) (s : St) (rets : List Nat) (key : Option (Bytes × Bool)) (irs : List Nat)
          (vs : List (String × String × String)) : St × List Nat × Option (Bytes × Bool) × List (String × String × String) :=
        match i with
        | 0 => (s, rets.reverse, key, vs)
        | i + 1 =>
          let clk := s.clock + UInt64.ofNat gap
          let (m', r) := runProg d s.maps clk frame (UInt32.ofNat len)
          let s1 := { s with maps := m', clock := clk }
          let (s2, v2, irs') := match irs with
            | ir :: rest => let (s2, v2) := observePkt s1 d frame (len % 2 ^ 32) ik ir; (s2, v2, rest)
            | [] => (s1, [], [])
          go i s2 (r.ret :: rets) (if key.isNone then r.key else key) irs' (vs ++ v2)
      let (s', rets, key, vs) := go n st [] none irets []
      let k := match key with | some (k, h) => s!"k={hex k}:{if h then "h" else "m"} " | none => ""
      (s', { modelObs := k ++ showRle rets, viols := vs })
    | _, _, _, _, _ => (st, { modelObs := "badop" })
  | ["bucket", d, k] =>
    if !st.started then (st, { modelObs := "badop" }) else
    match dirOf d, parseHexBytes k with
    | some d, some kb =>
      (st, { modelObs := match AMap.lookup (st.maps.get d) kb with | some v => hex v | none => "none" })
    | _, _ => (st, { modelObs := "badop" })
  | _ => (st, { modelObs := "badop" })

def component : Component := { σ := St, init := {}, step := step }

end Bng.Drv.TokenBucketDrv
