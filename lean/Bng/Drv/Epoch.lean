import Bng.Drv.Common
import Bng.Model.Epoch
import Bng.Model.LeaseSpec
/-
  bngdrv component `epoch`: replays traces of the real allocator.EpochBitmapAllocator on the model and
  runs the lease-pool monitor (C01/C05) on the implementation's observations.

    new <fam> <basehex> <ones> <plen> <grace>   => ok | invalid
    alloc s3        => ok <hex> | exhausted
    renew s3        => ok | notfound
    release s3      => ok
    advance         => <new epoch>
    lookup s3       => <hex> | none
    owner <hex>     => s3 | none
    stats           => <allocated> <total>
    epoch           => <current epoch>
    roundtrip       => ok
-/
namespace Bng.Drv.EpochDrv
open Bng Bng.Drv Bng.Epoch

structure St where
  model : Option Epoch.State := none
  mon : LeaseSpec.Mon := {}
  geo : PoolSpec.Geo := { lo := 0, step := 1, units := 0, totalReported := 0 }

def showObs : Obs → String
  | .okAddr a => s!"ok {toHex a}"
  | .ok => "ok"
  | .exhausted => "exhausted"
  | .notfound => "notfound"
  | .none => "none"
  | .addr a => toHex a
  | .sub k => s!"s{k}"
  | .stats a t => s!"{a} {t}"
  | .num n => s!"{n}"

def parseOp (toks : List String) : Option Op :=
  match toks with
  | ["alloc", k] => (parseTagged 's' k).map .alloc
  | ["renew", k] => (parseTagged 's' k).map .renew
  | ["release", k] => (parseTagged 's' k).map .release
  | ["advance"] => some .advance
  | ["lookup", k] => (parseTagged 's' k).map .lookup
  | ["owner", a] => (parseHex a).map .owner
  | ["stats"] => some .stats
  | ["epoch"] => some .epoch
  | ["roundtrip"] => some .roundtrip
  | _ => none

/-- what the implementation's answer means for the abstract lease pool -/
def event (op : Op) (impl : String) : LeaseSpec.Ev :=
  match op, splitTokens impl with
  | .alloc k, ["ok", a] => match parseHex a with
      | some x => .got k x
      | none => .nop
  | .alloc _, ["exhausted"] => .exhausted
  | .renew k, ["ok"] => .renewed k
  | .renew k, ["notfound"] => .renewRefused k
  | .release k, ["ok"] => .released k
  | .advance, [_] => .advanced
  | .lookup k, ["none"] => .looked k none
  | .lookup k, [a] => match parseHex a with
      | some x => .looked k (some x)
      | none => .nop
  | .owner x, ["none"] => .owner x none
  | .owner x, [k] => match parseTagged 's' k with
      | some k => .owner x (some k)
      | none => .nop
  | .stats, [a, t] => match a.toNat?, t.toNat? with
      | some a, some t => .stats a t
      | _, _ => .nop
  | _, _ => .nop

/-- the exclusion clauses of the recorded findings, evaluated on the state BEFORE the event -/
def clause (c : Cfg) (mon : LeaseSpec.Mon) (v : String) : String :=
  -- D20: a grace period the 2-bit generation tag cannot represent.  byte(grace) ≥ 3: nothing ever lapses,
  -- so lapsed leases stay held (expiry / count / exhaustion while such a lease exists); otherwise
  -- (grace ≥ 256) the truncated grace period reclaims leases early (reclaimed / count).
  if c.grace ≥ 3 ∧ c.graceB ≥ 3 ∧ !mon.ghost.isEmpty ∧ (v == "expiry" || v == "count" || v == "exhaustion") then "D20"
  else if c.grace ≥ 3 ∧ c.graceB < 3 ∧ (v == "reclaimed" || v == "count" || v == "lost") then "D20"
  -- KF-epoch-tiny: a one-address pool reports 2^64-1 usable addresses (totalIPs - 2 wraps)
  else if c.total < 2 ∧ v == "total" then "KF-epoch-tiny"
  else "none"

def step (st : St) (toks : List String) (impl : String) : St × LineResult :=
  match toks with
  | ["new", fam, base, ones, pl, grace] =>
    match fam.toNat?, parseHex base, ones.toNat?, pl.toNat?, grace.toNat? with
    | some fam, some base, some ones, some pl, some grace =>
      let c : Cfg := { base := base, ones := ones, plen := pl, grace := if grace = 0 then 1 else grace }
      if fam = 32 ∧ c.valid then
        ({ model := some (init c), mon := { grace := c.grace },
           geo := { lo := base + 1, step := 1, units := c.total - 2, totalReported := c.total - 2 } },
         { modelObs := "ok" })
      else ({}, { modelObs := "invalid" })
    | _, _, _, _, _ => (st, { modelObs := "badop" })
  | _ =>
    match st.model, parseOp toks with
    | some m, some op =>
      let (m', o) := Epoch.step m op
      let (mon', vs) := LeaseSpec.check st.geo st.mon (event op impl)
      ({ st with model := some m', mon := mon' },
       { modelObs := showObs o, viols := vs.map fun (n, d) => (n, clause m.cfg st.mon n, d) })
    | _, _ => (st, { modelObs := "badop" })

def component : Component := { σ := St, init := {}, step := step }

end Bng.Drv.EpochDrv
