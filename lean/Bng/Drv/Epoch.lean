import Bng.Drv.Common
import Bng.Model.Epoch
import Bng.Model.LeaseSpec
/-
  bngdrv component `epoch`: replays traces of the real allocator.EpochBitmapAllocator on the model and
  runs the lease-pool monitor (C01/C05) on the implementation's observations.

    new <fam> <basehex> <ones> <plen> <grace>   => ok | invalid
    alloc s3        => ok <hex> | exhausted
    renew s3        => ok | notfound
    release s3      => ok
    advance         => <new epoch>
    lookup s3       => <hex> | none
    owner <hex>     => s3 | none
    stats           => <allocated> <total>
    epoch           => <current epoch>
    roundtrip       => ok
-/
namespace Bng.Drv.EpochDrv
open Bng Bng.Drv Bng.Epoch

structure St where
  model : Option Epoch.State := none
  mon : LeaseSpec.Mon := {}
  geo : PoolSpec.Geo := { lo := 0, step := 1, units := 0, totalReported := 0 }

def showObs : Obs → String
  | .okAddr a => s!"ok {toHex a}"
  | .ok => "ok"
  | .exhausted => "exhausted"
  | .notfound => "notfound"
  | .none => "none"
  | .addr a => toHex a
  | .sub k => s!"s{k}"
  | .stats a t => s!"{a} {t}"
  | .num n => s!"{n}"

def parseOp (toks : List String) : Option Op :=
  match toks with
  | ["alloc", k] => (parseTagged 's' k).map .alloc
  | ["renew", k] => (parseTagged 's' k).map .renew
  | ["release", k] => (parseTagged 's' k).map .release
  | ["advance"] => some .advance
  | ["lookup", k] => (parseTagged 's' k).map .lookup
  | ["owner", a] => (parseHex a).map .owner
  | ["stats"] => some .stats
  | ["epoch"] => some .epoch
  | ["roundtrip"] => some .roundtrip
  | _ => none

/-- what the implementation's answer means for the abstract lease pool -/
def event (op : Op) (impl : String) : LeaseSpec.Ev :=
  match op, splitTokens impl with
  | .alloc k, ["ok", a] => match parseHex a with
      | some x => .got k x
      | none => .nop
  | .alloc _, ["exhausted"] => .exhausted
  | .renew k, ["ok"] => .renewed k
  | .renew k, ["notfound"] => .renewRefused k
  | .release k, ["ok"] => .released k
  | .advance, [_] => .advanced
  | .lookup k, ["none"] => .looked k none
  | .lookup k, [a] => match parseHex a with
      | some x => .looked k (some x)
      | none => .nop
  | .owner x, ["none"] => .owner x none
  | .owner x, [k] => match parseTagged 's' k with
      | some k => .owner x (some k)
      | none => .nop
  | .stats, [a, t] => match a.toNat?, t.toNat? with
      | some a, some t => .stats a t
      | _, _ => .nop
  | _, _ => .nop

/-- The exclusion clauses of the recorded findings, evaluated on the monitor state BEFORE the event.
    D20 = a grace period the 2-bit generation tag cannot represent (grace ≥ 3), narrowly:
    * byte(grace) ≥ 3 — nothing ever lapses, so exactly the leases that lapsed by the specification (`ghost`)
      are still held: `expiry` for such a lease; `count` only when the reported figure is the live leases PLUS
      the ghosts; `exhaustion` only when live leases plus ghosts fill the pool;
    * byte(grace) < 3 (grace ≥ 256) — the truncated grace period drops a lease byte(grace)+1 epochs after its
      last renewal: `reclaimed` only for a lease that old; `count` only when the reported figure is the live
      leases MINUS those that old; `unique`/`idempotent` only when the lease concerned is that old (its address
      was dropped early and handed out again).
    KF-epoch-tiny = a one-address pool reports 2^64-1 usable addresses. -/
def clause (c : Cfg) (units : Nat) (mon : LeaseSpec.Mon) (ev : LeaseSpec.Ev) (v : String) : String :=
  let gb := c.graceB
  let live := mon.mon.length
  -- KF-epoch-tiny: the reported total is exactly the wrapped `totalIPs - 2`
  let wrapped := match ev with
    | .stats _ tot => tot == 18446744073709551615
    | _ => false
  let ghosts := mon.ghost.length
  -- dropped early by the truncated grace period
  let early := fun (k : Nat) => decide ((AMap.lookup mon.renewed k).getD 0 + gb < mon.epoch)
  let earlyCount := (mon.mon.filter fun p => early p.1).length
  if c.grace ≥ 3 ∧ gb ≥ 3 then
    if v == "expiry" then (if ghosts > 0 then "D20" else "none")
    else if v == "count" then
      match ev with
      | .stats al _ => if ghosts > 0 ∧ al = live + ghosts then "D20" else "none"
      | _ => "none"
    else if v == "exhaustion" then (if ghosts > 0 ∧ live + ghosts ≥ units then "D20" else "none")
    else if c.total < 2 ∧ v == "total" ∧ wrapped = true then "KF-epoch-tiny"
    else "none"
  else if c.grace ≥ 3 ∧ gb < 3 then
    if v == "reclaimed" then
      match ev with
      | .looked k none => if early k then "D20" else "none"
      | .renewRefused k => if early k then "D20" else "none"
      | .owner a none => match PoolSpec.holderOf mon.mon a with
        | some k => if early k then "D20" else "none"
        | none => "none"
      | _ => "none"
    else if v == "count" then
      match ev with
      | .stats al _ => if earlyCount > 0 ∧ al + earlyCount = live then "D20" else "none"
      | _ => "none"
    -- the early-dropped lease's address was handed to somebody else / its holder got another one
    else if v == "unique" then
      match ev with
      | .got k a => match PoolSpec.holderOf (AMap.erase mon.mon k) a with
        | some k' => if early k' then "D20" else "none"
        | none => "none"
      | _ => "none"
    else if v == "idempotent" then
      match ev with
      | .got k _ => if early k then "D20" else "none"
      | _ => "none"
    else if c.total < 2 ∧ v == "total" ∧ wrapped = true then "KF-epoch-tiny"
    else "none"
  else if c.total < 2 ∧ v == "total" ∧ wrapped = true then "KF-epoch-tiny"
  else "none"

def step (st : St) (toks : List String) (impl : String) : St × LineResult :=
  match toks with
  | ["new", fam, base, ones, pl, grace] =>
    match fam.toNat?, parseHex base, ones.toNat?, pl.toNat?, grace.toNat? with
    | some fam, some base, some ones, some pl, some grace =>
      let c : Cfg := { base := base, ones := ones, plen := pl, grace := if grace = 0 then 1 else grace }
      if fam = 32 ∧ c.valid then
        ({ model := some (init c), mon := { grace := c.grace },
           geo := { lo := base + 1, step := 1, units := c.total - 2, totalReported := c.total - 2 } },
         { modelObs := "ok" })
      else ({}, { modelObs := "invalid" })
    | _, _, _, _, _ => (st, { modelObs := "badop" })
  | ["stress", _] =>
    -- concurrent callers on a fresh allocator, audited by the harness: the clause it names is the verdict
    let vs := match splitTokens impl with
      | "viol" :: mon :: rest => [(mon, "none", " ".intercalate rest)]
      | _ => []
    (st, { modelObs := "ok", viols := vs })
  | ["util"] =>
    match st.model with
    | some m =>
      let ev : LeaseSpec.Ev := match splitTokens impl with
        | kind :: _ => .util kind
        | [] => .nop
      let (mon', vs) := LeaseSpec.check st.geo st.mon ev
      ({ st with mon := mon' },
       { modelObs := s!"{utilKind m} {m.subs.length} {m.cfg.usable}",
         viols := vs.map fun (n, d) => (n, "none", d) })
    | none => (st, { modelObs := "badop" })
  | _ =>
    match st.model, parseOp toks with
    | some m, some op =>
      let (m', o) := Epoch.step m op
      let ev := event op impl
      let (mon', vs) := LeaseSpec.check st.geo st.mon ev
      ({ st with model := some m', mon := mon' },
       { modelObs := showObs o, viols := vs.map fun (n, d) => (n, clause m.cfg st.geo.units st.mon ev n, d) })
    | _, _ => (st, { modelObs := "badop" })

def component : Component := { σ := St, init := {}, step := step }

end Bng.Drv.EpochDrv
