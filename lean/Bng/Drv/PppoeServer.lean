import Bng.Drv.Common
import Bng.Model.PppoeServer
/-
  bngdrv component `pppoesrv`: replays traces of the real pppoe.Server and runs the C04 monitor on the
  implementation's observations.

    new radius|noradius <bits>            => ok
    padi m1 | padr m1 cookie|nocookie | padt m1 <sid>
    lcp m1 <sid> creq|cack|cnak|term|echo
    pap m1 <sid> good|bad|empty accept|reject|down
    ipcp m1 <sid> creq-ip|creq-dns|creq-none|cack
    ip m1 <sid> | sweep
         => sent=<frames|-> sess=<sid:mac:STATE:auth|unauth:ip|-,…|-> pool=<free>/<allocated>
-/
namespace Bng.Drv.PppoeServerDrv
open Bng Bng.Drv Bng.PppoeServer

def stateName : SState → String
  | .disc => "DISC" | .lcp => "LCP" | .auth => "AUTH" | .ipcp => "IPCP" | .est => "EST"
  | .term => "TERM" | .closed => "CLOSED"

def showOut : Out → String
  | .pado m => s!"PADO>m{m}"
  | .pads sid m => s!"PADS:{sid}>m{m}"
  | .lcpreq sid m => s!"LCPREQ:{sid}>m{m}"
  | .lcpack sid m => s!"LCPACK:{sid}>m{m}"
  | .lcptack sid m => s!"LCPTACK:{sid}>m{m}"
  | .lcperep sid m => s!"LCPEREP:{sid}>m{m}"
  | .papack sid m => s!"PAPACK:{sid}>m{m}"
  | .papnak sid m => s!"PAPNAK:{sid}>m{m}"
  | .ipcpreq sid m => s!"IPCPREQ:{sid}>m{m}"
  | .ipcpack sid m => s!"IPCPACK:{sid}>m{m}"
  | .ipcpnak (some ip) sid m => s!"IPCPNAK[{ip}]:{sid}>m{m}"
  | .ipcpnak none sid m => s!"IPCPNAK:{sid}>m{m}"

def insertSorted (x : Sess) : List Sess → List Sess
  | [] => [x]
  | y :: rest => if x.id ≤ y.id then x :: y :: rest else y :: insertSorted x rest

def showSess (x : Sess) : String :=
  let ip := match x.ip with | some a => toString a | none => "-"
  s!"{x.id}:m{x.mac}:{stateName x.state}:{if x.authed then "auth" else "unauth"}:{ip}"

def showSrv (s : Srv) (outs : List Out) : String :=
  let j := fun (l : List String) => if l.isEmpty then "-" else ",".intercalate l
  let ss := s.sessions.foldl (fun acc p => insertSorted p.2 acc) []
  s!"sent={j (outs.map showOut)} sess={j (ss.map showSess)} pool={s.avail.length}/{s.alloc.length}"

def parseIn (toks : List String) : Option In :=
  match toks with
  | ["padi", m] => (parseTagged 'm' m).map .padi
  | ["padr", m, c] => do let m ← parseTagged 'm' m; pure (.padr m (c == "cookie"))
  | ["padt", m, sid] => do let m ← parseTagged 'm' m; let sid ← sid.toNat?; pure (.padt m sid)
  | ["lcp", m, sid, k] => do
      let m ← parseTagged 'm' m; let sid ← sid.toNat?
      let k ← match k with
        | "creq" => some LcpKind.creq | "cack" => some .cack | "cnak" => some .cnak
        | "term" => some .term | "echo" => some .echo | _ => none
      pure (.lcp m sid k)
  | ["pap", m, sid, g, r] => do
      let m ← parseTagged 'm' m; let sid ← sid.toNat?
      let r ← match r with
        | "accept" => some Radius.accept | "reject" => some .reject | "down" => some .down | _ => none
      let pw ← match g with
        | "good" => some Pw.good | "bad" => some .bad | "empty" => some .empty | _ => none
      pure (.pap m sid pw r)
  | ["ipcp", m, sid, k] => do
      let m ← parseTagged 'm' m; let sid ← sid.toNat?
      let k ← match k with
        | "creq-ip" => some IpcpKind.creqIp | "creq-dns" => some .creqDns | "creq-none" => some .creqNone
        | "cack" => some .cack | _ => none
      pure (.ipcp m sid k)
  | ["ip", m, sid] => do let m ← parseTagged 'm' m; let sid ← sid.toNat?; pure (.ip m sid)
  | ["sweep"] => some .sweep
  | _ => none

/-! ### the C04 monitor: works on the implementation's observations only -/

/-- a session as reported by the implementation -/
structure Seen where
  sid : Nat
  mac : Nat
  state : String
  ip : String
  raw : String
  deriving BEq

structure Mon where
  owner : AMap Nat Nat := []     -- sid → MAC the session was created for (from PADS)
  authOK : List Nat := []        -- sessions whose own PAP exchange was accepted
  prev : List Seen := []
  radius : Bool := false
  /-- addresses known to be stranded by the idle sweep (recorded finding KF-pppoe-idle-leak) -/
  stranded : Nat := 0
  total : Nat := 0

def parseSeen (s : String) : List Seen :=
  if s == "-" then [] else
  (s.splitOn ",").filterMap fun item =>
    match item.splitOn ":" with
    | [sid, m, st, _, ip] => do
        let sid ← sid.toNat?; let m ← parseTagged 'm' m
        pure { sid := sid, mac := m, state := st, ip := ip, raw := item }
    | _ => none

def field (impl key : String) : String :=
  match (splitTokens impl).find? (fun t => t.startsWith (key ++ "=")) with
  | some t => (t.drop (key.length + 1)).toString
  | none => ""

/-- frames sent: (kind incl. optional [ip], sid) -/
def parseSent (s : String) : List (String × Nat) :=
  if s == "-" || s.isEmpty then [] else
  (s.splitOn ",").filterMap fun item =>
    match (item.splitOn ">") with
    | [l, _] => match l.splitOn ":" with
      | [k, sid] => sid.toNat?.map fun n => (k, n)
      | _ => none
    | _ => none

def monitor (mn : Mon) (i : In) (impl : String) : Mon × List (String × String × String) :=
  let seen := parseSeen (field impl "sess")
  let sent := parseSent (field impl "sent")
  -- 1. bookkeeping from what was observed
  let owner := sent.foldl (fun o (k, sid) =>
      if k == "PADS" then
        match i with
        | .padr m _ => AMap.insert o sid m
        | _ => o
      else o) mn.owner
  let authOK := sent.foldl (fun a (k, sid) => if k == "PADS" then a.filter (· ≠ sid) else a) mn.authOK
  let authOK := match i with
    | .pap m sid pw r =>
      if AMap.lookup owner sid = some m ∧ (mn.prev.any (·.sid == sid)) ∧ (!mn.radius || (decide (r = Radius.accept) && decide (pw ≠ Pw.empty)))
      then (if authOK.contains sid then authOK else sid :: authOK) else authOK
    | _ => authOK
  -- 2. service only after authentication
  let v1 := seen.filterMap fun x =>
    if (x.state == "EST" || x.ip != "-") && !authOK.contains x.sid then
      some ("service-without-auth", "none", s!"session {x.raw} has service but its PAP exchange was never accepted")
    else none
  let v2 := sent.filterMap fun (k, sid) =>
    if (k == "IPCPACK" || k.startsWith "IPCPNAK[") && !authOK.contains sid then
      some ("ipcp-without-auth", "none", s!"{k} sent for session {sid} before its authentication")
    else none
  -- 3. frames from a MAC that does not own the session are inert
  let target : Option (Nat × Nat) := match i with
    | .padt m sid | .lcp m sid _ | .pap m sid _ _ | .ipcp m sid _ | .ip m sid => some (m, sid)
    | _ => none
  let v3 := match target with
    | some (m, sid) =>
      match AMap.lookup mn.owner sid, mn.prev.find? (·.sid == sid) with
      | some o, some before =>
        if o ≠ m then
          let after := seen.find? (·.sid == sid)
          (if after != some before then
            [("foreign-mac", "none", s!"frame from m{m} changed session {sid} owned by m{o}: {before.raw} -> {(after.map (·.raw)).getD "removed"}")]
           else []) ++
          (if sent.any (fun (_, s2) => s2 == sid) then
            [("foreign-mac", "none", s!"frame from m{m} made the server answer on session {sid} owned by m{o}")] else [])
        else []
      | _, _ => []
    | none => []
  -- 4. (C16/C05) every address recorded as allocated belongs to a live session, nothing is lost
  let poolTok := (field impl "pool").splitOn "/"
  let (free, alloc) := match poolTok with
    | [f, a] => (f.toNat?.getD 0, a.toNat?.getD 0)
    | _ => (0, 0)
  let holders := (seen.filter (·.ip != "-")).length
  let sweptNow := match i with
    | .sweep => (mn.prev.filter (·.ip != "-")).length
    | _ => 0
  let stranded := mn.stranded + sweptNow
  let v4 :=
    (if sweptNow > 0 then
      [("residue", "KF-pppoe-idle-leak", s!"the idle sweep removed {sweptNow} session(s) without returning their address")]
     else []) ++
    (if alloc ≠ holders + stranded then
      [("residue", "none", s!"{alloc} addresses recorded as allocated but {holders} live sessions hold one (+{stranded} stranded by sweeps)")]
     else []) ++
    (if mn.total ≠ 0 ∧ free + alloc ≠ mn.total then
      [("conservation", "none", s!"free {free} + allocated {alloc} ≠ pool size {mn.total}")] else [])
  -- sessions that disappeared lose their record
  let live := seen.map (·.sid)
  let owner := owner.filter fun p => live.contains p.1
  let authOK := authOK.filter fun sid => live.contains sid
  ({ mn with owner := owner, authOK := authOK, prev := seen, stranded := stranded }, v1 ++ v2 ++ v3 ++ v4)

structure St where
  model : Option Srv := none
  mon : Mon := {}

def step (st : St) (toks : List String) (impl : String) : St × LineResult :=
  match toks with
  | ["new", r, bits] =>
    match bits.toNat? with
    | some b => ({ model := some (init (r == "radius") b), mon := { radius := r == "radius", total := (poolAddrs b).length } }, { modelObs := "ok" })
    | none => (st, { modelObs := "badop" })
  | _ =>
    match st.model, parseIn toks with
    | some m, some i =>
      let (m', outs) := PppoeServer.step m i
      let (mon', vs) := monitor st.mon i impl
      ({ model := some m', mon := mon' }, { modelObs := showSrv m' outs, viols := vs })
    | _, _ => (st, { modelObs := "badop" })

def component : Component := { σ := St, init := {}, step := step }

end Bng.Drv.PppoeServerDrv
