import Bng.Drv.Common
import Bng.Model.PppoeServer
import Bng.Model.PppoeMonitor
import Bng.Model.PppoeTimed
import Bng.Model.PppoePark
/-
  bngdrv component `pppoesrv`: replays traces of the real pppoe.Server and runs the C04 monitor on the
  implementation's observations.

    new radius|noradius <bits>            => ok
    padi m1 | padr m1 cookie|nocookie | padt m1 <sid>
    lcp m1 <sid> creq|cack|cnak|term|echo
    pap m1 <sid> good|bad|empty accept|reject|down
    ipcp m1 <sid> creq-ip|creq-own|creq-dns|creq-none|cack      (creq-ip asks with 0.0.0.0, creq-own names 10.77.0.2)
    ip m1 <sid> | sweep            (everything is idle)
    age <hours> | sweep <hours>    (virtual idle time: the sweep removes the sessions idle for MORE than <hours>)
         => sent=<frames|-> sess=<sid:mac:STATE:auth|unauth:ip|-,…|-> pool=<free>/<allocated>
    authpark m1 <sid> good|bad|empty     a PAP request whose Access-Request the RADIUS server leaves unanswered
         => parked <snapshot>            the handler waits inside the RADIUS call (`Bng.PppoePark`); until `authresume`
                                          only `sweep` / `sweep <h>` / `age <h>` run, every other op => busy
         => done <snapshot>              no RADIUS exchange (no client, empty password, frame not accepted): handled at once
    authresume accept|reject             RADIUS answers the parked request  => <snapshot>  (not parked => notparked)
-/
namespace Bng.Drv.PppoeServerDrv
open Bng Bng.Drv Bng.PppoeServer Bng.PppoeMon Bng.PppoeTimed Bng.PppoePark

def showOut : Out → String
  | .pado m => s!"PADO>m{m}"
  | .pads sid m => s!"PADS:{sid}>m{m}"
  | .lcpreq sid m => s!"LCPREQ:{sid}>m{m}"
  | .lcpack sid m => s!"LCPACK:{sid}>m{m}"
  | .lcptack sid m => s!"LCPTACK:{sid}>m{m}"
  | .lcperep sid m => s!"LCPEREP:{sid}>m{m}"
  | .papack sid m => s!"PAPACK:{sid}>m{m}"
  | .papnak sid m => s!"PAPNAK:{sid}>m{m}"
  | .ipcpreq sid m => s!"IPCPREQ:{sid}>m{m}"
  | .ipcpack sid m => s!"IPCPACK:{sid}>m{m}"
  | .ipcpnak (some ip) sid m => s!"IPCPNAK[{ip}]:{sid}>m{m}"
  | .ipcpnak none sid m => s!"IPCPNAK:{sid}>m{m}"
  | .ipcprej sid m => s!"IPCPREJ:{sid}>m{m}"

def showSrv (s : Srv) (outs : List Out) : String :=
  let j := fun (l : List String) => if l.isEmpty then "-" else ",".intercalate l
  let held := (sortedSess s).filterMap fun x => (AMap.lookup s.alloc x.serial).map fun a => s!"{x.id}:{a}"
  s!"sent={j (outs.map showOut)} sess={j ((sortedSess s).map showSess)} pool={s.avail.length}/{s.alloc.length} held={j held} orph={s.alloc.length - held.length} free={j (s.avail.map toString)}"

def parseIn (toks : List String) : Option In :=
  match toks with
  | ["padi", m] => (parseTagged 'm' m).map .padi
  | ["padr", m, c] => do let m ← parseTagged 'm' m; pure (.padr m (c == "cookie"))
  | ["padt", m, sid] => do let m ← parseTagged 'm' m; let sid ← sid.toNat?; pure (.padt m sid)
  | ["lcp", m, sid, k] => do
      let m ← parseTagged 'm' m; let sid ← sid.toNat?
      let k ← match k with
        | "creq" => some LcpKind.creq | "cack" => some .cack | "cnak" => some .cnak
        | "term" => some .term | "echo" => some .echo | _ => none
      pure (.lcp m sid k)
  | ["pap", m, sid, g, r] => do
      let m ← parseTagged 'm' m; let sid ← sid.toNat?
      let r ← match r with
        | "accept" => some Radius.accept | "reject" => some .reject | "down" => some .down | _ => none
      let pw ← match g with
        | "good" => some Pw.good | "bad" => some .bad | "empty" => some .empty | _ => none
      pure (.pap m sid pw r)
  | ["ipcp", m, sid, k] => do
      let m ← parseTagged 'm' m; let sid ← sid.toNat?
      let k ← match k with
        | "creq-ip" => some IpcpKind.creqIp | "creq-own" => some IpcpKind.creqIp | "creq-dns" => some .creqDns | "creq-none" => some .creqNone
        | "cack" => some .cack | _ => none
      pure (.ipcp m sid k)
  | ["ip", m, sid] => do let m ← parseTagged 'm' m; let sid ← sid.toNat?; pure (.ip m sid)
  | ["sweep"] => some (.sweep [])
  | _ => none

/-! ### the string layer of the monitor: the observation line → `PppoeMon.Obs`
   (the monitor itself is `PppoeMon.monitorCore`, proved silent on every model history) -/

def parseSeen (s : String) : List Seen :=
  if s == "-" then [] else
  (s.splitOn ",").filterMap fun item =>
    match item.splitOn ":" with
    | [sid, m, st, _, ip] => do
        let sid ← sid.toNat?; let m ← parseTagged 'm' m
        pure { sid := sid, mac := m, est := st == "EST", hasIp := ip != "-", addr := ip.toNat?, raw := item }
    | _ => none

def field (impl key : String) : String :=
  match (splitTokens impl).find? (fun t => t.startsWith (key ++ "=")) with
  | some t => (t.drop (key.length + 1)).toString
  | none => ""

def parseSent (s : String) : List Sent :=
  if s == "-" || s.isEmpty then [] else
  (s.splitOn ",").filterMap fun item =>
    match (item.splitOn ">") with
    | [l, _] => match l.splitOn ":" with
      | [k, sid] => sid.toNat?.map fun n =>
          { sid := n, pads := k == "PADS", ipcpAns := k == "IPCPACK" || k.startsWith "IPCPNAK[",
            ack := k == "IPCPACK", kind := k }
      | _ => none
    | _ => none

def parseObs (impl : String) : Obs :=
  let (free, alloc) := match (field impl "pool").splitOn "/" with
    | [f, a] => (f.toNat?.getD 0, a.toNat?.getD 0)
    | _ => (0, 0)
  let held := (let s := field impl "held"; if s == "-" || s.isEmpty then [] else s.splitOn ",").filterMap fun item =>
    match item.splitOn ":" with
    | [a, b] => do let a ← a.toNat?; let b ← b.toNat?; pure (a, b)
    | _ => none
  let freeL := (let s := field impl "free"; if s == "-" || s.isEmpty then [] else s.splitOn ",").filterMap (·.toNat?)
  { seen := parseSeen (field impl "sess"), sent := parseSent (field impl "sent"), free := free, alloc := alloc,
    held := held, freeL := freeL }

def monitor (mn : Mon) (i : In) (impl : String) : Mon × List (String × String × String) :=
  monitorCore mn i (parseObs impl)

structure St where
  model : Option Srv := none
  mon : Mon := {}
  /-- Server.Stop() was called: the receive loop is gone, every later frame is inert -/
  stopped : Bool := false
  /-- the timed layer over the model (`Bng.PppoeTimed`): hours since the last frame the server accepted on each session -/
  idle : AMap Nat Nat := []
  /-- the same clock kept by the MONITOR from the implementation's observations alone (owner of a session = the MAC
      its PADS went to): judges which sessions a timed sweep pass may and must remove -/
  midle : AMap Nat Nat := []
  /-- the PAP request whose handler waits inside the RADIUS call (`Bng.PppoePark`) -/
  parked : Option Parked := none

def parsePIn (toks : List String) : Option PIn :=
  match toks with
  | ["authpark", m, sid, g] => do
      let m ← parseTagged 'm' m; let sid ← sid.toNat?
      let pw ← match g with
        | "good" => some Pw.good | "bad" => some .bad | "empty" => some .empty | _ => none
      pure (.authpark m sid pw)
  | ["authresume", "accept"] => some (.authresume .accept)
  | ["authresume", "reject"] => some (.authresume .reject)
  | _ => none

/-- `authpark` / `authresume`: the model is `PppoePark.stepP`, the monitor is told `PppoePark.projIn` -/
def stepPark (st : St) (m : Srv) (pi : PIn) (impl : String) : St × LineResult :=
  let p : PSrv := { t := { srv := m, idle := st.idle }, parked := st.parked }
  let (p', outs, note) := stepP p pi
  match note with
  | .busy => (st, { modelObs := "busy" })
  | .notparked => (st, { modelObs := "notparked" })
  | _ =>
    let shown := showSrv p'.t.srv outs
    let pre := match note with | .parked => "parked " | .done => "done " | _ => ""
    let (mon', vs) := match projIn p pi with
      | some i => monitor st.mon i impl
      | none => (st.mon, [])
    let rt := if parseObs shown == obsOf p'.t.srv outs then [] else
      [("obs-roundtrip", "none", s!"parseObs (showSrv ·) ≠ obsOf · on the model's own observation {shown}")]
    -- the monitor's own clock: LastActivity is refreshed when the request ARRIVES (handleSession), not when RADIUS answers
    let midle1 := match pi with
      | .authpark m0 sid _ => if AMap.lookup st.mon.owner sid = some m0 then AMap.insert st.midle sid 0 else st.midle
      | _ => st.midle
    let midle' := midle1.filter fun q => mon'.prev.any (·.sid == q.1)
    ({ st with model := some p'.t.srv, mon := mon', idle := p'.t.idle, midle := midle', parked := p'.parked },
     { modelObs := pre ++ shown, viols := vs ++ rt })

def step (st : St) (toks : List String) (impl : String) : St × LineResult :=
  -- while a PAP request waits for RADIUS the receive goroutine takes no frame: only the sweep and the clock go on
  if st.parked.isSome && !(toks.head? == some "sweep" || toks.head? == some "age" || toks.head? == some "authresume") then
    (st, { modelObs := "busy" })
  else
  match toks with
  | ["new", r, bits] =>
    match bits.toNat? with
    | some b => ({ model := some (init (r == "radius") b), mon := { radius := r == "radius", total := (poolAddrs b).length } }, { modelObs := "ok" })
    | none => (st, { modelObs := "badop" })
  | ["stop"] =>
    -- Server.Stop closes the socket and nothing else: the model state is unchanged (recorded gap KF-shutdown-no-teardown)
    match st.model with
    | some m =>
      let left := (parseObs impl).seen.length
      ({ st with stopped := true },
       { modelObs := showSrv m [],
         viols := if left > 0 then
           [("residue", "KF-shutdown-no-teardown", s!"Server.Stop left {left} session(s) in place: no PADT, no address released")] else [] })
    | none => (st, { modelObs := "badop" })
  | _ =>
    if st.stopped then
      match st.model with
      | some m => (st, { modelObs := showSrv m [] })
      | none => (st, { modelObs := "badop" })
    else
    -- the timed layer: `age` moves every live session's last activity back, `sweep <h>` keeps what is not idle past <h>
    match st.model, toks with
    | some m, ["age", n] =>
      match n.toNat? with
      | some n => ({ st with idle := (stepT { srv := m, idle := st.idle } (.age n)).1.idle,
                             midle := st.mon.prev.map fun x => (x.sid, (AMap.lookup st.midle x.sid).getD 0 + n) },
                   { modelObs := showSrv m [] })
      | none => (st, { modelObs := "badop" })
    | some m, ["sweep", h] =>
      match h.toNat? with
      | some h =>
        let keep := keepFor { srv := m, idle := st.idle } h
        -- monitor: a session with traffic in the last <h> hours survives the pass, an older one does not
        let after := (parseObs impl).seen.map (·.sid)
        let vt := st.mon.prev.flatMap fun x =>
          let idle := (AMap.lookup st.midle x.sid).getD 0
          if idle ≤ h && !after.contains x.sid then
            [("swept-active", "none", s!"session {x.sid} had traffic {idle} h ago but the sweep with timeout {h} h removed it")]
          else if idle > h && after.contains x.sid then
            [("kept-idle", "none", s!"session {x.sid} has been idle for {idle} h but survived the sweep with timeout {h} h")]
          else []
        let (st', lr) := runOp st m (.sweep keep) impl
        (st', { lr with viols := lr.viols ++ vt })
      | none => (st, { modelObs := "badop" })
    | _, _ =>
    match st.model, parsePIn toks with
    | some m, some pi => stepPark st m pi impl
    | _, _ =>
    match st.model, parseIn toks with
    | some m, some i => runOp st m i impl
    | _, _ => (st, { modelObs := "badop" })
where
  runOp (st : St) (m : Srv) (i : In) (impl : String) : St × LineResult :=
      let (m', outs) := PppoeServer.step m i
      let (mon', vs) := monitor st.mon i impl
      -- the string layer is outside `monitor_silent_on_model`: cross-check it on the model's own line
      let shown := showSrv m' outs
      let rt := if parseObs shown == obsOf m' outs then [] else
        [("obs-roundtrip", "none", s!"parseObs (showSrv ·) ≠ obsOf · on the model's own observation {shown}")]
      -- Session.LastActivity: the timed model's rule (`PppoeTimed.stepT`; its server component is `step m i`)
      let idle' := (stepT { srv := m, idle := st.idle } (.frame i)).1.idle
      let midle1 := match i with
        | .lcp m0 sid _ | .pap m0 sid _ _ | .ipcp m0 sid _ | .ip m0 sid =>
          if AMap.lookup st.mon.owner sid = some m0 then AMap.insert st.midle sid 0 else st.midle
        | _ => st.midle
      let midle' := midle1.filter fun p => mon'.prev.any (·.sid == p.1)
      ({ st with model := some m', mon := mon', idle := idle', midle := midle' }, { modelObs := shown, viols := vs ++ rt })

def component : Component := { σ := St, init := {}, step := step }

end Bng.Drv.PppoeServerDrv
