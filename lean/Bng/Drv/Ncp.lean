import Bng.Drv.NcpCore
import Bng.Gen.FsmLcp
import Bng.Gen.FsmIpcp
import Bng.Gen.FsmIpv6cp
/-
  bngdrv-ncp: the C11 driver components over the REGENERATED tables Bng/Gen/Fsm*.lean (see Drv/NcpCore.lean).
-/
namespace Bng.Drv.NcpDrv
open Bng Bng.Drv Bng.Ncp

def lcp : Component :=
  { σ := DSt, init := {}, step := stepFor Bng.Gen.FsmLcp.tables .lcp }
def ipcp : Component :=
  { σ := DSt, init := {}, step := stepFor Bng.Gen.FsmIpcp.tables .ipcp }
def ipv6cp : Component :=
  { σ := DSt, init := {}, step := stepFor Bng.Gen.FsmIpv6cp.tables .ipv6cp }

end Bng.Drv.NcpDrv
