import Bng.Drv.Common
import Bng.Model.HaSync
/-
  bngdrv component `hasync` (C13): replays traces of the real HA syncers on the model and runs the C13
  monitor on the implementation's observations.

  message layer                                  (harness/cmd/hasync, `new`)
    new <capC>               => ok
    add s1 v3 | update s1 v3 | delete s1   => ok | full
    broadcast                => sent <seq> | dropped <seq> | noclient <seq> | empty
    fullsync                 => ok <table>
    attach                   => ok | already
    deliver                  => add s1 v3 <seq> | update s1 v3 <seq> | delete s1 <seq> | heartbeat <seq> | empty | noclient
    heartbeat                => sent <seq> | dropped <seq> | noclient      (broadcastLoop's keep-alive)
    streamfull               => ok <table> | noclient                      (a `full` message handed to handleSSEData)
    disconnect               => ok | notconnected
    store | recv | active    => <table>            table = s1=3,s2=4 sorted by id, or -
  end to end over loopback                       (`e2e`)
    add … | update … | delete …  => ok            (change + the broadcaster drains it + the stream delivers it)
    connect                  => ok req=S200,T200   (full sync, then stream attach; req = the standby's requests as the
                                                    network saw them complete)
    gapconnect               => ok <table> req=S200  (full sync answered, stream request held back)
    release                  => ok req=T200        (the held stream request goes through)
    streamfail               => ok <table> req=S200,T503   (snapshot answered, stream endpoint answers 503)
    streamup                 => ok req=S200,T200           (the endpoint works again; the standby's own retry attaches)
    cut                      => ok
    settle                   => <table>            (standby table once it stopped changing)
    ghost open | ghost close => ok | already | none   (another stream client of the active on the same host)
    active                   => <table>
-/
namespace Bng.Drv.HaSyncDrv
open Bng Bng.Drv Bng.HaSync

structure St where
  model : Option HaSync.State := none
  mon   : Mon := {}
  e2e   : Bool := false
  up    : Bool := false      -- e2e: the harness asked for the link to be up
  gap   : Bool := false      -- e2e: full sync done, stream request held
  ghost : Bool := false      -- e2e: another stream client of the active is connected
  faulty : Bool := false     -- e2e: the stream endpoint is failing (streamfail … streamup)
  pc    : Pc := .top         -- e2e: where the standby's connection loop stands

def showT (t : Table) : String := showTable (sorted t)

def showKind : Kind → String
  | .add => "add" | .update => "update" | .delete => "delete" | .heartbeat => "heartbeat"

def showObs : Obs → String
  | .ok => "ok" | .full => "full" | .already => "already" | .notconnected => "notconnected"
  | .empty => "empty" | .noclient => "noclient"
  | .lost n => s!"noclient {n}"
  | .sent n => s!"sent {n}"
  | .dropped n => s!"dropped {n}"
  | .synced t => s!"ok {showT t}"
  | .applied m => match m.kind with
    | .delete => s!"delete s{m.key} {m.seq}"
    | .heartbeat => s!"heartbeat {m.seq}"
    | k => s!"{showKind k} s{m.key} v{m.val} {m.seq}"

def parseTable (s : String) : Option (List (Nat × Nat)) :=
  if s == "-" then some [] else
  (s.splitOn ",").mapM fun item =>
    match item.splitOn "=" with
    | [k, v] => do let k ← parseTagged 's' k; let v ← v.toNat?; pure (k, v)
    | _ => none

def parseChange (toks : List String) : Option (Kind × Nat × Nat) :=
  match toks with
  | ["add", k, v] => do let k ← parseTagged 's' k; let v ← parseTagged 'v' v; pure (.add, k, v)
  | ["update", k, v] => do let k ← parseTagged 's' k; let v ← parseTagged 'v' v; pure (.update, k, v)
  | ["delete", k] => do let k ← parseTagged 's' k; pure (.delete, k, 0)
  | _ => none

def opOfChange : Kind × Nat × Nat → Op
  | (.add, k, v) => .add k v
  | (.update, k, v) => .update k v
  | (.delete, k, _) => .delete k
  | (.heartbeat, _, _) => .heartbeat

/-- sessions on which two tables (sorted association lists) differ -/
def diffKeys (a b : List (Nat × Nat)) : List Nat :=
  ((a.map (·.1)) ++ (b.map (·.1))).eraseDups.filter fun k => a.lookup k != b.lookup k

/-- the clause under which a verdict is attributed to a recorded finding, decided on the MODEL's history variables
    after the step (Bng.Spec.C13.excl_D42 / excl_D43 / excl_D43_stream), narrowed to what actually failed:
    `diverged` — every session on which the standby differs from the active must be in the scope of the finding;
    `order`    — every change the standby skipped must be one the full client channel dropped in this attachment. -/
def clause (m : HaSync.State) (verdict : String) (differing : List Nat) (skipped : List Nat) : String :=
  if verdict == "order" then
    (if !skipped.isEmpty && skipped.all (fun sq => m.dropped.any (·.seq == sq)) then "D43" else "none")
  else if verdict == "diverged" then
    (if differing.isEmpty then "none"
     else if differing.all (fun k => m.gapKeys.contains k) then "D42"
     else if differing.all (fun k => m.fullKeys.contains k) then "D43"
     else if differing.all (fun k => m.gapKeys.contains k || m.fullKeys.contains k) then "D43"
     else "none")
  else "none"

def finish (st : St) (m' : HaSync.State) (shown : String) (evs : List Ev) : St × LineResult :=
  let (mon', vs) := checkAll st.mon evs
  -- what failed, for the attribution
  let differing := evs.foldl (fun acc e => match e with
    | .table l => acc ++ diffKeys l (sorted st.mon.act)
    | _ => acc) []
  let before := (st.mon.strm.getD []).map (·.seq)
  let after := (mon'.strm.getD []).map (·.seq)
  let appliedSeq := evs.foldl (fun acc e => match e with
    | .applied _ _ _ sq => some sq
    | _ => acc) (none : Option Nat)
  let skipped := before.filter fun sq => !after.contains sq && some sq != appliedSeq
  ({ st with model := some m', mon := mon' },
   { modelObs := shown, viols := vs.map fun (n, d) => (n, clause m' n differing skipped, d) })

/-- drain: the broadcaster empties the change queue, the stream delivers what it holds -/
def drain (fuel : Nat) (m : HaSync.State) : HaSync.State :=
  match fuel with
  | 0 => m
  | n + 1 =>
    if !m.pending.isEmpty then drain n (HaSync.broadcast m).1
    else match m.client with
      | some (_ :: _) => drain n (HaSync.deliver m).1
      | _ => m

def stepMsg (st : St) (m : HaSync.State) (toks : List String) (impl : String) : St × LineResult :=
  let itoks := splitTokens impl
  match parseChange toks with
  | some ch =>
    let (m', o) := HaSync.step m (opOfChange ch)
    finish st m' (showObs o) [.pushed ch.1 ch.2.1 ch.2.2 (impl == "ok")]
  | none =>
  match toks with
  | ["broadcast"] =>
    let (m', o) := HaSync.broadcast m
    finish st m' (showObs o) [.broadcast]
  | ["fullsync"] =>
    let (m', o) := HaSync.fullSync m
    let ev := match itoks with
      | ["ok", t] => match parseTable t with
        | some l => Ev.fullSynced l
        | none => .nop
      | _ => .nop
    finish st m' (showObs o) [ev]
  | ["streamfull"] =>
    let (m', o) := HaSync.streamFull m
    let ev := match itoks with
      | ["ok", t] => match parseTable t with
        | some l => Ev.fullSynced l
        | none => .nop
      | _ => .nop
    finish st m' (showObs o) [ev]
  | ["heartbeat"] =>
    let (m', o) := HaSync.heartbeat m
    finish st m' (showObs o) []
  | ["attach"] =>
    let (m', o) := HaSync.attach m
    finish st m' (showObs o) [if impl == "ok" then .attached else .nop]
  | ["disconnect"] =>
    let (m', o) := HaSync.disconnect m
    finish st m' (showObs o) [if impl == "ok" then .disconnected else .nop]
  | ["deliver"] =>
    let (m', o) := HaSync.deliver m
    let ev := match itoks with
      | ["empty"] => Ev.nothingToApply
      | ["delete", k, sq] => match parseTagged 's' k, sq.toNat? with
        | some k, some sq => .applied .delete k 0 sq
        | _, _ => .nop
      | [kd, k, v, sq] => match parseTagged 's' k, parseTagged 'v' v, sq.toNat? with
        | some k, some v, some sq =>
          if kd == "add" then .applied .add k v sq else if kd == "update" then .applied .update k v sq else .nop
        | _, _, _ => .nop
      | _ => .nop
    finish st m' (showObs o) [ev]
  | ["store"] =>
    finish st m (showT m.store) [match parseTable impl with | some l => .table l | none => .nop]
  | ["recv"] => finish st m (showT m.received) []
  | ["active"] => finish st m (showT m.table) []
  | _ => (st, { modelObs := "badop" })

/-- `req=S200,T503` → [(false, 200), (true, 503)] -/
def parseReqs (impl : String) : List (Bool × Nat) :=
  match (splitTokens impl).find? (·.startsWith "req=") with
  | none => []
  | some t =>
    let body := (t.drop 4).toString
    if body == "-" then [] else
    (body.splitOn ",").filterMap fun r =>
      match r.toList with
      | 'S' :: rest => (String.ofList rest).toNat?.map fun n => (false, n)
      | 'T' :: rest => (String.ofList rest).toNat?.map fun n => (true, n)
      | _ => none

def showReqs (l : List LoopEv) : String :=
  let rs := l.filterMap fun e => match e with
    | .syncOk => some "S200" | .syncFail => some "S503" | .streamOk => some "T200" | .streamFail => some "T503"
    | _ => none
  if rs.isEmpty then "-" else ",".intercalate rs

/-- the standby's loop takes these steps: advance its program counter (refusing what `standbyLoop` cannot do) and
    apply what they mean to the data model -/
def loopDo (st : St) (m : HaSync.State) (evs : List LoopEv) : Option (St × HaSync.State) :=
  match loopRun st.pc evs with
  | none => none
  | some pc' =>
    let ops := evs.flatMap LoopEv.toOps
    some ({ st with pc := pc' }, drain 64 (ops.foldl (fun acc op => (HaSync.step acc op).1) m))

def tableEv (itoks : List String) : Ev :=
  match itoks with
  | "ok" :: t :: _ => match parseTable t with
    | some l => Ev.fullSynced l
    | none => .nop
  | _ => .nop

def stepE2E (st : St) (m : HaSync.State) (toks : List String) (impl : String) : St × LineResult :=
  let itoks := splitTokens impl
  let reqs := Ev.requests (parseReqs impl)
  let bad : St × LineResult := (st, { modelObs := "badloop" })
  match parseChange toks with
  | some ch =>
    let (m1, o) := HaSync.step m (opOfChange ch)
    let m' := drain 64 m1
    finish st m' (showObs o) [.pushed ch.1 ch.2.1 ch.2.2 (impl == "ok"), .broadcast, .drained]
  | none =>
  match toks with
  | ["connect"] =>
    if st.up then (st, { modelObs := "already" }) else
    let evs := [LoopEv.syncOk, .streamOk]
    match loopDo st m evs with
    | none => bad
    | some (st, m') =>
      finish { st with up := true } m' s!"ok req={showReqs evs}"
        ([reqs] ++ (if impl.startsWith "ok" then [.fullSyncedBlind, .attached] else []))
  | ["gapconnect"] =>
    if st.up then (st, { modelObs := "already" }) else
    let evs := [LoopEv.syncOk]
    match loopDo st m evs with
    | none => bad
    | some (st, m') =>
      finish { st with up := true, gap := true } m' s!"ok {showT m'.store} req={showReqs evs}" [reqs, tableEv itoks]
  | ["release"] =>
    if !st.up then (st, { modelObs := "notconnected" }) else
    if !st.gap then finish st m "ok" [] else
    let evs := [LoopEv.streamOk]
    match loopDo st m evs with
    | none => bad
    | some (st, m') =>
      finish { st with gap := false } m' s!"ok req={showReqs evs}" ([reqs] ++ (if impl.startsWith "ok" then [.attached] else []))
  | ["streamfail"] =>
    -- the snapshot is answered, the stream attempt fails, the standby backs off and is about to sync again
    if st.up then (st, { modelObs := "already" }) else
    let evs := [LoopEv.syncOk, .streamFail, .wake]
    match loopDo st m evs with
    | none => bad
    | some (st, m') =>
      finish { st with up := true, faulty := true } m' s!"ok {showT m'.store} req={showReqs evs}" [reqs, tableEv itoks]
  | ["streamup"] =>
    if !st.up || !st.faulty then (st, { modelObs := "none" }) else
    let evs := [LoopEv.syncOk, .streamOk]
    match loopDo st m evs with
    | none => bad
    | some (st, m') =>
      finish { st with faulty := false } m' s!"ok req={showReqs evs}"
        ([reqs] ++ (if impl.startsWith "ok" then [.fullSyncedBlind, .attached] else []))
  | ["cut"] =>
    if !st.up then (st, { modelObs := "notconnected" }) else
    let evs := match st.pc with
      | .streaming => [LoopEv.streamEnd, .wake]
      | .afterSync => [LoopEv.streamFail, .wake]
      | _ => []
    match loopDo st m evs with
    | none => bad
    | some (st, m') =>
      let m' := (HaSync.disconnect m').1
      finish { st with up := false, gap := false, faulty := false } m' "ok" [.disconnected]
  | ["settle"] =>
    let m' := drain 64 m
    finish st m' (showT m'.store) [.drained, match parseTable impl with | some l => .table l | none => .nop]
  | ["active"] => finish st m (showT m.table) []
  -- another stream client of the active comes and goes: the standby's stream is unaffected (the model has one
  -- standby; the other client's channel is not part of it)
  | ["ghost", "open"] =>
    if st.ghost then (st, { modelObs := "already" }) else ({ st with ghost := true }, { modelObs := "ok" })
  | ["ghost", "close"] =>
    if st.ghost then ({ st with ghost := false }, { modelObs := "ok" }) else (st, { modelObs := "none" })
  | _ => (st, { modelObs := "badop" })

def step (st : St) (toks : List String) (impl : String) : St × LineResult :=
  match toks with
  | ["new", c] =>
    match c.toNat? with
    | some c => ({ model := some (HaSync.init { capC := c, capP := 1000 }) }, { modelObs := "ok" })
    | none => (st, { modelObs := "badop" })
  | ["e2e"] => ({ model := some (HaSync.init { capC := 100, capP := 1000 }), e2e := true }, { modelObs := "ok" })
  | _ =>
    match st.model with
    | none => (st, { modelObs := "badop" })
    | some m => if st.e2e then stepE2E st m toks impl else stepMsg st m toks impl

def component : Component := { σ := St, init := {}, step := step }

end Bng.Drv.HaSyncDrv
