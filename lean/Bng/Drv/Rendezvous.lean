import Bng.Drv.Common
import Bng.Model.Rendezvous
/-
  bngdrv component `rendezvous`: replays traces of real pool.PeerPool instances on the model and runs
  the C17 monitor on the implementation's answers.  One sequence = one cluster of pools.

    node <i> <self> <peer,peer,…|->   => ok        NewPeerPool(NodeID=self, Peers=… in this order) as pool #i
    addpeer <i> <id>                  => ok
    removepeer <i> <id>               => ok
    sethealth <i> <id> 0|1            => ok        (verif hook: what checkPeer does after 3 failures / a success)
    q <i> <key>                       => owner=<id> local=0|1 ranked=<id,id,…|-> howner=<id>
    alloc <i> <key>                   => served=<id> | error     PeerPool.Allocate at pool #i (in-memory transport)

  ids and keys are arbitrary byte strings written `x<hex>` (`x` alone is the empty string).
  The hash is the real one: FNV-1a 64 of key and node id, xor, the 64-bit mixer of hashCombine.
-/
namespace Bng.Drv.RendezvousDrv
open Bng Bng.Drv Bng.Rendezvous Bng.Rendezvous.Real

def parseId (s : String) : Option Bytes :=
  match s.toList with
  | 'x' :: rest => if rest.isEmpty then some [] else parseHexBytes (String.ofList rest)
  | _ => none

def showId (b : Bytes) : String := "x" ++ bytesToHex b

def parseIds (s : String) : Option (List Bytes) :=
  if s == "-" then some [] else (s.splitOn ",").mapM parseId

def showIds (l : List Bytes) : String := if l.isEmpty then "-" else ",".intercalate (l.map showId)

structure Abs where
  self : Bytes
  set : List Bytes          -- the peer set the operator configured (inputs only)
  unhealthy : List Bytes

structure St where
  pools : List (Nat × Pool Bytes) := []
  abs : List (Nat × Abs) := []
  mon : Spec.Mon Bytes Bytes := {}

def setPool (l : List (Nat × Pool Bytes)) (i : Nat) (p : Pool Bytes) : List (Nat × Pool Bytes) :=
  (i, p) :: l.filter (fun q => q.1 != i)
def setAbs (l : List (Nat × Abs)) (i : Nat) (a : Abs) : List (Nat × Abs) :=
  (i, a) :: l.filter (fun q => q.1 != i)

/-- `owner=… local=… ranked=… howner=…` -/
def parseAnswer (impl : String) : Option (Bytes × Bool × List Bytes × Bytes) :=
  match splitTokens impl with
  | [o, l, r, h] =>
    match o.splitOn "=", l.splitOn "=", r.splitOn "=", h.splitOn "=" with
    | ["owner", o], ["local", l], ["ranked", r], ["howner", h] => do
      let o ← parseId o
      let r ← parseIds r
      let h ← parseId h
      pure (o, l == "1", r, h)
    | _, _, _, _ => none
  | _ => none

def mk (vs : List Spec.Verdict) : List (String × String × String) := vs.map fun (n, d) => (n, "none", d)

def viewOf (a : Abs) : List Bytes × List Bytes :=
  (Spec.canon bytesLe a.set, Spec.canon bytesLe (a.unhealthy.filter (fun x => a.set.contains x)))

def step (st : St) (toks : List String) (impl : String) : St × LineResult :=
  let bad : St × LineResult := (st, { modelObs := "badop" })
  match toks with
  | ["node", i, self, peers] =>
    match i.toNat?, parseId self, parseIds peers with
    | some i, some self, some peers =>
      ({ st with pools := setPool st.pools i (newPool bytesLe self peers),
                 abs := setAbs st.abs i { self := self, set := self :: peers, unhealthy := [] } },
       { modelObs := "ok" })
    | _, _, _ => bad
  | [op, i, x] =>
    match i.toNat?, parseId x with
    | some i, some x =>
      match st.pools.lookup i, st.abs.lookup i with
      | some p, some a =>
        if op == "addpeer" then
          ({ st with pools := setPool st.pools i (addPeer bytesLe p x),
                     abs := setAbs st.abs i { a with set := x :: a.set } }, { modelObs := "ok" })
        else if op == "removepeer" then
          ({ st with pools := setPool st.pools i (removePeer p x),
                     abs := setAbs st.abs i { a with set := a.set.filter (fun y => y != x) } }, { modelObs := "ok" })
        else if op == "q" then
          let o := getOwner ([] : Bytes) score p x
          let l := isLocalOwner ([] : Bytes) score p x
          let r := rankedOf score p x
          let h := getHealthyOwner score p x
          let shown := s!"owner={showId o} local={if l then "1" else "0"} ranked={showIds r} howner={showId h}"
          match parseAnswer impl with
          | some (io, il, ir, ih) =>
            let (S, U) := viewOf a
            let (mon', vs) := Spec.checkQuery bytesLe st.mon a.self S U x io il ir ih
            ({ st with mon := mon' }, { modelObs := shown, viols := mk vs })
          | none => (st, { modelObs := shown })
        else if op == "alloc" then
          let h := servedBy score p x
          let reachable := h == p.self || st.pools.any (fun q => q.2.self == h)
          let shown := if reachable then s!"served={showId h}" else "error"
          match (impl.splitOn "=") with
          | ["served", v] => match parseId v with
            | some v =>
              let (S, U) := viewOf a
              let views := st.abs.map fun (j, b) => (j, b.self, (viewOf b).1, (viewOf b).2)
              let (mon', vs) := Spec.checkServe st.mon views i a.self S U x v
              ({ st with mon := mon' }, { modelObs := shown, viols := vs })
            | none => (st, { modelObs := shown })
          | _ => (st, { modelObs := shown })
        else bad
      | _, _ => bad
    | _, _ => bad
  | ["sethealth", i, x, b] =>
    match i.toNat?, parseId x with
    | some i, some x =>
      match st.pools.lookup i, st.abs.lookup i with
      | some p, some a =>
        if b == "0" || b == "1" then
          let healthy := b == "1"
          ({ st with pools := setPool st.pools i (setHealth p x healthy),
                     abs := setAbs st.abs i { a with unhealthy := if healthy then a.unhealthy.filter (fun y => y != x)
                                                                    else x :: a.unhealthy } },
           { modelObs := "ok" })
        else bad
      | _, _ => bad
    | _, _ => bad
  | _ => bad

def component : Component := { σ := St, init := {}, step := step }

end Bng.Drv.RendezvousDrv
