import Bng.Drv.Common
import Bng.Model.Rendezvous
/-
  bngdrv component `rendezvous`: replays traces of real pool.PeerPool instances on the model and runs
  the C17 monitor on the implementation's answers.  One sequence = one cluster of pools.

    node <i> <self> <peer,peer,…|->   => ok        NewPeerPool(NodeID=self, Peers=… in this order) as pool #i
    addpeer <i> <id>                  => ok
    removepeer <i> <id>               => ok
    sethealth <i> <id> 0|1            => ok        (verif hook: what checkPeer does after 3 failures / a success)
    q <i> <key>                       => owner=<id> local=0|1 ranked=<id,id,…|-> howner=<id> addr=<id>
                                                   (addr = getPeerAddr(howner): where a request for the healthy owner is sent)
    alloc <i> <key>                   => served=<id> | error     PeerPool.Allocate at pool #i (in-memory transport: an
                                                   address reaches the first pool registered under it; every pool is
                                                   registered under its node id and under <node id>:8081)
    churn <i> <key> <rounds> <id,id,…> => owners=<id,…> ranked=<id;id;…|id;…>   (race stress, see `churn` below)

  ids and keys are arbitrary byte strings written `x<hex>` (`x` alone is the empty string).
  The hash is the real one: FNV-1a 64 of key and node id, xor, the 64-bit mixer of hashCombine.
-/
namespace Bng.Drv.RendezvousDrv
open Bng Bng.Drv Bng.Rendezvous Bng.Rendezvous.Real

def parseId (s : String) : Option Bytes :=
  match s.toList with
  | 'x' :: rest => if rest.isEmpty then some [] else parseHexBytes (String.ofList rest)
  | _ => none

def showId (b : Bytes) : String := "x" ++ bytesToHex b

def parseIds (s : String) : Option (List Bytes) :=
  if s == "-" then some [] else (s.splitOn ",").mapM parseId

def showIds (l : List Bytes) : String := if l.isEmpty then "-" else ",".intercalate (l.map showId)

structure Abs where
  self : Bytes
  set : List Bytes          -- the peer set the operator configured (inputs only)
  unhealthy : List Bytes

structure St where
  pools : List (Nat × Pool Bytes) := []
  abs : List (Nat × Abs) := []
  mon : Spec.Mon Bytes Bytes := {}
  /-- per pool: PeerPool.peers as NewPeerPool left it (`cfgPeersAfterNew`) -/
  cfg : List (Nat × PeersField Bytes) := []
  /-- the transport: address ↦ node id of the pool that listens there (first registration wins) -/
  reg : List (Bytes × Bytes) := []

/-- the node id followed by ":8081" -/
def withPort (b : Bytes) : Bytes := b ++ ":8081".toUTF8.toList

def cfgOf (cfg : List (Nat × PeersField Bytes)) (i : Nat) (p : Pool Bytes) : List Bytes :=
  match cfg.lookup i with
  | some pf => peersOf pf p.nodes
  | none => []

def register (reg : List (Bytes × Bytes)) (self : Bytes) : List (Bytes × Bytes) :=
  let r1 := if reg.any (·.1 == self) then reg else reg ++ [(self, self)]
  if r1.any (·.1 == withPort self) then r1 else r1 ++ [(withPort self, self)]

def setPool (l : List (Nat × Pool Bytes)) (i : Nat) (p : Pool Bytes) : List (Nat × Pool Bytes) :=
  (i, p) :: l.filter (fun q => q.1 != i)
def setAbs (l : List (Nat × Abs)) (i : Nat) (a : Abs) : List (Nat × Abs) :=
  (i, a) :: l.filter (fun q => q.1 != i)

/-- `owner=… local=… ranked=… howner=… addr=…` -/
def parseAnswer (impl : String) : Option (Bytes × Bool × List Bytes × Bytes × Bytes) :=
  match splitTokens impl with
  | [o, l, r, h, a] =>
    match o.splitOn "=", l.splitOn "=", r.splitOn "=", h.splitOn "=", a.splitOn "=" with
    | ["owner", o], ["local", l], ["ranked", r], ["howner", h], ["addr", a] => do
      let o ← parseId o
      let r ← parseIds r
      let h ← parseId h
      let a ← parseId a
      pure (o, l == "1", r, h, a)
    | _, _, _, _, _ => none
  | _ => none

def mk (vs : List Spec.Verdict) : List (String × String × String) := vs.map fun (n, d) => (n, "none", d)

def viewOf (a : Abs) : List Bytes × List Bytes :=
  (Spec.canon bytesLe a.set, Spec.canon bytesLe (a.unhealthy.filter (fun x => a.set.contains x)))

def step (st : St) (toks : List String) (impl : String) : St × LineResult :=
  let bad : St × LineResult := (st, { modelObs := "badop" })
  match toks with
  | ["node", i, self, peers] =>
    match i.toNat?, parseId self, parseIds peers with
    | some i, some self, some peers =>
      ({ st with pools := setPool st.pools i (newPool bytesLe self peers),
                 abs := setAbs st.abs i { self := self, set := self :: peers, unhealthy := [] },
                 cfg := (i, peersFieldNew bytesLe ([] : Bytes) self peers) :: st.cfg.filter (fun q => q.1 != i),
                 reg := register st.reg self },
       { modelObs := "ok" })
    | _, _, _ => bad
  | [op, i, x] =>
    match i.toNat?, parseId x with
    | some i, some x =>
      match st.pools.lookup i, st.abs.lookup i with
      | some p, some a =>
        if op == "addpeer" then
          ({ st with pools := setPool st.pools i (addPeer bytesLe p x),
                     cfg := st.cfg.map (fun q => if q.1 == i then (i, peersFieldAdd q.2 p.nodes x) else q),
                     abs := setAbs st.abs i { a with set := x :: a.set } }, { modelObs := "ok" })
        else if op == "removepeer" then
          ({ st with pools := setPool st.pools i (removePeer p x),
                     cfg := st.cfg.map (fun q => if q.1 == i then (i, peersFieldRemove q.2 p.nodes x) else q),
                     abs := setAbs st.abs i { a with set := a.set.filter (fun y => y != x) } }, { modelObs := "ok" })
        else if op == "q" then
          let o := getOwner ([] : Bytes) score p x
          let l := isLocalOwner ([] : Bytes) score p x
          let r := rankedOf score p x
          let h := getHealthyOwner score p x
          let ad := peerAddr withPort (cfgOf st.cfg i p) h
          let shown := s!"owner={showId o} local={if l then "1" else "0"} ranked={showIds r} howner={showId h} addr={showId ad}"
          match parseAnswer impl with
          | some (io, il, ir, ih, ia) =>
            let (S, U) := viewOf a
            let (mon', vs) := Spec.checkQuery bytesLe st.mon a.self S U x io il ir ih
            -- a forwarded request must be addressed to the node it is meant for: its id, or its id with the port
            let va := if ia == ih || ia == withPort ih then [] else
              [("addr", "none", s!"a request for {showId ih} is sent to {showId ia}, which names another node")]
            ({ st with mon := mon' }, { modelObs := shown, viols := mk vs ++ va })
          | none => (st, { modelObs := shown })
        else if op == "alloc" then
          let shown := match servedVia withPort (fun ad => st.reg.lookup ad) (cfgOf st.cfg i p) score p x with
            | some n => s!"served={showId n}"
            | none => "error"
          match (impl.splitOn "=") with
          | ["served", v] => match parseId v with
            | some v =>
              let (S, U) := viewOf a
              let views := st.abs.map fun (j, b) => (j, b.self, (viewOf b).1, (viewOf b).2)
              let (mon', vs) := Spec.checkServe st.mon views i a.self S U x v
              ({ st with mon := mon' }, { modelObs := shown, viols := vs })
            | none => (st, { modelObs := shown })
          | _ => (st, { modelObs := shown })
        else bad
      | _, _ => bad
    | _, _ => bad
  | ["churn", i, k, _rounds, victims] =>
    -- race stress: while a writer removed and re-added each victim, readers saw these owners / serving nodes / ranked lists;
    -- each must be the model's answer for one of the memberships the writer went through
    match i.toNat?, parseId k, parseIds victims with
    | some i, some k, some vs =>
      match st.pools.lookup i with
      | some p =>
        let members := p :: vs.map (fun v => removePeer p v)
        let cfgP := cfgOf st.cfg i p
        let okOwners := members.flatMap fun m =>
          [getOwner ([] : Bytes) score m k, getHealthyOwner score m k] ++
            (match servedVia withPort (fun ad => st.reg.lookup ad) cfgP score m k with | some n => [n] | none => [])
        let okRanked := members.map fun m => rankedOf score m k
        let p' := vs.foldl (fun q v => addPeer bytesLe (removePeer q v) v) p
        let pf' := vs.foldl (fun (acc : PeersField Bytes × Pool Bytes) v =>
          let q1 := removePeer acc.2 v
          (peersFieldAdd (peersFieldRemove acc.1 acc.2.nodes v) q1.nodes v, addPeer bytesLe q1 v))
          ((st.cfg.lookup i).getD { frozen := [], tail := none }, p)
        let st' := { st with pools := setPool st.pools i p',
                             cfg := st.cfg.map (fun q => if q.1 == i then (i, pf'.1) else q) }
        let field := fun (key : String) => ((splitTokens impl).filterMap fun t =>
          if t.startsWith key then some (t.drop key.length).toString else none).head?
        match field "owners=" >>= parseIds, field "ranked=" with
        | some seen, some rk =>
          let lists := (rk.splitOn "|").map fun l => parseIds (l.replace ";" ",")
          let v1 := seen.filterMap fun o => if okOwners.contains o then none else
            some ("churn", "none", s!"a reader was given owner {showId o}, the owner under no membership the writer went through")
          let v2 := lists.filterMap fun l => match l with
            | some l => if okRanked.contains l then none else
                some ("churn", "none", s!"a reader ranked over {showIds l}: the ranking of no membership the writer went through")
            | none => some ("churn", "none", "unreadable ranked list")
          let vs' := v1 ++ v2
          (st', { modelObs := if vs'.isEmpty then impl else s!"owners within {showIds okOwners.eraseDups}", viols := vs' })
        | _, _ => (st', { modelObs := "owners=… ranked=…" })
      | none => bad
    | _, _, _ => bad
  | ["sethealth", i, x, b] =>
    match i.toNat?, parseId x with
    | some i, some x =>
      match st.pools.lookup i, st.abs.lookup i with
      | some p, some a =>
        if b == "0" || b == "1" then
          let healthy := b == "1"
          ({ st with pools := setPool st.pools i (setHealth p x healthy),
                     abs := setAbs st.abs i { a with unhealthy := if healthy then a.unhealthy.filter (fun y => y != x)
                                                                    else x :: a.unhealthy } },
           { modelObs := "ok" })
        else bad
      | _, _ => bad
    | _, _ => bad
  | _ => bad

def component : Component := { σ := St, init := {}, step := step }

end Bng.Drv.RendezvousDrv
