import Bng.Drv.Common
import Bng.Model.PeerCluster
import Bng.Model.PeerClusterFault
/-
  bngdrv component `peercluster`: several real pool.PeerPool nodes of one process, connected by an
  in-memory HTTP transport, all configured with the same peers and the same pool network.

    new <nethex> <ones> <gwhex> <N>   => ok
    alloc <i> s3      => ok <hex> served=<j> ranked=<j1,j2,…> | exhausted served=<j> ranked=…
    release <i> s3    => ok served=<j> ranked=…
    get <i> s3        => <hex> owner=<j> | none owner=<j>
    health <i> <j> 0|1 => ok                       (node i's view of node j)
    stats <i>         => <allocated> <available> <total>
    burst <i> s3 <k>  => as alloc | mixed <answer>,<answer>,… served=<j> ranked=…
    audit <i>         => ok | bad lost=<n> stale=<n> norev=<n> dup=<n>
    fault resp|status|body on|off|once => ok      the RESPONSE of forwarded requests is lost after the peer handled them
                                                   (Do error | 502 | truncated JSON body - allocations only); then
    alloc / release   => lost served=<j> ranked=…  the requester got an error (`Bng.PeerClusterFault`; suspended for a burst)

  `ranked` (the rendezvous ranking node i computes) and `owner` (GetOwner) are taken from the
  implementation's answer and fed to the model as inputs; `served` (getHealthyOwner) is computed by the model.

  Monitors.  Per node: the free-list pool monitor on what that node handed out.  Across the cluster:
    unique      an address given to a subscriber while another subscriber holds it at ANOTHER node
                → finding KF-peerpool-shared-range (every node builds the same free list)
    idempotent  a subscriber that holds an address at one node is given a different one by another node
    leak        a release was answered ok but the subscriber still holds an address at another node
    agree       the rank-first owner answers Get with none while the subscriber holds an address elsewhere
                → finding KF-peerpool-failover-orphan, only if one of the two routings involved was a
                  fallback routing: served node ≠ top of the ranking AND the MODEL's health view of the entry
                  node marks the top of the ranking unhealthy at that moment
    count / total / exhaustion / agree at a node that allocated in a request whose ANSWER WAS LOST
                → finding KF-peerpool-lost-response, only if the figure is off by exactly the number of the node's
                  (node, subscriber) pairs in `PeerClusterFault.FState.pending` (Stats, exhaustion), resp. the
                  subscriber asked about is such a pair (Get)
-/
namespace Bng.Drv.PeerClusterDrv
open Bng Bng.Drv Bng.FreeList Bng.PeerCluster Bng.PeerClusterFault

structure Holding where
  addr : Nat
  /-- the request that created it was routed past the rank-first owner -/
  fallback : Bool

structure St where
  model : Option PeerCluster.State := none
  mgeo : Spec.MGeo := { g := { lo := 0, step := 1, units := 0, totalReported := 0 } }
  /-- per node: the pool monitor of what that node handed out -/
  msts : AMap Nat Spec.MSt := []
  /-- per node: subscriber ↦ holding (with how it was routed) -/
  holds : AMap Nat (AMap Nat Holding) := []
  n : Nat := 0
  /-- the books of `Bng.PeerClusterFault`: the armed response fault, what the MODEL's requesters were told, and the
      (node, subscriber) pairs whose allocation answer was lost (clause of KF-peerpool-lost-response) -/
  fault : Option Fault := none
  told : AMap (Nat × Nat) Nat := []
  pending : List (Nat × Nat) := []

def parseList (s : String) : Option (List Nat) :=
  if s == "-" then some [] else (s.splitOn ",").mapM (·.toNat?)

def showList (l : List Nat) : String := if l.isEmpty then "-" else ",".intercalate (l.map toString)

def kv (pref : String) (tok : String) : Option String :=
  if tok.startsWith pref then some (tok.drop pref.length).toString else none

def flObs : FreeList.Obs → String
  | .okAddr a => s!"ok {toHex a}"
  | .ok => "ok"
  | .exhausted => "exhausted"
  | .none => "none"
  | .stats al av tot _ => s!"{al} {av} {tot}"
  | _ => "?"

def nodeHolds (st : St) (j : Nat) : AMap Nat Holding := (AMap.lookup st.holds j).getD []
def nodeMst (st : St) (j : Nat) : Spec.MSt := (AMap.lookup st.msts j).getD {}

/-- another node (≠ j) at which subscriber k has a holding -/
def elsewhere (st : St) (j k : Nat) : Option (Nat × Holding) :=
  (st.holds.filterMap fun (j', m) =>
    if j' == j then none else (AMap.lookup m k).map fun h => (j', h)).head?

/-- another node (≠ j) at which another subscriber holds address a -/
def holderElsewhere (st : St) (j k a : Nat) : Option (Nat × Nat) :=
  (st.holds.filterMap fun (j', m) =>
    if j' == j then none else
      (m.find? fun (k', h) => k' != k && h.addr == a).map fun (k', _) => (j', k')).head?

def orphanClause (a b : Bool) : String := if a || b then "KF-peerpool-failover-orphan" else "none"

def fstate (st : St) (m : PeerCluster.State) : FState := { s := m, fault := st.fault, told := st.told, pending := st.pending }
def withF (st : St) (fs : FState) : St :=
  { st with model := some fs.s, fault := fs.fault, told := fs.told, pending := fs.pending }

/-- number of subscribers for which node j allocated in a request whose answer was lost (and nobody was told since) -/
def pendingAt (st : St) (j : Nat) : Nat := (st.pending.filter (·.1 == j)).length

def lostClause (b : Bool) : String := if b then "KF-peerpool-lost-response" else "none"

def showF (ranked : List Nat) : FObs → String
  | .lost j => s!"lost served={j} ranked={showList ranked}"
  | .plain (.served j fo) => s!"{flObs fo} served={j} ranked={showList ranked}"
  | _ => "badop"

def stepB (burst : Bool) (st : St) (toks : List String) (impl : String) : St × LineResult :=
  let itoks := splitTokens impl
  match toks with
  | ["fault", kind, mode] =>
    let k := match kind with | "resp" => some Kind.resp | "status" => some Kind.status | "body" => some Kind.body | _ => none
    match st.model, k, mode with
    | some _, some k, "on" => ({ st with fault := some { kind := k, once := false } }, { modelObs := "ok" })
    | some _, some k, "once" => ({ st with fault := some { kind := k, once := true } }, { modelObs := "ok" })
    | some _, some _, "off" => ({ st with fault := none }, { modelObs := "ok" })
    | _, _, _ => (st, { modelObs := "badop" })
  | ["new", nw, o, g, n] =>
    match parseHex nw, o.toNat?, parseHex g, n.toNat? with
    | some nw, some o, some g, some n =>
      let c : V4Cfg := { net := nw, ones := o, gw := g }
      ({ model := some (PeerCluster.init (localCfg c) n), n := n,
         mgeo := { g := { lo := nw + 1, step := 1, units := c.numHosts, totalReported := 0 }, holes := [g] } },
       { modelObs := "ok" })
    | _, _, _, _ => (st, { modelObs := "badop" })
  | ["alloc", i, k] =>
    match st.model, i.toNat?, parseTagged 's' k, itoks.getLast? >>= kv "ranked=" >>= parseList with
    | some m, some i, some k, some ranked =>
      let (fs', fo) := stepF (fstate st m) (if burst then .burst i k ranked else .plain (.alloc i k ranked))
      let shown := showF ranked fo
      let st0 := st
      let st := withF st fs'
      match itoks with
      | ["ok", a, sv, _] =>
        match parseHex a, kv "served=" sv >>= (·.toNat?) with
        | some a, some j =>
          -- a FALLBACK routing: the request was served by another node than the top of the ranking AND
          -- the model's health view of the entry node i marks that top node unhealthy (a routing past a
          -- healthy owner is not covered by the finding)
          let fb := ranked.head? != some j &&
            (match ranked.head? with | some top => m.unhealthy.contains (i, top) | none => false)
          let (ms', vs) := Spec.mcheck st.mgeo (nodeMst st j) (.pool (.got k a))
          let v1 := vs.map fun (n, d) => (n, "none", d)
          let v2 := match holderElsewhere st j k a with
            | some (j', k') => [("unique", "KF-peerpool-shared-range",
                s!"value {a} given to s{k} by node {j} while s{k'} holds it at node {j'}")]
            | none => []
          let v3 := match elsewhere st j k with
            | some (j', h) => if h.addr != a then [("idempotent", orphanClause fb h.fallback,
                s!"s{k} holds {h.addr} at node {j'} and was given {a} by node {j}")] else []
            | none => []
          ({ st with msts := AMap.insert st.msts j ms',
                     holds := AMap.insert st.holds j (AMap.insert (nodeHolds st j) k { addr := a, fallback := fb }) },
           { modelObs := shown, viols := v1 ++ v2 ++ v3 })
        | _, _ => (st, { modelObs := shown })
      | ["exhausted", sv, _] =>
        match kv "served=" sv >>= (·.toNat?) with
        | some j =>
          let (_, vs) := Spec.mcheck st.mgeo (nodeMst st j) (.pool .exhausted)
          -- node j is full BECAUSE of the addresses it holds for subscribers whose answer was lost
          let p := pendingAt st0 j
          let cl := lostClause (p > 0 && (nodeMst st j).mon.length + p ≥ st.mgeo.usable)
          (st, { modelObs := shown, viols := vs.map fun (n, d) => (n, if n == "exhaustion" then cl else "none", d) })
        | none => (st, { modelObs := shown })
      | _ => (st, { modelObs := shown })
    | _, _, _, _ => (st, { modelObs := "badop" })
  | ["release", i, k] =>
    match st.model, i.toNat?, parseTagged 's' k, itoks.getLast? >>= kv "ranked=" >>= parseList with
    | some m, some i, some k, some ranked =>
      let (fs', fo) := stepF (fstate st m) (.plain (.release i k ranked))
      let shown := showF ranked fo
      let st := withF st fs'
      match itoks with
      | ["lost", sv, _] =>
        -- the peer released (its answer was lost): the pool monitor of that node and the holdings book follow the peer
        match kv "served=" sv >>= (·.toNat?) with
        | some j =>
          let (ms', _) := Spec.mcheck st.mgeo (nodeMst st j) (.pool (.released k))
          ({ st with msts := AMap.insert st.msts j ms',
                     holds := AMap.insert st.holds j (AMap.erase (nodeHolds st j) k) }, { modelObs := shown })
        | none => (st, { modelObs := shown })
      | ["ok", sv, _] =>
        match kv "served=" sv >>= (·.toNat?) with
        | some j =>
          -- a FALLBACK routing: the request was served by another node than the top of the ranking AND
          -- the model's health view of the entry node i marks that top node unhealthy (a routing past a
          -- healthy owner is not covered by the finding)
          let fb := ranked.head? != some j &&
            (match ranked.head? with | some top => m.unhealthy.contains (i, top) | none => false)
          let (ms', _) := Spec.mcheck st.mgeo (nodeMst st j) (.pool (.released k))
          let v := match elsewhere st j k with
            | some (j', h) => [("leak", orphanClause fb h.fallback,
                s!"release of s{k} answered ok by node {j} but s{k} still holds {h.addr} at node {j'}")]
            | none => []
          ({ st with msts := AMap.insert st.msts j ms',
                     holds := AMap.insert st.holds j (AMap.erase (nodeHolds st j) k) },
           { modelObs := shown, viols := v })
        | none => (st, { modelObs := shown })
      | _ => (st, { modelObs := shown })
    | _, _, _, _ => (st, { modelObs := "badop" })
  | ["get", i, k] =>
    match st.model, i.toNat?, parseTagged 's' k, itoks.getLast? >>= kv "owner=" >>= (·.toNat?) with
    | some m, some i, some k, some owner =>
      let (_, o) := PeerCluster.step m (.get i k owner)
      let shown := match o with
        | .got ow (.okAddr a) => s!"{toHex a} owner={ow}"
        | .got ow _ => s!"none owner={ow}"
        | _ => "badop"
      let here := (AMap.lookup (nodeHolds st i) k).map (·.addr)
      let v := match itoks with
        | ["none", _] =>
          if owner == i then
            match here, elsewhere st i k with
            | some a, _ => [("agree", "none", s!"node {i} owns s{k}, handed it {a}, and answers Get with none")]
            | none, some (j', h) => [("agree", orphanClause h.fallback false,
                s!"the owner node {i} answers Get(s{k}) with none while s{k} holds {h.addr} at node {j'}")]
            | none, none => []
          else []
        | [a, _] => if (parseHex a) == here && here.isSome then [] else
            [("agree", lostClause (here.isNone && st.pending.contains (i, k)),
              s!"Get(s{k}) at node {i} disagrees with what node {i} handed out")]
        | _ => []
      (st, { modelObs := shown, viols := v })
    | _, _, _, _ => (st, { modelObs := "badop" })
  | ["health", i, j, h] =>
    match st.model, i.toNat?, j.toNat?, h with
    | some m, some i, some j, "0" => ({ st with model := some (PeerCluster.step m (.health i j false)).1 }, { modelObs := "ok" })
    | some m, some i, some j, "1" => ({ st with model := some (PeerCluster.step m (.health i j true)).1 }, { modelObs := "ok" })
    | _, _, _, _ => (st, { modelObs := "badop" })
  | ["stats", i] =>
    match st.model, i.toNat? with
    | some m, some i =>
      let (_, o) := PeerCluster.step m (.stats i)
      let shown := match o with
        | .stats fo => flObs fo
        | _ => "badop"
      -- figures that are off by exactly the addresses node i holds for subscribers whose answer was lost
      let p := pendingAt st i
      let held := (nodeMst st i).mon.length
      let vs : List (String × String × String) := match itoks.map (·.toNat?) with
        | [some al, some av, some tot] =>
          (Spec.mcheck st.mgeo (nodeMst st i) (.statsFL al av tot none)).2.map fun (n, d) =>
            (n, lostClause (p > 0 &&
                  ((n == "count" && al == held + p) ||
                   (n == "total" && d.startsWith "reported available" && av + held + p == st.mgeo.usable))), d)
        | _ => []
      (st, { modelObs := shown, viols := vs })
    | _, _ => (st, { modelObs := "badop" })
  | _ => (st, { modelObs := "badop" })

def step (st : St) (toks : List String) (impl : String) : St × LineResult := stepB false st toks impl

/-- `burst <i> s3 <k>`: k concurrent Allocate calls of one subscriber entering at node i are linearised as
    ONE allocate (Bng.Spec.C01FreeList.burst_equals_single_allocate); when the implementation's answers differ
    ("mixed a,b served=… ranked=…") every answer is judged as an answer to that subscriber.
    `audit <i>`: node i's allocations, free list and reverse index compared with each other. -/
def stepX (st : St) (toks : List String) (impl : String) : St × LineResult :=
  match toks with
  | ["burst", i, k, n] =>
    match n.toNat? with
    | some (_ + 1) =>
      match splitTokens impl with
      | ["mixed", l, sv, rk] =>
        let answers := (l.splitOn ",").map fun a =>
          if a == "exhausted" then s!"exhausted {sv} {rk}" else s!"ok {a} {sv} {rk}"
        let first := stepB true st ["alloc", i, k] (answers.headD "")
        let rest := (answers.drop 1).foldl (fun (acc : St × List (String × String × String)) a =>
          let (s', r) := stepB true acc.1 ["alloc", i, k] a
          (s', acc.2 ++ r.viols)) (first.1, first.2.viols)
        (rest.1, { modelObs := first.2.modelObs, viols := rest.2 })
      | _ => stepB true st ["alloc", i, k] impl
    | _ => (st, { modelObs := "badop" })
  | ["audit", i] =>
    match st.model, i.toNat? with
    | some m, some i =>
      if (AMap.lookup m.nodes i).isNone then (st, { modelObs := "badop" }) else
      let num := fun (key : String) => ((splitTokens impl).filterMap fun t =>
        if t.startsWith key then (t.drop key.length).toString.toNat? else none).head?.getD 0
      let vs : List (String × String × String) :=
        if impl == "ok" then [] else
          (if num "lost=" > 0 then [("total", "none", s!"node {i}: {num "lost="} addresses are neither held nor free")] else []) ++
          (if num "stale=" + num "norev=" > 0 then
            [("agree", "none", s!"node {i}: reverse index disagrees with the allocations ({impl})")] else []) ++
          (if num "dup=" > 0 then [("unique", "none", s!"node {i}: {num "dup="} addresses occur twice")] else [])
      (st, { modelObs := "ok", viols := vs })
    | _, _ => (st, { modelObs := "badop" })
  | _ => step st toks impl

def component : Component := { σ := St, init := {}, step := stepX }

end Bng.Drv.PeerClusterDrv
