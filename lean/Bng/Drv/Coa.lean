import Bng.Drv.Common
import Bng.Drv.Decoders
/-
  bngdrv component `coa` (C15): replays what the real CoAServer did with each datagram.

    new                                  => ok
    md5 <hex>                            => <digest hex>          (validates Bng.Md5 against crypto/md5)
    dg <secret> <ack|nak|def|long> <hex>      => drop | act <coa|dm> <fields|-> <response hex>
    dgp <secret> <policy> <prime> <hex>  => the same for <hex>, received immediately after <prime> (the listener
                                            reuses one receive buffer: <prime>'s tail is still in it)

  Monitors, evaluated on the IMPLEMENTATION's observation with the specification predicate
  `Coa.authentic` (the one `Spec.C15.acted_iff_authentic` is about), H = MD5:
    acted-unauthentic  a handler ran / a response was sent (or the listener crashed) for a datagram
                       that is not authentic
    ignored-authentic  an authentic request was dropped (or crashed the listener)
    bad-response       the response does not carry the request's identifier, the ACK/NAK code of the
                       request kind, a correct length field, a well-formed attribute area, or a Response Authenticator
                       MD5(code,id,length,RequestAuth,attributes,secret)
-/
namespace Bng.Drv.CoaDrv
open Bng Bng.Drv Bng.Go

def responseOk (secret dgram resp : Bytes) (kind : String) : Bool :=
  decide (20 ≤ resp.length) &&
  (resp[1]? == dgram[1]?) &&
  (match kind, dgram.head?, resp.head? with
    | "coa", some 43, some c => c == 44 || c == 45
    | "dm", some 40, some c => c == 41 || c == 42
    | _, _, _ => false) &&
  (beNat ((resp.take 4).drop 2) == resp.length) &&
  Coa.attrsWF_strict (resp.drop 20) &&
  ((resp.take 20).drop 4 == Md5.md5 (resp.take 4 ++ (dgram.take 20).drop 4 ++ resp.drop 20 ++ secret))

/-- verdicts for one test datagram; `prime` = the datagram the listener received immediately before
    (its tail is still in the listener's reused receive buffer) -/
def judge (s : Bytes) (policy : String) (prime : Option Bytes) (b : Bytes) (impl : String) : LineResult :=
  -- the unchanged listener never looks past the bytes received (`int(length) > n` is dropped), so its
  -- verdict on `b` does not depend on the buffer; the model therefore is the stateless `Coa.receive`
  let model := DecodersDrv.coaObs s policy b
  let auth := Coa.authentic Md5.md5 s b
  -- what the test datagram would look like completed by the stale tail of the previous one
  let stale := match prime with
    | some p => Coa.authentic Md5.md5 s (b ++ p.drop b.length)
    | none => false
  let why := if stale then " (the datagram completed by the previous datagram's tail in the receive buffer IS authentic: stale-buffer read)" else ""
  let viols : List (String × String × String) :=
    match splitTokens impl with
    | ["drop"] => if auth then [("ignored-authentic", "none", "authentic request dropped")] else []
    | ["act", kind, _, resp] =>
      (if auth then [] else [("acted-unauthentic", "none", "handler/response for a datagram that is not authentic" ++ why)]) ++
      (match parseHexBytes resp with
        | some r => if responseOk s b r kind then [] else [("bad-response", "none", "response does not verify")]
        | none => [("bad-response", "none", "unparseable response")])
    | _ =>
      if impl.startsWith "panic" then
        [(if auth then "ignored-authentic" else "acted-unauthentic", "none", "listener crashed: " ++ impl)]
      else [("bad-response", "none", "unrecognised observation")]
  { modelObs := model, viols := viols }

def step (st : Unit) (toks : List String) (impl : String) : Unit × LineResult :=
  match toks with
  | ["new"] => (st, { modelObs := "ok" })
  | ["md5", h] => match parseHexBytes h with
    | some b => (st, { modelObs := bytesToHex (Md5.md5 b) })
    | none => (st, { modelObs := "badop" })
  | ["dg", secret, policy, h] => match parseHexBytes secret, parseHexBytes h with
    | some s, some b => (st, judge s policy none b impl)
    | _, _ => (st, { modelObs := "badop" })
  | ["dgp", secret, policy, prime, h] => match parseHexBytes secret, parseHexBytes prime, parseHexBytes h with
    | some s, some p, some b => (st, judge s policy (some p) b impl)
    | _, _, _ => (st, { modelObs := "badop" })
  | _ => (st, { modelObs := "badop" })

def component : Component := { σ := Unit, init := (), step := step }

end Bng.Drv.CoaDrv
