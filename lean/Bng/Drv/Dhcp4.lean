import Bng.Drv.Common
import Bng.Model.Dhcp4
import Bng.Model.BindSpec
/-
  bngdrv component `dhcp4`: replays traces of the real DHCPv4 slow path (pkg/dhcp Server + Pool, driven
  through its verif hooks by harness/cmd/dhcp4) on the model Bng.Dhcp4 and runs the binding monitor
  Bng.BindSpec (C02) on the implementation's replies.

    new <net>/<plen> <gateway> <leaseSeconds> [<m1:ip,…|->]    5th token = Nexus/HTTP-allocator mode + its table
    gap <disc|discr|req|rel|dec …>     one cleanup pass with the message handled between its scan and its removal
    disc m<k> <giaddr|-> <c<n>|-|e|r|x>      (e: empty circuit-id, r: remote-id only, x: truncated TLV)
    discr m<k> <requested|-> <giaddr|-> <c<n>|-|e|r|x>   DISCOVER carrying option 50 (`Msg.requested`; handleDiscover
                                             never reads it — Spec.C02.v4_discover_ignores_requested)
    req  m<k> <requested|-> <ciaddr|-> <giaddr|-> <c<n>|->
    rel  m<k>
    dec  m<k> <requested|->
    inf  m<k> <ciaddr|->
    tick <minutes>         n times: 30 s pass, the cleanup ticker fires, 30 s pass
    cleanup                one explicit cleanup pass

  Observation: <reply> L=… C=… P=… A=… U=…  (see harness/cmd/dhcp4/main.go).
  The order in which one cleanup pass visits expired leases (Go map iteration) is read off the
  implementation's free list `A=` and handed to the model as the `order` parameter of `Op.cleanup`.
-/
namespace Bng.Drv.Dhcp4Drv
open Bng Bng.Drv Bng.Dhcp4

structure St where
  model : Option Dhcp4.State := none
  mon   : BindSpec.Mon := {}
  geo   : BindSpec.Geo := { lo := 0, hi := 0, capacity := 0 }
  /-- addresses that were served through a circuit-id-index hit (finding D9) and on which model and monitor have
      not become consistent again since (see `consistentOn`) -/
  taint9 : List Nat := []
  /-- (client, address): the client was OFFERed the address of its own EXPIRED, not yet cleaned-up lease
      (finding KF-dhcp4-expired-reoffer: the next cleanup pass frees that address under the outstanding offer) -/
  reoffer : List (Nat × Nat) := []

def parseAddr (s : String) : Option (Option Nat) :=
  if s == "-" then some none else (parseHex s).map some

/-- option 82: `c<n>` circuit-id, `-` absent, `e` empty circuit-id, `r` remote-id only, `x` truncated TLV
    → (circuit-id, empty-circuit-id flag) -/
def parseCid (s : String) : Option (Option Nat × Bool) :=
  if s == "-" || s == "r" || s == "x" then some (none, false)
  else if s == "e" then some (none, true)
  else (parseTagged 'c' s).map fun c => (some c, false)

inductive Line where
  | disc (m : Msg)
  | req (m : Msg)
  | rel (mac : Nat)
  | dec (mac : Nat) (r : Option Nat)
  | inf (mac : Nat)
  | tick (n : Nat)
  | cleanup
  | gap (inner : Line)

def parseLine (toks : List String) : Option Line :=
  match toks with
  | "gap" :: rest =>
    (match rest with
      | "disc" :: _ | "discr" :: _ | "req" :: _ | "rel" :: _ | "dec" :: _ => (parseLine rest).map .gap
      | _ => none)
  | ["disc", m, gi, cid] => do
      let m ← parseTagged 'm' m; let gi ← parseAddr gi; let cid ← parseCid cid
      pure (.disc { mac := m, giaddr := gi.getD 0, cid := cid.1, o82empty := cid.2 })
  | ["discr", m, r, gi, cid] => do
      let m ← parseTagged 'm' m; let r ← parseAddr r; let gi ← parseAddr gi; let cid ← parseCid cid
      pure (.disc { mac := m, requested := r, giaddr := gi.getD 0, cid := cid.1, o82empty := cid.2 })
  | ["req", m, r, ci, gi, cid] => do
      let m ← parseTagged 'm' m; let r ← parseAddr r; let ci ← parseAddr ci
      let gi ← parseAddr gi; let cid ← parseCid cid
      pure (.req { mac := m, requested := r, ciaddr := ci.getD 0, giaddr := gi.getD 0, cid := cid.1, o82empty := cid.2 })
  | ["rel", m] => (parseTagged 'm' m).map .rel
  | ["dec", m, r] => do let m ← parseTagged 'm' m; let r ← parseAddr r; pure (.dec m r)
  | ["inf", m, ci] => do let m ← parseTagged 'm' m; let _ ← parseAddr ci; pure (.inf m)
  | ["tick", n] => do let n ← n.toNat?; if n ≤ 100000 then pure (.tick n) else none
  | ["cleanup"] => some .cleanup
  | _ => none

def insertByKey {α : Type} (key : α → Nat) (x : α) : List α → List α
  | [] => [x]
  | y :: rest => if key x ≤ key y then x :: y :: rest else y :: insertByKey key x rest

def sortByKey {α : Type} (key : α → Nat) (l : List α) : List α :=
  l.foldl (fun acc x => insertByKey key x acc) []

def joinOr (xs : List String) : String := if xs.isEmpty then "-" else ",".intercalate xs

def showCid : Option Nat → String
  | some c => s!"c{c}"
  | none => "-"

def showSnapshot (s : Dhcp4.State) : String :=
  let ls := (sortByKey (fun (p : Nat × Lease) => p.1) s.leases).map fun (k, l) =>
    s!"m{k}:{toHex l.ip}:{l.exp}:{showCid l.cid}"
  let cs := (sortByKey (fun (p : Nat × Lease) => p.1) s.byCid).map fun (c, l) =>
    s!"c{c}:m{l.mac}:{toHex l.ip}:{l.exp}"
  let ps := (sortByKey (fun (p : Nat × Nat) => p.1) s.pool.allocated).map fun (k, a) => s!"m{k}:{toHex a}"
  let as := s.pool.avail.map toHex
  let us := (sortByKey id s.pool.unavailable).map toHex
  s!"L={joinOr ls} C={joinOr cs} P={joinOr ps} A={joinOr as} U={joinOr us}"

def showReply : Reply → String
  | .offer ip lt => s!"offer {toHex ip} {lt}"
  | .ack ip lt => s!"ack {toHex ip} {lt}"
  | .nak => "nak"
  | .none => "none"

/-- the implementation's free list, from the `A=` field of its observation -/
def implAvail (impl : String) : List Nat :=
  match (splitTokens impl).find? (fun t => t.startsWith "A=") with
  | some t =>
    let body := (t.drop 2).toString
    if body == "-" then [] else (body.splitOn ",").filterMap parseHex
  | none => []

/-- MACs in the order in which the implementation appended their lease addresses to its free list -/
def orderFrom (s : Dhcp4.State) (impl : String) : List Nat :=
  (implAvail impl).flatMap fun ip => (s.leases.filter (fun p => p.2.ip == ip)).map (·.1)

def runOps (s : Dhcp4.State) (ops : List Op) : Dhcp4.State := Dhcp4.run s ops

def minuteOps (order : List Nat) : Nat → List Op
  | 0 => []
  | n + 1 => [.advance 30, .cleanup order, .advance 30] ++ minuteOps order n

/-- what the implementation's answer means for the abstract binding table -/
def event (line : Line) (impl : String) : BindSpec.Ev :=
  let toks := splitTokens impl
  match line, toks with
  | .gap inner, "gap" :: rest => if rest.head? == some "notrun" then .nop else event inner (" ".intercalate rest)
  | .disc m, "offer" :: a :: _ => match parseHex a with
      | some a => .offered m.mac a
      | none => .nop
  | .disc m, "none" :: _ => .noOffer m.mac
  | .req m, "ack" :: a :: lt :: _ => match parseHex a, lt.toNat? with
      | some a, some lt => .acked m.mac a lt
      | _, _ => .nop
  | .req m, "nak" :: _ => .refused m.mac (some (requestedOf m))
  | .rel mac, _ => .released mac
  | .dec mac r, _ => .declined mac r
  | .tick n, _ => .tick (60 * n)
  | _, _ => .nop

/-- one client message on the model: new state, reply, did it take the circuit-id path -/
def modelMsg (s : Dhcp4.State) : Line → Option (Dhcp4.State × String × Bool)
  | .disc m => let (s', r) := Dhcp4.step s (.discover m); some (s', showReply r, circuitHit s m)
  | .req m => let (s', r) := Dhcp4.step s (.request m); some (s', showReply r, circuitHit s m)
  | .rel mac => some ((Dhcp4.step s (.release mac)).1, "none", false)
  | .dec mac r => some ((Dhcp4.step s (.decline mac r)).1, "none", false)
  | .inf mac => let (s', r) := Dhcp4.step s (.inform mac); some (s', showReply r, false)
  | _ => none

/-- model state and monitor agree about address `v`: no lease on `v` lacks its backing (pool binding of the same
    MAC, or that MAC's Nexus allocation), and every binding on `v` the monitor considers live is backed likewise.
    While this fails after a circuit-id hit on `v`, verdicts about `v` are consequences of finding D9. -/
def consistentOn (s : Dhcp4.State) (mon : BindSpec.Mon) (v : Nat) : Bool :=
  let backed := fun (k : Nat) => AMap.lookup s.pool.allocated k == some v || s.cfg.nexusLookup k == some v
  s.leases.all (fun p => p.2.ip != v || backed p.1) &&
  mon.table.all (fun b => b.value != v || !(b.live mon.now) || backed b.client)

/-- values the model's pool holds (allocated or unavailable) that the monitor does not count as held, and
    whether each of them is an allocation that NO LEASE of that MAC ON THAT ADDRESS backs (an offer that was never
    taken up, or whose hold lapsed) -/
def pinnedOffersExplain (g : BindSpec.Geo) (mon : BindSpec.Mon) (s : Dhcp4.State) : Bool :=
  let counted := BindSpec.heldValues g mon ++ mon.declined ++ mon.soft
  let extraAlloc := s.pool.allocated.filter (fun p => !(counted.contains p.2))
  let extraUnav := s.pool.unavailable.filter (fun a => !(counted.contains a))
  extraUnav.isEmpty && !extraAlloc.isEmpty &&
    extraAlloc.all (fun p => (AMap.lookup s.leases p.1).map (·.ip) != some p.2) &&
    decide ((BindSpec.heldValues g mon).length + ((mon.declined ++ mon.soft).filter g.inPool).eraseDups.length + extraAlloc.length ≥ g.capacity)

def parseNexus (s : String) : Option (AMap Nat Nat) :=
  if s == "-" then some [] else
  (s.splitOn ",").mapM fun item =>
    match item.splitOn ":" with
    | [k, a] => do let k ← parseTagged 'm' k; let a ← parseHex a; pure (k, a)
    | _ => none

def newRun (netTok gw lt : String) (nexus : Option String) : St × LineResult :=
  match parseAddrLen netTok, parseHex gw, lt.toNat?, (match nexus with | some t => (parseNexus t).map some | none => some none) with
  | some (base, plen), some gw, some lt, some nx =>
    if plen ≤ 32 ∧ base % 2 ^ (32 - plen) = 0 ∧ base + 2 ^ (32 - plen) ≤ 2 ^ 32 then
      let c : Cfg := { base := base, plen := plen, gateway := gw, leaseTime := lt,
                       nexusMode := nx.isSome, nexus := nx.getD [] }
      let s := Dhcp4.init c
      ({ model := some s, mon := {}, taint9 := [], reoffer := [],
         geo := { lo := base + 1, hi := c.bcast - 1, excluded := [gw], capacity := c.initialAvail.length,
                  extra := (nx.getD []).map (·.2) } },
       { modelObs := "ok " ++ showSnapshot s })
    else ({}, { modelObs := "badop" })
  | _, _, _, _ => ({}, { modelObs := "badop" })

def step (st : St) (toks : List String) (impl : String) : St × LineResult :=
  match toks with
  | ["new", netTok, gw, lt] => newRun netTok gw lt none
  | ["new", netTok, gw, lt, nx] => newRun netTok gw lt (some nx)
  | _ =>
    match st.model, parseLine toks with
    | some s, some line =>
      let order := orderFrom s impl
      let res : Option (Dhcp4.State × String × Bool) :=
        match line with
        | .tick n => some (runOps s (minuteOps order n), "ok", false)
        | .cleanup => some ((Dhcp4.step s (.cleanup order)).1, "ok", false)
        | .gap inner =>
          -- the scan; nothing expired: the pass returns before the gap
          let macs := expiredList s order
          if macs.isEmpty then some (s, "gap notrun", false)
          else (modelMsg s inner).map fun (s1, r, hit) =>
            ((Dhcp4.step s1 (.cleanupApply s.now macs)).1, "gap " ++ r, hit)
        | l => modelMsg s l
      match res with
      | none => (st, { modelObs := "badop" })
      | some (s', reply, hit) =>
      let (mon', vs) := BindSpec.check st.geo st.mon (event line impl)
      -- finding D9: an address served through a circuit-id-index hit stays attributed to D9 until model and
      -- monitor are consistent about it again
      let served : Option Nat :=
        match (splitTokens reply).filter (· != "gap") with
        | kind :: a :: _ => if kind == "offer" || kind == "ack" then parseHex a else none
        | _ => none
      let added := match hit, served with
        | true, some a => if st.taint9.contains a then st.taint9 else a :: st.taint9
        | _, _ => st.taint9
      -- finding KF-dhcp4-expired-reoffer: DISCOVER answered from the sender's own expired lease
      let discMsg : Option Msg := match line with
        | .disc m => some m
        | .gap (.disc m) => some m
        | _ => none
      let reoff := match discMsg, served with
        | some m, some a =>
          (match AMap.lookup s.leases m.mac with
            | some l => if !(decide (s.now < l.exp)) && l.ip == a then (m.mac, a) :: st.reoffer else st.reoffer
            | none => st.reoffer)
        | _, _ => st.reoffer
      -- … still outstanding for the monitor, but no longer held for that client in the model's pool
      let voided := fun (v : Nat) => reoff.any fun (c, a) =>
        a == v && mon'.table.any (fun b => b.client == c && b.value == v && !b.lease && b.live mon'.now) &&
        AMap.lookup s'.pool.allocated c != some v
      let clause := fun (v : BindSpec.Verdict) =>
        if v.name == "not-reusable" then
          (if pinnedOffersExplain st.geo mon' s' then "KF-dhcp4-offer-pinned" else "none")
        else if v.name == "range" then "none"
        else if added.contains v.value then "D9"
        else if (v.name == "double-binding" || v.name == "foreign-ack") && voided v.value then
          "KF-dhcp4-expired-reoffer"
        else if v.name == "declined-reoffered" && s'.cfg.nexusMode && (s'.cfg.nexus.any (·.2 == v.value)) then
          "KF-dhcp4-nexus-decline"
        else "none"
      let taint := added.filter (fun a => !(consistentOn s' mon' a))
      let reoff' := reoff.filter fun (c, a) =>
        mon'.table.any (fun b => b.client == c && b.value == a && !b.lease && b.live mon'.now)
      ({ st with model := some s', mon := mon', taint9 := taint, reoffer := reoff' },
       { modelObs := reply ++ " " ++ showSnapshot s',
         viols := vs.map fun v => (v.name, clause v, v.detail) })
    | _, _ => (st, { modelObs := "badop" })

def component : Component := { σ := St, init := {}, step := step }

end Bng.Drv.Dhcp4Drv
