import Bng.Drv.Common
import Bng.Model.Dhcp4
import Bng.Model.BindSpec
/-
  bngdrv component `dhcp4`: replays traces of the real DHCPv4 slow path (pkg/dhcp Server + Pool, driven
  through its verif hooks by harness/cmd/dhcp4) on the model Bng.Dhcp4 and runs the binding monitor
  Bng.BindSpec (C02) on the implementation's replies.

    new <net>/<plen> <gateway> <leaseSeconds>
    disc m<k> <giaddr|-> <c<n>|->
    req  m<k> <requested|-> <ciaddr|-> <giaddr|-> <c<n>|->
    rel  m<k>
    dec  m<k> <requested|->
    inf  m<k> <ciaddr|->
    tick <minutes>         n times: 30 s pass, the cleanup ticker fires, 30 s pass
    cleanup                one explicit cleanup pass

  Observation: <reply> L=… C=… P=… A=… U=…  (see harness/cmd/dhcp4/main.go).
  The order in which one cleanup pass visits expired leases (Go map iteration) is read off the
  implementation's free list `A=` and handed to the model as the `order` parameter of `Op.cleanup`.
-/
namespace Bng.Drv.Dhcp4Drv
open Bng Bng.Drv Bng.Dhcp4

structure St where
  model : Option Dhcp4.State := none
  mon   : BindSpec.Mon := {}
  geo   : BindSpec.Geo := { lo := 0, hi := 0, capacity := 0 }
  /-- addresses that were served through a circuit-id-index hit (finding D9) in this sequence -/
  taint9 : List Nat := []

def parseAddr (s : String) : Option (Option Nat) :=
  if s == "-" then some none else (parseHex s).map some

def parseCid (s : String) : Option (Option Nat) :=
  if s == "-" then some none else (parseTagged 'c' s).map some

inductive Line where
  | disc (m : Msg)
  | req (m : Msg)
  | rel (mac : Nat)
  | dec (mac : Nat) (r : Option Nat)
  | inf (mac : Nat)
  | tick (n : Nat)
  | cleanup

def parseLine (toks : List String) : Option Line :=
  match toks with
  | ["disc", m, gi, cid] => do
      let m ← parseTagged 'm' m; let gi ← parseAddr gi; let cid ← parseCid cid
      pure (.disc { mac := m, giaddr := gi.getD 0, cid := cid })
  | ["req", m, r, ci, gi, cid] => do
      let m ← parseTagged 'm' m; let r ← parseAddr r; let ci ← parseAddr ci
      let gi ← parseAddr gi; let cid ← parseCid cid
      pure (.req { mac := m, requested := r, ciaddr := ci.getD 0, giaddr := gi.getD 0, cid := cid })
  | ["rel", m] => (parseTagged 'm' m).map .rel
  | ["dec", m, r] => do let m ← parseTagged 'm' m; let r ← parseAddr r; pure (.dec m r)
  | ["inf", m, ci] => do let m ← parseTagged 'm' m; let _ ← parseAddr ci; pure (.inf m)
  | ["tick", n] => do let n ← n.toNat?; if n ≤ 100000 then pure (.tick n) else none
  | ["cleanup"] => some .cleanup
  | _ => none

def insertByKey {α : Type} (key : α → Nat) (x : α) : List α → List α
  | [] => [x]
  | y :: rest => if key x ≤ key y then x :: y :: rest else y :: insertByKey key x rest

def sortByKey {α : Type} (key : α → Nat) (l : List α) : List α :=
  l.foldl (fun acc x => insertByKey key x acc) []

def joinOr (xs : List String) : String := if xs.isEmpty then "-" else ",".intercalate xs

def showCid : Option Nat → String
  | some c => s!"c{c}"
  | none => "-"

def showSnapshot (s : Dhcp4.State) : String :=
  let ls := (sortByKey (fun (p : Nat × Lease) => p.1) s.leases).map fun (k, l) =>
    s!"m{k}:{toHex l.ip}:{l.exp}:{showCid l.cid}"
  let cs := (sortByKey (fun (p : Nat × Lease) => p.1) s.byCid).map fun (c, l) =>
    s!"c{c}:m{l.mac}:{toHex l.ip}:{l.exp}"
  let ps := (sortByKey (fun (p : Nat × Nat) => p.1) s.pool.allocated).map fun (k, a) => s!"m{k}:{toHex a}"
  let as := s.pool.avail.map toHex
  let us := (sortByKey id s.pool.unavailable).map toHex
  s!"L={joinOr ls} C={joinOr cs} P={joinOr ps} A={joinOr as} U={joinOr us}"

def showReply : Reply → String
  | .offer ip lt => s!"offer {toHex ip} {lt}"
  | .ack ip lt => s!"ack {toHex ip} {lt}"
  | .nak => "nak"
  | .none => "none"

/-- the implementation's free list, from the `A=` field of its observation -/
def implAvail (impl : String) : List Nat :=
  match (splitTokens impl).find? (fun t => t.startsWith "A=") with
  | some t =>
    let body := (t.drop 2).toString
    if body == "-" then [] else (body.splitOn ",").filterMap parseHex
  | none => []

/-- MACs in the order in which the implementation appended their lease addresses to its free list -/
def orderFrom (s : Dhcp4.State) (impl : String) : List Nat :=
  (implAvail impl).flatMap fun ip => (s.leases.filter (fun p => p.2.ip == ip)).map (·.1)

def runOps (s : Dhcp4.State) (ops : List Op) : Dhcp4.State := Dhcp4.run s ops

def minuteOps (order : List Nat) : Nat → List Op
  | 0 => []
  | n + 1 => [.advance 30, .cleanup order, .advance 30] ++ minuteOps order n

/-- what the implementation's answer means for the abstract binding table -/
def event (line : Line) (impl : String) : BindSpec.Ev :=
  let toks := splitTokens impl
  match line, toks with
  | .disc m, "offer" :: a :: _ => match parseHex a with
      | some a => .offered m.mac a
      | none => .nop
  | .disc m, "none" :: _ => .noOffer m.mac
  | .req m, "ack" :: a :: lt :: _ => match parseHex a, lt.toNat? with
      | some a, some lt => .acked m.mac a lt
      | _, _ => .nop
  | .req m, "nak" :: _ => .refused m.mac (some (requestedOf m))
  | .rel mac, _ => .released mac
  | .dec mac r, _ => .declined mac r
  | .tick n, _ => .tick (60 * n)
  | _, _ => .nop

/-- values the model's pool holds (allocated or unavailable) that the monitor does not count as held, and
    whether each of them is an allocation that NO LEASE of that MAC ON THAT ADDRESS backs (an offer that was never
    taken up, or whose hold lapsed) -/
def pinnedOffersExplain (g : BindSpec.Geo) (mon : BindSpec.Mon) (s : Dhcp4.State) : Bool :=
  let counted := BindSpec.heldValues g mon ++ mon.declined ++ mon.soft
  let extraAlloc := s.pool.allocated.filter (fun p => !(counted.contains p.2))
  let extraUnav := s.pool.unavailable.filter (fun a => !(counted.contains a))
  extraUnav.isEmpty && !extraAlloc.isEmpty &&
    extraAlloc.all (fun p => (AMap.lookup s.leases p.1).map (·.ip) != some p.2) &&
    decide ((BindSpec.heldValues g mon).length + ((mon.declined ++ mon.soft).filter g.usable).eraseDups.length + extraAlloc.length ≥ g.capacity)

def step (st : St) (toks : List String) (impl : String) : St × LineResult :=
  match toks with
  | ["new", netTok, gw, lt] =>
    match parseAddrLen netTok, parseHex gw, lt.toNat? with
    | some (base, plen), some gw, some lt =>
      if plen ≤ 32 ∧ base % 2 ^ (32 - plen) = 0 ∧ base + 2 ^ (32 - plen) ≤ 2 ^ 32 then
        let c : Cfg := { base := base, plen := plen, gateway := gw, leaseTime := lt }
        let s := Dhcp4.init c
        ({ model := some s, mon := {}, taint9 := [],
           geo := { lo := base + 1, hi := c.bcast - 1, excluded := [gw], capacity := c.initialAvail.length } },
         { modelObs := "ok " ++ showSnapshot s })
      else ({}, { modelObs := "badop" })
    | _, _, _ => ({}, { modelObs := "badop" })
  | _ =>
    match st.model, parseLine toks with
    | some s, some line =>
      let order := orderFrom s impl
      let (s', reply, hit) : Dhcp4.State × String × Bool :=
        match line with
        | .disc m => let (s', r) := Dhcp4.step s (.discover m); (s', showReply r, circuitHit s m)
        | .req m => let (s', r) := Dhcp4.step s (.request m); (s', showReply r, circuitHit s m)
        | .rel mac => ((Dhcp4.step s (.release mac)).1, "none", false)
        | .dec mac r => ((Dhcp4.step s (.decline mac r)).1, "none", false)
        | .inf mac => let (s', r) := Dhcp4.step s (.inform mac); (s', showReply r, false)
        | .tick n => (runOps s (minuteOps order n), "ok", false)
        | .cleanup => ((Dhcp4.step s (.cleanup order)).1, "ok", false)
      -- finding D9: remember every address served through a circuit-id-index hit
      let taint := if hit then
          (match (splitTokens reply) with
            | _ :: a :: _ => match parseHex a with
              | some a => if st.taint9.contains a then st.taint9 else a :: st.taint9
              | none => st.taint9
            | _ => st.taint9)
        else st.taint9
      let (mon', vs) := BindSpec.check st.geo st.mon (event line impl)
      let clause := fun (v : BindSpec.Verdict) =>
        if v.name == "not-reusable" then
          (if pinnedOffersExplain st.geo st.mon s then "KF-dhcp4-offer-pinned" else "none")
        else if taint.contains v.value then "D9" else "none"
      ({ st with model := some s', mon := mon', taint9 := taint },
       { modelObs := reply ++ " " ++ showSnapshot s',
         viols := vs.map fun v => (v.name, clause v, v.detail) })
    | _, _ => (st, { modelObs := "badop" })

def component : Component := { σ := St, init := {}, step := step }

end Bng.Drv.Dhcp4Drv
