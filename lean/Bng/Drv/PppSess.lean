import Bng.Drv.Common
import Bng.Model.PppoeSessions
/-
  bngdrv component `pppsess`: replays traces of the real pppoe.SessionManager on the model and runs the session-key
  monitor (C20) on the implementation's observations.

    new                 => ok
    setnext <n>         => ok
    create m1           => ok <id> | error
    remove <ref>        => ok | noref          <ref> = i<id> | #k (id returned by the k-th successful create)
    get <ref>           => m1 | none | noref
    bymac m1            => <id> | none
    idle <ref>          => ok | none | noref
    cleanup             => <number removed>
    count               => <n>
    next                => <n>
    dump                => <id>=m1,… | -
    stress <seed> <g> <n> => anomalies <k> sess <id>=m1,… mac m1=<id>|-,…   (last op; schedule dependent, monitor only)
-/
namespace Bng.Drv.PppSessDrv
open Bng Bng.Drv Bng.PppoeSessions

structure St where
  started : Bool := false
  model : PppoeSessions.State := {}
  mon : PppoeSessions.Mon := {}
  createdModel : List Nat := []    -- ids returned by the model's creates (oldest first)
  createdImpl : List Nat := []     -- ids returned by the implementation's creates
  idleImpl : List Nat := []        -- live implementation session ids flagged idle

def showObs : Obs → String
  | .ok => "ok"
  | .okId id => s!"ok {id}"
  | .error => "error"
  | .hang => "hang"
  | .none => "none"
  | .mac m => s!"m{m}"
  | .id id => s!"{id}"
  | .num n => s!"{n}"
  | .dump l => if l.isEmpty then "-" else ",".intercalate (l.map fun (id, m) => s!"{id}=m{m}")

def resolve (created : List Nat) (tok : String) : Option Nat :=
  match tok.toList with
  | 'i' :: rest => match (String.ofList rest).toNat? with
    | some n => if n ≤ 65535 then some n else none
    | none => none
  | '#' :: rest => match (String.ofList rest).toNat? with
    | some k => if k = 0 then none else created[k - 1]?
    | none => none
  | _ => none

inductive POp where
  | plain (op : Op)
  | withRef (mk : Nat → Op) (ref : String)

def parseOp (toks : List String) : Option POp :=
  match toks with
  | ["create", m] => (parseTagged 'm' m).map fun m => .plain (.create m)
  | ["remove", r] => some (.withRef .remove r)
  | ["get", r] => some (.withRef .get r)
  | ["bymac", m] => (parseTagged 'm' m).map fun m => .plain (.byMac m)
  | ["idle", r] => some (.withRef .markIdle r)
  | ["cleanup"] => some (.plain .cleanup)
  | ["count"] => some (.plain .count)
  | ["next"] => some (.plain .next)
  | ["setnext", n] => n.toNat?.map fun n => .plain (.setNext n)
  | ["dump"] => some (.plain .dump)
  | _ => none

def parseDump (s : String) : Option (List (Nat × Nat)) :=
  if s == "-" then some [] else
  (s.splitOn ",").mapM fun item =>
    match item.splitOn "=" with
    | [id, m] => do let id ← id.toNat?; let m ← parseTagged 'm' m; pure (id, m)
    | _ => none

/-- `m1=5,m2=-` -/
def parseMacs (s : String) : Option (List (Nat × Option Nat)) :=
  if s == "-" then some [] else
  (s.splitOn ",").mapM fun item =>
    match item.splitOn "=" with
    | [m, "-"] => do let m ← parseTagged 'm' m; pure (m, none)
    | [m, id] => do let m ← parseTagged 'm' m; let id ← id.toNat?; pure (m, some id)
    | _ => none

/-- what the implementation's answer means for the monitor (`op` resolved against the IMPLEMENTATION's ids) -/
def event (st : St) (op : Op) (impl : String) : Ev :=
  match op, splitTokens impl with
  | .create m, ["ok", id] => match id.toNat? with
      | some id => .created m id
      | none => .nop
  | .remove id, ["ok"] => .removed id
  | .get id, ["none"] => .got id none
  | .get id, [m] => match parseTagged 'm' m with
      | some m => .got id (some m)
      | none => .got id (some 1000000)      -- `wrongid …`: certainly not what was created
  | .get id, _ => .got id (some 1000000)
  | .byMac m, ["none"] => .byMac m none
  | .byMac m, [id] => match id.toNat? with
      | some id => .byMac m (some id)
      | none => .nop
  | .byMac m, id :: "wrongmac" :: _ => .byMac (m + 1000000) id.toNat?   -- a session of another MAC came back
  | .cleanup, [_] => .cleaned st.idleImpl
  | .dump, [l] => match parseDump l with
      | some l => .dump l
      | none => .nop
  | _, _ => .nop

def step (st : St) (toks : List String) (impl : String) : St × LineResult :=
  match toks with
  | ["new"] => ({ started := true }, { modelObs := "ok" })
  | ["stress", _, _, _] =>
    -- concurrency run (-race build): schedule dependent, so the model's observation is the implementation's,
    -- verbatim.  Every goroutine keeps at most one live session of its own MAC, so the MONITOR demands the full
    -- bijection of the final tables: ids valid and distinct, every live session found by its MAC, every MAC entry
    -- sound, no in-goroutine anomaly.  Clause none for everything.  Afterwards the model is gone.
    match splitTokens impl with
    | ["anomalies", a, "sess", l, "mac", ms] =>
      match parseDump l, parseMacs ms with
      | some l, some ms =>
        let (mon, v1) := l.foldl (fun (acc : PppoeSessions.Mon × List KeySpec.Verdict) (e : Nat × Nat) =>
            let (m', vs) := PppoeSessions.check acc.1 (.created e.2 e.1); (m', acc.2 ++ vs)) (({} : PppoeSessions.Mon), [])
        let v2 := (PppoeSessions.check mon (.dump l)).2
        let v3 := ms.foldl (fun acc (e : Nat × Option Nat) => acc ++ (PppoeSessions.check mon (.byMac e.1 e.2)).2) []
        let v0 := if a == "0" then [] else [("id-unique", s!"{a} in-goroutine checks failed during the concurrent run")]
        ({ started := false }, { modelObs := impl, viols := (v0 ++ v1 ++ v2 ++ v3).map fun (n, d) => (n, "none", d) })
      | _, _ => ({ started := false }, { modelObs := "badobs" })
    | _ => ({ started := false }, { modelObs := "badobs" })
  | _ =>
    if !st.started then (st, { modelObs := "badop" }) else
    match parseOp toks with
    | none => (st, { modelObs := "badop" })
    | some pop =>
      let ops : Option (Op × Op) := match pop with
        | .plain op => some (op, op)
        | .withRef mk r => match resolve st.createdModel r, resolve st.createdImpl r with
          | some a, some b => some (mk a, mk b)
          | _, _ => none
      match ops with
      | none => (st, { modelObs := "noref" })
      | some (mop, iop) =>
        let (m', o) := PppoeSessions.step st.model mop
        let ev := event st iop impl
        let (mon', vs) := PppoeSessions.check st.mon ev
        -- the only clause under which a verdict is attributed to a recorded finding: a lookup by MAC found
        -- nothing, a session of that MAC is live, and the newest session created for that MAC is gone
        let clause := fun (v : String) => match ev with
          | .byMac mac none =>
            if (v == "fwd-rev" || v == "release-frame") && macOrphaned st.mon mac then "KF-pppsess-mac-orphan" else "none"
          | _ => "none"
        let createdModel := match o with
          | .okId id => st.createdModel ++ [id]
          | _ => st.createdModel
        let createdImpl := match ev with
          | .created _ id => st.createdImpl ++ [id]
          | _ => st.createdImpl
        let idleImpl := match iop, splitTokens impl, ev with
          | .markIdle id, ["ok"], _ => if st.idleImpl.contains id then st.idleImpl else id :: st.idleImpl
          | _, _, .removed id => st.idleImpl.filter (· ≠ id)
          | _, _, .created _ id => st.idleImpl.filter (· ≠ id)
          | _, _, .cleaned _ => []
          | _, _, _ => st.idleImpl
        ({ st with model := m', mon := mon', createdModel := createdModel, createdImpl := createdImpl, idleImpl := idleImpl },
         { modelObs := showObs o, viols := vs.map fun (n, d) => (n, clause n, d) })

def component : Component := { σ := St, init := {}, step := step }

end Bng.Drv.PppSessDrv
