import Bng.Drv.Common
import Bng.Model.Qinq
import Bng.Model.KeySpec
import Bng.Model.QinqMonitor
/-
  bngdrv component `qinq`: replays traces of the real qinq.Mapper on the model and runs the key monitor (C20).

    new <cS> <cE> <s1>-<e1>,<s2>-<e2>,… | -   => ok
    reg <s>.<c> s3        => ok | range | conflict
    unreg <s>.<c>         => ok
    unregsub s3           => ok
    getsub <s>.<c>        => s3 | none
    getvlan s3            => <s>.<c> | none
    stats                 => <n>
    stress <seed> <g> <n> => anomalies <k> fwd s1=<s>.<c>,… rev <s>.<c>=s1,… total <n>   (last op; schedule dependent, monitor only)
-/
namespace Bng.Drv.QinqDrv
open Bng Bng.Drv Bng.Qinq

structure St where
  model : Option Qinq.State := none
  mon : KeySpec.Mon := {}

def showObs : Obs → String
  | .ok => "ok"
  | .range => "range"
  | .conflict => "conflict"
  | .none => "none"
  | .sub k => s!"s{k}"
  | .pair s c => s!"{s}.{c}"
  | .count n => s!"{n}"

def parsePairDot (s : String) : Option Pair :=
  match s.splitOn "." with
  | [a, b] => do let a ← a.toNat?; let b ← b.toNat?; pure (a, b)
  | _ => none

def parseRanges (s : String) : Option (List (Nat × Nat)) :=
  if s == "-" then some [] else
  (s.splitOn ",").mapM fun item =>
    match item.splitOn "-" with
    | [a, b] => do let a ← a.toNat?; let b ← b.toNat?; pure (a, b)
    | _ => none

def parseOp (toks : List String) : Option Op :=
  match toks with
  | ["reg", p, k] => do let p ← parsePairDot p; let k ← parseTagged 's' k; pure (.register p k)
  | ["unreg", p] => (parsePairDot p).map .unregister
  | ["unregsub", k] => (parseTagged 's' k).map .unregisterSub
  | ["getsub", p] => (parsePairDot p).map .getSubscriber
  | ["getvlan", k] => (parseTagged 's' k).map .getVLAN
  | ["stats"] => some .stats
  | _ => none

def parseFwd (s : String) : Option (List (Nat × Nat)) :=
  if s == "-" then some [] else
  (s.splitOn ",").mapM fun item =>
    match item.splitOn "=" with
    | [k, p] => do let k ← parseTagged 's' k; let p ← parsePairDot p; pure (k, keyOf p)
    | _ => none

def parseRev (s : String) : Option (List (Nat × Nat)) :=
  if s == "-" then some [] else
  (s.splitOn ",").mapM fun item =>
    match item.splitOn "=" with
    | [p, k] => do let k ← parseTagged 's' k; let p ← parsePairDot p; pure (keyOf p, k)
    | _ => none

/-- the implementation's answer as a typed observation (what `showObs` prints, read back in the context of the op) -/
def parseObs (op : Op) (impl : String) : Option Obs :=
  match op, splitTokens impl with
  | _, ["ok"] => some .ok
  | _, ["range"] => some .range
  | _, ["conflict"] => some .conflict
  | _, ["none"] => some .none
  | .getSubscriber _, [k] => (parseTagged 's' k).map .sub
  | .getVLAN _, [p] => (parsePairDot p).map fun p => .pair p.1 p.2
  | _, _ => none

/-- the monitor event of one operation: `Qinq.eventOf` (Model/QinqMonitor.lean, the function
    `Spec.C20QinqMon.monitor_silent_on_model` is about) on the parsed answer -/
def event (c : Cfg) (op : Op) (impl : String) : KeySpec.Ev :=
  match parseObs op impl with
  | some o => eventOf c op o
  | none => .nop

def step (st : St) (toks : List String) (impl : String) : St × LineResult :=
  match toks with
  | ["new", a, b, rs] =>
    match a.toNat?, b.toNat?, parseRanges rs with
    | some a, some b, some rs =>
      ({ model := some (init { sRanges := rs, cS := a, cE := b }), mon := {} }, { modelObs := "ok" })
    | _, _, _ => (st, { modelObs := "badop" })
  | ["stress", _, _, _] =>
    -- concurrency run (-race build): schedule dependent, so the model's observation is the implementation's,
    -- verbatim; the MONITOR judges the final tables (no pair twice, reverse = inverse of forward, every pair valid).
    match st.model, splitTokens impl with
    | some m, ["anomalies", a, "fwd", f, "rev", r, "total", t] =>
      match parseFwd f, parseRev r with
      | some f, some r =>
        let (_, vs) := KeySpec.check st.mon (.adopt f f r (f.filter fun p => !valid m.cfg (p.2 / 65536, p.2 % 65536)))
        let vs := if a == "0" then vs else ("fwd-rev", s!"{a} anomalous answers during the concurrent run") :: vs
        let vs := if t.toNat? == some f.length then vs else ("fwd-rev", "Stats().TotalMappings differs from the number of mappings") :: vs
        ({ model := none, mon := {} }, { modelObs := impl, viols := vs.map fun (n, d) => (n, "none", d) })
      | _, _ => ({ model := none, mon := {} }, { modelObs := "badobs" })
    | _, _ => ({ model := none, mon := {} }, { modelObs := "badobs" })
  | _ =>
    match st.model, parseOp toks with
    | some m, some op =>
      let (m', o) := Qinq.step m op
      let (mon', vs) := KeySpec.check st.mon (event m.cfg op impl)
      -- no recorded finding for this component: every verdict is a violation
      ({ model := some m', mon := mon' },
       { modelObs := showObs o, viols := vs.map fun (n, d) => (n, "none", d) })
    | _, _ => (st, { modelObs := "badop" })

def component : Component := { σ := St, init := {}, step := step }

end Bng.Drv.QinqDrv
