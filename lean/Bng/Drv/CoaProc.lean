import Bng.Drv.Common
import Bng.Drv.Coa
import Bng.Model.CoaProc
/-
  bngdrv component `coaproc` (C15): replays what the real CoAProcessor behind the real CoAServer did.

    new <secret> <flags>                     => ok
    sess <sid> <ip> <mac> <down> <up>        => ok | dup
    fail term|pol|ebpf on|off                => ok
    dg <hex>                                 => drop | act <response hex> <calls>
    hcoa <sid> <ip> <mac> <filter> <st> <it> <qd> <qu>  => ret <ok|fail> <error cause> <message hex> <calls>
    hdm <sid> <acct> <ip> <mac>              => ret …
    tbl                                      => <sessions>

  Monitors, evaluated on the IMPLEMENTATION's observations.  They keep their own view of the implementation's
  session table (`itbl`: built from the `sess` answers, re-read from every `tbl` answer) and never consult the model's
  `processCoa` / `processDm`:
    effect-unauthentic  a callback ran / a response was sent / the table changed (or the listener crashed) for a
                        datagram that is not authentic (`Coa.authentic`, H = MD5)
    ignored-authentic   an authentic request was dropped (or crashed the listener)
    bad-response        the response does not verify against the request (`CoaDrv.responseOk`)
    wrong-target        a session-changing callback (terminator, policy updater, eBPF updater) was invoked for a
                        session the request does not identify (`CoaProc.identify` on the request's attributes)
    ack-mismatch        ACK/NAK or the Error-Cause do not fit the callbacks that ran (ACK iff a session is identified
                        [and, for CoA, a change is requested] and no essential callback failed; NAK 503 / 402 / 504 /
                        506 for the respective reason), the policy update handed over is not the requested one, or
                        the table afterwards is not the table before changed by exactly what was acknowledged
-/
namespace Bng.Drv.CoaProcDrv
open Bng Bng.Drv Bng.Go Bng.CoaProc

def hx (bs : Bytes) : String := if bs.isEmpty then "-" else bytesToHex bs

def listOr (xs : List String) : String := if xs.isEmpty then "-" else ",".intercalate xs

def yn (b : Bool) : String := if b then "y" else "n"
def okerr (b : Bool) : String := if b then "ok" else "err"

def showCall : Call → String
  | .look (.id v) h => s!"id={hx v}?{yn h}"
  | .look (.ip v) h => s!"ip={hx v}?{yn h}"
  | .look (.mac v) h => s!"mac={hx v}?{yn h}"
  | .term sid reason ok => s!"term={hx sid}/{reason}!{okerr ok}"
  | .pol sid u ok => s!"pol={hx sid}/{hx u.filter}/{u.down}/{u.up}/{u.sessT}/{u.idleT}!{okerr ok}"
  | .ebpf sid d u ok => s!"ebpf={hx sid}/{d}/{u}!{okerr ok}"

def showCalls (cs : List Call) : String := listOr (cs.map showCall)

def showSess (s : Sess) : String :=
  s!"{hx s.sid}/{hx s.ip}/{hx s.mac}/{s.down}/{s.up}/{hx s.filter}/{s.sessT}/{s.idleT}/{s.eDown}/{s.eUp}"

def showTbl (t : List Sess) : String := listOr (t.map showSess)

def parseOk (s : String) : Option Bool :=
  if s == "ok" then some true else if s == "err" then some false else none

def parseYn (s : String) : Option Bool :=
  if s == "y" then some true else if s == "n" then some false else none

def parseCall (s : String) : Option Call :=
  match s.splitOn "=" with
  | [name, rest] =>
    if name == "id" || name == "ip" || name == "mac" then
      match rest.splitOn "?" with
      | [v, h] => do
        let v ← parseHexBytes v
        let h ← parseYn h
        pure (.look (if name == "id" then .id v else if name == "ip" then .ip v else .mac v) h)
      | _ => none
    else
      match rest.splitOn "!" with
      | [args, ok] => do
        let ok ← parseOk ok
        match name, args.splitOn "/" with
        | "term", [sid, reason] => pure (.term (← parseHexBytes sid) (← reason.toNat?) ok)
        | "pol", [sid, f, d, u, st, it] =>
          pure (.pol (← parseHexBytes sid) ⟨← parseHexBytes f, ← d.toNat?, ← u.toNat?, ← st.toNat?, ← it.toNat?⟩ ok)
        | "ebpf", [sid, d, u] => pure (.ebpf (← parseHexBytes sid) (← d.toNat?) (← u.toNat?) ok)
        | _, _ => none
      | _ => none
  | _ => none

def parseCalls (s : String) : Option (List Call) :=
  if s == "-" then some [] else (s.splitOn ",").mapM parseCall

def parseSess (s : String) : Option Sess :=
  match s.splitOn "/" with
  | [sid, ip, mac, d, u, f, st, it, ed, eu] => do
    pure { sid := ← parseHexBytes sid, ip := ← parseHexBytes ip, mac := ← parseHexBytes mac, down := ← d.toNat?,
           up := ← u.toNat?, filter := ← parseHexBytes f, sessT := ← st.toNat?, idleT := ← it.toNat?,
           eDown := ← ed.toNat?, eUp := ← eu.toNat? }
  | _ => none

def parseTbl (s : String) : Option (List Sess) :=
  if s == "-" then some [] else (s.splitOn ",").mapM parseSess

def parseFlags (s : String) : Option Cfg :=
  if s == "-" then some ⟨false, false, false, false, false, false⟩ else
  let cs := s.toList
  let idx := cs.map fun c => "ipmtue".toList.idxOf c
  -- strictly increasing positions in "ipmtue"
  let rec inc : List Nat → Bool
    | a :: b :: rest => decide (a < b) && inc (b :: rest)
    | _ => true
  if cs.isEmpty || idx.any (· ≥ 6) || !inc idx then none
  else some ⟨cs.contains 'i', cs.contains 'p', cs.contains 'm', cs.contains 't', cs.contains 'u', cs.contains 'e'⟩

structure St where
  st : Option State := none
  /-- the monitors' view of the implementation's table -/
  itbl : List Sess := []
  /-- has an authentic request / a direct handler call happened since the table was last read? -/
  acted : Bool := false

/-- what the monitors conclude from one handled request: verdicts and the table they expect afterwards -/
structure Judgement where
  viols : List (String × String × String) := []
  tbl : List Sess

def changing (cs : List Call) : List Call := cs.filter fun c => c.target.isSome

/-- callbacks for a session the request does not identify -/
def wrongTarget (target : Option Sess) (cs : List Call) : List (String × String × String) :=
  (changing cs).filterMap fun c =>
    match c.target, target with
    | some sid, some s =>
      if sid = s.sid then none
      else some ("wrong-target", "none", s!"{showCall c} but the request identifies session {hx s.sid}")
    | some _, none => some ("wrong-target", "none", s!"{showCall c} but the request identifies no session")
    | none, _ => none

def mism (d : String) : List (String × String × String) := [("ack-mismatch", "none", d)]

/-- a Disconnect: `success` / `ec` as answered, `cs` the callbacks that ran -/
def judgeDm (cfg : Cfg) (itbl : List Sess) (r : DmReq) (success : Bool) (ec : Nat) (cs : List Call) : Judgement :=
  let target := identify itbl (dmKeys cfg r)
  let ch := changing cs
  let wt := wrongTarget target cs
  match target with
  | none =>
    { viols := wt ++ (if success then mism "Disconnect-ACK but the request identifies no session"
        else if ec ≠ 503 then mism s!"Disconnect-NAK with Error-Cause {ec}, expected 503 (no session identified)" else []) ++
        (if ch.isEmpty then [] else mism "a session-changing callback ran although no session is identified"),
      tbl := itbl }
  | some s =>
    let expectCalls : Bool → List Call := fun ok => if cfg.hasTerm then [Call.term s.sid nasRequest ok] else []
    if success then
      { viols := wt ++ (if ec ≠ 0 then mism s!"Disconnect-ACK with Error-Cause {ec}" else []) ++
          (if decide (ch = expectCalls true) then []
           else mism s!"Disconnect-ACK but the callbacks were {showCalls ch}, expected {showCalls (expectCalls true)}"),
        tbl := if cfg.hasTerm then removeSid itbl s.sid else itbl }
    else
      { viols := wt ++ (if ec ≠ 504 then mism s!"Disconnect-NAK with Error-Cause {ec}, expected 504 (session identified)" else []) ++
          (if cfg.hasTerm && decide (ch = expectCalls false) then []
           else mism s!"Disconnect-NAK for an identified session but the callbacks were {showCalls ch}, expected a failed terminator"),
        tbl := itbl }

def judgeCoa (cfg : Cfg) (itbl : List Sess) (r : CoaReq) (success : Bool) (ec : Nat) (cs : List Call) : Judgement :=
  let target := identify itbl (coaKeys cfg r)
  let ch := changing cs
  let wt := wrongTarget target cs
  match target with
  | none =>
    { viols := wt ++ (if success then mism "CoA-ACK but the request identifies no session"
        else if ec ≠ 503 then mism s!"CoA-NAK with Error-Cause {ec}, expected 503 (no session identified)" else []) ++
        (if ch.isEmpty then [] else mism "a session-changing callback ran although no session is identified"),
      tbl := itbl }
  | some s =>
    match buildPolicyUpdate r with
    | none =>
      { viols := wt ++ (if success then mism "CoA-ACK but the request asks for no change"
          else if ec ≠ 402 then mism s!"CoA-NAK with Error-Cause {ec}, expected 402 (no change requested)" else []) ++
          (if ch.isEmpty then [] else mism "a session-changing callback ran although no change is requested"),
        tbl := itbl }
    | some u =>
      let polCalls : Bool → List Call := fun ok => if cfg.hasPol then [Call.pol s.sid u ok] else []
      if success then
        -- after the policy updater: optionally ONE eBPF call, for the same session, only when a rate is requested
        let rest := ch.drop (polCalls true).length
        let rates := ebpfRates s u
        let ebpfOk := match rest with
          | [] => !(cfg.hasEbpf && (decide (u.down > 0) || decide (u.up > 0)))
          | [Call.ebpf sid d up _] => cfg.hasEbpf && (decide (u.down > 0) || decide (u.up > 0)) && decide (sid = s.sid) &&
              decide (d = rates.1) && decide (up = rates.2)
          | _ => false
        let tbl1 := if cfg.hasPol then modifySid itbl s.sid (·.withUpdate u) else itbl
        let tbl2 := match rest with
          | [Call.ebpf sid d up true] => modifySid tbl1 sid fun x => { x with eDown := d, eUp := up }
          | _ => tbl1
        { viols := wt ++ (if ec ≠ 0 then mism s!"CoA-ACK with Error-Cause {ec}" else []) ++
            (if decide (ch.take (polCalls true).length = polCalls true) && ebpfOk then []
             else mism s!"CoA-ACK but the callbacks were {showCalls ch}, expected {showCalls (polCalls true)} (+ eBPF update of the requested rates)"),
          tbl := tbl2 }
      else
        { viols := wt ++ (if ec ≠ 506 then mism s!"CoA-NAK with Error-Cause {ec}, expected 506 (session identified, change requested)" else []) ++
            (if cfg.hasPol && decide (ch = polCalls false) then []
             else mism s!"CoA-NAK for an identified session and a requested change but the callbacks were {showCalls ch}, expected a failed policy updater"),
          tbl := itbl }

/-- the Error-Cause attribute of a response (0 = absent) -/
def errorCauseOf (resp : Bytes) : Nat :=
  match Coa.parseAttributes (resp.drop 20) with
  | .ok (some attrs, _) =>
    match attrs.find? (fun a => a.typ == 101 && a.value.length == 4) with
    | some a => beNat a.value
    | none => 0
  | _ => 0

def judgeDg (m : State) (itbl : List Sess) (b : Bytes) (impl : String) : Judgement × Bool :=
  let auth := Coa.authentic Md5.md5 m.secret b
  match splitTokens impl with
  | ["drop"] =>
    ({ viols := if auth then [("ignored-authentic", "none", "authentic request dropped")] else [], tbl := itbl }, auth)
  | ["act", resp, calls] =>
    if !auth then
      ({ viols := [("effect-unauthentic", "none", s!"response {resp} / callbacks {calls} for a datagram that is not authentic")],
         tbl := itbl }, false)
    else
      match parseHexBytes resp, parseCalls calls, Coa.receive Md5.md5 m.secret b with
      | some r, some cs, .ok (some req, _) =>
        let kind := match req.kind with | .coa => "coa" | .dm => "dm"
        let bad := if CoaDrv.responseOk m.secret b r kind then [] else [("bad-response", "none", "response does not verify")]
        let success := r.head? == some 41 || r.head? == some 44
        let ec := errorCauseOf r
        match Coa.parseFields req.kind req.attrs {} with
        | .ok f =>
          let j := match req.kind with
            | .coa => judgeCoa m.cfg itbl (coaReqOf f) success ec cs
            | .dm => judgeDm m.cfg itbl (dmReqOf f) success ec cs
          ({ j with viols := bad ++ j.viols }, true)
        | .error _ => ({ viols := bad, tbl := itbl }, true)
      | _, _, _ => ({ viols := [("bad-response", "none", "unparseable observation")], tbl := itbl }, true)
  | _ =>
    if impl.startsWith "panic" then
      ({ viols := [(if auth then "ignored-authentic" else "effect-unauthentic", "none", "listener crashed: " ++ impl)], tbl := itbl }, auth)
    else ({ viols := [("bad-response", "none", "unrecognised observation: " ++ impl)], tbl := itbl }, auth)

def showRet (r : Coa.Reply) (cs : List Call) : String :=
  s!"ret {if r.success then "ok" else "fail"} {r.errorCause} {hx r.message} {showCalls cs}"

/-- `ret <ok|fail> <ec> <msg> <calls>` -/
def parseRet (impl : String) : Option (Bool × Nat × List Call) :=
  match splitTokens impl with
  | ["ret", s, ec, _, calls] => do
    let s ← if s == "ok" then some true else if s == "fail" then some false else none
    pure (s, ← ec.toNat?, ← parseCalls calls)
  | _ => none

def u32? (s : String) : Option Nat := do
  let v ← s.toNat?
  if v < 4294967296 then some v else none

def u64? (s : String) : Option Nat := do
  let v ← s.toNat?
  if v < 18446744073709551616 then some v else none

def ip? (s : String) : Option Bytes := do
  let b ← parseHexBytes s
  if b.length = 0 ∨ b.length = 4 then some b else none

def sentinelPrefix : Bytes := 0 :: ascii "verif-sentinel-"

def step (σ : St) (toks : List String) (impl : String) : St × LineResult :=
  let bad : St × LineResult := (σ, { modelObs := "badop" })
  match toks, σ.st with
  | ["new", secret, flags], _ =>
    match parseHexBytes secret, parseFlags flags with
    | some s, some cfg => if s.isEmpty then bad else ({ st := some (init s cfg) }, { modelObs := "ok" })
    | _, _ => bad
  | ["sess", sid, ip, mac, d, u], some m =>
    match parseHexBytes sid, parseHexBytes ip, parseHexBytes mac, u64? d, u64? u with
    | some sid, some ip, some mac, some d, some u =>
      if sentinelPrefix.isPrefixOf sid then bad else
      let s : Sess := { sid := sid, ip := ip, mac := mac, down := d, up := u }
      let m' := addSess m s
      let obs := if m'.tbl.length = m.tbl.length then "dup" else "ok"
      ({ σ with st := some m', itbl := if impl == "ok" then σ.itbl ++ [s] else σ.itbl }, { modelObs := obs })
    | _, _, _, _, _ => bad
  | ["fail", what, onoff], some m =>
    let f? : Option Fault := match what with
      | "term" => some .term | "pol" => some .pol | "ebpf" => some .ebpf | _ => none
    let b? : Option Bool := match onoff with | "on" => some true | "off" => some false | _ => none
    match f?, b? with
    | some f, some b => ({ σ with st := some (setFault m f b) }, { modelObs := "ok" })
    | _, _ => bad
  | ["dg", h], some m =>
    match parseHexBytes h with
    | some b =>
      let (m', obs) := match CoaProc.step Md5.md5 m b with
        | .error _ => (m, "panic")
        | .ok (m', none) => (m', "drop")
        | .ok (m', some (resp, cs)) => (m', s!"act {hx resp} {showCalls cs}")
      let (j, acted) := judgeDg m σ.itbl b impl
      ({ st := some m', itbl := j.tbl, acted := σ.acted || acted }, { modelObs := obs, viols := j.viols })
    | none => bad
  | ["hcoa", sid, ip, mac, fi, st, it, qd, qu], some m =>
    match parseHexBytes sid, ip? ip, parseHexBytes mac, parseHexBytes fi, u32? st, u32? it, u32? qd, u32? qu with
    | some sid, some ip, some mac, some fi, some st, some it, some qd, some qu =>
      let r : CoaReq := ⟨sid, ip, mac, fi, st, it, qd, qu⟩
      let (m', reply, cs) := processCoa m r
      let j := match parseRet impl with
        | some (s, ec, ics) => judgeCoa m.cfg σ.itbl r s ec ics
        | none => { viols := [("ack-mismatch", "none", "unrecognised observation: " ++ impl)], tbl := σ.itbl }
      ({ st := some m', itbl := j.tbl, acted := true }, { modelObs := showRet reply cs, viols := j.viols })
    | _, _, _, _, _, _, _, _ => bad
  | ["hdm", sid, acct, ip, mac], some m =>
    match parseHexBytes sid, parseHexBytes acct, ip? ip, parseHexBytes mac with
    | some sid, some acct, some ip, some mac =>
      let r : DmReq := ⟨sid, acct, ip, mac⟩
      let (m', reply, cs) := processDm m r
      let j := match parseRet impl with
        | some (s, ec, ics) => judgeDm m.cfg σ.itbl r s ec ics
        | none => { viols := [("ack-mismatch", "none", "unrecognised observation: " ++ impl)], tbl := σ.itbl }
      ({ st := some m', itbl := j.tbl, acted := true }, { modelObs := showRet reply cs, viols := j.viols })
    | _, _, _, _ => bad
  | ["tbl"], some m =>
    match parseTbl impl with
    | some t =>
      let viols :=
        if t = σ.itbl then []
        else if σ.acted then
          [("ack-mismatch", "none", s!"table is {impl}, but what was acknowledged since it was last read implies {showTbl σ.itbl}")]
        else
          [("effect-unauthentic", "none", s!"table changed to {impl} (was {showTbl σ.itbl}) although no authentic request arrived")]
      ({ σ with itbl := t, acted := false }, { modelObs := showTbl m.tbl, viols := viols })
    | none => (σ, { modelObs := showTbl m.tbl, viols := [("ack-mismatch", "none", "unparseable table: " ++ impl)] })
  | _, _ => bad

def component : Component := { σ := St, init := {}, step := step }

end Bng.Drv.CoaProcDrv
