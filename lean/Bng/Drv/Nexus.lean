import Bng.Drv.Common
import Bng.Model.NexusHash
import Bng.Model.PoolSpec
/-
  bngdrv component `nexushash`: the stateless hash allocator `nexus.(*Client).allocateFromPool`.

    new <basehex> <ones>     => ok
    alloc s3                 => ok <hex> | nohosts      (the id hashed is the token itself, e.g. "s3")

  The monitor is the generic pool monitor: the value computed for a subscriber is what that subscriber
  holds (nothing is ever released).  A `unique` verdict is attributed to the recorded finding D1-nexus-hash
  only when the two subscribers' hashes fall on the same host offset (`NexusHash.collide`).
-/
namespace Bng.Drv.NexusDrv
open Bng Bng.Drv Bng.NexusHash

structure St where
  cfg : Option Cfg := none
  mon : PoolSpec.Mon := []
  geo : PoolSpec.Geo := { lo := 0, step := 1, units := 0, totalReported := 0 }
  /-- subscriber → hash of its id -/
  hashes : AMap Nat Nat := []

def idBytes (tok : String) : List Nat := tok.toUTF8.toList.map (·.toNat)

def step (st : St) (toks : List String) (impl : String) : St × LineResult :=
  match toks with
  | ["new", b, o] =>
    match parseHex b, o.toNat? with
    | some b, some o =>
      let c : Cfg := { base := b, ones := o }
      ({ cfg := some c, geo := { lo := c.net + 1, step := 1, units := c.numHosts, totalReported := 0 } },
       { modelObs := "ok" })
    | _, _ => (st, { modelObs := "badop" })
  | ["alloc", tok] =>
    match st.cfg, parseTagged 's' tok with
    | some c, some k =>
      let h := fnv1a (idBytes tok)
      let shown := match addrOfHash c h with
        | some a => s!"ok {toHex a}"
        | none => "nohosts"
      let hashes := AMap.insert st.hashes k h
      match splitTokens impl with
      | ["ok", a] =>
        match parseHex a with
        | some x =>
          let (mon', vs) := PoolSpec.check st.geo st.mon (.got k x)
          let clause := fun (v : String) =>
            if v == "unique" then
              match PoolSpec.holderOf (AMap.erase st.mon k) x with
              | some k' => match AMap.lookup st.hashes k' with
                | some h' => if collide c h h' then "D1-nexus-hash" else "none"
                | none => "none"
              | none => "none"
            else "none"
          ({ st with mon := mon', hashes := hashes },
           { modelObs := shown, viols := vs.map fun (n, d) => (n, clause n, d) })
        | none => ({ st with hashes := hashes }, { modelObs := shown })
      | _ => ({ st with hashes := hashes }, { modelObs := shown })
    | _, _ => (st, { modelObs := "badop" })
  | _ => (st, { modelObs := "badop" })

def component : Component := { σ := St, init := {}, step := step }

end Bng.Drv.NexusDrv

/-
  bngdrv component `nexusclient`: the real nexus.Client over an in-memory store.

    new                          => ok
    pool p1 <basehex> <ones>     => ok            (the pool record is written: created or EDITED)
    isp i1 p2 | isp i1 -         => ok            (ISP record with IPv4Pools [p2] / none)
    sub s3 p1 i1 | sub s3 - i1 | sub s3 p1 - | sub s3 - -   => ok   (subscriber record provisioned, no address)
    alloc s3                     => ok <hex> | nosub | nopool | nopoolrec | nohosts
    release s3                   => ok | nosub
    lookup s3                    => <hex> | none
    fault put on|off             => ok            (the store refuses / accepts writes of subscriber records; while it
                                                   refuses, alloc / release are the model's allocF / releaseF and a
                                                   `sub` changes nothing and answers `error`)
    audit <n>                    => s1=<cache>|<store>,…   (<hex> | - no address | x no record; monitor `store-agree`)

  Monitor: the generic pool monitor, with the range of an assignment judged against the pool record the
  address was computed from (a holder that asks again keeps its address even if the record was edited).
-/
namespace Bng.Drv.NexusClientDrv
open Bng Bng.Drv Bng.NexusHash

structure St where
  model : Option Client.State := none
  mon : PoolSpec.Mon := []
  /-- subscriber ↦ (pool record its address was computed from, hash of its id) -/
  origin : AMap Nat (Cfg × Nat) := []
  /-- the store refuses writes of subscriber records -/
  fault : Bool := false

def showObs : Client.Obs → String
  | .okAddr a => s!"ok {toHex a}"
  | .ok => "ok"
  | .nosub => "nosub"
  | .nopool => "nopool"
  | .nopoolrec => "nopoolrec"
  | .nohosts => "nohosts"
  | .none => "none"
  | .error => "error"

def parseOpt (tag : Char) (t : String) : Option (Option Nat) :=
  if t == "-" then some none else (parseTagged tag t).map some

def parseOp (toks : List String) : Option Client.Op :=
  match toks with
  | ["pool", p, b, o] => do
      let p ← parseTagged 'p' p; let b ← parseHex b; let o ← o.toNat?; pure (.pool p { base := b, ones := o })
  | ["isp", i, f] => do let i ← parseTagged 'i' i; let f ← parseOpt 'p' f; pure (.isp i f)
  | ["sub", k, p, i] => do
      let kk ← parseTagged 's' k; let p ← parseOpt 'p' p; let i ← parseOpt 'i' i
      pure (.sub kk p i (fnv1a (NexusDrv.idBytes k)))
  | ["alloc", k] => (parseTagged 's' k).map .alloc
  | ["release", k] => (parseTagged 's' k).map .release
  | ["lookup", k] => (parseTagged 's' k).map .lookup
  | _ => none

/-- one table of subscriber records, as the audit prints it -/
def showRec (t : AMap Nat Client.Sub) (k : Nat) : String :=
  match AMap.lookup t k with
  | none => "x"
  | some sub => match sub.addr with
    | some a => toHex a
    | none => "-"

def auditLine (m : Client.State) (n : Nat) : String :=
  if n = 0 then "-" else
  ",".intercalate ((List.range n).map fun i => s!"s{i + 1}={showRec m.subs (i + 1)}|{showRec m.store (i + 1)}")

/-- a store write failure leaves memory and store in agreement: cache and store carry the same address for every
    subscriber (judged on the implementation's audit line) -/
def auditCheck (impl : String) : List (String × String × String) :=
  if impl == "-" then [] else
  (impl.splitOn ",").filterMap fun item =>
    match item.splitOn "=" with
    | [k, rest] => match rest.splitOn "|" with
      | [c, st] => if c == st then none else
          some ("store-agree", "none", s!"{k}: the client's cache says {c}, the store's record says {st}")
      | _ => some ("store-agree", "none", s!"unreadable audit row {item}")
    | _ => some ("store-agree", "none", s!"unreadable audit row {item}")

def geoOf (c : Cfg) : PoolSpec.Geo := { lo := c.net + 1, step := 1, units := c.numHosts, totalReported := 0 }

/-- the pool record the model would compute a NEW address of subscriber k from -/
def currentCfg (m : Client.State) (k : Nat) : Option Cfg :=
  match AMap.lookup m.subs k with
  | none => none
  | some sub =>
    let pid := match sub.pool with
      | some p => some p
      | none => match sub.isp with
        | some i => (AMap.lookup m.isps i).join
        | none => none
    match pid with
    | some p => AMap.lookup m.pools p
    | none => none

def step (st : St) (toks : List String) (impl : String) : St × LineResult :=
  match toks with
  | ["new"] => ({ model := some Client.init }, { modelObs := "ok" })
  | ["fault", "put", f] =>
    if st.model.isSome && (f == "on" || f == "off") then ({ st with fault := f == "on" }, { modelObs := "ok" })
    else (st, { modelObs := "badop" })
  | ["audit", n] =>
    match st.model, n.toNat? with
    | some m, some n => (st, { modelObs := auditLine m n, viols := auditCheck impl })
    | _, _ => (st, { modelObs := "badop" })
  | _ =>
    match st.model, parseOp toks with
    | some _, some (.sub _ _ _ _) =>
      if st.fault then
        -- the store refuses the provisioning write: nothing changes
        (st, { modelObs := "error" })
      else stepOp st toks impl
    | _, _ => stepOp st toks impl
where
  stepOp (st : St) (toks : List String) (impl : String) : St × LineResult :=
    match st.model, parseOp toks with
    | some m, some op0 =>
      -- while the store refuses subscriber writes the two calls are the model's allocF / releaseF
      let op := match st.fault, op0 with
        | true, .alloc k => Client.Op.allocF k
        | true, .release k => Client.Op.releaseF k
        | _, o => o
      let (m', o) := Client.step m op
      let op := op0
      let shown := match op, o with
        | .lookup _, .okAddr a => toHex a
        | _, _ => showObs o
      let st' := { st with model := some m' }
      match op, splitTokens impl with
      | .alloc k, ["ok", a] =>
        match parseHex a with
        | some x =>
          -- an address the subscriber already holds is judged against the record it came from
          let (cfg?, h) := match AMap.lookup st.mon k, AMap.lookup st.origin k with
            | some _, some (c, h) => (some c, h)
            | _, _ => (currentCfg m k, match AMap.lookup m.subs k with | some sub => sub.hash | none => 0)
          match cfg? with
          | some c =>
            let (mon', vs) := PoolSpec.check (geoOf c) st.mon (.got k x)
            let clause := fun (v : String) =>
              if v == "unique" then
                match PoolSpec.holderOf (AMap.erase st.mon k) x with
                | some k' => match AMap.lookup st.origin k' with
                  -- same record: the two hashes fall on one host offset; records edited in between:
                  -- both addresses are what the hash formula yields from the record each was computed from
                  | some (c', h') =>
                    if (c' == c && collide c h h') ||
                       (addrOfHash c h == some x && addrOfHash c' h' == some x) then "D1-nexus-hash" else "none"
                  | none => "none"
                | none => "none"
              else "none"
            ({ st' with mon := mon', origin := AMap.insert st.origin k (c, h) },
             { modelObs := shown, viols := vs.map fun (n, d) => (n, clause n, d) })
          | none =>
            ({ st' with mon := AMap.insert st.mon k x },
             { modelObs := shown, viols := [("range", "none", s!"value {x} handed out although no pool record applies")] })
        | none => (st', { modelObs := shown })
      | .release k, ["ok"] => ({ st' with mon := AMap.erase st.mon k }, { modelObs := shown })
      | .sub k _ _ _, ["ok"] => ({ st' with mon := AMap.erase st.mon k }, { modelObs := shown })
      | .lookup k, [r] =>
        let r' := if r == "none" then some none else (parseHex r).map some
        let vs := match r' with
          | some r => (PoolSpec.check (geoOf { base := 0, ones := 0 }) st.mon (.looked k r)).2
          | none => []
        (st', { modelObs := shown, viols := vs.map fun (n, d) => (n, "none", d) })
      | _, _ => (st', { modelObs := shown })
    | _, _ => (st, { modelObs := "badop" })

def component : Component := { σ := St, init := {}, step := step }

end Bng.Drv.NexusClientDrv
