import Bng.Drv.Common
import Bng.Model.NexusHash
import Bng.Model.PoolSpec
/-
  bngdrv component `nexushash`: the stateless hash allocator `nexus.(*Client).allocateFromPool`.

    new <basehex> <ones>     => ok
    alloc s3                 => ok <hex> | nohosts      (the id hashed is the token itself, e.g. "s3")

  The monitor is the generic pool monitor: the value computed for a subscriber is what that subscriber
  holds (nothing is ever released).  A `unique` verdict is attributed to the recorded finding D1-nexus-hash
  only when the two subscribers' hashes fall on the same host offset (`NexusHash.collide`).
-/
namespace Bng.Drv.NexusDrv
open Bng Bng.Drv Bng.NexusHash

structure St where
  cfg : Option Cfg := none
  mon : PoolSpec.Mon := []
  geo : PoolSpec.Geo := { lo := 0, step := 1, units := 0, totalReported := 0 }
  /-- subscriber → hash of its id -/
  hashes : AMap Nat Nat := []

def idBytes (tok : String) : List Nat := tok.toUTF8.toList.map (·.toNat)

def step (st : St) (toks : List String) (impl : String) : St × LineResult :=
  match toks with
  | ["new", b, o] =>
    match parseHex b, o.toNat? with
    | some b, some o =>
      let c : Cfg := { base := b, ones := o }
      ({ cfg := some c, geo := { lo := c.net + 1, step := 1, units := c.numHosts, totalReported := 0 } },
       { modelObs := "ok" })
    | _, _ => (st, { modelObs := "badop" })
  | ["alloc", tok] =>
    match st.cfg, parseTagged 's' tok with
    | some c, some k =>
      let h := fnv1a (idBytes tok)
      let shown := match addrOfHash c h with
        | some a => s!"ok {toHex a}"
        | none => "nohosts"
      let hashes := AMap.insert st.hashes k h
      match splitTokens impl with
      | ["ok", a] =>
        match parseHex a with
        | some x =>
          let (mon', vs) := PoolSpec.check st.geo st.mon (.got k x)
          let clause := fun (v : String) =>
            if v == "unique" then
              match PoolSpec.holderOf (AMap.erase st.mon k) x with
              | some k' => match AMap.lookup st.hashes k' with
                | some h' => if collide c h h' then "D1-nexus-hash" else "none"
                | none => "none"
              | none => "none"
            else "none"
          ({ st with mon := mon', hashes := hashes },
           { modelObs := shown, viols := vs.map fun (n, d) => (n, clause n, d) })
        | none => ({ st with hashes := hashes }, { modelObs := shown })
      | _ => ({ st with hashes := hashes }, { modelObs := shown })
    | _, _ => (st, { modelObs := "badop" })
  | _ => (st, { modelObs := "badop" })

def component : Component := { σ := St, init := {}, step := step }

end Bng.Drv.NexusDrv
