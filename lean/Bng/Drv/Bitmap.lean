import Bng.Drv.Common
import Bng.Model.Bitmap
import Bng.Model.PoolSpec
/-
  bngdrv component `bitmap`: replays traces of the real allocator.IPAllocator on the model and
  runs the pool monitor (C01/C05) on the implementation's observations.

    new <famBits> <poolPrefix> <plen> <basehex>      => ok
    alloc s3                 => ok <hex>/<len> | exhausted
    allocspec s3 <hex>/<len> => ok | conflict | range
    release s3               => ok | notfound
    releaseprefix <hex>/<len>=> ok | notfound | range
    lookup s3                => <hex>/<len> | none
    owner <hex>/<len>        => s3 | none
    isalloc <hex>/<len>      => true | false
    stats                    => <allocated> <total>
    setalloc s3 <hex>/<len>  => ok | conflict | range
    roundtrip                => ok
    list                     => s1=<hex>,s2=<hex>,…  | -
-/
namespace Bng.Drv.BitmapDrv
open Bng Bng.Drv Bng.Bitmap

structure St where
  model : Option Bitmap.State := none
  mon : PoolSpec.Mon := []
  geo : PoolSpec.Geo := { lo := 0, step := 1, units := 0, totalReported := 0 }

def showAddr (c : Cfg) (a : Nat) : String := s!"{toHex a}/{c.plen}"

def showObs (c : Cfg) : Obs → String
  | .okAddr a => s!"ok {showAddr c a}"
  | .ok => "ok"
  | .exhausted => "exhausted"
  | .conflict => "conflict"
  | .notfound => "notfound"
  | .range => "range"
  | .none => "none"
  | .sub k => s!"s{k}"
  | .bool b => if b then "true" else "false"
  | .stats a t => s!"{a} {t}"
  | .list l => if l.isEmpty then "-" else ",".intercalate (l.map fun (k, a, _) => s!"s{k}={toHex a}")

/-- lookups print the bare address -/
def showLookup (c : Cfg) : Obs → String
  | .okAddr a => showAddr c a
  | o => showObs c o

def parseOp (toks : List String) : Option Op :=
  match toks with
  | ["alloc", k] => (parseTagged 's' k).map .alloc
  | ["allocspec", k, a] => do
      let k ← parseTagged 's' k; let (x, l) ← parseAddrLen a; pure (.allocSpecific k x l)
  | ["release", k] => (parseTagged 's' k).map .release
  | ["releaseprefix", a] => do let (x, l) ← parseAddrLen a; pure (.releasePrefix x l)
  | ["lookup", k] => (parseTagged 's' k).map .lookup
  | ["owner", a] => do let (x, l) ← parseAddrLen a; pure (.lookupByPrefix x l)
  | ["isalloc", a] => do let (x, l) ← parseAddrLen a; pure (.isAllocated x l)
  | ["stats"] => some .stats
  | ["setalloc", k, a] => do
      let k ← parseTagged 's' k; let (x, l) ← parseAddrLen a; pure (.setAllocation k x l)
  | ["roundtrip"] => some .roundtrip
  | ["list"] => some .list
  | _ => none

def parseListing (s : String) : Option (List (Nat × Nat × Nat)) :=
  if s == "-" then some [] else
  (s.splitOn ",").mapM fun item =>
    match item.splitOn "=" with
    | [k, a] => do let k ← parseTagged 's' k; let a ← parseHex a; pure (k, a, 0)
    | _ => none

/-- the implementation's answer as a typed observation (none = not understood: no event) -/
def parseObs (op : Op) (impl : String) : Option Obs :=
  match op, splitTokens impl with
  | .alloc _, ["ok", a] => (parseAddrLen a).map fun (x, _) => .okAddr x
  | .lookup _, ["none"] => some .none
  | .lookup _, [a] => (parseAddrLen a).map fun (x, _) => .okAddr x
  | .lookupByPrefix _ _, ["none"] => some .none
  | .lookupByPrefix _ _, [k] => (parseTagged 's' k).map .sub
  | .stats, [a, t] => do let a ← a.toNat?; let t ← t.toNat?; pure (.stats a t)
  | .list, [l] => (parseListing l).map .list
  | _, ["ok"] => some .ok
  | _, ["exhausted"] => some .exhausted
  | _, ["notfound"] => some .notfound
  | _, ["conflict"] => some .conflict
  | _, ["range"] => some .range
  | _, _ => none

def event (c : Cfg) (op : Op) (impl : String) : PoolSpec.Ev :=
  match parseObs op impl with
  | some o => toEvent c op o
  | none => .nop

def step (st : St) (toks : List String) (impl : String) : St × LineResult :=
  match toks with
  | ["new", fam, pp, pl, base] =>
    match fam.toNat?, pp.toNat?, pl.toNat?, parseHex base with
    | some fam, some pp, some pl, some base =>
      let c : Cfg := { famBits := fam, poolPrefix := pp, plen := pl, base := base }
      if c.valid then
        ({ model := some (init c), mon := [],
           geo := geoOf c },
         { modelObs := "ok" })
      else ({}, { modelObs := "invalid" })
    | _, _, _, _ => (st, { modelObs := "badop" })
  | _ =>
    match st.model, parseOp toks with
    | some m, some op =>
      let (m', o) := Bitmap.step m op
      let shown := match op with
        | .lookup _ => showLookup m.cfg o
        | _ => showObs m.cfg o
      let (mon', vs) := PoolSpec.check st.geo st.mon (event m.cfg op impl)
      -- the only clause under which a verdict is attributed to a recorded finding
      let clause := fun (v : String) =>
        -- … and only when the model (which follows the uint64 wrap of 1 << (plen - prefix)) reproduces this very answer
        if (v == "exhaustion" || v == "total") && decide (m.cfg.plen - m.cfg.poolPrefix ≥ 64) && shown == impl
        then "KF-bitmap-wide" else "none"
      ({ st with model := some m', mon := mon' },
       { modelObs := shown, viols := vs.map fun (n, d) => (n, clause n, d) })
    | _, _ => (st, { modelObs := "badop" })

def component : Component := { σ := St, init := {}, step := step }

end Bng.Drv.BitmapDrv
