import Bng.Drv.Common
import Bng.Drv.Nat44
import Bng.Model.NatKern
/-
  bngdrv component `natkern`: replays traces of the REAL nat.Manager driven together with the natively compiled
  bpf/nat44.c (harness/cmd/natkern) on `Bng.NatKern` (manager writes) + `Bng.Nat44` (programs).

    new pps=<n> start=<p> end=<p> eim=0|1 pub=<hexip>[,…]   => ok
    alloc <hexip>       => ok [s=<key>:<value>] | err …     the block is the manager's choice (C10 owns that):
                                                            the model checks the bytes written and installs them
    dealloc <hexip>     => ok [s-=<key>] [x-=<key>…] [r-=<key>…] [e-=<key>…]     predicted by the model
    pkt egress|ingress <hexframe>   => <verdict> same|<hexframe-after>[ ev=N]      predicted by the model
    maps                => x=… r=… e=… s=…                                         predicted by the model
    fault on|off        => ok       every Put / Delete of the manager on subscriber_nat fails: `alloc` of an address without
                                    block answers `err …` and writes nothing; `dealloc` of an address with a block answers
                                    `err kernel-write-failed` and removes NOTHING (model: `deallocFail`)

  Monitors (on the implementation's observations):
    kern-overlap     a block written by AllocateNAT overlaps the block of another live subscriber_nat entry
    foreign-port     nat44_egress translated to an address/port outside the sender's current block
    stale-delivery   nat44_ingress delivered a packet to an address whose current block does not contain the
                     packet's destination address/port
    stale-state      `maps` shows a session / reverse / EIM entry that is not inside the current block of its
                     private address (or whose private address holds no block)
-/
namespace Bng.Drv.NatKernDrv
open Bng Bng.Drv Bng.CNat Bng.Nat44 Bng.NatKern
open Bng.Drv.Nat44Drv (le le16 le32 parseNatKey parseEimKey)

structure St where
  started : Bool := false
  maps : Maps := {}
  fault : Bool := false

def sortStrings (xs : List String) : List String := (xs.toArray.qsort (· < ·)).toList

def b16 (v : UInt16) : List UInt8 := [v.toUInt8, (v >>> 8).toUInt8]
def b32 (v : UInt32) : List UInt8 := [v.toUInt8, (v >>> 8).toUInt8, (v >>> 16).toUInt8, (v >>> 24).toUInt8]

def hexNatKey (k : NatKey) : String :=
  bytesToHex (b32 k.srcIp ++ b32 k.dstIp ++ b16 k.srcPort ++ b16 k.dstPort ++ [k.proto] ++ (b32 k.pad).take 3)

def hexEimKey (k : EimKey) : String := bytesToHex (b32 k.ip ++ b16 k.port ++ [k.proto, k.pad])

/-- the Go key of an address given as wire bytes: `binary.BigEndian.Uint32(ip)` (finding D10: stored as a
    host-order integer, i.e. its little-endian image is the wire image reversed) -/
def goKey (wire : List UInt8) : UInt32 := UInt32.ofNat (le wire.reverse 0 4)

def tokenArg (pfx : String) (toks : List String) : Option String :=
  (toks.find? (·.startsWith pfx)).map fun t => String.ofList (t.toList.drop pfx.length)

def listing (xs : List String) : String := if xs.isEmpty then "-" else ",".intercalate (sortStrings xs)

def showMaps (m : Maps) : String :=
  let x := m.sessions.map fun (k, s) =>
    hexNatKey k ++ ":" ++ bytesToHex (b32 s.natIp ++ b16 s.natPort ++ b16 s.origPort ++ b32 s.origIp)
  let r := m.reverse.map fun (k, v) => hexNatKey k ++ ":" ++ hexNatKey v
  let e := m.eim.map fun (k, v) => hexEimKey k ++ ":" ++ bytesToHex (b32 v.extIp ++ b16 v.extPort)
  let s := m.subNat.map fun (k, b) =>
    bytesToHex (b32 k) ++ ":" ++ bytesToHex (b32 b.publicIp ++ b16 b.portStart ++ b16 b.portEnd ++ b32 b.nextPort)
  s!"x={listing x} r={listing r} e={listing e} s={listing s}"

def overlaps (a b : SubNat) : Bool :=
  a.publicIp == b.publicIp && decide (a.portStart.toNat ≤ b.portEnd.toNat) && decide (b.portStart.toNat ≤ a.portEnd.toNat)

def blockOk (m : Maps) (priv : UInt32) (ip : UInt32) (portNet : UInt16) : Bool :=
  match AMap.lookup m.subNat priv with
  | some b => inBlockB b ip portNet
  | none => false

/-- `stale-state`: entries of a `maps` observation that are not inside the current block of their private address -/
def staleEntries (m : Maps) (impl : String) : List String :=
  let items (pfx : String) : List (List UInt8 × List UInt8) :=
    match tokenArg pfx (splitTokens impl) with
    | none => []
    | some "-" => []
    | some l => (l.splitOn ",").filterMap fun it =>
        match it.splitOn ":" with
        | [k, v] => match parseHexBytes k, parseHexBytes v with
          | some k, some v => some (k, v)
          | _, _ => none
        | _ => none
  let x := (items "x=").filterMap fun (k, v) =>
    if blockOk m (le32 k 0) (le32 v 0) (le16 v 4) then none else some ("session " ++ bytesToHex k)
  let e := (items "e=").filterMap fun (k, v) =>
    if blockOk m (le32 k 0) (le32 v 0) (bswap16 (le16 v 4)) then none else some ("eim " ++ bytesToHex k)
  let r := (items "r=").filterMap fun (k, v) =>
    if blockOk m (le32 v 0) (le32 k 4) (le16 k 10) then none else some ("reverse " ++ bytesToHex k)
  x ++ e ++ r

def pktMonitor (dir : String) (m : Maps) (f : Frame) (impl : String) : List (String × String × String) :=
  match splitTokens impl with
  | _ :: fr :: _ =>
    if fr == "same" then [] else
    match parseHexBytes fr with
    | none => []
    | some f' =>
      let icmp := rd8 f OFF_PROTO == IPPROTO_ICMP
      let l4 := l4Off f
      if dir == "egress" then
        let port := if icmp then rd16 f' (l4 + 4) else rd16 f' l4
        if blockOk m (rd32 f OFF_SADDR) (rd32 f' OFF_SADDR) port then []
        else [("foreign-port", "none", s!"src={toHexW (rd32 f OFF_SADDR).toNat 8} to={toHexW (rd32 f' OFF_SADDR).toNat 8}:{toHexW port.toNat 4}")]
      else
        let port := if icmp then rd16 f (l4 + 4) else rd16 f (l4 + 2)
        if blockOk m (rd32 f' OFF_DADDR) (rd32 f OFF_DADDR) port then []
        else [("stale-delivery", "none", s!"to={toHexW (rd32 f' OFF_DADDR).toNat 8} port={toHexW port.toNat 4}")]
  | _ => []

def step (st : St) (toks : List String) (impl : String) : St × LineResult :=
  match toks with
  | "new" :: args =>
    match tokenArg "eim=" args with
    | some e => ({ started := true, maps := { cfg := some (if e == "1" then 1 else 0) } }, { modelObs := "ok" })
    | none => (st, { modelObs := "badop" })
  | ["fault", f] =>
    if !st.started || (f != "on" && f != "off") then (st, { modelObs := "badop" }) else
    ({ st with fault := f == "on" }, { modelObs := "ok" })
  | ["alloc", ip] =>
    match st.started, parseHexBytes ip with
    | true, some w =>
      if w.length ≠ 4 then (st, { modelObs := "badop" }) else
      let key := goKey w
      if st.fault && (AMap.lookup st.maps.subNat key).isNone then
        -- the Put fails (or the pool is exhausted before it): an error, nothing written
        match splitTokens impl with
        | ["err", _] => (st, { modelObs := impl })
        | _ => (st, { modelObs := "err kernel-write-failed" })
      else
      match splitTokens impl with
      | ["ok"] =>
        (st, { modelObs := if (AMap.lookup st.maps.subNat key).isSome then "ok" else "badobs no-entry-written" })
      | ["ok", tok] =>
        match tokenArg "s=" [tok] with
        | none => (st, { modelObs := "badobs" })
        | some kv =>
          match kv.splitOn ":" with
          | [k, v] =>
            match parseHexBytes k, parseHexBytes v with
            | some k, some v =>
              let b : SubNat := { publicIp := le32 v 0, portStart := le16 v 4, portEnd := le16 v 6, nextPort := le32 v 8 }
              let m' := install st.maps key b
              let good := k.length == 4 && v.length == 64 && le32 k 0 == key &&
                (AMap.lookup st.maps.subNat key).isNone && (AMap.lookup m'.subNat key).isSome &&
                b.nextPort == b.portStart.toUInt32
              let ov := st.maps.subNat.filter fun (_, o) => overlaps o b
              let viols := if ov.isEmpty then [] else
                [("kern-overlap", "none", s!"block {b.portStart.toNat}-{b.portEnd.toNat}")]
              if good then ({ st with maps := m' }, { modelObs := impl, viols := viols })
              else (st, { modelObs := "badobs malformed-block", viols := viols })
            | _, _ => (st, { modelObs := "badobs" })
          | _ => (st, { modelObs := "badobs" })
      | "err" :: _ => (st, { modelObs := impl })
      | _ => (st, { modelObs := "badobs" })
    | _, _ => (st, { modelObs := "badop" })
  | ["dealloc", ip] =>
    match st.started, parseHexBytes ip with
    | true, some w =>
      if w.length ≠ 4 then (st, { modelObs := "badop" }) else
      let key := goKey w
      let m := st.maps
      if (AMap.lookup m.subNat key).isNone then (st, { modelObs := "ok" }) else
      if st.fault then ({ st with maps := NatKern.step m (.deallocFail key) }, { modelObs := "err kernel-write-failed" }) else
      let m' := release m key
      let gone (pfx : String) (before after : List String) : List String :=
        (sortStrings (before.filter fun k => !after.contains k)).map fun k => pfx ++ k
      let toks := ["s-=" ++ bytesToHex (b32 key)] ++
        gone "x-=" (m.sessions.map (hexNatKey ·.1)) (m'.sessions.map (hexNatKey ·.1)) ++
        gone "r-=" (m.reverse.map (hexNatKey ·.1)) (m'.reverse.map (hexNatKey ·.1)) ++
        gone "e-=" (m.eim.map (hexEimKey ·.1)) (m'.eim.map (hexEimKey ·.1))
      ({ st with maps := m' }, { modelObs := " ".intercalate ("ok" :: toks) })
    | _, _ => (st, { modelObs := "badop" })
  | ["pkt", dir, frame] =>
    match st.started, parseHexBytes frame with
    | true, some f =>
      if dir != "egress" && dir != "ingress" then (st, { modelObs := "badop" }) else
      let viols := pktMonitor dir st.maps f impl
      let r := if dir == "egress" then egress st.maps 0 f else ingress st.maps 0 f
      match r with
      | .ok o => ({ st with maps := o.maps }, { modelObs := Nat44Drv.showOut f o, viols := viols })
      | .error (.oob off n size) =>
        (st, { modelObs := s!"FAULT model oob off={off} n={n} size={size}", viols := viols })
    | _, _ => (st, { modelObs := "badop" })
  | ["maps"] =>
    if !st.started then (st, { modelObs := "badop" }) else
    let stale := staleEntries st.maps impl
    (st, { modelObs := showMaps st.maps, viols := stale.map fun d => ("stale-state", "none", d) })
  | _ => (st, { modelObs := "badop" })

def component : Component := { σ := St, init := {}, step := step }

end Bng.Drv.NatKernDrv
