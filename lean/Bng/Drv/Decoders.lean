import Bng.Drv.Common
import Bng.Model.Decoders
import Bng.Model.Coa
import Bng.Md5
/-
  bngdrv component `decoders` (C09): replays the differential-fuzz traces of the real decoders /
  handlers on the Lean models.  One line = one call of one entry point:

    new                                   => ok
    pppoehdr <hex>                        => ok <vt> <code> <sid> <len> | err
    tags <hex>                            => ok <tttt:hex,…|-> | err
    lcppkt <hex>                          => ok <code> <id> <len> <hex|-> | err
    lcpopts <hex>                         => ok <tt:hex,…|-> | err
    padt <hex>                            => ok <sid> <tags> | err
    echo <hex>                            => ok <magic> <hex|->
    disc <svc> <hex>                      => none | padi <0|1> <hu> | padr <0|1> <hu> | padt <sid>
    sess <hex>                            => nf | ok <pppp:hex,…|->          (session 1, magic 01020304)
    srvpap <hex>                          => none | ok <user> <reply>
    pap <hex>                             => err | ign | ok <user> <reply>
    chap <chapid> <hex>                   => err | ign | ok <name> <reply>
    lcp <State> <lastid> <magic> <hex>    => err | ok cr <code> <id> <opts> | ok plain | ok cj <State> |
                                             ok pj <State> | ok echo <hex|-> | ok unk <hex>
    ipcp <State> <lastid> <hex>           => err | ok cr … | ok plain        (peer 10.0.0.2, dns 8.8.8.8 and none)
    ipv6cp <State> <lastid> <ifid> <hex>  => err | ok cr … | ok plain
    opt82 <hex>                           => nil | ok <cid> <rid>
    ztp <hex>                             => ok <hex|->
    v6msg|v6opts|duid|iana|iapd|iaaddr|iaprefix <hex> => ok … | err
    radattrs <hex>                        => ok <tt:hex,…|-> | err
    coa <secret> <ack|nak|def|long> <hex>      => drop | act <coa|dm> <fields|-> <resp>
    hastream <valid msg> <stream hex>     => ok <messages accepted> <bytes accepted>
    sm fill <n> | sm rm <id> | sm next <v> | sm create   => ok … | full …
    lib-<entry> <hex>                     => (not modelled: fuzz only) ok … | err
  Monitor (on the IMPLEMENTATION's observation): `panic` when it starts with "panic", `hang` when it
  starts with "hang".
-/
namespace Bng.Drv.DecodersDrv
open Bng Bng.Drv Bng.Go Bng.Decoders

structure SmState where
  used : Array Bool := Array.replicate 65536 false
  count : Nat := 0
  next : Nat := 1

structure St where
  sessAlive : Bool := true
  sessAuthed : Bool := false
  sm : SmState := {}

def hx (bs : Bytes) : String := if bs.isEmpty then "-" else bytesToHex bs

/-- `-` absent, `e` present but empty -/
def hxOpt : Option Bytes → String
  | none => "-"
  | some [] => "e"
  | some b => bytesToHex b

def listOr (xs : List String) : String := if xs.isEmpty then "-" else ",".intercalate xs

def showTags (ts : List Tag) : String :=
  listOr (ts.map fun t => s!"{toHexW t.typ 4}:{bytesToHex t.value}")

def showOpts (os : List LCPOption) : String :=
  listOr (os.map fun o => s!"{toHexW o.typ.toNat 2}:{bytesToHex o.data}")

def showV6Opts (os : List V6Option) : String :=
  listOr (os.map fun o => s!"{toHexW o.code 4}:{bytesToHex o.data}")

def showSent (s : Sent) : String :=
  listOr (s.map fun (p, b) => s!"{toHexW p 4}:{bytesToHex b}")

def fsmName : Fsm → String
  | .initial => "Initial" | .starting => "Starting" | .closed => "Closed" | .stopped => "Stopped"
  | .closing => "Closing" | .stopping => "Stopping" | .reqSent => "ReqSent" | .ackRcvd => "AckRcvd"
  | .ackSent => "AckSent" | .opened => "Opened"

def parseFsm : String → Option Fsm
  | "Initial" => some .initial | "Starting" => some .starting | "Closed" => some .closed
  | "Stopped" => some .stopped | "Closing" => some .closing | "Stopping" => some .stopping
  | "ReqSent" => some .reqSent | "AckRcvd" => some .ackRcvd | "AckSent" => some .ackSent
  | "Opened" => some .opened | _ => none

/-- run a decoder, print `panic` for a model panic -/
def runG {α} (x : G (α × Nat)) (f : α → String) : String :=
  match x with
  | .ok (r, _) => f r
  | .error _ => "panic"

def optOr {α} (f : α → String) : Option α → String
  | none => "err"
  | some a => "ok " ++ f a

def showCp : CpOut → String
  | .err => "err"
  | .confReq c id opts => s!"ok cr {c.toNat} {id.toNat} {hx (serializeLCPOptions opts)}"
  | .plain => "ok plain"
  | .codeRej st => s!"ok cj {fsmName st}"
  | .protoRej st => s!"ok pj {fsmName st}"
  | .echo none => "ok echo -"
  | .echo (some b) => s!"ok echo {hx b}"
  | .unknown b => s!"ok unk {hx b}"

def showAuth : AuthOut → String
  | .err => "err"
  | .ignored => "ign"
  | .done u r => s!"ok {hx u} {hx r}"

def showFields (f : Coa.Fields) : String :=
  s!"u={hx f.username};n={hx f.nasIP};f={hx f.framedIP};c={hx f.calling};s={hx f.sessionID};st={f.sessionTimeout};it={f.idleTimeout};fi={hx f.filterID}"

def ascii (s : String) : Bytes := s.toUTF8.toList

/-- the scripted handlers of the harness -/
def policyReply (policy : String) (k : Coa.Kind) : Option Coa.Reply :=
  match policy with
  | "ack" => some ⟨true, 0, []⟩
  | "nak" => some ⟨false, 503, ascii "no"⟩
  | "long" => some ⟨false, 503, List.replicate 300 0x6d⟩     -- a 300-byte Reply-Message
  | "def" => match k with
    | .coa => some ⟨true, 0, []⟩
    | .dm => some ⟨false, 503, ascii "Session not found"⟩
  | _ => none

/-- model observation of one datagram at the CoA listener (shared with the `coa` component) -/
def coaObs (secret : Bytes) (policy : String) (dgram : Bytes) : String :=
  match Coa.receive Md5.md5 secret dgram with
  | .error _ => "panic"
  | .ok (none, _) => "drop"
  | .ok (some req, _) =>
    match policyReply policy req.kind with
    | none => "badop"
    | some reply =>
      let kind := match req.kind with | .coa => "coa" | .dm => "dm"
      let fields :=
        if policy == "def" then "-"
        else match Coa.parseFields req.kind req.attrs {} with
          | .ok f => showFields f
          | .error _ => "panic"
      s!"act {kind} {fields} {hx (Coa.respond Md5.md5 secret req reply)}"

def smCreate (s : SmState) : CreateOut × SmState :=
  let (o, _) := createSession (fun i => s.used.getD i false) s.count s.next
  match o with
  | .got id nx => (o, { used := s.used.setIfInBounds id true, count := s.count + 1, next := nx })
  | _ => (o, s)

def smFill : Nat → SmState → Nat → Nat → String × SmState
  | 0, s, _, last => (s!"ok {last}", s)
  | k + 1, s, made, last =>
    match smCreate s with
    | (.got id _, s') => smFill k s' (made + 1) id
    | (.full, s') => (s!"full {made}", s')
    | (.spin, s') => ("hang", s')

def cpState (st lastId : String) : Option CpState := do
  let s ← parseFsm st
  let l ← lastId.toNat?
  pure ⟨s, UInt8.ofNat l⟩

def stepOp (st : St) (toks : List String) : St × String :=
  let bad := (st, "badop")
  match toks with
  | ["new"] => ({}, "ok")
  | ["pppoehdr", h] => match parseHexBytes h with
    | some b => (st, runG (parsePPPoEHeader b) (optOr fun h =>
        s!"{h.verType.toNat} {h.code.toNat} {h.sessionID} {h.length}"))
    | none => bad
  | ["tags", h] => match parseHexBytes h with
    | some b => (st, runG (parseTags b) (optOr showTags))
    | none => bad
  | ["lcppkt", h] => match parseHexBytes h with
    | some b => (st, runG (parseLCPPacket b) (optOr fun p =>
        s!"{p.code.toNat} {p.id.toNat} {p.length} {hx p.data}"))
    | none => bad
  | ["lcpopts", h] => match parseHexBytes h with
    | some b => (st, runG (parseLCPOptions b) (optOr showOpts))
    | none => bad
  | ["padt", h] => match parseHexBytes h with
    | some b => (st, runG (parsePADT b) (optOr fun (sid, tags) => s!"{sid} {showTags tags}"))
    | none => bad
  | ["echo", h] => match parseHexBytes h with
    | some b => (st, runG (parseEchoPacket b) fun (m, p) => s!"ok {m} {hx p}")
    | none => bad
  | ["disc", svc, h] => match parseHexBytes svc, parseHexBytes h with
    | some svc, some b => (st, runG (handleDiscovery svc b) fun
        | .none => "none"
        | .padi sent hu => s!"padi {if sent then 1 else 0} {hxOpt hu}"
        | .padr sent hu => s!"padr {if sent then 1 else 0} {hxOpt hu}"
        | .padt sid => s!"padt {sid}")
    | _, _ => bad
  | ["sess", h] => match parseHexBytes h with
    | some b =>
      let sess := if st.sessAlive then some (⟨1, 0x01020304, st.sessAuthed⟩ : SrvSession) else none
      match handleSession sess b with
      | .error _ => (st, "panic")
      | .ok (o, _) =>
        ({ st with sessAlive := st.sessAlive && !o.removed, sessAuthed := o.authed },
         if o.found then s!"ok {showSent o.sent}" else "nf")
    | none => bad
  | ["srvpap", h] => match parseHexBytes h with
    | some b => match srvHandlePAP b with
      | .error _ => (st, "panic")
      | .ok (none, _) => (st, "none")
      | .ok (some (u, r), _) => ({ st with sessAuthed := true }, s!"ok {hx u} {hx r}")
    | none => bad
  | ["pap", h] => match parseHexBytes h with
    | some b => (st, runG (receivePAP b) showAuth)
    | none => bad
  | ["chap", id, h] => match id.toNat?, parseHexBytes h with
    | some id, some b => (st, runG (receiveCHAP (UInt8.ofNat id) b) showAuth)
    | _, _ => bad
  | ["lcp", s, l, magic, h] => match cpState s l, parseHex magic, parseHexBytes h with
    | some cs, some m, some b => (st, runG (lcpReceive cs m b) showCp)
    | _, _, _ => bad
  | ["ipcp", s, l, h] => match cpState s l, parseHexBytes h with
    | some cs, some b =>
      (st, runG (ipcpReceive ⟨some [10, 0, 0, 2], some [8, 8, 8, 8], none⟩ cs b) showCp)
    | _, _ => bad
  | ["ipv6cp", s, l, ifid, h] => match cpState s l, parseHex ifid, parseHexBytes h with
    | some cs, some i, some b => (st, runG (ipv6cpReceive i cs b) showCp)
    | _, _, _ => bad
  | ["opt82", h] => match parseHexBytes h with
    | some b => (st, runG (parseOption82 b) fun
        | none => "nil"
        | some i => s!"ok {hxOpt i.circuitID} {hxOpt i.remoteID}")
    | none => bad
  | ["ztp", h] => match parseHexBytes h with
    | some b => (st, runG (parseVendorOptions b) fun v => s!"ok {hx v}")
    | none => bad
  | ["v6msg", h] => match parseHexBytes h with
    | some b => (st, runG (parseV6Message b) (optOr fun m =>
        s!"{m.typ.toNat} {hx m.txid} {showV6Opts m.opts}"))
    | none => bad
  | ["v6opts", h] => match parseHexBytes h with
    | some b => (st, runG (parseV6Options b) (optOr showV6Opts))
    | none => bad
  | ["duid", h] => match parseHexBytes h with
    | some b => (st, runG (parseDUID b) (optOr fun (t, d) => s!"{t} {hx d}"))
    | none => bad
  | ["iana", h] => match parseHexBytes h with
    | some b => (st, runG (parseIA b) (optOr fun i => s!"{i.iaid} {i.t1} {i.t2} {showV6Opts i.opts}"))
    | none => bad
  | ["iapd", h] => match parseHexBytes h with
    | some b => (st, runG (parseIA b) (optOr fun i => s!"{i.iaid} {i.t1} {i.t2} {showV6Opts i.opts}"))
    | none => bad
  | ["iaaddr", h] => match parseHexBytes h with
    | some b => (st, runG (parseIAAddress b) (optOr fun a =>
        s!"{hx a.addr} {a.preferred} {a.valid} {showV6Opts a.opts}"))
    | none => bad
  | ["iaprefix", h] => match parseHexBytes h with
    | some b => (st, runG (parseIAPrefix b) (optOr fun p =>
        s!"{p.preferred} {p.valid} {p.plen.toNat} {hx p.pfx} {showV6Opts p.opts}"))
    | none => bad
  | ["radattrs", h] => match parseHexBytes h with
    | some b => (st, runG (Coa.parseAttributes b) (optOr fun as =>
        listOr (as.map fun a => s!"{toHexW a.typ.toNat 2}:{bytesToHex a.value}")))
    | none => bad
  | ["coa", secret, policy, h] => match parseHexBytes secret, parseHexBytes h with
    | some s, some b => (st, coaObs s policy b)
    | _, _ => bad
  | ["hastream", valid, h] => match parseHexBytes valid, parseHexBytes h with
    | some v, some b => (st, runG (haStream b [] 0) fun ps =>
        -- the harness reports SyncStats.MessagesReceived / BytesReceived; its generator makes every payload
        -- either the given valid message or something encoding/json rejects
        let good := ps.filter (· == v)
        s!"ok {good.length} {good.length * v.length}")
    | _, _ => bad
  | ["sm", "fill", n] => match n.toNat? with
    | some n =>
      let (o, sm) := smFill n st.sm 0 0
      ({ st with sm := sm }, o)
    | none => bad
  | ["sm", "rm", id] => match id.toNat? with
    | some id =>
      if id < 65536 ∧ st.sm.used.getD id false then
        ({ st with sm := { st.sm with used := st.sm.used.setIfInBounds id false, count := st.sm.count - 1 } }, "ok")
      else (st, "ok")
    | none => bad
  | ["sm", "next", v] => match v.toNat? with
    | some v => if v < 65536 then ({ st with sm := { st.sm with next := v } }, "ok") else bad
    | none => bad
  | ["sm", "create"] =>
    match smCreate st.sm with
    | (.got id _, sm) => ({ st with sm := sm }, s!"ok {id}")
    | (.full, sm) => ({ st with sm := sm }, "full")
    | (.spin, sm) => ({ st with sm := sm }, "hang")
  | _ => bad

def step (st : St) (toks : List String) (impl : String) : St × LineResult :=
  -- `lib-…` lines exercise trusted library decoders through bng's wrappers (regexp in the NAT ALG,
  -- dhcpv4.FromBytes, encoding/json, layeh radius): NOT modelled, fuzzed only.  The model side echoes the
  -- implementation's observation unless it is a panic or a hang, so only the monitors below judge them.
  let isLib := match toks with | t :: _ => t.startsWith "lib-" | [] => false
  let (st', obs) :=
    if isLib then (st, if impl.startsWith "panic" || impl.startsWith "hang" then "no-panic" else impl)
    else stepOp st toks
  let viols :=
    if impl.startsWith "panic" then [("panic", "none", impl)]
    else if impl.startsWith "hang" then [("hang", "none", impl)]
    else []
  (st', { modelObs := obs, viols := viols })

def component : Component := { σ := St, init := {}, step := step }

end Bng.Drv.DecodersDrv
