import Bng.Drv.Common
import Bng.Model.Nat44
/-
  bngdrv component `nat44`: replays traces of the natively compiled, UNMODIFIED /repo/bpf/nat44.c
  (cshim runner `runprog-nat44`) on the byte-level model `Bng.Nat44` and runs the C07 monitors on the
  native program's observations.

    clock <ns>                                   => ok
    put <map> <hexkey> <hexvalue>                => ok          raw bytes per the C struct declarations
    del <map> <hexkey>                           => ok | err ENOENT
    run tc nat44_egress <hexframe|->             => <verdict> same|<hexframe-after>[ ev=<n>]  |  FAULT …
    run tc nat44_ingress <hexframe|->            => …
    run xdp nat44_hairpin_xdp <hexframe|->       => …

  The model answers the lookups from the map contents accumulated from the `put`/`del` ops and from
  its own model of the programs' map updates.  Monitors (on the NATIVE observation):
    fault              the native run reported FAULT (guard page / ASan / UBSan)
    undefined-verdict  the verdict is not one the program can return
    pass-modified      pass verdict, frame changed, and the program is not specified to act on the frame
                       (`egressActsOn` / `ingressActsOn` false on the maps before the run; never for XDP)
    outside-write      the frame changed length or at an offset outside the NAT fields (IP checksum, the
                       translated address, first 18 bytes of the L4 header), whatever the verdict
-/
namespace Bng.Drv.Nat44Drv
open Bng Bng.Drv Bng.CNat Bng.Nat44

structure St where
  maps : Maps := {}
  clk : UInt64 := 0

def le (bs : List UInt8) (off n : Nat) : Nat :=
  ((bs.drop off).take n).foldr (fun b acc => acc * 256 + b.toNat) 0

def le16 (bs : List UInt8) (off : Nat) : UInt16 := UInt16.ofNat (le bs off 2)
def le32 (bs : List UInt8) (off : Nat) : UInt32 := UInt32.ofNat (le bs off 4)

def parseNatKey (k : List UInt8) : NatKey :=
  { srcIp := le32 k 0, dstIp := le32 k 4, srcPort := le16 k 8, dstPort := le16 k 10,
    proto := k.getD 12 0, pad := UInt32.ofNat (le k 13 3) }

def parseEimKey (k : List UInt8) : EimKey :=
  { ip := le32 k 0, port := le16 k 4, proto := k.getD 6 0, pad := k.getD 7 0 }

/-- map name ↦ (key size, value size) as declared in nat44.c -/
def geometry : String → Option (Nat × Nat)
  | "nat_config_map" => some (4, 16)
  | "subscriber_nat" => some (4, 64)
  | "nat_sessions" => some (16, 80)
  | "nat_reverse" => some (16, 16)
  | "eim_table" => some (8, 32)
  | "alg_ports" => some (4, 8)
  | "hairpin_ips" => some (4, 1)
  | _ => none

def put (m : Maps) (name : String) (k v : List UInt8) : Option Maps :=
  match geometry name with
  | none => none
  | some (ks, vs) =>
    if k.length ≠ ks || v.length ≠ vs then none else
    match name with
    | "nat_config_map" => if le32 k 0 == 0 then some { m with cfg := some (le32 v 0) } else none
    | "subscriber_nat" =>
      let sub : SubNat :=
        { publicIp := le32 v 0, portStart := le16 v 4, portEnd := le16 v 6, nextPort := le32 v 8 }
      some { m with subNat := AMap.insert m.subNat (le32 k 0) sub }
    | "nat_sessions" =>
      let s : Session :=
        { natIp := le32 v 0, natPort := le16 v 4, origPort := le16 v 6, origIp := le32 v 8,
          lastSeen := UInt64.ofNat (le v 24 8) }
      some { m with sessions := AMap.insert m.sessions (parseNatKey k) s }
    | "nat_reverse" => some { m with reverse := AMap.insert m.reverse (parseNatKey k) (parseNatKey v) }
    | "eim_table" =>
      let e : EimMapping := { extIp := le32 v 0, extPort := le16 v 4 }
      some { m with eim := AMap.insert m.eim (parseEimKey k) e }
    | "alg_ports" => some { m with alg := AMap.insert m.alg (le32 k 0) () }
    | "hairpin_ips" => some { m with hairpin := AMap.insert m.hairpin (le32 k 0) () }
    | _ => none

/-- `del`: (maps, existed) -/
def del (m : Maps) (name : String) (k : List UInt8) : Option (Maps × Bool) :=
  match geometry name with
  | none => none
  | some (ks, _) =>
    if k.length ≠ ks then none else
    match name with
    | "subscriber_nat" =>
      some ({ m with subNat := AMap.erase m.subNat (le32 k 0) }, (AMap.lookup m.subNat (le32 k 0)).isSome)
    | "nat_sessions" =>
      some ({ m with sessions := AMap.erase m.sessions (parseNatKey k) },
            (AMap.lookup m.sessions (parseNatKey k)).isSome)
    | "nat_reverse" =>
      some ({ m with reverse := AMap.erase m.reverse (parseNatKey k) },
            (AMap.lookup m.reverse (parseNatKey k)).isSome)
    | "eim_table" =>
      some ({ m with eim := AMap.erase m.eim (parseEimKey k) }, (AMap.lookup m.eim (parseEimKey k)).isSome)
    | "alg_ports" =>
      some ({ m with alg := AMap.erase m.alg (le32 k 0) }, (AMap.lookup m.alg (le32 k 0)).isSome)
    | "hairpin_ips" =>
      some ({ m with hairpin := AMap.erase m.hairpin (le32 k 0) }, (AMap.lookup m.hairpin (le32 k 0)).isSome)
    | _ => none

inductive Entry where
  | egress | ingress | hairpin
  deriving DecidableEq

def parseEntry : String → String → Option Entry
  | "tc", "nat44_egress" => some .egress
  | "tc", "nat44_ingress" => some .ingress
  | "xdp", "nat44_hairpin_xdp" => some .hairpin
  | _, _ => none

def runEntry (e : Entry) (m : Maps) (clk : UInt64) (f : Frame) : M Out :=
  match e with
  | .egress => egress m clk f
  | .ingress => ingress m clk f
  | .hairpin => hairpin m f

/-- the verdicts the entry point can return -/
def verdictSet : Entry → List Nat
  | .egress => [TC_ACT_OK, TC_ACT_SHOT]
  | .ingress => [TC_ACT_OK]
  | .hairpin => [XDP_PASS]

def passVerdict : Entry → Nat
  | .egress => TC_ACT_OK
  | .ingress => TC_ACT_OK
  | .hairpin => XDP_PASS

def actsOn (e : Entry) (m : Maps) (f : Frame) : Bool :=
  match e with
  | .egress => egressActsOn m f
  | .ingress => ingressActsOn m f
  | .hairpin => hairpinActsOn m f

def showOut (f : Frame) (o : Out) : String :=
  let fr := if o.frame == f then "same" else bytesToHex o.frame
  let ev := if o.events == 0 then "" else s!" ev={o.events}"
  s!"{o.verdict} {fr}{ev}"

/-- Bool twins of the write windows `snatW` / `dnatW` of Bng/Proof/Nat44.lean (hairpin: empty) -/
def window (e : Entry) (l4 i : Nat) : Bool :=
  match e with
  | .egress => (decide (24 ≤ i) && decide (i < 30)) || (decide (l4 ≤ i) && decide (i < l4 + 18))
  | .ingress => (decide (24 ≤ i) && decide (i < 26)) || (decide (30 ≤ i) && decide (i < 34)) ||
      (decide (l4 ≤ i) && decide (i < l4 + 18))
  | .hairpin => false

/-- same length and equal at every offset outside the window -/
def confined (W : Nat → Bool) : Nat → List UInt8 → List UInt8 → Bool
  | _, [], [] => true
  | i, a :: as, b :: bs => (W i || a == b) && confined W (i + 1) as bs
  | _, _, _ => false

/-- monitor verdicts on the native observation -/
def monitor (e : Entry) (m : Maps) (f : Frame) (impl : String) : List (String × String × String) :=
  match splitTokens impl with
  | "FAULT" :: rest => [("fault", "none", " ".intercalate rest)]
  | v :: fr :: _ =>
    match v.toNat? with
    | none => [("undefined-verdict", "none", v)]
    | some vn =>
      let undef := if (verdictSet e).contains vn then [] else [("undefined-verdict", "none", v)]
      let modified := fr != "same"
      let pm := if vn == passVerdict e && modified && !actsOn e m f
        then [("pass-modified", "none", s!"verdict={vn}")] else []
      let ow := if !modified then [] else
        match parseHexBytes fr with
        | some f' => if confined (window e (l4Off f)) 0 f f' then [] else [("outside-write", "none", s!"verdict={vn}")]
        | none => [("outside-write", "none", "unparseable frame")]
      undef ++ pm ++ ow
  | _ => [("undefined-verdict", "none", impl)]

def step (st : St) (toks : List String) (impl : String) : St × LineResult :=
  match toks with
  | ["clock", ns] =>
    match ns.toNat? with
    | some n => ({ st with clk := UInt64.ofNat n }, { modelObs := "ok" })
    | none => (st, { modelObs := "badop" })
  | ["put", name, k, v] =>
    match parseHexBytes k, parseHexBytes v with
    | some k, some v =>
      match put st.maps name k v with
      | some m => ({ st with maps := m }, { modelObs := "ok" })
      | none => (st, { modelObs := "badop" })
    | _, _ => (st, { modelObs := "badop" })
  | ["del", name, k] =>
    match parseHexBytes k with
    | some k =>
      match del st.maps name k with
      | some (m, existed) => ({ st with maps := m }, { modelObs := if existed then "ok" else "err ENOENT" })
      | none => (st, { modelObs := "badop" })
    | none => (st, { modelObs := "badop" })
  | ["run", kind, entry, frame] =>
    match parseEntry kind entry, parseHexBytes frame with
    | some e, some f =>
      let viols := monitor e st.maps f impl
      match runEntry e st.maps st.clk f with
      | .ok o => ({ st with maps := o.maps }, { modelObs := showOut f o, viols := viols })
      | .error (.oob off n size) =>
        (st, { modelObs := s!"FAULT model oob off={off} n={n} size={size}", viols := viols })
    | _, _ => (st, { modelObs := "badop" })
  | _ => (st, { modelObs := "badop" })

def component : Component := { σ := St, init := {}, step := step }

end Bng.Drv.Nat44Drv
