import Bng.Drv.Common
import Bng.Model.AcctBackoff
/-
  bngdrv component `acctretry`: replays traces of harness/cmd/acctretry (the real AccountingManager retry
  schedule on a virtual clock) on Bng.AcctBackoff.

    newd <maxRetries> <baseNs> <maxNs>   => ok
    start s1                             => ok
    stop s1 <u|d>                        => ok acc=<n>
    retry <u|d>                          => done sent=<rN,..|-> acc=<n> pend=<rN:retries:dueInNs,..|->
    deq <u|d>                            => done|empty sent=.. acc=.. pend=..
    wait <ns>                            => ok
-/
namespace Bng.Drv.AcctBackoffDrv
open Bng Bng.Drv Bng.AcctBackoff

def joinOr (xs : List String) : String := if xs.isEmpty then "-" else ",".intercalate xs

def showPend (σ : AcctBackoff.State) : String :=
  joinOr (σ.recs.map fun r => s!"r{r.id}:{r.retries}:{r.next - σ.now}")

def sortNat (xs : List Nat) : List Nat :=
  xs.foldr (fun x acc =>
    let rec ins : List Nat → List Nat
      | [] => [x]
      | y :: ys => if x ≤ y then x :: y :: ys else y :: ins ys
    ins acc) []

/-- the harness sorts the sent ids as strings ("r10" < "r2") -/
def showSent (ids : List Nat) : String :=
  let strs := ids.map fun i => s!"r{i}"
  let rec insS (x : String) : List String → List String
    | [] => [x]
    | y :: ys => if x ≤ y then x :: y :: ys else y :: insS x ys
  joinOr (strs.foldr insS [])

def parseUD (s : String) : Option Bool := if s == "u" then some true else if s == "d" then some false else none

def step (st : Option AcctBackoff.State) (toks : List String) (_impl : String) : Option AcctBackoff.State × LineResult :=
  match st, toks with
  | none, ["newd", mr, b, m] =>
    match mr.toNat?, b.toNat?, m.toNat? with
    | some mr, some b, some m =>
      if mr ≥ 1 ∧ b ≥ 1 ∧ m ≥ 1 then (some { maxRetries := mr, base := b, max := m }, { modelObs := "ok" })
      else (none, { modelObs := "badop" })
    | _, _, _ => (none, { modelObs := "badop" })
  | some σ, ["start", s] =>
    match parseTagged 's' s with
    | some s => (some { σ with sessions := if σ.sessions.contains s then σ.sessions else s :: σ.sessions },
                 { modelObs := "ok" })
    | none => (st, { modelObs := "badop" })
  | some σ, ["stop", s, a] =>
    match parseTagged 's' s, parseUD a with
    | some s, some up =>
      let acc := if up && σ.sessions.contains s then 1 else 0
      (some (AcctBackoff.stop σ s up), { modelObs := s!"ok acc={acc}" })
    | _, _ => (st, { modelObs := "badop" })
  | some σ, ["wait", n] =>
    match n.toNat? with
    | some n => (some { σ with now := σ.now + n }, { modelObs := "ok" })
    | none => (st, { modelObs := "badop" })
  | some σ, ["retry", a] =>
    match parseUD a with
    | some up =>
      let (σ', ids) := AcctBackoff.retry σ up
      let acc := if up then ids.length else 0
      (some σ', { modelObs := s!"done sent={showSent ids} acc={acc} pend={showPend σ'}" })
    | none => (st, { modelObs := "badop" })
  | some σ, ["deq", a] =>
    match parseUD a with
    | some up =>
      match AcctBackoff.deq σ up with
      | (σ', none) => (some σ', { modelObs := s!"empty sent=- acc=0 pend={showPend σ'}" })
      | (σ', some ids) =>
        let acc := if up then ids.length else 0
        (some σ', { modelObs := s!"done sent={showSent ids} acc={acc} pend={showPend σ'}" })
    | none => (st, { modelObs := "badop" })
  | _, _ => (st, { modelObs := "badop" })

def component : Component := { σ := Option AcctBackoff.State, init := none, step := step }

end Bng.Drv.AcctBackoffDrv
